#!/bin/sh
# usage: tools/run_all_seeds.sh [out_file]   -- applies every /verif/seeded/<name>/patch.diff in a scratch worktree of /repo and
# runs the property's quick check against it (VERIF_REPO=<worktree>); prints one line per seed: CAUGHT / MISSED / NOAPPLY
# optional: SHARD=k/n runs every n-th seed starting at k (for parallel streams); ONLY=<regex> restricts to matching seed names
OUT=${1:-/tmp/all_seeds.txt}
: > $OUT
K=${SHARD%/*}; N=${SHARD#*/}; I=0
for d in /verif/seeded/*/; do
  name=$(basename $d)
  I=$((I+1))
  if grep -q '"superseded"' $d/meta.json; then continue; fi
  if [ -n "$ONLY" ] && ! echo "$name" | grep -Eq "$ONLY"; then continue; fi
  if [ -n "$SHARD" ] && [ $((I % N)) -ne $((K % N)) ]; then continue; fi
  # the check that is expected to catch it: the one named first in detected_by (a few seeds of property X are caught by the check of Y)
  pid=$(/venv/bin/python -c "import json,re;m=json.load(open('$d/meta.json'));r=re.match(r'\s*(C\d\d)',str(m.get('detected_by','')));print(r.group(1) if r else m['property'])")
  WT=/tmp/wt_allseeds_$$
  git -C /repo worktree add --detach $WT HEAD -q || exit 2
  if ( cd $WT && git apply $d/patch.diff ) 2>/dev/null; then
    ( cd /verif && VERIF_REPO=$WT timeout 1800 ./check $pid > /tmp/allseeds_check_$$ 2>&1 ); rc=$?
    if [ $rc -eq 1 ] && grep -q "^VIOLATION" /tmp/allseeds_check_$$; then echo "CAUGHT  $pid $name" >> $OUT
    elif [ $rc -eq 0 ]; then echo "MISSED  $pid $name" >> $OUT
    else echo "RC$rc    $pid $name" >> $OUT; fi
  else
    echo "NOAPPLY $pid $name" >> $OUT
  fi
  git -C /repo worktree remove --force $WT
done
rm -f /tmp/allseeds_check_$$
echo DONE >> $OUT
