#!/bin/sh
# usage: tools/try_seed.sh <seed_dir> <Cxx> [tier]   -- applies patch.diff in a scratch worktree, runs demo + check
SEED=$1; PID=$2; TIER=${3:-quick}
WT=/tmp/wt_seed_$$
git -C /repo worktree add --detach $WT HEAD -q || exit 2
( cd $WT && git apply $SEED/patch.diff ) || { echo "PATCH DOES NOT APPLY"; git -C /repo worktree remove --force $WT; exit 2; }
echo "== demo on /repo:"; ( cd /tmp && PYTHONPATH=/repo timeout 300 /venv/bin/python $SEED/demo.py >/tmp/demo_out_$$ 2>&1; echo "exit $?"; tail -2 /tmp/demo_out_$$ )
echo "== demo on patched tree:"; ( cd /tmp && PYTHONPATH=$WT timeout 300 /venv/bin/python $SEED/demo.py >/tmp/demo_out_$$ 2>&1; echo "exit $?"; tail -3 /tmp/demo_out_$$ | cut -c1-300 )
echo "== unedited suite on patched tree:"; ( cd $WT && PYTHONPATH=$WT timeout 900 /venv/bin/python -m pytest -q -p no:cacheprovider --timeout=900 2>&1 | tail -1 )
echo "== check $PID ($TIER) on patched tree:"
( cd /verif && VERIF_REPO=$WT timeout 2400 ./check $PID --tier $TIER > /tmp/check_out_$$ 2>&1; echo "exit $?"; grep -c "^VIOLATION" /tmp/check_out_$$; grep "^# $PID clause" /tmp/check_out_$$ | cut -c1-260 | head -4 )
git -C /repo worktree remove --force $WT
rm -f /tmp/demo_out_$$ /tmp/check_out_$$
