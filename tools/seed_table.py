#!/usr/bin/env python3
"""prints the markdown table of /verif/seeded/* (property, change, needs, detected by, initially missed?)"""
import json, os
rows = []
for name in sorted(os.listdir("/verif/seeded")):
    p = os.path.join("/verif/seeded", name, "meta.json")
    if not os.path.exists(p):
        continue
    m = json.load(open(p))
    note = m.get("note", "") or ""
    missed = "initially MISSED" in note or "MISSED" in note
    files = ", ".join(os.path.basename(f) for f in m.get("files", []))
    last = ("yes — " + note.split("MISSED:")[-1].strip()) if missed else "no"
    if m.get("superseded"):
        last += " [superseded by a later repair of /repo: " + m["superseded"].split(":")[0] + "; no longer in the regression]"
    rows.append((m["property"], name, files, m.get("detected_by", ""), last))
print("| Property | Seeded change (`seeded/<name>`) | File(s) | Caught by | Missed at first? What was strengthened |")
print("|---|---|---|---|---|")
for r in rows:
    print("| " + " | ".join(x.replace("|", "/") for x in r) + " |")
print()
print(f"{len(rows)} changes; {sum(1 for r in rows if r[4] != 'no')} were missed by the checks as they stood when the change arrived.")
