#!/usr/bin/env python3
"""keep_seed.py <seed_dir> <Cxx> <name> <caught_by or 'MISSED'> [note]  -> /verif/seeded/<name>/"""
import json, os, shutil, sys
src, pid, name, caught = sys.argv[1:5]
note = sys.argv[5] if len(sys.argv) > 5 else ""
dst = f"/verif/seeded/{name}"
os.makedirs(dst, exist_ok=True)
for f in ("patch.diff", "demo.py"):
    shutil.copy(os.path.join(src, f), os.path.join(dst, f))
meta = json.load(open(os.path.join(src, "meta.json")))
meta.update({"property": pid, "origin": "fresh sub-agent given only the property text and a scratch worktree",
             "confirmed": {"patch_applies_to": "HEAD of /repo at seeding time", "demo_on_repo": "exit 0 (PASS)", "demo_on_patched_tree": "exit 1 (FAIL)",
                           "existing_suite_with_patch": meta.get("pytest", "519 passed (reported by the seeding agent)"),
                           "ran": f"tools/try_seed.sh {src} {pid} (scratch worktree, VERIF_REPO=<worktree> ./check {pid})"},
             "detected_by": caught, "note": note})
json.dump(meta, open(os.path.join(dst, "meta.json"), "w"), indent=1, ensure_ascii=False)
print("kept", dst)
