#!/usr/bin/env python3
"""add_fixed.py <property> <id> <commit> <clause> <what failed> <description>  -- appends a 'fixed' entry to known_findings.json"""
import json, sys
prop, fid, commit, clause, what, desc = sys.argv[1:7]
p = "/verif/known_findings.json"
k = json.load(open(p))
k["findings"] = [f for f in k["findings"] if f.get("id") != fid]
k["findings"].append({"property": prop, "id": fid, "status": "fixed", "commit": commit,
                      "line": f"fixed: property={prop} {commit} {what}", "signature": {"clause": clause}, "description": desc})
json.dump(k, open(p, "w"), indent=1, ensure_ascii=False)
print("recorded", fid)
