----------------------------- MODULE AtomicWrite -----------------------------
(* Atomic file replacement (clematis.io.atomic: atomic_write_bytes / atomic_replace), modelled at the
   granularity of its I/O calls (C08).  One write of NEW content over a destination holding OLD
   content (or absent):

     mktmp -> open -> write -> flush -> fsync -> close -> chmod -> replace* -> fsync_final -> fsync_dir -> return

   Every call may fail (bounded by MaxFaults), the process may crash between any two calls, write may
   return a short count, replace may fail with a retryable error (EACCES/EPERM/EBUSY/PermissionError,
   retried up to Retries times) or a fatal one.  chmod / fsync_final / fsync_dir failures are
   swallowed.  Every failure path removes the temp file before raising.

   Names are modelled by what they point to: `tmp` = content class of the temp name ("none" = no such
   name), `dest` = content class of the destination name.  A reader that opened the destination at
   any instant holds the inode the name pointed to then; `readers` is the set of content classes
   such readers can observe.  h records the behaviour for spec-to-code replay.                    *)
EXTENDS Integers, Sequences, FiniteSets, TLC, Json

CONSTANTS MaxFaults,          \* at most this many injected failures per write
          Retries,            \* replace attempts before giving up (80 in the code)
          RetryChoices,       \* how many consecutive retryable failures may be injected
          ShortWriteHandled,  \* TRUE: a short write is continued until complete (repaired design)
          AllowCrash

VARIABLES pc, tmp, dest, readers, outcome, nfaults, attempts, h
vars == <<pc, tmp, dest, readers, outcome, nfaults, attempts, h>>

Order == <<"mktmp", "open", "write", "flush", "fsync", "close", "chmod", "replace",
           "fsync_final", "fsync_dir", "return">>
NextOf(s) == LET i == CHOOSE i \in 1..Len(Order) : Order[i] = s IN Order[i + 1]
Swallowed == {"chmod", "fsync_final", "fsync_dir"}
NoFault == {"close", "return"}

Init == /\ pc = "mktmp" /\ tmp = "none" /\ dest = "old" /\ readers = {"old"}
        /\ outcome = "running" /\ nfaults = 0 /\ attempts = 0 /\ h = <<>>

Rec(site, out, t, d) == [site |-> site, out |-> out, tmp |-> t, dest |-> d]

\* a failing call: swallowed sites continue, the others clean up the temp name and raise
Fail(site, kind) ==
    /\ nfaults < MaxFaults /\ nfaults' = nfaults + 1
    /\ IF site \in Swallowed
       THEN /\ pc' = NextOf(site) /\ UNCHANGED <<tmp, dest, outcome, attempts>>
            /\ h' = Append(h, Rec(site, kind, tmp, dest))
       ELSE /\ pc' = "done" /\ tmp' = "none" /\ outcome' = "raised" /\ UNCHANGED <<dest, attempts>>
            /\ h' = Append(h, Rec(site, kind, "none", dest))
    /\ UNCHANGED readers

Ok(site) ==
    /\ UNCHANGED nfaults
    /\ CASE site = "mktmp" -> tmp' = "empty" /\ UNCHANGED <<dest, readers, attempts>>
         [] site = "open"  -> tmp' = "empty" /\ UNCHANGED <<dest, readers, attempts>>
         [] site = "write" -> tmp' = "new" /\ UNCHANGED <<dest, readers, attempts>>
         [] site = "replace" -> dest' = tmp /\ tmp' = "none" /\ readers' = readers \cup {tmp}
                                /\ UNCHANGED attempts
         [] OTHER -> UNCHANGED <<tmp, dest, readers, attempts>>
    /\ pc' = IF site = "return" THEN "done" ELSE NextOf(site)
    /\ outcome' = IF site = "return" THEN "returned" ELSE outcome
    /\ h' = Append(h, Rec(site, "ok", tmp', dest'))

\* write returns a short count without raising
ShortWrite ==
    /\ pc = "write" /\ nfaults < MaxFaults /\ nfaults' = nfaults + 1
    /\ IF ShortWriteHandled
       THEN tmp' = "new"          \* the remainder is written by further write calls
       ELSE tmp' = "partial"      \* the count is ignored
    /\ pc' = "flush" /\ UNCHANGED <<dest, readers, outcome, attempts>>
    /\ h' = Append(h, Rec("write", "short", tmp', dest))

\* replace fails with a retryable error: sleep and try again, give up after Retries attempts
ReplaceRetry ==
    /\ pc = "replace" /\ attempts \in RetryChoices
    /\ \E n \in RetryChoices : n > attempts /\
         IF n >= Retries
         THEN /\ attempts' = Retries /\ pc' = "done" /\ tmp' = "none" /\ outcome' = "raised"
              /\ h' = Append(h, Rec("replace", "retry_exhausted", "none", dest))
         ELSE /\ attempts' = n /\ pc' = "replace" /\ UNCHANGED <<tmp, outcome>>
              /\ h' = Append(h, [site |-> "replace", out |-> "retry", n |-> n - attempts, tmp |-> tmp, dest |-> dest])
    /\ UNCHANGED <<dest, readers, nfaults>>

Crash == /\ AllowCrash /\ pc # "done" /\ pc' = "done" /\ outcome' = "crashed"
         /\ h' = Append(h, Rec(pc, "crash", tmp, dest))
         /\ UNCHANGED <<tmp, dest, readers, nfaults, attempts>>

Step == /\ pc # "done"
        /\ \/ Ok(pc)
           \/ (pc \notin NoFault /\ Fail(pc, IF pc = "replace" THEN "fatal" ELSE "err"))
           \/ ShortWrite
           \/ ReplaceRetry
           \/ Crash
Done == pc = "done" /\ UNCHANGED vars
Next == Step \/ Done
Spec == Init /\ [][Next]_vars

-----------------------------------------------------------------------------
(* C08 clauses *)
DestOldOrNew == dest \in {"old", "new"}
ReaderNeverPartial == readers \subseteq {"old", "new"}
NoStrayTempAfterFailure == outcome \in {"raised", "returned"} => tmp = "none"
TransientThenSuccess ==          \* retryable replace failures below the limit do not fail the write
    (outcome = "raised" /\ nfaults = 0) => attempts = Retries
ReturnedMeansNew == outcome = "returned" => dest = "new"
RaisedMeansOld == outcome = "raised" => dest = "old"

View == <<pc, tmp, dest, readers, outcome, nfaults, attempts, h>>
EmitDone == (pc = "done") => PrintT(<<"T", ToJson([h |-> h, outcome |-> outcome, dest |-> dest, tmp |-> tmp])>>)
=============================================================================
