-------------------------------- MODULE Repro --------------------------------
(* C01 as a functional dependency: within one behaviour (same world, configuration, turn sequence,
   logical clock) every observation key (utterance of turn i, line j of a canonical stream, snapshot
   body of an agent) determines its byte token, whatever the nuisance setting of the run that produced
   it (hash seed, perf-counter pattern, thread jitter, cold or warm process).  A trace lists the
   observations of all runs of one behaviour; `seen` is the history variable key -> token.        *)
EXTENDS Integers, Sequences, TLC, Json, IOUtils, TLCExt

Traces == ndJsonDeserialize(IOEnv.TRACE_FILE)
VARIABLES tid, l, seen
tvars == <<tid, l, seen>>

TInit == TLCSet(1, 0) /\ tid = 1 /\ l = 1 /\ seen = <<>>
Known(k) == \E i \in 1..Len(seen) : seen[i][1] = k
TokOf(k) == seen[CHOOSE i \in 1..Len(seen) : seen[i][1] = k][2]
NextTrace == TLCSet(1, tid) /\ tid' = tid + 1 /\ l' = 1 /\ seen' = <<>>
TNext == /\ tid <= Len(Traces)
         /\ LET ev == Traces[tid].ev IN
            IF l > Len(ev) THEN PrintT(<<"V", Traces[tid].tid, "ok", l - 1>>) /\ NextTrace
            ELSE LET e == ev[l] IN
                 IF Known(e.k) /\ TokOf(e.k) # e.tok
                 THEN PrintT(<<"V", Traces[tid].tid, "FunctionalOutput", l>>) /\ NextTrace
                 ELSE /\ seen' = IF Known(e.k) THEN seen ELSE Append(seen, <<e.k, e.tok>>)
                      /\ l' = l + 1 /\ tid' = tid
TraceSpec == TInit /\ [][TNext]_tvars
Done == PrintT(<<"V", 0, "done", TLCGet(1)>>)
=============================================================================
