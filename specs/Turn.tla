-------------------------------- MODULE Turn --------------------------------
(* The turn pipeline of the orchestrator (clematis.engine.orchestrator.core.run_turn) as a state
   machine over stage boundaries.  One action per stage; each action appends the record(s) the stage
   emits to `log` (stream names, in emission order) and updates the persistent state (version,
   snapshots, reflection memory, the context object's stash).  The per-turn inputs `inp` are chosen
   by the environment at Begin:

     sched       scheduler gate            yield_at   stage boundary at which the slice budget is used up
     graph       GEL gate                  maint      any of merge/split/promotion enabled
     allow_refl  t3.allow_reflection       plan_refl  the plan requests reflection
     kill        t4.enabled = false        dry        dry-run compute phase (batch driver)
     reuse       the caller passes the same context object as in the previous turn
     refl_out    outcome of the reflection computation: ok | error | timeout
     ops_cap     scheduler.budgets.ops_reflection (0, 1, 5)
     faults      subset of the declared fail-soft sites that raise in this turn

   Documented rules encoded here (docs/m5, m7, m9, m10; README; property texts C02 C04 C17 C19 C20):
     - records of a turn:  t1 t2 [gel] t3 t3_plan t3_dialogue [t4 [gel] [gel] apply] [t3_reflection] health turn
     - a yield happens only at a stage boundary: scheduler record + turn record, nothing after;
     - the kill switch removes T4/apply (no records, no version change, no snapshot);
     - a dry run stops after T4 and performs neither GEL updates, T3, apply nor reflection;
     - reflection runs iff allow_refl /\ plan_refl /\ ~dry; when it runs it logs one t3_reflection
       record and writes min(1, ops_cap) entries, none on error / timeout; nothing otherwise;
     - a fault at a fail-soft site has the effect of that subsystem being idle.                  *)
EXTENDS Integers, Sequences, FiniteSets, TLC, Json

CONSTANTS MaxTurns,
          Vary,            \* names of the input dimensions that vary (the others keep their default)
          ForceOn,         \* names of boolean input dimensions fixed to TRUE
          FaultSites,      \* fail-soft sites that may raise
          MaxFaults,
          StashCleared     \* TRUE: the reflection stash of a reused context is cleared at turn start

VARIABLES pc, inp, log, ver, snaps, reflmem, stash, turnno, h
vars == <<pc, inp, log, ver, snaps, reflmem, stash, turnno, h>>

V(name, dflt, alts) == IF name \in ForceOn THEN {TRUE} ELSE IF name \in Vary THEN {dflt} \cup alts ELSE {dflt}

Inputs ==
    {i \in [sched : V("sched", FALSE, {TRUE}),
            yield_at : V("yield", "none", {"T1", "T2", "T3", "T4", "Apply"}),
            graph : V("graph", FALSE, {TRUE}),
            maint : V("maint", FALSE, {TRUE}),
            allow_refl : V("allow_refl", FALSE, {TRUE}),
            plan_refl : V("plan_refl", FALSE, {TRUE}),
            kill : V("kill", FALSE, {TRUE}),
            dry : V("dry", FALSE, {TRUE}),
            reuse : V("reuse", FALSE, {TRUE}),
            refl_out : V("refl_out", "ok", {"error", "timeout"}),
            ops_cap : V("ops_cap", 5, {0, 1}),
            faults : {F \in SUBSET FaultSites : Cardinality(F) <= MaxFaults}] :
       /\ (i.yield_at # "none" => i.sched)
       /\ (i.maint => i.graph)
       \* (dry /\ kill is a legal combination: the kill switch removes T4, so the dry run's early return after T4 never
       \* happens and the turn goes on to its end without T3, GEL updates, apply or reflection)
       /\ (i.dry => i.yield_at \notin {"T3"})
       /\ (i.kill => i.yield_at \notin {"T4", "Apply"})
       /\ (i.refl_out # "ok" => (i.allow_refl /\ i.plan_refl /\ ~i.dry))}

Init == /\ pc = "idle" /\ inp = [none |-> TRUE] /\ log = <<>> /\ ver = 0 /\ snaps = {}
        /\ reflmem = 0 /\ stash = FALSE /\ turnno = 0 /\ h = <<>>

Emit(s) == log' = log \o s
Yielding(stage) == inp.sched /\ inp.yield_at = stage
\* a yield ends the turn: scheduler record, turn record, nothing after
YieldNow == /\ Emit(<<"scheduler", "turn">>) /\ pc' = "end"
            /\ UNCHANGED <<inp, ver, snaps, reflmem, stash, turnno, h>>

Begin == /\ pc = "idle" /\ turnno < MaxTurns
         /\ \E i \in Inputs :
              /\ inp' = i
              /\ stash' = IF i.reuse /\ ~StashCleared THEN stash ELSE FALSE
         /\ turnno' = turnno + 1 /\ log' = <<>> /\ pc' = "t1"
         /\ UNCHANGED <<ver, snaps, reflmem, h>>

T1 == /\ pc = "t1"
      /\ IF Yielding("T1") THEN Emit(<<"t1", "scheduler", "turn">>) /\ pc' = "end"
         ELSE Emit(<<"t1">>) /\ pc' = "t2"
      /\ UNCHANGED <<inp, ver, snaps, reflmem, stash, turnno, h>>

T2 == /\ pc = "t2"
      /\ IF Yielding("T2") THEN Emit(<<"t2", "scheduler", "turn">>) /\ pc' = "end"
         ELSE Emit(<<"t2">>) /\ pc' = "gel_observe"
      /\ UNCHANGED <<inp, ver, snaps, reflmem, stash, turnno, h>>

GelObserve == /\ pc = "gel_observe"
              /\ Emit(IF inp.graph /\ ~inp.dry THEN <<"gel">> ELSE <<>>)
              /\ pc' = "t3"
              /\ UNCHANGED <<inp, ver, snaps, reflmem, stash, turnno, h>>

\* plan -> (yield check) -> optional one-shot RAG -> speak; the three T3 records are written together
T3 == /\ pc = "t3"
      /\ IF inp.dry THEN Emit(<<>>) /\ pc' = "t4"
         ELSE IF Yielding("T3") THEN Emit(<<"scheduler", "turn">>) /\ pc' = "end"
         ELSE Emit(<<"t3", "t3_plan", "t3_dialogue">>) /\ pc' = "t4"
      /\ UNCHANGED <<inp, ver, snaps, reflmem, stash, turnno, h>>

T4 == /\ pc = "t4"
      /\ IF inp.kill THEN Emit(<<>>) /\ pc' = "reflect"
         ELSE IF inp.dry THEN Emit(<<"t4">>) /\ pc' = "end"          \* dry run returns after T4
         ELSE IF Yielding("T4") THEN Emit(<<"t4", "scheduler", "turn">>) /\ pc' = "end"
         ELSE Emit(<<"t4">>) /\ pc' = "gel_tick"
      /\ UNCHANGED <<inp, ver, snaps, reflmem, stash, turnno, h>>

GelTick == /\ pc = "gel_tick"
           /\ Emit((IF inp.graph THEN <<"gel">> ELSE <<>>) \o
                   (IF inp.graph /\ inp.maint /\ "gel_maint" \notin inp.faults THEN <<"gel">> ELSE <<>>))
           /\ pc' = "apply"
           /\ UNCHANGED <<inp, ver, snaps, reflmem, stash, turnno, h>>

\* commit: version + 1, snapshot (cadence 1 in this model), errors in the store never abort
Apply == /\ pc = "apply"
         /\ ver' = ver + 1 /\ snaps' = snaps \cup {turnno}
         /\ IF Yielding("Apply") THEN Emit(<<"apply", "scheduler", "turn">>) /\ pc' = "end"
            ELSE Emit(<<"apply">>) /\ pc' = "reflect"
         /\ UNCHANGED <<inp, reflmem, stash, turnno, h>>

Runs == inp.allow_refl /\ inp.plan_refl /\ ~inp.dry
Reflect == /\ pc = "reflect"
           /\ LET ok == Runs /\ inp.refl_out = "ok" /\ "refl_compute" \notin inp.faults
                  wrote == IF ok /\ inp.ops_cap > 0 /\ "refl_write" \notin inp.faults THEN 1 ELSE 0
                  st == IF Runs THEN TRUE ELSE stash
              IN /\ stash' = st
                 /\ reflmem' = reflmem + (IF Runs THEN wrote ELSE (IF st THEN 0 ELSE 0))
                 /\ Emit(IF st /\ "refl_log" \notin inp.faults THEN <<"t3_reflection">> ELSE <<>>)
           /\ pc' = "health"
           /\ UNCHANGED <<inp, ver, snaps, turnno, h>>

Health == /\ pc = "health" /\ Emit(<<"health", "turn">>) /\ pc' = "end"
          /\ UNCHANGED <<inp, ver, snaps, reflmem, stash, turnno, h>>

End == /\ pc = "end"
       /\ h' = Append(h, [inp |-> inp, log |-> log, ver |-> ver, reflmem |-> reflmem, snap |-> (turnno \in snaps), stash_out |-> stash])
       /\ pc' = "idle"
       /\ UNCHANGED <<inp, log, ver, snaps, reflmem, stash, turnno>>

Next == Begin \/ T1 \/ T2 \/ GelObserve \/ T3 \/ T4 \/ GelTick \/ Apply \/ Reflect \/ Health \/ End
Spec == Init /\ [][Next]_vars

-----------------------------------------------------------------------------
\* The record sequence of a turn as a function of its inputs and of the stash the context object carried
\* in (used by TurnTrace for validating recorded sessions; StepwiseEqualsFunctional ties it to the actions)
Yd(i, st) == i.sched /\ i.yield_at = st
ExpectedLog(i, stashIn) ==
    LET st0 == IF i.reuse /\ ~StashCleared THEN stashIn ELSE FALSE
        yk == <<"scheduler", "turn">>
        gel1 == IF i.graph /\ ~i.dry THEN <<"gel">> ELSE <<>>
        runs == i.allow_refl /\ i.plan_refl /\ ~i.dry
        refl == IF (runs \/ st0) /\ "refl_log" \notin i.faults THEN <<"t3_reflection">> ELSE <<>>
        tail == refl \o <<"health", "turn">>
        gel2 == (IF i.graph THEN <<"gel">> ELSE <<>>) \o
                (IF i.graph /\ i.maint /\ "gel_maint" \notin i.faults THEN <<"gel">> ELSE <<>>)
        p2 == <<"t1", "t2">> \o gel1
        p3 == p2 \o <<"t3", "t3_plan", "t3_dialogue">>
    IN IF Yd(i, "T1") THEN <<"t1">> \o yk
       ELSE IF Yd(i, "T2") THEN <<"t1", "t2">> \o yk
       ELSE IF i.dry /\ i.kill THEN p2 \o tail
       ELSE IF i.dry THEN p2 \o <<"t4">>
       ELSE IF Yd(i, "T3") THEN p2 \o yk
       ELSE IF i.kill THEN p3 \o tail
       ELSE IF Yd(i, "T4") THEN p3 \o <<"t4">> \o yk
       ELSE IF Yd(i, "Apply") THEN p3 \o <<"t4">> \o gel2 \o <<"apply">> \o yk
       ELSE p3 \o <<"t4">> \o gel2 \o <<"apply">> \o tail
StepwiseEqualsFunctional ==
    \A i \in 1..Len(h) : h[i].log = ExpectedLog(h[i].inp, IF i = 1 THEN FALSE ELSE h[i - 1].stash_out)

Count(s, x) == Cardinality({i \in 1..Len(s) : s[i] = x})
Last(s) == s[Len(s)]

\* C17: nothing follows a yield inside a turn
YieldOnlyAtBoundary ==
    \A i \in 1..Len(h) : \A p \in 1..Len(h[i].log) :
        h[i].log[p] = "scheduler" => (p = Len(h[i].log) - 1 /\ Last(h[i].log) = "turn")
\* every turn that is not a dry run ends with a turn record (C20 TurnCompletes in the model)
TurnCompletes == \A i \in 1..Len(h) : ~h[i].inp.dry => Last(h[i].log) = "turn"
\* C04 KillSwitchInert
KillSwitchInert == \A i \in 1..Len(h) : h[i].inp.kill =>
    (Count(h[i].log, "t4") = 0 /\ Count(h[i].log, "apply") = 0 /\ ~h[i].snap
     /\ h[i].ver = (IF i = 1 THEN 0 ELSE h[i - 1].ver))
\* C02 NoArtefact: gated streams only under their gate
NoArtefact == \A i \in 1..Len(h) :
    /\ (Count(h[i].log, "gel") > 0 => h[i].inp.graph)
    /\ (Count(h[i].log, "scheduler") > 0 => h[i].inp.sched)
    /\ (StashCleared => (Count(h[i].log, "t3_reflection") > 0 => h[i].inp.allow_refl))
\* C19 RunsIffAllGates / NothingWhenClosed (a t3_reflection record or a memory write only when it ran)
ReflGates(i) == h[i].inp.allow_refl /\ h[i].inp.plan_refl /\ ~h[i].inp.dry
NothingWhenClosed == \A i \in 1..Len(h) :
    (~ReflGates(i) \/ Count(h[i].log, "health") = 0) =>
        (Count(h[i].log, "t3_reflection") = 0 /\ h[i].reflmem = (IF i = 1 THEN 0 ELSE h[i - 1].reflmem))
EntriesWithinOps == \A i \in 1..Len(h) :
    h[i].reflmem - (IF i = 1 THEN 0 ELSE h[i - 1].reflmem) <= h[i].inp.ops_cap
NoWriteOnError == \A i \in 1..Len(h) :
    (h[i].inp.refl_out # "ok" \/ "refl_compute" \in h[i].inp.faults) =>
        h[i].reflmem = (IF i = 1 THEN 0 ELSE h[i - 1].reflmem)
\* C04 VersionPlusOne
VersionDiscipline == \A i \in 1..Len(h) :
    h[i].ver - (IF i = 1 THEN 0 ELSE h[i - 1].ver) = (IF Count(h[i].log, "apply") > 0 THEN 1 ELSE 0)

View_ == <<pc, inp, log, ver, snaps, reflmem, stash, turnno>>
EmitDone == (pc = "idle" /\ Len(h) = MaxTurns) => PrintT(<<"T", ToJson([h |-> h])>>)
=============================================================================
