------------------------------ MODULE Inspect ------------------------------
(* The snapshot inspector (clematis.scripts.inspect_snapshot:main, also reached through the umbrella
   CLI `clematis inspect-snapshot`), a read-only view on what the snapshot writer left on disk.
   Stated from the script's docstring ("0 => snapshot found (default warns on schema issues);
   2 => no snapshot found / unreadable / schema invalid (when --strict)"), the docstring of
   get_latest_snapshot_info ("prefer GEL counts if present, else legacy graph summary; schema from the
   payload, else from the .meta sidecar, else unknown; None if no snapshot is found/readable; never
   raises") and docs/m8/cli.md.  Extra X12, beyond the listed properties.

   One decision per case (enumerate-inputs pattern: Next == FALSE).  A case is what lies in the
   snapshot directory and how the inspector is called:
     file     "none"       no snapshot file            "garbage"  a file that is not JSON
              "empty"      the JSON document {}         "body"     a JSON object with the fields below
     bodysv   schema_version in the body:   "absent" | "v1" | "v0"
     side     the .meta sidecar:            "absent" | "v1" | "v0" | "garbage"
     shape    where the graph counts are:   "maps"  gel.nodes / gel.edges are objects (the writer's form)
                                            "lists" gel.nodes / gel.edges are arrays
                                            "summary" graph.nodes_count / graph.edges_count only
                                            "absent"  nowhere
     n, e     the counts;  strict  the --strict switch
   Result: exit code, whether stdout carries a report, whether stderr carries a warning / an error,
   and the reported schema_version / nodes / edges / gel_nodes / gel_edges (-1 = null / not reported). *)
EXTENDS Integers, Sequences, FiniteSets, TLC, Json

CONSTANTS Counts        \* values for n and e

VARIABLES inp, out
vars == <<inp, out>>

Files == {"none", "garbage", "empty", "body"}
BodySv == {"absent", "v1", "v0"}
Side == {"absent", "v1", "v0", "garbage"}
Shapes == {"maps", "lists", "summary", "absent"}

Inputs == {[file |-> f, bodysv |-> b, side |-> s, shape |-> sh, n |-> n, e |-> e, strict |-> st] :
           f \in Files, b \in BodySv, s \in Side, sh \in Shapes, n \in Counts, e \in Counts, st \in BOOLEAN}
\* cases that differ only in fields that do not exist for them are the same case
Canonical(i) == /\ (i.file # "body" => i.bodysv = "absent" /\ i.shape = "absent" /\ i.n = 0 /\ i.e = 0)
                /\ (i.file = "none" => i.side = "absent")
                /\ (i.shape = "absent" => i.n = 0 /\ i.e = 0)

\* the schema the inspector goes by: the body's, else the sidecar's (when it is readable), else none
EffSv(i) == IF i.bodysv # "absent" THEN i.bodysv
            ELSE IF i.side \in {"v1", "v0"} THEN i.side ELSE "absent"
Found(i) == i.file = "body"                       \* {} and unreadable files are "no snapshot found / unreadable"
SchemaOK(i) == EffSv(i) = "v1"

Null == -1
Result(i) ==
    IF ~Found(i) THEN [rc |-> 2, report |-> FALSE, warn |-> FALSE, err |-> TRUE, sv |-> "", nodes |-> Null, edges |-> Null, gn |-> Null, ge |-> Null]
    ELSE IF i.strict /\ ~SchemaOK(i)
    THEN [rc |-> 2, report |-> FALSE, warn |-> FALSE, err |-> TRUE, sv |-> "", nodes |-> Null, edges |-> Null, gn |-> Null, ge |-> Null]
    ELSE [rc |-> 0, report |-> TRUE, warn |-> ~SchemaOK(i), err |-> FALSE,
          sv |-> IF EffSv(i) = "absent" THEN "unknown" ELSE EffSv(i),
          nodes |-> IF i.shape = "absent" THEN Null ELSE i.n,
          edges |-> IF i.shape = "absent" THEN Null ELSE i.e,
          \* gel_* are the counts of the GEL structure proper (objects), or of the compact summary
          gn |-> IF i.shape \in {"maps", "summary"} THEN i.n ELSE Null,
          ge |-> IF i.shape \in {"maps", "summary"} THEN i.e ELSE Null]

Init == /\ inp \in {i \in Inputs : Canonical(i)}
        /\ out = Result(inp)
Next == FALSE
Spec == Init /\ [][Next]_vars

-----------------------------------------------------------------------------
\* the docstring's exit codes
ExitCodes == out.rc \in {0, 2}
FoundNonStrictNeverFails == (Found(inp) /\ ~inp.strict) => out.rc = 0
NotFoundIsTwo == ~Found(inp) => out.rc = 2
StrictFailsIffSchemaInvalid == (Found(inp) /\ inp.strict) => (out.rc = 2 <=> ~SchemaOK(inp))
\* a failing call reports nothing on stdout; a warning never suppresses the report
FailureIsSilentOnStdout == out.rc = 2 => ~out.report
WarnKeepsReport == out.warn => (out.report /\ out.rc = 0)
\* the sidecar is only a fall-back: a schema in the body wins
BodySchemaWins == (Found(inp) /\ inp.bodysv # "absent" /\ out.report) => out.sv = inp.bodysv
\* whatever the writer's form (maps) holds is what is reported
WriterFormCountsExact == (out.report /\ inp.shape = "maps") => (out.nodes = inp.n /\ out.edges = inp.e /\ out.gn = inp.n /\ out.ge = inp.e)
\* --strict changes the exit code and the report's presence only, never its contents
StrictOnlyGates == (Found(inp) /\ SchemaOK(inp)) => Result([inp EXCEPT !.strict = TRUE]) = Result([inp EXCEPT !.strict = FALSE])

EmitCase == PrintT(<<"T", ToJson([inp |-> inp, out |-> out])>>)
=============================================================================
