------------------------------ MODULE YieldRule ------------------------------
(* Yield decision at a stage boundary (clematis.engine.orchestrator.core._should_yield), from the
   documented precedence (C17): wall-clock budget, then any stage budget that has been used up,
   then the quantum.  Budgets may be absent (-1).  Stage consumption never exceeds a present budget
   (the stages clamp), so "used up" is consumed = budget.                                         *)
EXTENDS Integers, FiniteSets, TLC, Json

CONSTANTS BudgetVals, WallVals, QuantumVals, ElapsedVals, AbsentConsumed

Stages == {"t1_iters", "t1_pops", "t2_k", "t3_ops"}

VARIABLES budgets, consumed, wall, quantum, elapsed
vars == <<budgets, consumed, wall, quantum, elapsed>>

Init == /\ budgets \in [Stages -> BudgetVals \cup {-1}]
        /\ consumed \in [Stages -> 0..2]
        /\ \A s \in Stages : IF budgets[s] = -1 THEN consumed[s] \in AbsentConsumed
                             ELSE consumed[s] <= budgets[s]
        /\ wall \in WallVals \cup {-1}
        /\ quantum \in QuantumVals
        /\ elapsed \in ElapsedVals
Next == UNCHANGED vars
Spec == Init /\ [][Next]_vars

Hits == {s \in Stages : budgets[s] # -1 /\ consumed[s] = budgets[s]}
Reason == IF wall # -1 /\ elapsed >= wall THEN "WALL_MS"
          ELSE IF Hits # {} THEN "BUDGET"
          ELSE IF elapsed >= quantum THEN "QUANTUM_EXCEEDED"
          ELSE "NONE"

\* precedence, stated as implications
WallFirst == (wall # -1 /\ elapsed >= wall) => Reason = "WALL_MS"
BudgetBeforeQuantum == (Reason = "QUANTUM_EXCEEDED") => Hits = {}
NoSpuriousYield == (Reason = "NONE") => (Hits = {} /\ elapsed < quantum /\ (wall = -1 \/ elapsed < wall))

EmitCase == PrintT(<<"T", ToJson([budgets |-> budgets, consumed |-> consumed, wall |-> wall,
                                  quantum |-> quantum, elapsed |-> elapsed, reason |-> Reason,
                                  hits |-> Hits])>>)
=============================================================================
