----------------------------- MODULE LockWrapper -----------------------------
(* Design model of the lock wrappers (clematis.engine.cache.ThreadSafeCache / ThreadSafeBytesCache):
   every public method is  Acquire ; Inner ; Release  on one re-entrant lock.  Threads issue NOps
   puts each on a shared inner map.  Properties (C15): mutual exclusion of inner calls, no lost
   update, and equivalence with the serial execution in lock-acquisition order.                  *)
EXTENDS Integers, Sequences, FiniteSets, TLC

CONSTANTS Threads, NOps, Keys

VARIABLES holder, pc, done, store, log
vars == <<holder, pc, done, store, log>>

None == "none"

Init == /\ holder = None
        /\ pc = [t \in Threads |-> "idle"]
        /\ done = [t \in Threads |-> 0]
        /\ store = [k \in Keys |-> <<>>]
        /\ log = <<>>

Acquire(t) == /\ pc[t] = "idle" /\ done[t] < NOps /\ holder = None
              /\ holder' = t /\ pc' = [pc EXCEPT ![t] = "locked"]
              /\ UNCHANGED <<done, store, log>>

Inner(t) == /\ pc[t] = "locked"
            /\ \E k \in Keys :
                 /\ store' = [store EXCEPT ![k] = <<t, done[t]>>]
                 /\ log' = Append(log, <<k, t, done[t]>>)
            /\ pc' = [pc EXCEPT ![t] = "inner_done"]
            /\ UNCHANGED <<holder, done>>

Release(t) == /\ pc[t] = "inner_done"
              /\ holder' = None /\ pc' = [pc EXCEPT ![t] = "idle"]
              /\ done' = [done EXCEPT ![t] = done[t] + 1]
              /\ UNCHANGED <<store, log>>

Next == \E t \in Threads : Acquire(t) \/ Inner(t) \/ Release(t)
Spec == Init /\ [][Next]_vars

TypeOK == holder \in Threads \cup {None}
MutualExclusion ==
    /\ \A t \in Threads : pc[t] # "idle" => holder = t
    /\ Cardinality({t \in Threads : pc[t] # "idle"}) <= 1
\* serial replay of the log in acquisition order
RECURSIVE Replay(_, _)
Replay(s, i) == IF i > Len(log) THEN s ELSE Replay([s EXCEPT ![log[i][1]] = <<log[i][2], log[i][3]>>], i + 1)
SerialEquivalent == [][store' = Replay([k \in Keys |-> <<>>], 1)']_vars
=============================================================================
