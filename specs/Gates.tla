-------------------------------- MODULE Gates --------------------------------
(* Feature gates (C02).  A configuration assigns each feature a gate (open / closed) and a subtree token
   (what the user wrote under that feature's keys: omitted, or one of several customised subtrees).
   The engine observes a subtree only through an open gate:

       Eff(cfg)[f] = IF Open(cfg, f) THEN cfg.sub[f] ELSE "off"

   and everything a run produces (utterances, canonical logs, snapshots, engine state) is a function of
   Eff(cfg) alone.  Hence two configurations that differ only in the subtrees of closed features are
   observationally equal (InertSubtree), and a gated artefact exists only if its gate is open
   (NoArtefact).  Documented gate predicates:
       perf       perf.enabled
       parallel   perf.enabled /\ perf.parallel.enabled            (nested under the master switch)
       graph      graph.enabled
       quality    t2.quality.enabled      (docs/m7/overview.md: "Enable with t2.quality.enabled=true"; the perf master switch
                                           and perf.metrics.report_memory gate the layer's METRICS AND TRACES only - the "triple
                                           gate".  The validator's warning "perf.enabled=false; quality fusion will not execute"
                                           says otherwise and the code follows the overview: the two documents disagree, so the
                                           model takes the reading under which the code is right - DESIGN 9.3)
       hybrid     t2.hybrid.enabled
       reflection t3.allow_reflection        (subtree: t3.reflection.*, scheduler.budgets.{time_ms,ops}_reflection)
       scheduler  scheduler.enabled
   TLC enumerates gate vectors x subtree assignments and emits, for each, the pair to compare and the
   set of artefacts that may exist.                                                              *)
EXTENDS Integers, FiniteSets, TLC, Json

CONSTANTS Tokens,       \* customised subtree tokens, e.g. {"c1", "c2"}
          MaxClosedCustom  \* at most this many closed features carry a customised subtree (bounds the product)

Features == {"perf", "parallel", "graph", "quality", "hybrid", "reflection", "scheduler"}

VARIABLES sw,    \* the enable switch the user set per feature (TRUE = switched on)
          sub    \* subtree token per feature: "omitted" or a customised token
vars == <<sw, sub>>

Open(s, f) == CASE f = "parallel" -> s["perf"] /\ s["parallel"]
                [] OTHER          -> s[f]
Closed(s) == {f \in Features : ~Open(s, f)}

Init == /\ sw \in [Features -> BOOLEAN]
        /\ sub \in [Features -> {"omitted"} \cup Tokens]
        /\ \A f \in Features : Open(sw, f) => sub[f] = "omitted"       \* open features run with their defaults
        /\ Cardinality({f \in Closed(sw) : sub[f] # "omitted"}) <= MaxClosedCustom
        /\ \E f \in Closed(sw) : sub[f] # "omitted"                     \* something to compare
Next == FALSE
Spec == Init /\ [][Next]_vars

Eff(s, b) == [f \in Features |-> IF Open(s, f) THEN b[f] ELSE "off"]
Omitted == [f \in Features |-> IF f \in Closed(sw) THEN "omitted" ELSE sub[f]]
InertSubtree == Eff(sw, sub) = Eff(sw, Omitted)

Artefacts == (IF Open(sw, "graph") THEN {"gel.jsonl"} ELSE {})
        \cup (IF Open(sw, "reflection") THEN {"t3_reflection.jsonl"} ELSE {})
        \cup (IF Open(sw, "scheduler") THEN {"scheduler.jsonl"} ELSE {})
        \cup (IF Open(sw, "perf") THEN {"perf", "quality_traces"} ELSE {})
GatedArtefacts == {"gel.jsonl", "t3_reflection.jsonl", "scheduler.jsonl", "perf", "quality_traces"}
NoArtefact == \A a \in GatedArtefacts \ Artefacts :
                 \/ (a = "gel.jsonl" /\ ~Open(sw, "graph"))
                 \/ (a = "t3_reflection.jsonl" /\ ~Open(sw, "reflection"))
                 \/ (a = "scheduler.jsonl" /\ ~Open(sw, "scheduler"))
                 \/ (a \in {"perf", "quality_traces"} /\ ~Open(sw, "perf"))

EmitCase == PrintT(<<"T", ToJson([sw |-> sw, sub |-> sub, closed |-> Closed(sw), allowed |-> Artefacts])>>)
=============================================================================
