------------------------------ MODULE GelCore ------------------------------
(* Constant-free operators shared by Gel (exact grid model) and GelTrace (validation of recorded
   executions with IEEE-754 order-encoded doubles): the documented selection of an observation
   (qualify, list by (-score, id), first top-k, pairs in nested listing order up to the pair cap)
   is generic in the comparison of scores.                                                       *)
EXTENDS Integers, Sequences, FiniteSets, TLC

Abs(x) == IF x < 0 THEN 0 - x ELSE x
MinI(a, b) == IF a <= b THEN a ELSE b
MinOf(S) == CHOOSE x \in S : \A y \in S : x <= y
MaxOf(S) == CHOOSE x \in S : \A y \in S : x >= y
RECURSIVE Pow2(_)
Pow2(n) == IF n = 0 THEN 1 ELSE 2 * Pow2(n - 1)
RECURSIVE SumS(_, _)
SumS(f, S) == IF S = {} THEN 0 ELSE LET t == CHOOSE t \in S : TRUE IN f[t] + SumS(f, S \ {t})

Canon(a, b) == IF a <= b THEN <<a, b>> ELSE <<b, a>>
IsPrefix(s, t) == Len(s) <= Len(t) /\ s = SubSeq(t, 1, Len(s))

-----------------------------------------------------------------------------
(* selection, generic in the comparison of scores (GelTrace instantiates it with encoded doubles):
   positions 1..n; Act(i): qualifies; Bef(i, j): i listed strictly before j by (-score, id).  *)
UsedOf(n, Act(_), Bef(_, _), k) ==
    LET A == {i \in 1..n : Act(i)}
        rank == [i \in A |-> Cardinality({j \in A : Bef(j, i) \/ (~Bef(i, j) /\ j < i)})]
        m == MinI(k, Cardinality(A))
    IN [r \in 1..m |-> CHOOSE i \in A : rank[i] = r - 1]

\* position pairs (i < j) of a used list of length m in nested listing order, at most cap of them
PairSeq(m, cap) ==
    LET P == {p \in (1..m) \X (1..m) : p[1] < p[2]}
        idx(p) == (p[1] - 1) * (m + 1) + p[2]
        n == MinI(cap, Cardinality(P))
        rk == [p \in P |-> Cardinality({q \in P : idx(q) < idx(p)})]
    IN [r \in 1..n |-> CHOOSE p \in P : rk[p] = r - 1]

\* independent reading of "among the top-k items above the threshold": ids of qualifying items
\* with fewer than k strictly better qualifying items
TopIdsOf(n, Act(_), Bef(_, _), k, IdAt(_)) ==
    LET A == {i \in 1..n : Act(i)} IN
    {IdAt(i) : i \in {j \in A : Cardinality({q \in A : Bef(q, j)}) < k}}

-----------------------------------------------------------------------------
\* sort a finite set by a strict total order
SortBy(S, Lt(_, _)) ==
    LET rk == [x \in S |-> Cardinality({y \in S : Lt(y, x)})]
    IN [r \in 1..Cardinality(S) |-> CHOOSE x \in S : rk[x] = r - 1]
Take(s, n) == SubSeq(s, 1, MinI(n, Len(s)))

=============================================================================
