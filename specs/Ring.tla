--------------------------------- MODULE Ring ---------------------------------
(* Dedupe ring (clematis.engine.util.ring.DedupeRing), from its documented contract (C15):
   fixed capacity K, duplicates allowed, membership = reference count > 0; add evicts from the head
   until there is room, decrementing the evicted item's count; discard decrements a positive count
   without touching the physical order; K = 0 = disabled (all operations are no-ops).            *)
EXTENDS Integers, Sequences, FiniteSets, TLC, Json

CONSTANTS Keys, K, MaxBatch     \* MaxBatch: longest batch handed to extend (longer than K on purpose)

VARIABLES q, ref, last
vars == <<q, ref, last>>

Init == q = <<>> /\ ref = [k \in Keys |-> 0] /\ last = [op |-> "init"]
Enabled == K > 0
Dec(r, x) == [r EXCEPT ![x] = IF r[x] > 0 THEN r[x] - 1 ELSE 0]

Add(x) ==
    IF ~Enabled THEN UNCHANGED <<q, ref>> /\ last' = [op |-> "add", k |-> x]
    ELSE LET full == Len(q) >= K
             q1 == IF full THEN Tail(q) ELSE q
             r1 == IF full THEN Dec(ref, Head(q)) ELSE ref
         IN /\ q' = Append(q1, x)
            /\ ref' = [r1 EXCEPT ![x] = r1[x] + 1]
            /\ last' = [op |-> "add", k |-> x]

\* extend(xs) = the adds of xs one after the other (a batch longer than K rolls over itself)
RECURSIVE AddAll(_, _, _)
AddAll(qq, rr, b) ==
    IF b = <<>> THEN [q |-> qq, ref |-> rr]
    ELSE LET x == Head(b)
             full == Len(qq) >= K
             q1 == IF full THEN Tail(qq) ELSE qq
             r1 == IF full THEN Dec(rr, Head(qq)) ELSE rr
         IN AddAll(Append(q1, x), [r1 EXCEPT ![x] = r1[x] + 1], Tail(b))
Extend(b) ==
    IF ~Enabled THEN UNCHANGED <<q, ref>> /\ last' = [op |-> "extend", b |-> b]
    ELSE LET r == AddAll(q, ref, b) IN q' = r.q /\ ref' = r.ref /\ last' = [op |-> "extend", b |-> b]
Batches == UNION {[1..n -> Keys] : n \in 0..MaxBatch}

Discard(x) ==
    /\ q' = q
    /\ ref' = IF Enabled THEN Dec(ref, x) ELSE ref
    /\ last' = [op |-> "discard", k |-> x]

Contains(x) ==
    UNCHANGED <<q, ref>> /\ last' = [op |-> "contains", k |-> x, r |-> (Enabled /\ ref[x] > 0)]

Clear == q' = <<>> /\ ref' = [k \in Keys |-> 0] /\ last' = [op |-> "clear"]

Next == (\E x \in Keys : Add(x) \/ Discard(x) \/ Contains(x)) \/ Clear \/ (\E b \in Batches : Extend(b))
Spec == Init /\ [][Next]_vars

Count(x) == Cardinality({i \in 1..Len(q) : q[i] = x})
WithinEntries == Len(q) <= K
ZeroCapacityDisabled == K = 0 => (q = <<>> /\ \A x \in Keys : ref[x] = 0)
\* reference counts never exceed the physical occurrences
RefBounded == \A x \in Keys : ref[x] >= 0 /\ ref[x] <= Count(x)
\* membership is never claimed for an item that is not physically in the ring
NoPhantomMember == \A x \in Keys : ref[x] > 0 => Count(x) > 0

View == <<q, ref>>
Emit == PrintT(<<"T", ToJson([pre |-> [q |-> q, ref |-> ref], post |-> [q |-> q', ref |-> ref'], obs |-> last'])>>)
=============================================================================
