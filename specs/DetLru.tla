-------------------------------- MODULE DetLru --------------------------------
(* Deterministic LRU map (clematis.engine.util.lru_det.DeterministicLRU) and the insert-order
   bounded sets (lru_det.DeterministicLRUSet, ring.DeterministicLRU), from their documented
   contracts (C15).
   Map: capacity Cap; recency moves on get iff UpdGet, on put-update iff UpdPut; a put of a new key
   appends at MRU and evicts the LRU entry when over capacity, reporting the evicted pair;
   pop_lru removes and returns the LRU entry; Cap = 0 = disabled (always miss, stores nothing).
   Set: FIFO on first insertion; add returns TRUE iff an eviction occurred; Cap = 0 = disabled.  *)
EXTENDS Integers, Sequences, FiniteSets, TLC, Json

CONSTANTS Keys, Vals, Cap, UpdGet, UpdPut

VARIABLES m,     \* map: sequence of [k, v] LRU -> MRU
          s,     \* set: sequence of keys in insertion order
          last
vars == <<m, s, last>>

KeysOf(q) == {q[i].k : i \in 1..Len(q)}
Without(q, k) == SelectSeq(q, LAMBDA e : e.k # k)
Lookup(q, k) == LET i == CHOOSE i \in 1..Len(q) : q[i].k = k IN q[i]
InSeq(q, x) == \E i \in 1..Len(q) : q[i] = x
Enabled == Cap > 0

Init == m = <<>> /\ s = <<>> /\ last = [op |-> "init"]

MGet(k) ==
    /\ UNCHANGED s
    /\ IF Enabled /\ k \in KeysOf(m)
       THEN /\ m' = IF UpdGet THEN Append(Without(m, k), Lookup(m, k)) ELSE m
            /\ last' = [op |-> "mget", k |-> k, hit |-> TRUE, v |-> Lookup(m, k).v]
       ELSE m' = m /\ last' = [op |-> "mget", k |-> k, hit |-> FALSE, v |-> 0]

MPut(k, v) ==
    /\ UNCHANGED s
    /\ IF ~Enabled THEN m' = m /\ last' = [op |-> "mput", k |-> k, v |-> v, ev |-> <<>>]
       ELSE IF k \in KeysOf(m)
       THEN /\ m' = IF UpdPut THEN Append(Without(m, k), [k |-> k, v |-> v])
                    ELSE [i \in 1..Len(m) |-> IF m[i].k = k THEN [k |-> k, v |-> v] ELSE m[i]]
            /\ last' = [op |-> "mput", k |-> k, v |-> v, ev |-> <<>>]
       ELSE LET m1 == Append(m, [k |-> k, v |-> v]) IN
            IF Len(m1) > Cap
            THEN /\ m' = Tail(m1)
                 /\ last' = [op |-> "mput", k |-> k, v |-> v, ev |-> <<Head(m1)>>]
            ELSE m' = m1 /\ last' = [op |-> "mput", k |-> k, v |-> v, ev |-> <<>>]

MPop ==
    /\ UNCHANGED s
    /\ IF Enabled /\ m # <<>>
       THEN m' = Tail(m) /\ last' = [op |-> "mpop", ev |-> <<Head(m)>>]
       ELSE m' = m /\ last' = [op |-> "mpop", ev |-> <<>>]

MContains(k) ==
    UNCHANGED <<m, s>> /\ last' = [op |-> "mcontains", k |-> k, r |-> (Enabled /\ k \in KeysOf(m))]

MClear == m' = <<>> /\ UNCHANGED s /\ last' = [op |-> "mclear"]

SAdd(x) ==
    /\ UNCHANGED m
    /\ IF ~Enabled \/ InSeq(s, x) THEN s' = s /\ last' = [op |-> "sadd", k |-> x, evicted |-> FALSE]
       ELSE LET s1 == Append(s, x) IN
            IF Len(s1) > Cap THEN s' = Tail(s1) /\ last' = [op |-> "sadd", k |-> x, evicted |-> TRUE]
            ELSE s' = s1 /\ last' = [op |-> "sadd", k |-> x, evicted |-> FALSE]

SContains(x) ==
    UNCHANGED <<m, s>> /\ last' = [op |-> "scontains", k |-> x, r |-> (Enabled /\ InSeq(s, x))]

SClear == s' = <<>> /\ UNCHANGED m /\ last' = [op |-> "sclear"]

Next ==
    \/ \E k \in Keys : MGet(k) \/ MContains(k) \/ SAdd(k) \/ SContains(k)
    \/ \E k \in Keys, v \in Vals : MPut(k, v)
    \/ MPop \/ MClear \/ SClear

Spec == Init /\ [][Next]_vars

WithinEntries == Len(m) <= Cap /\ Len(s) <= Cap
UniqueKeys == Cardinality(KeysOf(m)) = Len(m) /\ Cardinality({s[i] : i \in 1..Len(s)}) = Len(s)
ZeroCapacityDisabled == Cap = 0 => (m = <<>> /\ s = <<>>)
\* eviction is always the single least-recently-used entry, and only when full
StrictLRU ==
    [][ (last'.op = "mput" /\ last'.ev # <<>>) =>
          (Len(m) = Cap /\ last'.ev[1] = Head(m) /\ last'.k \notin KeysOf(m)) ]_vars
SetFifo ==
    [][ (last'.op = "sadd" /\ last'.evicted) => (Len(s) = Cap /\ s' = Append(Tail(s), last'.k)) ]_vars

View == <<m, s>>
Emit == PrintT(<<"T", ToJson([pre |-> [m |-> m, s |-> s], post |-> [m |-> m', s |-> s'], obs |-> last'])>>)
=============================================================================
