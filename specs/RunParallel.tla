----------------------------- MODULE RunParallel -----------------------------
(* Deterministic parallel helper (clematis.engine.util.parallel.run_parallel), C09.
   Tasks 1..N are submitted in index order; each has an order key Key[i] (ties allowed) and an outcome
   (Fail[i]).  Pool semantics: with effective worker count E = max(1, min(W, N)) a task starts when it is
   the next unsubmitted one and fewer than E tasks are running; any running task may finish next.
   For W <= 1 the helper is a plain loop: tasks run one after the other and the first failure stops it.

   Documented result (independent of the completion order):
     no failure -> merge of all results ordered by (order key, submit index)
     failures   -> ParallelError listing every failure ordered by (order key, submit index); W <= 1: the first only
   TLC explores every feasible schedule; `done` is the completion order actually taken.            *)
EXTENDS Integers, Sequences, FiniteSets, TLC, Json

CONSTANTS N, Ws, KeyVals      \* worker counts and order-key values to enumerate

VARIABLES W, Key, Fail, nextsub, running, done, stopped
vars == <<W, Key, Fail, nextsub, running, done, stopped>>

Tasks == 1..N
Eff == IF W <= 1 THEN 1 ELSE (IF W < N THEN W ELSE N)
Sequential == W <= 1

Init == /\ W \in Ws /\ Key \in [1..N -> KeyVals] /\ Fail \in [1..N -> BOOLEAN]
        /\ nextsub = 1 /\ running = {} /\ done = <<>> /\ stopped = FALSE

Start == /\ ~stopped /\ nextsub <= N /\ Cardinality(running) < Eff
         /\ running' = running \cup {nextsub} /\ nextsub' = nextsub + 1
         /\ UNCHANGED <<W, Key, Fail, done, stopped>>
Finish(i) == /\ i \in running
             /\ running' = running \ {i} /\ done' = Append(done, i)
             /\ stopped' = (stopped \/ (Sequential /\ Fail[i]))     \* the loop stops at the first failure
             /\ UNCHANGED <<W, Key, Fail, nextsub>>
Next == Start \/ \E i \in Tasks : Finish(i)
Spec == Init /\ [][Next]_vars

Terminal == running = {} /\ (nextsub > N \/ stopped)

\* order by (key, submit index)
Before(i, j) == Key[i] < Key[j] \/ (Key[i] = Key[j] /\ i < j)
SortSet(S) == CHOOSE s \in [1..Cardinality(S) -> S] :
                 /\ \A a, b \in 1..Cardinality(S) : a < b => Before(s[a], s[b])
DoneSet == {done[p] : p \in 1..Len(done)}
Failed == {i \in DoneSet : Fail[i]}

\* what the helper returns, computed from what actually ran
Outcome == IF Failed # {}
           THEN [kind |-> "error", order |-> IF Sequential THEN <<done[Len(done)]>> ELSE SortSet(Failed)]
           ELSE [kind |-> "ok", order |-> SortSet(DoneSet)]
\* the documented result as a function of the inputs alone
FirstFail == CHOOSE i \in Tasks : Fail[i] /\ \A j \in Tasks : Fail[j] => i <= j
Expected == IF \E i \in Tasks : Fail[i]
            THEN [kind |-> "error", order |-> IF Sequential THEN <<FirstFail>> ELSE SortSet({i \in Tasks : Fail[i]})]
            ELSE [kind |-> "ok", order |-> SortSet(Tasks)]

ScheduleIndependent == Terminal => Outcome = Expected
HelperErrorsAllSortedNoMerge == (Terminal /\ ~Sequential /\ Failed # {}) => Outcome.order = SortSet({i \in Tasks : Fail[i]})
PoolBounded == Cardinality(running) <= Eff

EmitDone == Terminal => PrintT(<<"T", ToJson([n |-> N, w |-> W, key |-> Key, fail |-> Fail, done |-> done, expected |-> Expected])>>)
=============================================================================
