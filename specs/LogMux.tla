------------------------------ MODULE LogMux ------------------------------
(* Log capture of the agent-level parallel driver (clematis.engine.util.logmux, "PR70: deterministic log
   capture"): stages call write_or_buffer(stream, record); while a LogMux is active IN THE CALLER'S CONTEXT the
   record is buffered in that mux, otherwise it is passed through to the real appender; the driver later
   flushes a mux's dump in order.  The active mux lives in a context variable ("for the current task/thread").
   Extra X13, beyond the listed properties (C10 / C16 use the capture, they do not specify it).

   State.  Threads own a context: cur[t] = the active mux (0 = none), tok[t] = the reset tokens the thread
   obtained from set_mux, each remembering the value it replaced and whether it has been used.  buf[m] = the
   mux's buffer (pairs <<stream, record id>>), disk[s] = what the real appender received for stream s.
   Record ids are issued in call order, so "in order" is comparison of ids.

   Documented semantics written down here (python contextvars + the module's docstrings):
     * set_mux returns a token; reset_mux(token) restores the value the matching set replaced - also when it
       is not the most recent set (tokens are not a stack); a token can be used once (RuntimeError after
       that, whoever tries) and only in the context that created it (ValueError elsewhere); a failed reset
       changes nothing.
     * a NEW THREAD starts with an empty context: it is not captured by its parent's mux; a context COPY
       (copy_context().run, asyncio tasks) starts with the parent's value and its own later sets / resets
       never reach the parent.
     * write_or_buffer: active healthy mux -> buffered, nothing reaches the appender; a mux whose write
       raises -> "fall back to real writer"; no mux -> appender.
     * dump() is a copy, flush(pairs) appends in order through the appender and IGNORES the caller's
       capture (it is the commit phase); flushing does not empty the mux (clear() does).              *)
EXTENDS Integers, Sequences, FiniteSets, TLC, Json

CONSTANTS Threads,      \* e.g. {1, 2, 3}; thread 1 exists from the start
          Muxes,        \* e.g. {1, 2, 3}
          Broken,       \* muxes whose write() raises
          Streams,      \* e.g. {"a", "b"}
          MaxRec, MaxTok

VARIABLES alive, cur, tok, buf, disk, n, last
vars == <<alive, cur, tok, buf, disk, n, last>>

None == 0
Vals == Muxes \cup {None}
\* sum of the lengths of the sequences f[d], d \in D (each at most B long)
TotalLen(f, D, B) == Cardinality({p \in D \X (1..B) : p[2] <= Len(f[p[1]])})

Init == /\ alive = {1}
        /\ cur = [t \in Threads |-> None]
        /\ tok = [t \in Threads |-> <<>>]
        /\ buf = [m \in Muxes |-> <<>>]
        /\ disk = [s \in Streams |-> <<>>]
        /\ n = 0
        /\ last = [op |-> "init"]

SetMux(t, v) ==
    /\ t \in alive /\ TotalLen(tok, Threads, MaxTok) < MaxTok      \* MaxTok bounds the tokens of all threads together
    /\ tok' = [tok EXCEPT ![t] = Append(@, [old |-> cur[t], used |-> FALSE])]
    /\ cur' = [cur EXCEPT ![t] = v]
    /\ last' = [op |-> "set", t |-> t, v |-> v, token |-> Len(tok[t]) + 1]
    /\ UNCHANGED <<alive, buf, disk, n>>

\* thread t resets token i of thread o (o # t: a token of another context)
ResetMux(t, o, i) ==
    /\ t \in alive /\ o \in alive /\ i \in 1..Len(tok[o])
    /\ IF tok[o][i].used
       THEN /\ last' = [op |-> "reset", t |-> t, owner |-> o, token |-> i, res |-> "RuntimeError"]
            /\ UNCHANGED <<cur, tok>>
       ELSE IF o # t
            THEN /\ last' = [op |-> "reset", t |-> t, owner |-> o, token |-> i, res |-> "ValueError"]
                 /\ UNCHANGED <<cur, tok>>
            ELSE /\ cur' = [cur EXCEPT ![t] = tok[t][i].old]
                 /\ tok' = [tok EXCEPT ![t][i].used = TRUE]
                 /\ last' = [op |-> "reset", t |-> t, owner |-> o, token |-> i, res |-> "ok"]
    /\ UNCHANGED <<alive, buf, disk, n>>

Captured(t) == cur[t] # None /\ cur[t] \notin Broken

Write(t, s) ==
    /\ t \in alive /\ n < MaxRec
    /\ n' = n + 1
    /\ IF Captured(t)
       THEN /\ buf' = [buf EXCEPT ![cur[t]] = Append(@, <<s, n + 1>>)]
            /\ UNCHANGED disk
       ELSE /\ disk' = [disk EXCEPT ![s] = Append(@, n + 1)]
            /\ UNCHANGED buf
    /\ last' = [op |-> "write", t |-> t, s |-> s, rec |-> n + 1, to |-> IF Captured(t) THEN cur[t] ELSE None]
    /\ UNCHANGED <<alive, cur, tok>>

OfStream(q, s) == SelectSeq(q, LAMBDA p : p[1] = s)
Recs(q) == [k \in 1..Len(q) |-> q[k][2]]

\* flush(mux.dump()) called by thread t - whatever t's own capture is
Flush(t, m) ==
    /\ t \in alive /\ buf[m] # <<>>
    /\ TotalLen(disk, Streams, 2 * MaxRec + 1) <= MaxRec       \* bound: flushing twice duplicates (as designed)
    /\ disk' = [s \in Streams |-> disk[s] \o Recs(OfStream(buf[m], s))]
    /\ last' = [op |-> "flush", t |-> t, m |-> m]
    /\ UNCHANGED <<alive, cur, tok, buf, n>>

Clear(m) ==
    /\ buf[m] # <<>>
    /\ buf' = [buf EXCEPT ![m] = <<>>]
    /\ last' = [op |-> "clear", m |-> m]
    /\ UNCHANGED <<alive, cur, tok, disk, n>>

\* t starts u as a plain thread (empty context) or inside a copy of its context
Spawn(t, u, copy) ==
    /\ t \in alive /\ u \notin alive
    /\ alive' = alive \cup {u}
    /\ cur' = [cur EXCEPT ![u] = IF copy THEN cur[t] ELSE None]
    /\ last' = [op |-> "spawn", t |-> t, u |-> u, copy |-> copy]
    /\ UNCHANGED <<tok, buf, disk, n>>

Next == \/ \E t \in Threads, v \in Vals : SetMux(t, v)
        \/ \E t, o \in Threads, i \in 1..MaxTok : ResetMux(t, o, i)
        \/ \E t \in Threads, s \in Streams : Write(t, s)
        \/ \E t \in Threads, m \in Muxes : Flush(t, m)
        \/ \E m \in Muxes : Clear(m)
        \/ \E t, u \in Threads, c \in BOOLEAN : Spawn(t, u, c)

Spec == Init /\ [][Next]_vars

-----------------------------------------------------------------------------
IsPrefix(a, b) == Len(a) <= Len(b) /\ SubSeq(b, 1, Len(a)) = a
Increasing(q) == \A i, j \in 1..Len(q) : i < j => q[i] < q[j]

\* a record issued under a healthy capture reaches no file before a flush, and no other mux
CaptureIsolation == [][(last'.op = "write" /\ last'.to # None) =>
                          /\ disk' = disk
                          /\ \A m \in Muxes : m # last'.to => buf'[m] = buf[m]
                          /\ buf'[last'.to] = Append(buf[last'.to], <<last'.s, last'.rec>>)]_vars
\* without a (healthy) capture the record goes straight to its stream, and only there
PassThrough == [][(last'.op = "write" /\ last'.to = None) =>
                     /\ buf' = buf
                     /\ disk' = [disk EXCEPT ![last'.s] = Append(@, last'.rec)]]_vars
\* buffers keep call order
BufferInCallOrder == \A m \in Muxes : Increasing(Recs(buf[m]))
\* a flush appends the mux's records per stream in buffer order, and leaves the mux as it is
FlushInOrder == [][last'.op = "flush" =>
                     /\ buf' = buf
                     /\ \A s \in Streams : disk'[s] = disk[s] \o Recs(OfStream(buf[last'.m], s))]_vars
\* files only grow
DiskAppendOnly == [][\A s \in Streams : IsPrefix(disk[s], disk'[s])]_vars
\* one thread's set / reset never changes what another thread is captured by
ContextsAreSeparate == [][last'.op \in {"set", "reset"} => \A u \in Threads : u # last'.t => cur'[u] = cur[u]]_vars
\* a successful reset restores exactly the value its set replaced; a failed one changes nothing
ResetRestores == [][last'.op = "reset" =>
                      IF last'.res = "ok" THEN cur'[last'.t] = tok[last'.t][last'.token].old
                      ELSE cur' = cur /\ tok' = tok]_vars
\* a plain new thread is never captured by its parent's mux
NewThreadUncaptured == [][(last'.op = "spawn" /\ ~last'.copy) => cur'[last'.u] = None]_vars
\* nothing but write issues records, nothing but flush / uncaptured write touches the files
OnlyWritersTouchFiles == [][last'.op \in {"set", "reset", "clear", "spawn"} => disk' = disk /\ n' = n]_vars
TypeOK == /\ alive \subseteq Threads /\ \A t \in Threads : cur[t] \in Vals
          /\ \A t \in Threads \ alive : cur[t] = None /\ tok[t] = <<>>

View == <<alive, cur, tok, buf, disk, n>>
Emit == PrintT(<<"T", ToJson([pre |-> [alive |-> alive, cur |-> cur, tok |-> tok, buf |-> buf, disk |-> disk, n |-> n],
                              obs |-> last',
                              post |-> [alive |-> alive', cur |-> cur', tok |-> tok', buf |-> buf', disk |-> disk', n |-> n']])>>)
=============================================================================
