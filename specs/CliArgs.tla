------------------------------ MODULE CliArgs ------------------------------
(* Umbrella CLI routing and wrapper argument preparation (clematis.cli.main:main and
   clematis.cli._wrapper_common:prepare_wrapper_args), stated from docs/m8/cli.md and
   docs/m8/packaging_cli.md — extra X02, beyond the listed properties.

   Documented invariants: first-subcommand anchoring; top-level extras are prepended to the
   delegated argv in order; the umbrella-only flags --debug and --config/-c (with its value) are
   consumed and not forwarded; exactly one leading "--" immediately before the delegated args is
   stripped; -h/--help after the subcommand is intercepted (wrapper help, exit 0); without a
   subcommand the umbrella prints usage and returns 2.

   Tokens are integers (TLC cannot order strings); the harness maps them to the real spellings:
     1 SUB    a subcommand name            2 SUB2   another subcommand name
     3 DEBUG  --debug                      4 CFG    --config / -c
     5 SENT   --                           6 HELP   -h / --help
     7 FLAG   a dash option unknown to the umbrella (e.g. --dir)
     8 VAL    a positional value           9 JSON   --json      10 VERB  --verbose
   Wrapper preparation (second half): the wrapper strips one leading "--", lifts its own switches
   (--json, --table, --quiet, --verbose) and -h/--help out of the argv, keeps a passthrough flag
   together with its value, and forwards everything else in order.
   DEVIATION from the documentation, modelled as the code behaves and recorded in DESIGN.md §9.6:
   prepare_wrapper_args drops EVERY "--" token, not only one leading sentinel.                  *)
EXTENDS Integers, Sequences, FiniteSets, TLC, Json

CONSTANTS MaxLen, Tokens, PassFlag      \* PassFlag: TRUE = FLAG (7) is declared passthrough by the wrapper

SUB == 1  SUB2 == 2  DEBUG == 3  CFG == 4  SENT == 5  HELP == 6  FLAG == 7  VAL == 8  JSON == 9  VERB == 10
IsSub(t) == t \in {SUB, SUB2}
Dash(t) == t \in {DEBUG, CFG, SENT, HELP, FLAG, JSON, VERB}       \* spelled with a leading "-"

VARIABLES argv, out
vars == <<argv, out>>

SeqsUpTo(n) == UNION {[1..k -> Tokens] : k \in 0..n}

FirstSub(a) == IF \E i \in 1..Len(a) : IsSub(a[i])
               THEN CHOOSE i \in 1..Len(a) : IsSub(a[i]) /\ \A j \in 1..(i - 1) : ~IsSub(a[j])
               ELSE 0

\* Delegated arguments are sequences of POSITIONS in argv (so that equal tokens stay distinguishable).
\* preamble filter over positions i..hi: drop --debug; drop --config and its value (a following dash token is
\* NOT a value and is kept)
RECURSIVE Pre(_, _, _)
Pre(a, i, hi) ==
    IF i > hi THEN <<>>
    ELSE IF a[i] = DEBUG THEN Pre(a, i + 1, hi)
    ELSE IF a[i] = CFG THEN (IF i + 1 > hi THEN <<>>
                             ELSE IF Dash(a[i + 1]) THEN <<i + 1>> \o Pre(a, i + 2, hi)
                             ELSE Pre(a, i + 2, hi))
    ELSE <<i>> \o Pre(a, i + 1, hi)

Range(lo, hi) == [k \in 1..(IF hi >= lo THEN hi - lo + 1 ELSE 0) |-> lo + k - 1]

Route(a) ==
    LET idx == FirstSub(a) IN
    IF idx = 0 THEN [kind |-> "nosub", sub |-> 0, args |-> <<>>, debug |-> FALSE]
    ELSE IF \E i \in (idx + 1)..Len(a) : a[i] = HELP
         THEN [kind |-> "help", sub |-> a[idx], args |-> <<>>, debug |-> FALSE]
         ELSE [kind |-> "dispatch", sub |-> a[idx],
               args |-> Pre(a, 1, idx - 1) \o (IF idx + 1 <= Len(a) /\ a[idx + 1] = SENT THEN Range(idx + 2, Len(a)) ELSE Range(idx + 1, Len(a))),
               debug |-> \E i \in 1..(idx - 1) : a[i] = DEBUG]

\* wrapper preparation on the delegated args (r: positions, a: argv)
RECURSIVE Prep(_, _, _)
Prep(a, r, i) ==
    IF i > Len(r) THEN [argv |-> <<>>, json |-> FALSE, verbose |-> FALSE, help |-> FALSE]
    ELSE LET t == a[r[i]] IN
         IF t = SENT THEN Prep(a, r, i + 1)
         ELSE IF t = HELP THEN [Prep(a, r, i + 1) EXCEPT !.help = TRUE]
         ELSE IF PassFlag /\ t = FLAG
              THEN (IF i + 1 <= Len(r) /\ ~Dash(a[r[i + 1]])
                    THEN LET rest == Prep(a, r, i + 2) IN [rest EXCEPT !.argv = <<r[i], r[i + 1]>> \o rest.argv]
                    ELSE LET rest == Prep(a, r, i + 1) IN [rest EXCEPT !.argv = <<r[i]>> \o rest.argv])
         ELSE IF t = JSON THEN [Prep(a, r, i + 1) EXCEPT !.json = TRUE]
         ELSE IF t = VERB THEN [Prep(a, r, i + 1) EXCEPT !.verbose = TRUE]
         ELSE LET rest == Prep(a, r, i + 1) IN [rest EXCEPT !.argv = <<r[i]>> \o rest.argv]

Init == /\ argv \in SeqsUpTo(MaxLen)
        /\ out = LET r == Route(argv) IN [route |-> r, prep |-> Prep(argv, r.args, 1)]
Next == FALSE
Spec == Init /\ [][Next]_vars

\* documented invariants as clauses over the enumerated table
Anchoring == out.route.kind # "nosub" => out.route.sub = argv[FirstSub(argv)]
\* (premise: every --config before the subcommand is followed by a value; a dash token after it is "user error" and kept)
WellFormedCfg == \A i \in 1..(FirstSub(argv) - 1) : argv[i] = CFG => (i + 1 < FirstSub(argv) /\ ~Dash(argv[i + 1]))
UmbrellaFlagsNotForwarded ==
    (out.route.kind = "dispatch" /\ WellFormedCfg) =>
        \A i \in 1..Len(out.route.args) : argv[out.route.args[i]] \in {DEBUG, CFG} => out.route.args[i] > FirstSub(argv)
OrderPreserved ==      \* delegated args keep the order of argv and never contain the subcommand token itself
    out.route.kind = "dispatch" =>
        /\ \A i \in 1..(Len(out.route.args) - 1) : out.route.args[i] < out.route.args[i + 1]
        /\ \A i \in 1..Len(out.route.args) : out.route.args[i] # FirstSub(argv)
ExactlyOneLeadingSentinelStripped ==
    out.route.kind = "dispatch" =>
        LET idx == FirstSub(argv)
            after == {p \in (idx + 1)..Len(argv) : \E i \in 1..Len(out.route.args) : out.route.args[i] = p}
        IN after = (IF idx + 1 <= Len(argv) /\ argv[idx + 1] = SENT THEN (idx + 2)..Len(argv) ELSE (idx + 1)..Len(argv))
WrapperLiftsItsSwitches == \A i \in 1..Len(out.prep.argv) : argv[out.prep.argv[i]] \notin {HELP, JSON, VERB, SENT}

EmitCase == PrintT(<<"T", ToJson([argv |-> argv, out |-> out])>>)
=============================================================================
