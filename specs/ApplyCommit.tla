----------------------------- MODULE ApplyCommit -----------------------------
(* Apply / persist step of a committed turn (clematis.engine.apply.apply_changes and the kill-switch
   branch of run_turn), C04.  Per turn the environment chooses: kill switch, the approved deltas (a
   subset of Deltas, always handed over in canonical = increasing order), whether the store's batch
   call raises, and which single-delta calls raise.  The store is all-or-nothing per call.

     committed turn:  BatchCall(approved) ; on failure SingleCall(d) for each d in order (failures skipped)
                      ; version := version + 1 ; if bust: invalidate the configured namespaces
                      ; snapshot iff turn % Cadence = 0
     killed turn:     nothing (no store call, no version change, no snapshot, no t4/apply record)     *)
EXTENDS Integers, Sequences, FiniteSets, TLC, Json

CONSTANTS Deltas, NTurns, Start, Cadence, Bust, Namespaces, AllNamespaces,
          Reports      \* shapes of what a successful store call returns: counts | none | empty | edits_none

VARIABLES turn, version, applied, snaps, h
vars == <<turn, version, applied, snaps, h>>

SortedSeq(S) == CHOOSE s \in [1..Cardinality(S) -> S] : \A i, j \in 1..Cardinality(S) : i < j => s[i] < s[j]

Init == /\ turn = Start /\ version = 0 /\ applied = [d \in Deltas |-> 0] /\ snaps = {} /\ h = <<>>

Killed == /\ h' = Append(h, [turn |-> turn, kill |-> TRUE, approved |-> <<>>, batch_fails |-> FALSE, single_fails |-> {}, report |-> "counts",
                              calls |-> <<>>, version |-> version, snapshot |-> FALSE, invalidated |-> 0, records |-> FALSE])
          /\ turn' = turn + 1 /\ UNCHANGED <<version, applied, snaps>>

Committed(A, bf, sf, rep) ==
    LET seq == SortedSeq(A)
        batch == <<[kind |-> "batch", ids |-> seq, ok |-> ~bf]>>
        singles == IF bf THEN [i \in 1..Len(seq) |-> [kind |-> "single", ids |-> <<seq[i]>>, ok |-> seq[i] \notin sf]] ELSE <<>>
        okset == IF bf THEN A \ sf ELSE A
        snap == (turn % Cadence) = 0
        inval == IF Bust THEN Cardinality(Namespaces) ELSE 0     \* one live entry per namespace before the apply
    IN /\ applied' = [d \in Deltas |-> applied[d] + (IF d \in okset THEN 1 ELSE 0)]
       /\ version' = version + 1
       /\ snaps' = IF snap THEN snaps \cup {turn} ELSE snaps
       /\ h' = Append(h, [turn |-> turn, kill |-> FALSE, approved |-> seq, batch_fails |-> bf, single_fails |-> sf, report |-> rep,
                          calls |-> batch \o singles, version |-> version + 1, snapshot |-> snap,
                          invalidated |-> inval, records |-> TRUE])
       /\ turn' = turn + 1

Next == /\ Len(h) < NTurns
        /\ \/ Killed
           \/ \E A \in SUBSET Deltas, rep \in Reports : Committed(A, FALSE, {}, rep)
           \/ \E A \in SUBSET Deltas, rep \in Reports : \E sf \in SUBSET A : Committed(A, TRUE, sf, rep)
Spec == Init /\ [][Next]_vars

-----------------------------------------------------------------------------
Committeds == {i \in 1..Len(h) : ~h[i].kill}
VersionPlusOne == version = Cardinality(Committeds)
SnapshotCadence == snaps = {h[i].turn : i \in {j \in Committeds : (h[j].turn % Cadence) = 0}}
\* per turn: a delta reaches the store in at most one successful call
OkCount(i, d) == Cardinality({c \in 1..Len(h[i].calls) : h[i].calls[c].ok /\ \E p \in 1..Len(h[i].calls[c].ids) : h[i].calls[c].ids[p] = d})
AtMostOnce == \A i \in 1..Len(h), d \in Deltas : OkCount(i, d) <= 1
FallbackOnlyOnBatchFailure == \A i \in 1..Len(h) : Len(h[i].calls) > 1 => ~h[i].calls[1].ok
HandOffExact == \A i \in Committeds : h[i].calls[1].kind = "batch" /\ h[i].calls[1].ids = h[i].approved
KillSwitchInert == \A i \in 1..Len(h) : h[i].kill => (h[i].calls = <<>> /\ ~h[i].snapshot /\ ~h[i].records
                                                     /\ h[i].version = (IF i = 1 THEN 0 ELSE h[i - 1].version))

EmitDone == (Len(h) = NTurns) => PrintT(<<"T", ToJson([h |-> h])>>)
=============================================================================
