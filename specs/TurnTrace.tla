------------------------------ MODULE TurnTrace ------------------------------
(* C->S for the orchestrator: sessions recorded from the real run_turn (one event per turn: the inputs
   the harness applied, the record streams emitted in order, version delta, reflection entries written,
   snapshot written) are validated against Turn.tla's functional form of the pipeline.  Per event:
     RecordSequence    log = ExpectedLog(inp, stash)
     VersionPlusOne    version advances by 1 iff an apply record was emitted (kill switch / yield: 0)
     SnapshotCadence   a snapshot was written iff the turn committed and its turn id is a multiple of the cadence (1 unless the event says otherwise)
     EntriesWithinOps / NothingWhenClosed / NoWriteOnError   on the number of reflection entries written   *)
EXTENDS Turn, IOUtils, TLCExt

Traces == ndJsonDeserialize(IOEnv.TRACE_FILE)
VARIABLES tid, l, tstash
tvars == <<tid, l, tstash, vars>>

HasApply(lg) == \E p \in 1..Len(lg) : lg[p] = "apply"
Inp(e) == [sched |-> e.inp.sched, yield_at |-> e.inp.yield_at, graph |-> e.inp.graph, maint |-> e.inp.maint,
           allow_refl |-> e.inp.allow_refl, plan_refl |-> e.inp.plan_refl, kill |-> e.inp.kill, dry |-> e.inp.dry,
           reuse |-> e.inp.reuse, refl_out |-> e.inp.refl_out, ops_cap |-> e.inp.ops_cap,
           faults |-> {e.inp.faults[p] : p \in 1..Len(e.inp.faults)}]
RunsOk(i) == i.allow_refl /\ i.plan_refl /\ ~i.dry /\ i.refl_out = "ok" /\ "refl_compute" \notin i.faults
Reaches(lg) == \E p \in 1..Len(lg) : lg[p] = "health"

\* snapshot cadence: events may carry the configured cadence and the turn id (documented rule: a committed turn writes a
\* snapshot when turn id mod cadence = 0); events without these fields are cadence-1 sessions
SnapDue(e) == IF "cad" \in DOMAIN e THEN (e.turn % e.cad) = 0 ELSE TRUE

Clause(e) ==
    LET i == Inp(e) IN
    IF e.log # ExpectedLog(i, tstash) THEN "RecordSequence"
    ELSE IF e.dver # (IF HasApply(e.log) THEN 1 ELSE 0) THEN "VersionPlusOne"
    ELSE IF e.snap # (HasApply(e.log) /\ SnapDue(e)) THEN "SnapshotCadence"
    ELSE IF e.refl_new > i.ops_cap THEN "EntriesWithinOps"
    ELSE IF e.refl_new > 0 /\ ~(RunsOk(i) /\ Reaches(e.log)) THEN "NothingWhenClosed"
    ELSE IF e.refl_new > 1 THEN "EntriesWithinOps"
    ELSE ""

TInit == TLCSet(1, 0) /\ tid = 1 /\ l = 1 /\ tstash = FALSE /\ Init
NextTrace == TLCSet(1, tid) /\ tid' = tid + 1 /\ l' = 1 /\ tstash' = FALSE
TNext == /\ tid <= Len(Traces)
         /\ UNCHANGED vars
         /\ LET ev == Traces[tid].ev IN
            IF l > Len(ev) THEN PrintT(<<"V", Traces[tid].tid, "ok", l - 1>>) /\ NextTrace
            ELSE LET e == ev[l] c == Clause(e) i == Inp(e) IN
                 IF c # "" THEN PrintT(<<"V", Traces[tid].tid, c, l>>) /\ NextTrace
                 ELSE /\ l' = l + 1 /\ tid' = tid
                      /\ tstash' = IF Reaches(e.log)
                                   THEN (IF i.allow_refl /\ i.plan_refl /\ ~i.dry THEN TRUE
                                         ELSE (IF i.reuse /\ ~StashCleared THEN tstash ELSE FALSE))
                                   ELSE (IF i.reuse /\ ~StashCleared THEN tstash ELSE FALSE)
TraceSpec == TInit /\ [][TNext]_tvars
Done == PrintT(<<"V", 0, "done", TLCGet(1)>>)
=============================================================================
