------------------------------ MODULE Paths ------------------------------
(* Where the logs and the snapshots live (clematis.io.paths: logs_dir, snapshots_dir, temp_root), stated from
   the three docstrings, README.md ("CLEMATIS_LOG_DIR / CLEMATIS_LOGS_DIR override the logs output directory.
   If both are set, CLEMATIS_LOG_DIR wins") and docs/m9/overview.md ("honors CLEMATIS_LOG_DIR first, then the
   legacy CLEMATIS_LOGS_DIR, falling back to .logs and creating the directory on demand").  Extra X16 (a),
   beyond the listed properties.

   One decision per case (enumerate-inputs pattern, Next == FALSE).  A case is the function called and what the
   environment looks like:
     fn       "logs" | "snaps" | "temp"
     primary  the primary variable   (CLEMATIS_LOG_DIR  / CLEMATIS_SNAPSHOT_DIR)
     legacy   the legacy variable    (CLEMATIS_LOGS_DIR / CLEMATIS_SNAPSHOTS_DIR)
              each  "unset" | "empty" (set to "")  | "dir" (names an existing directory)
                    "new" (does not exist, the parent does) | "deep" (two missing levels) | "file" (names a regular file)
     dflt     the default location (<cwd>/.logs  /  <repo root>/.data/snapshots):
              "absent" | "present" | "blocked" (a regular file of that name is in the way)
     tmpvar   CLEMATIS_TMP: "unset" | "empty" | "set"
   Result: sel (which location is returned: primary / legacy / cwd / repo / tmpvar (= $CLEMATIS_TMP/clematis/<kind>) /
   systmp (= <system temp>/clematis/<kind>);  for temp_root the base itself), created (the call had to create the
   directory), raised (the call raises instead of returning).

   Rules: a variable that is set to a non-empty value wins outright, primary before legacy; an empty value counts as
   not given; logs_dir creates <cwd>/.logs on demand, snapshots_dir uses the repository location only if it
   already exists; the temp location is the last resort only; every returned logs / snapshots directory exists;
   temp_root creates nothing.  A variable that names a regular file is an operator error: the call raises, it does
   not fall through silently to another location.

   DEVIATION (as built, modelled): README.md and docs/m9/overview.md give the logs default as "<repo>/.logs"; the
   code (and its docstring) uses ".logs" under the current working directory.  The spec follows the code; the
   harness runs with cwd different from the repository root so that the two readings are told apart.          *)
EXTENDS Integers, Sequences, FiniteSets, TLC, Json

VARIABLES inp, out
vars == <<inp, out>>

Fns == {"logs", "snaps", "temp"}
VarState == {"unset", "empty", "dir", "new", "deep", "file"}
DfltState == {"absent", "present", "blocked"}
TmpState == {"unset", "empty", "set"}

Inputs == {[fn |-> f, primary |-> p, legacy |-> l, dflt |-> d, tmpvar |-> t] :
           f \in Fns, p \in VarState, l \in VarState, d \in DfltState, t \in TmpState}
\* temp_root looks at CLEMATIS_TMP only
Canonical(i) == i.fn = "temp" => (i.primary = "unset" /\ i.legacy = "unset" /\ i.dflt = "absent")

Given(s) == s \notin {"unset", "empty"}
TmpSel(t) == IF t = "set" THEN "tmpvar" ELSE "systmp"

FromVar(which, s) ==
    IF s = "file" THEN [sel |-> which, created |-> FALSE, raised |-> TRUE]
    ELSE [sel |-> which, created |-> s \in {"new", "deep"}, raised |-> FALSE]

Fallback(i) ==
    IF i.fn = "logs"
    THEN (IF i.dflt = "blocked" THEN [sel |-> TmpSel(i.tmpvar), created |-> TRUE, raised |-> FALSE]
          ELSE [sel |-> "cwd", created |-> i.dflt = "absent", raised |-> FALSE])
    ELSE (IF i.dflt = "present" THEN [sel |-> "repo", created |-> FALSE, raised |-> FALSE]
          ELSE [sel |-> TmpSel(i.tmpvar), created |-> TRUE, raised |-> FALSE])

Decide(i) ==
    IF i.fn = "temp" THEN [sel |-> TmpSel(i.tmpvar), created |-> FALSE, raised |-> FALSE]
    ELSE IF Given(i.primary) THEN FromVar("primary", i.primary)
    ELSE IF Given(i.legacy) THEN FromVar("legacy", i.legacy)
    ELSE Fallback(i)

Init == /\ inp \in {i \in Inputs : Canonical(i)}
        /\ out = Decide(inp)
Next == FALSE
Spec == Init /\ [][Next]_vars

-----------------------------------------------------------------------------
Unempty(s) == IF s = "empty" THEN "unset" ELSE s
\* clauses
PrimaryWins == (inp.fn # "temp" /\ Given(inp.primary)) => out.sel = "primary"
LegacyOnlyWithoutPrimary == out.sel = "legacy" <=> (inp.fn # "temp" /\ ~Given(inp.primary) /\ Given(inp.legacy))
EmptyIsUnset == Decide([inp EXCEPT !.primary = Unempty(@), !.legacy = Unempty(@), !.tmpvar = Unempty(@)]) = out
TempIsLastResort ==
    inp.fn # "temp" =>
        (out.sel \in {"tmpvar", "systmp"} <=>
            /\ ~Given(inp.primary) /\ ~Given(inp.legacy)
            /\ (IF inp.fn = "logs" THEN inp.dflt = "blocked" ELSE inp.dflt # "present"))
TmpVarRulesTemp == out.sel = "tmpvar" => inp.tmpvar = "set"
RaisesOnlyOnFileInVariable ==
    out.raised <=> /\ inp.fn # "temp"
                   /\ \/ inp.primary = "file"
                      \/ (~Given(inp.primary) /\ inp.legacy = "file")
CreatesOnDemandOnly ==
    /\ inp.fn = "temp" => ~out.created
    /\ out.raised => ~out.created
    /\ (out.sel \in {"primary", "legacy"} /\ out.created) => (IF out.sel = "primary" THEN inp.primary ELSE inp.legacy) \in {"new", "deep"}
    /\ out.sel = "repo" => ~out.created            \* the repository location is used only if it already exists
    /\ out.sel = "cwd" => (out.created <=> inp.dflt = "absent")
\* the two directory functions read disjoint variables: nothing but the result depends on fn beyond the default rule
SameVariableRuleForBoth ==
    (inp.fn # "temp" /\ (Given(inp.primary) \/ Given(inp.legacy))) =>
        Decide([inp EXCEPT !.fn = "logs"]) = Decide([inp EXCEPT !.fn = "snaps"])

EmitCase == PrintT(<<"T", ToJson([inp |-> inp, out |-> out])>>)
=============================================================================
