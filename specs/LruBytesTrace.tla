--------------------------- MODULE LruBytesTrace ---------------------------
(* Batch trace validation (C->S) for LruBytes: executions recorded from the real LRUBytes — driven
   directly, or through ThreadSafeBytesCache by several real threads with an instrumented lock —
   are replayed against the functional core of LruBytes.  One trace per NDJSON line:
     [tid, ev: <<event>>]   event = observation record of LruBytes (op, args, results) plus, for
     wrapper traces, th (thread) and lock events  [op |-> "acq"/"rel", th |-> t].
   Verdicts are total: the first failing clause of a trace is printed and the next trace starts. *)
EXTENDS LruBytes, IOUtils, TLCExt

Traces == ndJsonDeserialize(IOEnv.TRACE_FILE)

VARIABLES tid, l, holder, depth
tvars == <<q, last, tid, l, holder, depth>>

Has(e, f) == f \in DOMAIN e

StepF(e) ==
    CASE e.op = "put"      -> PutF(q, e.k, e.v, e.c)
      [] e.op = "get"      -> GetF(q, e.k)
      [] e.op = "contains" -> ContainsF(q, e.k)
      [] e.op = "clear"    -> ClearF(q)
      [] OTHER             -> [q |-> q, obs |-> [op |-> e.op]]

ObsOK(o, e) ==
    CASE e.op = "put"      -> o.evn = e.evn /\ o.evb = e.evb
      [] e.op = "get"      -> o.hit = e.hit /\ (e.hit => o.v = e.v)
      [] e.op = "contains" -> o.r = e.r
      [] e.op = "items"    -> e.ks = [i \in 1..Len(q) |-> q[i].k]   \* a snapshot of the cache as it is now
      [] OTHER             -> TRUE

InvOK(s) == /\ (MaxE = 0 \/ Len(s) <= MaxE)
            /\ (MaxB = 0 \/ SumCost(s) <= MaxB)
            /\ Cardinality(KeysOf(s)) = Len(s)

FinalOK(e) == /\ Len(e.items) = Len(q)
              /\ \A i \in 1..Len(q) : e.items[i][1] = q[i].k /\ e.items[i][2] = q[i].v
              /\ e.bytes = SumCost(q)
              /\ e.entries = Len(q)

\* first failing clause for event e in the current state ("" = accepted)
Clause(e) ==
    IF e.op = "acq" THEN (IF holder \in {"", e.th} THEN "" ELSE "MutualExclusion")
    ELSE IF e.op = "rel" THEN (IF holder = e.th /\ depth > 0 THEN "" ELSE "MutualExclusion")
    ELSE IF e.op = "final" THEN (IF FinalOK(e) THEN "" ELSE "NoLostUpdate")
    ELSE IF Has(e, "th") /\ holder # e.th THEN "MutualExclusion"
    ELSE LET r == StepF(e) IN
         IF ~ObsOK(r.obs, e) THEN "SerialEquivalent"
         ELSE IF ~InvOK(r.q) THEN "WithinCaps"
         ELSE ""

TInit == TLCSet(1, 0) /\ q = <<>> /\ last = [op |-> "init"] /\ tid = 1 /\ l = 1 /\ holder = "" /\ depth = 0

NextTrace == /\ TLCSet(1, tid) /\ tid' = tid + 1 /\ l' = 1 /\ q' = <<>> /\ last' = [op |-> "init"]
             /\ holder' = "" /\ depth' = 0

TNext ==
    /\ tid <= Len(Traces)
    /\ LET ev == Traces[tid].ev IN
       IF l > Len(ev)
       THEN PrintT(<<"V", Traces[tid].tid, "ok", l - 1>>) /\ NextTrace
       ELSE LET e == ev[l] c == Clause(e) IN
            IF c # ""
            THEN PrintT(<<"V", Traces[tid].tid, c, l>>) /\ NextTrace
            ELSE /\ l' = l + 1 /\ tid' = tid
                 /\ IF e.op = "acq" THEN holder' = e.th /\ depth' = depth + 1 /\ UNCHANGED <<q, last>>
                    ELSE IF e.op = "rel"
                    THEN depth' = depth - 1 /\ holder' = (IF depth = 1 THEN "" ELSE holder) /\ UNCHANGED <<q, last>>
                    ELSE IF e.op = "final" THEN UNCHANGED <<q, last, holder, depth>>
                    ELSE Do(StepF(e)) /\ UNCHANGED <<holder, depth>>

TraceSpec == TInit /\ [][TNext]_tvars
Done == PrintT(<<"V", 0, "done", TLCGet(1)>>)
=============================================================================
