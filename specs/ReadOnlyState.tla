--------------------------- MODULE ReadOnlyState ---------------------------
(* Read-only state snapshot for the parallel compute phase — extra X08, beyond the listed properties.
   clematis/engine/stages/state_clone.py : FrozenDict, FrozenList, freeze, ReadOnlyState, readonly_snapshot
   clematis/engine/orchestrator/parallel.py : _make_readonly_snapshot / _run_turn_compute hand the view to the
   per-agent compute; the commit phase alone writes the live state.

   Documented design goals (module docstring): "Shallow structural freezing: top-level and nested mappings/lists
   are immutable.  Identity for heavy objects is preserved to avoid copies.  Transparent attribute access.
   Zero behaviour change when unused."  freeze(): "Dict/Mapping -> FrozenDict with values frozen;
   List/Tuple/Sequence -> FrozenList; SimpleNamespace -> FrozenDict of its __dict__; other objects returned
   as-is (identity preserved)".  ReadOnlyState: "attributes ... are lazily looked up and ... frozen on first
   access.  Attribute assignment is blocked."  readonly_snapshot: "This is *not* a deep copy".

   THE LIVE WORLD is a heap of objects (ids 1..Len(heap); id 1 is the state object itself):
     kind "root"  the state object (attributes -> objects)          kind "map"   a dict / Mapping
     kind "ns"    a SimpleNamespace                                 kind "list"  a list
     kind "leaf"  any other object ("heavy object"); ver counts its in-place mutations
   ch is the ordered sequence of (label, child id): iteration order of a mapping, positions of a list.

   THE VIEW is  cache : attribute -> frozen value, a frozen value being a tree of
     fd   FrozenDict (made from the live object `id`, a map or a namespace), children = its items in order
     fl   FrozenList (made from the live list `id`)
     ref  the live object `id` ITSELF (shared by identity, never copied)

   WHAT IS PROMISED AND WHERE IT ENDS (the boundary, stated once):
     P1  every fd / fl node and the view object itself reject every structural mutation (TypeError for the
         operator forms  x[k]=v, del x[k], +=, *=, |= ; AttributeError for absent mutator methods and for
         attribute assignment / deletion) and a rejected attempt changes neither the view nor the live world.
     P2  freezing recurses through MAPPING VALUES: from an attribute value every container reached through
         mapping values only is frozen (PromisedDepth).  A list / tuple is frozen as a shell: its positions are
         fixed, but its ELEMENTS are the live objects (freeze: "List/Tuple/Sequence -> FrozenList", nothing about
         elements).  A namespace likewise: "FrozenDict of its __dict__", its values are the live objects.
         Below such a shell the view hands out live containers; mutating them through the view succeeds and IS a
         mutation of the live world.  [as implemented: DeepList = DeepNs = FALSE.  The headline of the module
         ("nested mappings/lists are immutable", "Recursively wrap") reads as DeepList = DeepNs = TRUE; the
         harness probes the code once and runs the model with the booleans it finds, so a repair that freezes
         list elements / namespace values conforms as well.  P1, P3, P4 hold for either choice.]
     P3  a frozen value never changes once it exists (CapturedValueNeverChanges): later structural changes of
         the live containers (set / delete key, append, pop, reverse, re-binding an attribute) are not visible in
         the frozen region; what a ref denotes is the live object, so in-place mutation of a leaf and anything
         below a shell boundary stays visible (by design: no copies).
         [as implemented] the snapshot is LAZY: Snapshot only creates the empty cache; an attribute is frozen at
         its FIRST READ through the view (also when it is only traversed by a failed mutation attempt).  Until
         then the view shows the live value of that moment: live changes made after Snapshot but before the
         first read ARE visible, an attribute added later is readable, one deleted before its first read raises
         AttributeError, one deleted after it stays readable.
     P4  leaves are shared: the object read through the view `is` the live object (LeafIdentityPreserved); reads
         and Snapshot never touch the live world (ReadsDoNotTouchLive); a fresh freeze mirrors the live keys,
         order and length (FreezeMirrorsLive).
     [as implemented] view["attr"] is a TypeError (the facade offers attribute access only); freeze(x) of a frozen
     x is x itself; FrozenDict is unhashable and equal to any mapping with equal items, FrozenList compares and
     hashes by identity (bound in the harness, not modelled here).

   Histories: Snapshot, MutateLive(id, op), MutateView(attr, path, op), ReadView(attr), ReadSub(attr), bounded by
   MaxLen; every transition is emitted with its history and replayed on real objects.                        *)
EXTENDS Integers, Sequences, FiniteSets, TLC, Json

CONSTANTS Worlds,        \* initial worlds to explore (subset of 1..4, see World)
          MaxLen,        \* bound on the history length
          DeepList,      \* TRUE: list elements are frozen too   (as implemented: FALSE)
          DeepNs,        \* TRUE: namespace values are frozen too (as implemented: FALSE)
          Attrs, Keys,   \* attribute names of the state object / keys of mappings
          FreshKinds,    \* what a live write may put in: "leaf", "map" (an empty dict)
          FullOps        \* TRUE: every mutator spelling on fd / fl nodes; FALSE: a representative half

VARIABLES w, heap, snapped, cache, h, last
vars == <<w, heap, snapped, cache, h, last>>

ROOT == 1
N(kind, ch) == [kind |-> kind, ch |-> ch, ver |-> 0]
C(lab, id) == [lab |-> lab, id |-> id]

World(x) ==
    CASE x = 1 ->      \* mapping chain; leaf 4 is reachable twice; a top-level leaf
            << N("root", <<C("a", 2), C("b", 5)>>), N("map", <<C("k1", 3), C("k2", 4)>>), N("map", <<C("k1", 4)>>),
               N("leaf", <<>>), N("leaf", <<>>) >>
      [] x = 2 ->      \* a dict inside a list inside a dict (list boundary); a top-level list
            << N("root", <<C("a", 2), C("b", 6)>>), N("map", <<C("k1", 3)>>), N("list", <<C("", 4), C("", 5)>>),
               N("map", <<C("k1", 5)>>), N("leaf", <<>>), N("list", <<C("", 7)>>), N("leaf", <<>>) >>
      [] x = 3 ->      \* a top-level namespace; a namespace inside a dict with a list below it
            << N("root", <<C("a", 2), C("b", 5)>>), N("ns", <<C("k1", 3), C("k2", 4)>>), N("map", <<C("k1", 4)>>),
               N("leaf", <<>>), N("map", <<C("k1", 6)>>), N("ns", <<C("k1", 7)>>), N("list", <<C("", 8)>>), N("leaf", <<>>) >>
      [] OTHER ->      \* a list of lists and an empty dict
            << N("root", <<C("a", 2)>>), N("list", <<C("", 3), C("", 4)>>), N("list", <<C("", 5)>>), N("map", <<>>),
               N("leaf", <<>>) >>

Labels(n) == {n.ch[j].lab : j \in 1..Len(n.ch)}
ChildOf(n, lab) == n.ch[CHOOSE j \in 1..Len(n.ch) : n.ch[j].lab = lab].id

\* ---- frozen values ------------------------------------------------------------------------------------
Ref(i) == [t |-> "ref", id |-> i, ch |-> <<>>]

RECURSIVE Freeze(_, _)
Freeze(hp, i) ==
    LET n == hp[i] IN
    IF n.kind = "leaf" THEN Ref(i)
    ELSE IF n.kind = "map"
    THEN [t |-> "fd", id |-> i, ch |-> [j \in 1..Len(n.ch) |-> [lab |-> n.ch[j].lab, v |-> Freeze(hp, n.ch[j].id)]]]
    ELSE IF n.kind = "list"
    THEN [t |-> "fl", id |-> i, ch |-> [j \in 1..Len(n.ch) |-> [lab |-> "", v |-> IF DeepList THEN Freeze(hp, n.ch[j].id) ELSE Ref(n.ch[j].id)]]]
    ELSE [t |-> "fd", id |-> i, ch |-> [j \in 1..Len(n.ch) |-> [lab |-> n.ch[j].lab, v |-> IF DeepNs THEN Freeze(hp, n.ch[j].id) ELSE Ref(n.ch[j].id)]]]

Empty == [x \in {} |-> 0]
Present(hp, c) == Labels(hp[ROOT]) \cup DOMAIN c
ViewVal(hp, c, a) == IF a \in DOMAIN c THEN c[a] ELSE Freeze(hp, ChildOf(hp[ROOT], a))
Capture(hp, c, a) == IF a \in DOMAIN c THEN c
                     ELSE [x \in DOMAIN c \cup {a} |-> IF x = a THEN Freeze(hp, ChildOf(hp[ROOT], a)) ELSE c[x]]
\* everything a reader of the view can see right now (an attribute not read yet shows the live value of this moment)
ViewAll(hp, sn, c) == IF sn THEN [a \in Present(hp, c) |-> ViewVal(hp, c, a)] ELSE Empty

\* a path is a sequence of child positions; inside the frozen region it walks the frozen tree, below a ref the heap
RECURSIVE Walk(_, _, _)
Walk(hp, fv, p) == IF p = <<>> THEN fv
                   ELSE IF fv.t # "ref" THEN Walk(hp, fv.ch[Head(p)].v, Tail(p))
                   ELSE Walk(hp, Ref(hp[fv.id].ch[Head(p)].id), Tail(p))
RECURSIVE HPaths(_, _)
HPaths(hp, i) == {<<>>} \cup UNION {{<<j>> \o p : p \in HPaths(hp, hp[i].ch[j].id)} : j \in 1..Len(hp[i].ch)}
RECURSIVE VPaths(_, _)
VPaths(hp, fv) == IF fv.t = "ref" THEN HPaths(hp, fv.id)
                  ELSE {<<>>} \cup UNION {{<<j>> \o p : p \in VPaths(hp, fv.ch[j].v)} : j \in 1..Len(fv.ch)}
RECURSIVE ReachFrom(_, _)
ReachFrom(hp, i) == {i} \cup UNION {ReachFrom(hp, hp[i].ch[j].id) : j \in 1..Len(hp[i].ch)}

\* ---- operations -----------------------------------------------------------------------------------------
Op(a, attr, path, op, id, pos, key, fresh) ==
    [a |-> a, attr |-> attr, path |-> path, op |-> op, id |-> id, pos |-> pos, key |-> key, fresh |-> fresh]
SnapOp == Op("snap", "", <<>>, "", 0, 0, "", "leaf")

Fresh(kind) == IF kind = "leaf" THEN N("leaf", <<>>) ELSE N("map", <<>>)
RemoveAt(s, p) == [j \in 1..(Len(s) - 1) |-> IF j < p THEN s[j] ELSE s[j + 1]]
Rev(s) == [j \in 1..Len(s) |-> s[Len(s) + 1 - j]]

\* structural / in-place mutation of the live object o.id (a fresh object gets the next id)
LiveMut(hp, o) ==
    LET new == Len(hp) + 1 IN
    CASE o.op = "inplace" -> [heap |-> [hp EXCEPT ![o.id].ver = @ + 1], new |-> 0]
      [] o.op \in {"set_new", "append"} ->
            [heap |-> Append([hp EXCEPT ![o.id].ch = Append(@, C(o.key, new))], Fresh(o.fresh)), new |-> new]
      [] o.op = "set_old" ->        \* assignment to an existing key / index keeps its position
            [heap |-> Append([hp EXCEPT ![o.id].ch[o.pos].id = new], Fresh(o.fresh)), new |-> new]
      [] o.op = "del" -> [heap |-> [hp EXCEPT ![o.id].ch = RemoveAt(@, o.pos)], new |-> 0]
      [] o.op = "pop" -> [heap |-> [hp EXCEPT ![o.id].ch = RemoveAt(@, Len(@))], new |-> 0]
      [] OTHER -> [heap |-> [hp EXCEPT ![o.id].ch = Rev(@)], new |-> 0]          \* "reverse"

LiveOpsOn(hp, i, a, attr, path) ==
    LET n == hp[i]
        L == Len(n.ch) IN
    IF n.kind = "leaf" THEN {Op(a, attr, path, "inplace", i, 0, "", "leaf")}
    ELSE IF n.kind = "list"
    THEN {Op(a, attr, path, "append", i, 0, "", f) : f \in FreshKinds}
         \cup {Op(a, attr, path, "set_old", i, p, "", "leaf") : p \in 1..L}
         \cup (IF L > 0 THEN {Op(a, attr, path, "pop", i, 0, "", "leaf")} ELSE {})
         \cup (IF L > 1 THEN {Op(a, attr, path, "reverse", i, 0, "", "leaf")} ELSE {})
    ELSE LET unused == (IF n.kind = "root" THEN Attrs ELSE Keys) \ Labels(n) IN
         (IF unused # {} THEN {Op(a, attr, path, "set_new", i, 0, CHOOSE k \in unused : TRUE, f) : f \in FreshKinds} ELSE {})
         \cup {Op(a, attr, path, "set_old", i, p, n.ch[p].lab, "leaf") : p \in 1..L}
         \cup {Op(a, attr, path, "del", i, p, n.ch[p].lab, "leaf") : p \in 1..L}

\* mutator spellings tried on the frozen nodes (the harness maps each to the real call)
RoOps == {"setattr_old", "setattr_new", "delattr", "setitem", "delitem"}
FdOps == IF FullOps THEN {"setitem", "delitem", "update", "clear", "pop", "popitem", "setdefault", "ior", "setattr"}
         ELSE {"setitem", "delitem", "update", "pop", "setattr"}
FlOps == IF FullOps THEN {"setitem", "delitem", "append", "extend", "insert", "pop", "remove", "clear", "sort", "reverse", "iadd", "imul", "setattr"}
         ELSE {"setitem", "delitem", "append", "pop", "sort", "iadd", "setattr"}
ExcOf(op) == IF op \in {"setitem", "delitem", "ior", "iadd", "imul"} THEN "TypeError" ELSE "AttributeError"
Through == {"inplace", "set_new", "append", "set_old"}      \* what is tried on a live object reached through the view

ViewOpsAt(hp, c, a, p) ==
    LET node == Walk(hp, ViewVal(hp, c, a), p) IN
    IF node.t = "fd" THEN {Op("mview", a, p, o, 0, 0, "", "leaf") : o \in FdOps}
    ELSE IF node.t = "fl" THEN {Op("mview", a, p, o, 0, 0, "", "leaf") : o \in FlOps}
    ELSE {o \in LiveOpsOn(hp, node.id, "mview", a, p) : o.op \in Through /\ o.fresh = "leaf"}

Enabled(hp, sn, c) ==
    IF ~sn THEN {SnapOp}
    ELSE {SnapOp}
         \cup UNION {LiveOpsOn(hp, i, "mlive", "", <<>>) : i \in ReachFrom(hp, ROOT)}
         \cup {Op("mview", "", <<>>, o, 0, 0, "", "leaf") : o \in RoOps}
         \cup UNION {UNION {ViewOpsAt(hp, c, a, p) : p \in VPaths(hp, ViewVal(hp, c, a))} : a \in Present(hp, c)}
         \cup {Op("read", a, <<>>, "", 0, 0, "", "leaf") : a \in Attrs}
         \cup {Op("readsub", a, <<>>, "", 0, 0, "", "leaf") : a \in Attrs}

\* ---- functional core: one step ---------------------------------------------------------------------------
R(hp, sn, c, res, exc, node, new) == [heap |-> hp, snapped |-> sn, cache |-> c, res |-> res, exc |-> exc, node |-> node, new |-> new]

Step(hp, sn, c, o) ==
    CASE o.a = "snap" -> R(hp, TRUE, Empty, "ok", "", "ro", 0)                 \* lazy: nothing is frozen yet
      [] o.a = "mlive" -> LET r == LiveMut(hp, o) IN R(r.heap, sn, c, "ok", "", hp[o.id].kind, r.new)
      [] o.a = "read" -> IF o.attr \in Present(hp, c)
                         THEN LET c2 == Capture(hp, c, o.attr) IN R(hp, sn, c2, "ok", "", c2[o.attr].t, 0)
                         ELSE R(hp, sn, c, "raise", "AttributeError", "ro", 0)
      [] o.a = "readsub" -> R(hp, sn, c, "raise", "TypeError", "ro", 0)        \* view["attr"]: attribute access only
      [] OTHER ->        \* "mview"
            IF o.attr = "" THEN R(hp, sn, c, "raise", ExcOf(o.op), "ro", 0)
            ELSE LET c2 == Capture(hp, c, o.attr)          \* reaching the node reads the attribute
                     node == Walk(hp, c2[o.attr], o.path) IN
                 IF node.t # "ref" THEN R(hp, sn, c2, "raise", ExcOf(o.op), node.t, 0)
                 ELSE LET r == LiveMut(hp, o) IN R(r.heap, sn, c2, "ok", "", hp[node.id].kind, r.new)

Init == /\ w \in Worlds /\ heap = World(w) /\ snapped = FALSE /\ cache = Empty /\ h = <<>>
        /\ last = [op |-> SnapOp, res |-> "init", exc |-> "", node |-> "", new |-> 0]

\* (the bound is on the history itself: TLCGet("level") is only approximate with several TLC workers)
Next == /\ Len(h) < MaxLen
        /\ \E o \in Enabled(heap, snapped, cache) :
              LET r == Step(heap, snapped, cache, o) IN
              /\ heap' = r.heap /\ snapped' = r.snapped /\ cache' = r.cache
              /\ h' = Append(h, o)
              /\ last' = [op |-> o, res |-> r.res, exc |-> r.exc, node |-> r.node, new |-> r.new]
              /\ UNCHANGED w
Spec == Init /\ [][Next]_vars

\* ---- clauses ----------------------------------------------------------------------------------------------
FrozenKinds == {"ro", "fd", "fl"}
ViewRejectsEveryStructuralMutation ==
    [][(last'.op.a = "mview" /\ last'.node \in FrozenKinds) => (last'.res = "raise" /\ last'.exc \in {"TypeError", "AttributeError"})]_vars
FailedMutationChangesNothing ==
    [][last'.res = "raise" => (heap' = heap /\ snapped' = snapped /\ ViewAll(heap', snapped', cache') = ViewAll(heap, snapped, cache))]_vars
\* ViewStructureIsolatedFromLaterLiveStructuralChanges: once an attribute has been read, its frozen value (positions,
\* labels, which object every ref denotes) is fixed whatever happens to the live containers afterwards
CapturedValueNeverChanges ==
    [][last'.op.a # "snap" => \A a \in DOMAIN cache : a \in DOMAIN cache' /\ cache'[a] = cache[a]]_vars
ReadsDoNotTouchLive == [][last'.op.a \in {"snap", "read", "readsub"} => heap' = heap]_vars
\* a successful mutation through the view only ever hits a live object that the view shares by identity: a leaf,
\* or a container below a shell boundary; with both booleans TRUE no container is left
ThroughViewOnlySharedObjects ==
    [][(last'.op.a = "mview" /\ last'.res = "ok") =>
          (last'.node \in {"leaf", "map", "ns", "list"} /\ ((DeepList /\ DeepNs) => last'.node = "leaf"))]_vars

\* a fresh freeze mirrors the live structure: same labels, order and length, and every ref is the live object found at
\* that position (identity, no copies)
RECURSIVE Mirrors(_, _, _)
Mirrors(hp, i, fv) ==
    IF fv.t = "ref" THEN fv.id = i
    ELSE /\ fv.id = i /\ hp[i].kind \in (IF fv.t = "fd" THEN {"map", "ns"} ELSE {"list"})
         /\ Len(fv.ch) = Len(hp[i].ch)
         /\ \A j \in 1..Len(fv.ch) : fv.ch[j].lab = hp[i].ch[j].lab /\ Mirrors(hp, hp[i].ch[j].id, fv.ch[j].v)
FreezeMirrorsLive == \A a \in Labels(heap[ROOT]) : Mirrors(heap, ChildOf(heap[ROOT], a), Freeze(heap, ChildOf(heap[ROOT], a)))
LeafIdentityPreserved == FreezeMirrorsLive

\* the promised depth: along mapping values every container is frozen (a ref there is a leaf); below a list or
\* namespace shell nothing is promised
RECURSIVE MapChainFrozen(_, _)
MapChainFrozen(hp, fv) ==
    IF fv.t = "ref" THEN hp[fv.id].kind = "leaf"
    ELSE IF fv.t = "fd" /\ hp[fv.id].kind = "map" THEN \A j \in 1..Len(fv.ch) : MapChainFrozen(hp, fv.ch[j].v)
    ELSE TRUE
PromisedDepth == snapped => \A a \in Present(heap, cache) : MapChainFrozen(heap, ViewVal(heap, cache, a))
\* refs never dangle and the live world stays a forest of finite depth
WellFormed == /\ \A i \in 1..Len(heap) : \A j \in 1..Len(heap[i].ch) : heap[i].ch[j].id \in 1..Len(heap)
              /\ heap[ROOT].kind = "root"

View_ == <<w, heap, snapped, cache>>
Emit == PrintT(<<"T", ToJson([w |-> w, h |-> h, obs |-> last',
                              post |-> [heap |-> heap', snapped |-> snapped', cap |-> DOMAIN cache',
                                        view |-> ViewAll(heap', snapped', cache')]])>>)
=============================================================================
