------------------------------- MODULE NsCache -------------------------------
(* TTL + entry-bounded LRU namespaces (clematis.engine.cache: _NamespaceCache, LRUCache shim,
   CacheManager), from the documented contract (C15):
     - per namespace: at most Max entries, strict LRU eviction (oldest first);
     - recency moves on a get *hit* and on set; set refreshes the entry's timestamp;
     - an entry is expired iff Ttl > 0 and (injected clock - timestamp) > Ttl; expiry is observed
       on read (get / contains / items) and removes the entry; Ttl = 0 means "never expires";
     - Max = 0: nothing is ever retained (disabled);
     - invalidate(ns) / invalidate_all remove everything and report the count;
     - stats deltas: hit / miss / evicted counters.
   d[ns] is the sequence of entries oldest -> newest; an entry carries its *age* (clock minus
   timestamp), saturated at Ttl+1, which keeps the model finite under arbitrary clock advances. *)
EXTENDS Integers, Sequences, FiniteSets, TLC, Json

CONSTANTS NS, Keys, Vals, Max, Ttl, Ticks

VARIABLES d, last
vars == <<d, last>>

AgeCap == IF Ttl = 0 THEN 0 ELSE Ttl + 1
Entry(k, v, a) == [k |-> k, v |-> v, age |-> a]
KeysOf(s) == {s[i].k : i \in 1..Len(s)}
Without(s, k) == SelectSeq(s, LAMBDA e : e.k # k)
Lookup(s, k) == LET i == CHOOSE i \in 1..Len(s) : s[i].k = k IN s[i]
Expired(e) == Ttl > 0 /\ e.age > Ttl
Drop(s, n) == SubSeq(s, n + 1, Len(s))
Over(s) == IF Len(s) > Max THEN Len(s) - Max ELSE 0

Init == d = [n \in NS |-> <<>>] /\ last = [op |-> "init"]

\* Functional core (used by the actions below and by NsCacheTrace): [d |-> new map, obs |-> observation]
SetF(dd, n, k, v) ==
    LET s1 == Append(Without(dd[n], k), Entry(k, v, 0))
        ev == Over(s1)
    IN [d |-> [dd EXCEPT ![n] = Drop(s1, ev)],
        obs |-> [op |-> "set", ns |-> n, k |-> k, v |-> v, evicted |-> ev]]

GetF(dd, n, k) ==
    IF k \notin KeysOf(dd[n])
    THEN [d |-> dd, obs |-> [op |-> "get", ns |-> n, k |-> k, hit |-> FALSE, v |-> 0]]
    ELSE LET e == Lookup(dd[n], k) IN
         IF Expired(e)
         THEN [d |-> [dd EXCEPT ![n] = Without(dd[n], k)],
               obs |-> [op |-> "get", ns |-> n, k |-> k, hit |-> FALSE, v |-> 0]]
         ELSE [d |-> [dd EXCEPT ![n] = Append(Without(dd[n], k), e)],
               obs |-> [op |-> "get", ns |-> n, k |-> k, hit |-> TRUE, v |-> e.v]]

\* membership test of the LRUCache shim: prunes an expired entry, never touches recency
ContainsF(dd, n, k) ==
    IF k \notin KeysOf(dd[n])
    THEN [d |-> dd, obs |-> [op |-> "contains", ns |-> n, k |-> k, r |-> FALSE]]
    ELSE IF Expired(Lookup(dd[n], k))
         THEN [d |-> [dd EXCEPT ![n] = Without(dd[n], k)],
               obs |-> [op |-> "contains", ns |-> n, k |-> k, r |-> FALSE]]
         ELSE [d |-> dd, obs |-> [op |-> "contains", ns |-> n, k |-> k, r |-> TRUE]]

\* snapshot of live entries (LRUCache.items): prunes all expired entries, order unchanged
ItemsF(dd, n) ==
    LET live == SelectSeq(dd[n], LAMBDA e : ~Expired(e)) IN
    [d |-> [dd EXCEPT ![n] = live],
     obs |-> [op |-> "items", ns |-> n, ks |-> [i \in 1..Len(live) |-> live[i].k]]]

InvalidateF(dd, n) ==
    [d |-> [dd EXCEPT ![n] = <<>>], obs |-> [op |-> "invalidate", ns |-> n, removed |-> Len(dd[n])]]

RECURSIVE SumLen(_, _)
SumLen(f, S) == IF S = {} THEN 0 ELSE LET x == CHOOSE x \in S : TRUE IN Len(f[x]) + SumLen(f, S \ {x})

InvalidateAllF(dd) ==
    [d |-> [n \in NS |-> <<>>], obs |-> [op |-> "invalidate_all", removed |-> SumLen(dd, NS)]]

Min(a, b) == IF a < b THEN a ELSE b
TickF(dd, dt) ==
    [d |-> [n \in NS |-> [i \in 1..Len(dd[n]) |->
                 [dd[n][i] EXCEPT !.age = Min(AgeCap, dd[n][i].age + dt)]]],
     obs |-> [op |-> "tick", dt |-> dt]]

Do(r) == d' = r.d /\ last' = r.obs
Set(n, k, v) == Do(SetF(d, n, k, v))
Get(n, k) == Do(GetF(d, n, k))
Contains(n, k) == Do(ContainsF(d, n, k))
Items(n) == Do(ItemsF(d, n))
Invalidate(n) == Do(InvalidateF(d, n))
InvalidateAll == Do(InvalidateAllF(d))
Tick(dt) == Do(TickF(d, dt))

Next ==
    \/ \E n \in NS, k \in Keys, v \in Vals : Set(n, k, v)
    \/ \E n \in NS, k \in Keys : Get(n, k) \/ Contains(n, k)
    \/ \E n \in NS : Items(n) \/ Invalidate(n)
    \/ InvalidateAll
    \/ \E dt \in Ticks : Tick(dt)

Spec == Init /\ [][Next]_vars

-----------------------------------------------------------------------------
WithinEntries == \A n \in NS : Len(d[n]) <= Max
UniqueKeys == \A n \in NS : Cardinality(KeysOf(d[n])) = Len(d[n])
ZeroCapacityDisabled == Max = 0 => \A n \in NS : d[n] = <<>>
IsSuffix(s, t) == Len(s) <= Len(t) /\ s = SubSeq(t, Len(t) - Len(s) + 1, Len(t))
Proj(s) == [i \in 1..Len(s) |-> s[i].k]
\* strict LRU: a set evicts a prefix of the previous order (the key itself aside)
StrictLRU ==
    [][ last'.op = "set" =>
          IsSuffix(Proj(Without(d'[last'.ns], last'.k)), Proj(Without(d[last'.ns], last'.k))) ]_vars
\* a hit is never served for an entry older than the TTL
NoStaleHit ==
    [][ (last'.op = "get" /\ last'.hit) =>
          ~Expired(Lookup(d[last'.ns], last'.k)) ]_vars
\* other namespaces are never touched by a namespaced operation
NamespaceIsolation ==
    [][ (last'.op \in {"set", "get", "contains", "items", "invalidate"}) =>
          \A n \in NS \ {last'.ns} : d'[n] = d[n] ]_vars

View == d
Emit == PrintT(<<"T", ToJson([pre |-> d, post |-> d', obs |-> last'])>>)
=============================================================================
