-------------------------------- MODULE Gel --------------------------------
(* Graph Evolution Layer (clematis.engine.gel: observe_retrieval, tick, merge/split/promotion
   passes as sequenced by the orchestrator), stated from the documented rules (C18):
     observe : items with score >= coactivation_threshold (NaN never qualifies), listed by
               (-score, id), the first observe_top_k of them; unordered pairs in nested listing
               order, at most pair_cap_per_obs of them; every pair updates ONE edge kept under its
               canonical key (src <= dst): additive w+alpha, proportional w+alpha*(1-min(|w|,1)),
               then clamp to [clamp_min, clamp_max];
     tick    : every weight is multiplied by 2^(-dt/half_life); edges whose decayed magnitude is
               below the floor are removed, nothing else changes;
     merge / split passes only append records to meta.merges / meta.splits;
     promotion pass adds a concept node "c::<least member>" per cluster and attaches it to the
               members with attach_weight (rel "concept"); applying a promotion twice = once;
     gate    : with graph.enabled = false nothing is touched.
   Numbers are fixed-point integers, unit 1/D (D a power of two): weights, scores, alpha = 1/aden,
   clamp bounds, floor, thresholds.  A step whose exact result leaves the grid is not taken
   (`exact` flag), so that the implementation's double arithmetic is exact on every emitted case.
   Nodes are integers = ranks in the lexicographic order of the real ids: NLow base ids sort before
   every concept id "c::..", the other base ids after; concept ids sort like their base ids.     *)
EXTENDS GelCore, Json

CONSTANTS NN, NLow,          \* base nodes 1..NN, the first NLow of them sort before "c::"
          D,                 \* 1.0 on the grid
          Modes, AlphaDens, Clamps, Floors, Thresholds, TopKs, PairCaps, Maints,  \* config alphabets
          InitGraphs,        \* set of initial edge maps (e.g. loaded from a snapshot)
          InitGates,         \* initial positions of the graph.enabled gate
          ItemIds, Scores,   \* sequences: ids (ranks) and scores an item may carry
          MaxItems,
          Dts,               \* tick lengths in half-lives (factor 2^-n)
          Ops,               \* subset of {"observe","tick","merge","split","promote","gate","turn"}
          MaxDepth,
          CheckPerms         \* evaluate ObserveOrderInsensitive inside TLC (costly)

VARIABLES g,      \* [edges : canonical pair -> [w, rel], nodes : set of concept nodes, merges, splits]
          cfg, gate, last
vars == <<g, cfg, gate, last>>

NaNv == 3000000
PInf == 2000000
NInf == 0 - 2000000

BaseRank(i) == IF i <= NLow THEN i ELSE i + NN
Base == {BaseRank(i) : i \in 1..NN}
\* concept id of a cluster whose least member is b (a least member that is itself a concept node
\* would give "c::c::.." - outside the alphabet, mapped to a dummy and guarded by PromoInAlphabet)
ConceptOf(b) == IF b \in Base THEN NLow + (IF b <= NLow THEN b ELSE b - NN) ELSE 100 + b

-----------------------------------------------------------------------------
ScoreGE(s, thr) == s # NaNv /\ s >= thr

-----------------------------------------------------------------------------
(* update rule *)
Clamp(x, lo, hi) == IF x > hi THEN hi ELSE IF x < lo THEN lo ELSE x
IncOK(w, c) == c.mode = "additive" \/ (D - MinI(Abs(w), D)) % c.aden = 0
Inc(w, c) == IF c.mode = "additive" THEN D \div c.aden ELSE (D - MinI(Abs(w), D)) \div c.aden
Upd(w, c) == Clamp(w + Inc(w, c), c.lo, c.hi)

RECURSIVE ApplyKeys(_, _, _)
ApplyKeys(e, ks, c) ==
    IF ks = <<>> THEN [e |-> e, exact |-> TRUE]
    ELSE LET k == Head(ks)
             old == k \in DOMAIN e
             w0 == IF old THEN e[k].w ELSE 0
             rec == [w |-> Upd(w0, c), rel |-> IF old THEN e[k].rel ELSE "coact"]
             e1 == [x \in DOMAIN e \cup {k} |-> IF x = k THEN rec ELSE e[x]]
             r == ApplyKeys(e1, Tail(ks), c)
         IN [e |-> r.e, exact |-> IncOK(w0, c) /\ r.exact]

Gated(gr, o) == [g |-> gr, exact |-> TRUE, obs |-> o]

ObserveF(gr, c, on, items) ==
    IF ~on THEN Gated(gr, [op |-> "observe", gate |-> FALSE, items |-> items, used |-> <<>>, keys |-> <<>>])
    ELSE LET n == Len(items)
             Act(i) == ScoreGE(items[i][2], c.thr)
             Bef(i, j) == items[i][2] > items[j][2] \/ (items[i][2] = items[j][2] /\ items[i][1] < items[j][1])
             used == UsedOf(n, Act, Bef, c.topk)
             ps == PairSeq(Len(used), c.cap)
             keys == [r \in 1..Len(ps) |-> Canon(items[used[ps[r][1]]][1], items[used[ps[r][2]]][1])]
             r == ApplyKeys(gr.edges, keys, c)
         IN [g |-> [gr EXCEPT !.edges = r.e], exact |-> r.exact,
             obs |-> [op |-> "observe", gate |-> TRUE, items |-> items,
                      used |-> [i \in 1..Len(used) |-> items[used[i]][1]], keys |-> keys]]

TickF(gr, c, on, n) ==
    IF ~on THEN Gated(gr, [op |-> "tick", gate |-> FALSE, n |-> n, dropped |-> {}])
    ELSE LET p == Pow2(n)
             e == gr.edges
             dec == [k \in DOMAIN e |-> e[k].w \div p]
             keep == {k \in DOMAIN e : ~(Abs(dec[k]) < c.floor)}
         IN [g |-> [gr EXCEPT !.edges = [k \in keep |-> [e[k] EXCEPT !.w = dec[k]]]],
             exact |-> \A k \in DOMAIN e : e[k].w % p = 0,
             obs |-> [op |-> "tick", gate |-> TRUE, n |-> n, dropped |-> (DOMAIN e) \ keep]]

-----------------------------------------------------------------------------
(* graph utilities for the maintenance passes *)
NodesOfKeys(P) == UNION {{k[1], k[2]} : k \in P}
Ball(S, P) == S \cup {x \in NodesOfKeys(P) : \E k \in P : (k[1] \in S /\ k[2] = x) \/ (k[2] \in S /\ k[1] = x)}
RECURSIVE Reach(_, _)
Reach(S, P) == LET S2 == Ball(S, P) IN IF S2 = S THEN S ELSE Reach(S2, P)
Comps(P) == {Reach({v}, P) : v \in NodesOfKeys(P)}
RECURSIVE Ecc(_, _, _, _)
Ecc(S, P, C, n) == IF C \subseteq S THEN n ELSE Ecc(Ball(S, P), P, C, n + 1)
Diam(C, P) == MaxOf({Ecc({v}, P, C, 0) : v \in C})
Inside(e, C) == {k \in DOMAIN e : k[1] \in C /\ k[2] \in C}

\* merge candidates: components of the strong-edge graph (|w| >= minw), size >= minsize,
\* diameter <= maxdiam, average |w| over all edges inside; listed by (avg desc, size desc, ids)
MergeCands(e, m) ==
    LET P == {k \in DOMAIN e : Abs(e[k].w) >= m.minw}
        C0 == {C \in Comps(P) : Cardinality(C) >= m.minsize}
        mk(C) == LET d == Diam(C, P) ins == Inside(e, C) IN
                 [nodes |-> C, size |-> Cardinality(C), diam |-> d, cnt |-> Cardinality(ins),
                  sumw |-> SumS([k \in ins |-> Abs(e[k].w)], ins)]
        S == {x \in {mk(C) : C \in C0} : x.diam <= m.maxdiam}
        Lt(x, y) == \/ x.sumw * y.cnt > y.sumw * x.cnt
                    \/ /\ x.sumw * y.cnt = y.sumw * x.cnt
                       /\ \/ x.size > y.size
                          \/ (x.size = y.size /\ MinOf(x.nodes) < MinOf(y.nodes))
    IN SortBy(S, Lt)
\* the documentation lists "size ASC", the module "size DESC": cases that hinge on it are flagged
MergeAmbiguous(s) == \E i, j \in 1..Len(s) : i # j /\ s[i].sumw * s[j].cnt = s[j].sumw * s[i].cnt /\ s[i].size # s[j].size

MergeF(gr, c, on) ==
    IF ~on THEN Gated(gr, [op |-> "merge", gate |-> FALSE, n |-> 0, amb |-> FALSE])
    ELSE LET cs == MergeCands(gr.edges, c.mt)
             ap == Take(cs, c.mt.mcap)
         IN [g |-> [gr EXCEPT !.merges = gr.merges \o ap], exact |-> TRUE,
             obs |-> [op |-> "merge", gate |-> TRUE, n |-> Len(cs), amb |-> MergeAmbiguous(cs)]]

\* split candidates: components (>= 2 nodes) of the whole edge graph that fall apart into >= 2
\* parts, each of >= mincomp nodes, when edges with |w| < weak are removed
SplitCands(e, m) ==
    LET C0 == {C \in Comps(DOMAIN e) : Cardinality(C) >= 2}
        mk(C) == LET ins == Inside(e, C)
                     strong == {k \in ins : Abs(e[k].w) >= m.weak}
                 IN [original |-> C, parts |-> Comps(strong), orig |-> Cardinality(ins),
                     removed |-> Cardinality(ins \ strong)]
        S == {x \in {mk(C) : C \in C0} : Cardinality(x.parts) > 1 /\ \A p \in x.parts : Cardinality(p) >= m.mincomp}
        Lt(x, y) == x.removed > y.removed \/ (x.removed = y.removed /\ MinOf(x.original) < MinOf(y.original))
    IN SortBy(S, Lt)

SplitF(gr, c, on) ==
    IF ~on THEN Gated(gr, [op |-> "split", gate |-> FALSE, n |-> 0])
    ELSE LET cs == SplitCands(gr.edges, c.mt)
         IN [g |-> [gr EXCEPT !.splits = gr.splits \o Take(cs, c.mt.scap)], exact |-> TRUE,
             obs |-> [op |-> "split", gate |-> TRUE, n |-> Len(cs)]]

\* promotions derive from the current merge candidates; listed by concept id; a promotion is
\* [cid, members, w]
\* (the attachment weight is a GEL edge weight like any other: inside the configured clamp bounds - repo fix for C18)
PromoSeq(e, m, c) ==
    LET cs == MergeCands(e, m)
        S == {[cid |-> ConceptOf(MinOf(cs[i].nodes)), members |-> cs[i].nodes, w |-> Clamp(m.attach, c.lo, c.hi)] : i \in 1..Len(cs)}
        Lt(x, y) == x.cid < y.cid
    IN SortBy(S, Lt)
PromoInAlphabet(e, m) == LET cs == MergeCands(e, m) IN \A i \in 1..Len(cs) : MinOf(cs[i].nodes) \in Base

ApplyPromoF(gr, p) ==
    LET new == {Canon(p.cid, x) : x \in p.members}
        e == gr.edges
    IN [gr EXCEPT !.nodes = gr.nodes \cup {p.cid},
                  !.edges = [k \in DOMAIN e \cup new |-> IF k \in new THEN [w |-> p.w, rel |-> "concept"] ELSE e[k]]]
RECURSIVE ApplyPromos(_, _)
ApplyPromos(gr, ps) == IF ps = <<>> THEN gr ELSE ApplyPromos(ApplyPromoF(gr, Head(ps)), Tail(ps))

PromoteF(gr, c, on) ==
    IF ~on THEN Gated(gr, [op |-> "promote", gate |-> FALSE, promos |-> <<>>])
    ELSE LET ps == Take(PromoSeq(gr.edges, c.mt, c), c.mt.pcap)
         IN [g |-> ApplyPromos(gr, ps), exact |-> PromoInAlphabet(gr.edges, c.mt),
             obs |-> [op |-> "promote", gate |-> TRUE, promos |-> ps]]

\* one engine turn as the orchestrator sequences it: observe the retrieval, tick one turn (the
\* half-life is one turn: factor 1/2), then the maintenance passes that are switched on; promotions
\* derive from the merge candidates and therefore need the merge pass; gate closed: nothing at all
TurnF(gr, c, on, items, fm, fs, fp) ==
    IF ~on THEN Gated(gr, [op |-> "turn", gate |-> FALSE, items |-> items, flags |-> <<fm, fs, fp>>])
    ELSE LET r1 == ObserveF(gr, c, TRUE, items)
             r2 == TickF(r1.g, c, TRUE, 1)
             cs == MergeCands(r2.g.edges, c.mt)
             g3 == IF fm THEN [r2.g EXCEPT !.merges = r2.g.merges \o Take(cs, c.mt.mcap)] ELSE r2.g
             ss == SplitCands(g3.edges, c.mt)
             g4 == IF fs THEN [g3 EXCEPT !.splits = g3.splits \o Take(ss, c.mt.scap)] ELSE g3
             ps == IF fp /\ fm THEN Take(PromoSeq(g4.edges, c.mt, c), c.mt.pcap) ELSE <<>>
         IN [g |-> ApplyPromos(g4, ps),
             exact |-> r1.exact /\ r2.exact /\ ((fp /\ fm) => PromoInAlphabet(g4.edges, c.mt)) /\ ~MergeAmbiguous(cs),
             obs |-> [op |-> "turn", gate |-> TRUE, items |-> items, flags |-> <<fm, fs, fp>>,
                      kused |-> Len(r1.obs.used), pairs |-> Len(r1.obs.keys), dropped |-> Cardinality(r2.obs.dropped),
                      mcands |-> IF fm THEN Len(cs) ELSE 0, mapplied |-> IF fm THEN Len(Take(cs, c.mt.mcap)) ELSE 0,
                      scands |-> IF fs THEN Len(ss) ELSE 0, sapplied |-> IF fs THEN Len(Take(ss, c.mt.scap)) ELSE 0,
                      papplied |-> Len(ps)]]

-----------------------------------------------------------------------------
(* inputs: bags of items listed as non-decreasing sequences of item numbers *)
NS == Len(Scores)
NI == Len(ItemIds) * NS
\* an item is a pair <<id, score>>
ItemOf(i) == <<ItemIds[((i - 1) \div NS) + 1], Scores[((i - 1) % NS) + 1]>>
NonDecr(s) == \A i \in 1..(Len(s) - 1) : s[i] <= s[i + 1]
Bags == UNION {{s \in [1..n -> 1..NI] : NonDecr(s)} : n \in 0..MaxItems}
ItemsOf(b) == [i \in 1..Len(b) |-> ItemOf(b[i])]

InClamp(w, c) == c.lo <= w /\ w <= c.hi
\* documented ranges (configs/validate.py messages for graph.*): clamp_min < clamp_max,
\* clamp_min <= 0 <= clamp_max (weights decay towards 0), 0 <= floor <= clamp_max, threshold in [0, 1],
\* top-k >= 1, pair cap >= 0, alpha > 0
Accepted(c) == c.lo < c.hi /\ c.lo <= 0 /\ 0 <= c.hi /\ 0 <= c.floor /\ c.floor <= c.hi
               /\ 0 <= c.thr /\ c.thr <= D /\ c.topk >= 1 /\ c.cap >= 0 /\ c.aden >= 1
Configs == {c \in {[mode |-> m, aden |-> a, lo |-> cl[1], hi |-> cl[2], floor |-> f, thr |-> t, topk |-> k, cap |-> p, mt |-> mt] :
                     m \in Modes, a \in AlphaDens, cl \in Clamps, f \in Floors, t \in Thresholds, k \in TopKs,
                     p \in PairCaps, mt \in Maints} : Accepted(c)}

Init == /\ cfg \in Configs
        /\ \E e \in InitGraphs :
              /\ \A k \in DOMAIN e : InClamp(e[k].w, cfg)
              /\ g = [edges |-> e, nodes |-> {}, merges |-> <<>>, splits |-> <<>>]
        /\ gate \in InitGates
        /\ last = [op |-> "init"]

Do(r) == r.exact /\ g' = r.g /\ last' = r.obs /\ UNCHANGED <<cfg, gate>>

Observe(items) == Do(ObserveF(g, cfg, gate, items))
Tick(n)        == Do(TickF(g, cfg, gate, n))
Merge          == Do(MergeF(g, cfg, gate))
Split          == Do(SplitF(g, cfg, gate))
Promote        == Do(PromoteF(g, cfg, gate))
Turn(items, fm, fs, fp) == Do(TurnF(g, cfg, gate, items, fm, fs, fp))
Gate           == gate' = ~gate /\ last' = [op |-> "gate"] /\ UNCHANGED <<g, cfg>>

Next == \/ ("observe" \in Ops /\ \E b \in Bags : Observe(ItemsOf(b)))
        \/ ("tick" \in Ops /\ \E n \in Dts : Tick(n))
        \/ ("merge" \in Ops /\ Merge)
        \/ ("split" \in Ops /\ Split)
        \/ ("promote" \in Ops /\ Promote)
        \/ ("gate" \in Ops /\ Gate)
        \/ ("turn" \in Ops /\ \E b \in Bags, fm, fs, fp \in BOOLEAN : Turn(ItemsOf(b), fm, fs, fp))
Spec == Init /\ [][Next]_vars

\* histories of at most MaxDepth operations: the bound is on the level of the *pre*-state, so that
\* every generated transition is emitted and every reached state (incl. the last level) is checked
DepthA == TLCGet("level") <= MaxDepth
SpecD == Init /\ [][DepthA /\ Next]_vars

-----------------------------------------------------------------------------
(* C18 clauses *)
E == g.edges
\* every GEL edge weight - co-activation and concept attachment alike - stays inside the clamp.
\* The validator requires clamp_min <= 0 <= clamp_max, so decay (towards 0) cannot leave the range.
WithinClamp == \A k \in DOMAIN E : InClamp(E[k].w, cfg)

OneEdgePerUnorderedPair ==
    /\ \A k \in DOMAIN E : k[1] <= k[2]
    /\ \A k1, k2 \in DOMAIN E : {k1[1], k1[2]} = {k2[1], k2[2]} => k1 = k2

IsOp(o) == last'.op = o /\ gate
Touched == {k \in DOMAIN g'.edges : k \notin DOMAIN E \/ g'.edges[k] # E[k]}

TickNonIncreasing ==
    [][IsOp("tick") => \A k \in DOMAIN g'.edges : k \in DOMAIN E /\ Abs(g'.edges[k].w) <= Abs(E[k].w)
                                                  /\ g'.edges[k].rel = E[k].rel]_vars
\* stated without the division: dropped <=> |w| * 2^-n < floor
TickDropsExactlyBelowFloor ==
    [][IsOp("tick") => \A k \in DOMAIN E : (k \notin DOMAIN g'.edges) <=> (Abs(E[k].w) < cfg.floor * Pow2(last'.n))]_vars
ObserveAtMostPairCap ==
    [][IsOp("observe") => Cardinality(Touched) <= cfg.cap /\ Len(last'.keys) <= cfg.cap
                          /\ DOMAIN E \subseteq DOMAIN g'.edges]_vars
ObserveOnlyTopKAboveThreshold ==
    [][IsOp("observe") =>
         LET it == last'.items
             Act(i) == ScoreGE(it[i][2], cfg.thr)
             Bef(i, j) == it[i][2] > it[j][2] \/ (it[i][2] = it[j][2] /\ it[i][1] < it[j][1])
             IdAt(i) == it[i][1]
             top == TopIdsOf(Len(it), Act, Bef, cfg.topk, IdAt)
         IN /\ \A k \in Touched : k[1] \in top /\ k[2] \in top
            /\ \A i \in 1..Len(last'.keys) : last'.keys[i][1] \in top /\ last'.keys[i][2] \in top
            /\ Cardinality({i \in 1..Len(it) : Act(i)}) >= Len(last'.used) /\ Len(last'.used) <= cfg.topk]_vars

Perms(n) == {p \in [1..n -> 1..n] : \A i, j \in 1..n : i # j => p[i] # p[j]}
ObserveOrderInsensitive ==
    [][(IsOp("observe") /\ CheckPerms) =>
         LET it == last'.items IN
         \A p \in Perms(Len(it)) : ObserveF(g, cfg, TRUE, [i \in 1..Len(it) |-> it[p[i]]]).g = g']_vars

MaintenanceOnlyAnnotatesOrAttaches ==
    [][/\ (IsOp("merge") \/ IsOp("split")) =>
            /\ g'.edges = E /\ g'.nodes = g.nodes
            /\ IsPrefix(g.merges, g'.merges) /\ IsPrefix(g.splits, g'.splits)
            /\ (IsOp("merge") => g'.splits = g.splits) /\ (IsOp("split") => g'.merges = g.merges)
       /\ IsOp("promote") =>
            /\ g'.merges = g.merges /\ g'.splits = g.splits
            /\ g.nodes \subseteq g'.nodes /\ (g'.nodes \ g.nodes) \cap Base = {}
            /\ DOMAIN E \subseteq DOMAIN g'.edges
            /\ \A k \in Touched : g'.edges[k].rel = "concept" /\ (k[1] \in g'.nodes \/ k[2] \in g'.nodes)]_vars

PromotionIdempotent ==
    LET ps == PromoSeq(E, cfg.mt, cfg) IN
    PromoInAlphabet(E, cfg.mt) => \A i \in 1..Len(ps) : ApplyPromoF(ApplyPromoF(g, ps[i]), ps[i]) = ApplyPromoF(g, ps[i])

GateOffUntouched == [][(~gate /\ last'.op # "gate") => g' = g]_vars

-----------------------------------------------------------------------------
View == <<g, cfg, gate>>
EdgeList(e) == {[s |-> k[1], d |-> k[2], w |-> e[k].w, rel |-> e[k].rel] : k \in DOMAIN e}
Show(gr) == [edges |-> EdgeList(gr.edges), nodes |-> gr.nodes, merges |-> gr.merges, splits |-> gr.splits]
Emit == PrintT(<<"T", ToJson([cfg |-> cfg, gate |-> gate, pre |-> Show(g), post |-> Show(g'), obs |-> last'])>>)
=============================================================================
