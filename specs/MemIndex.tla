------------------------------ MODULE MemIndex ------------------------------
(* The in-memory memory index (clematis.memory.index.InMemoryIndex) — extra X07, beyond the listed
   properties.  T2 reads it (search_tiered, _iter_shards_for_t2), reflection / boot write it (add), its
   version token keys the T2 result cache ("the token changes whenever anything a search can see changes").

   Abstract state
     eps   the stored episodes in insertion order (a sequence of VARIANTS: rows of the constant table Tab;
           two rows may carry the same episode id - a duplicate id with other content)
     ver   index_version(): the number of adds since the last clear
     gen   the number of clears (second component of cache_token() = (instance, gen, ver))
     muts  history variable: the number of mutations so far (bounds the exploration; TLCGet("level") is not
           stable with several TLC workers)
   One action per public method:
     Add(v)        append; nothing is replaced or de-duplicated; ver + 1
     Clear         empty; "reset version counter" (clear's docstring): ver = 0, gen + 1
     Search(...)   search_tiered(owner, q, k, tier, hints) - pure
     Shards(s)     _iter_shards_for_t2(tier, s) - pure; the tier argument plays no role
     ShardSearch   search every shard view, merge by (score desc, id asc), keep k; compared with Search

   Documented (docstrings of index.py, docs/m9/overview.md "PR68", docs/m3/lance.md, operator guide):
     * index_version "increments on each mutation (add)"; clear "resets the version counter".  Hence
       index_version alone is NOT monotone over clear; the monotone identity is cache_token:
       (gen, ver) grows strictly in lexicographic order on every mutation (VersionStrictlyMonotoneOnMutation).
     * exact_semantic applies a rolling recent_days cut-off (default 30 days) relative to hints["now"];
       per tier: sort (score desc, id asc), stop at k.
     * shard views are contiguous chunks of the backing list in stable order; <= 1 shard => the index itself;
       a view mirrors search_tiered's scoring and tie-breaks; merge = (score desc, id asc), clamp k after merge.
   As implemented (the documentation is silent):
     * a duplicate id is appended as one more entry (both are visible to a search; a result lists an id once, its best row);
     * owner None sees everything; any string - also the string "any" - is a literal match on the owner field
       (T2 maps owner_scope "any" to None before it calls the index);
     * the window is inclusive (age = recent_days passes); recent_days <= 0 switches the window off;
     * hint defaults: recent_days 30, sim_threshold 0.0, clusters_top_m 3; clusters_top_m = 0 selects nothing;
     * archive: hints["archive_quarters"] (absent / empty = no filter) keeps the episodes of the listed
       calendar quarters; an unknown tier returns nothing;
     * an episode without a vector is never returned and does not count for its cluster's centroid; a cluster
       without any vector is not ranked;
     * cluster key = aux.cluster_id, otherwise an opaque stable key derived from the episode id (one
       cluster per id), which sorts AFTER the named clusters; clusters are ranked by the cosine of the mean
       vector of their owner-visible members over the WHOLE index (also inside a shard view), ties by key;
     * entries with equal score and equal id keep the candidate order (stable sort): insertion order for
       exact / archive, (cluster key, insertion order) for the cluster tier.  Because of the latter a sharded
       cluster search may list two equal-score duplicates of one id in the other order than the whole index:
       ShardedSearchEqualsWhole is stated on the projection (id, score) - for all three tiers;
     * shard size = ceil(n / min(s, n)); number of shards = ceil(n / size)  (<= s).

   Exact integer geometry: vectors are integer pairs; cos(q, v) is carried as  sign(d) d^2 / |v|^2  (d = q.v;
   the factor 1/|q|^2 is common), compared by cross-multiplication; the zero vector has cosine 0.  A threshold
   p/r is met iff  Sq(r d) >= Sq(p) |q|^2 |v|^2  (Sq(x) = sign(x) x^2).  TieSafe (ASSUME): two table rows with
   equal cosine to a query have equal dot product and equal norm (or both dot products are 0), so that the
   implementation's float results are bit-equal exactly when the spec says "equal".  `guard` marks cluster
   searches whose top-m cut separates two clusters with equal centroid cosine but different centroids: the
   float comparison of such a pair is not exact and the harness does not replay them.
   Encodings: owner argument 0 = None, otherwise the owner code; tier 1 exact_semantic, 2 cluster_semantic,
   3 archive, 4 an unknown tier; hints: rd = -1 absent, thr = <<p, r>> with r = 0 absent, m = -1 absent,
   qs 0 absent, 1 = [previous quarter], 2 = [current quarter], 3 = both, 4 = []; an episode's quarter is the
   current one iff its age < QB; suggested s = -1 is None.                                                  *)
EXTENDS Integers, Sequences, FiniteSets, TLC, Json

CONSTANTS Tab,         \* <<[id, o, a, c, x, y, hv], ...>>: id 1..4, owner code, age in days, cluster (0 none), vector, hv = has a vector
          SRank,       \* id -> order of the opaque cluster key of a cluster-less episode with that id
          Queries, OwnerArgs, Ks, Thrs, RDs, TopMs, QSets, Suggs, QB,
          MaxN,        \* at most MaxN stored episodes
          MaxLen       \* at most MaxLen mutations (add, clear) in a history; reads are not counted

VARIABLES eps, gen, ver, muts, last
vars == <<eps, gen, ver, muts, last>>

Variants == 1..Len(Tab)
RangeOf(s) == {s[i] : i \in DOMAIN s}
SeqByRank(S, r) == [p \in 1..Cardinality(S) |-> CHOOSE i \in S : r[i] = p - 1]
RECURSIVE SumOver(_, _)
SumOver(f, S) == IF S = {} THEN 0 ELSE LET x == CHOOSE x \in S : TRUE IN f[x] + SumOver(f, S \ {x})
Min2(a, b) == IF a <= b THEN a ELSE b

-----------------------------------------------------------------------------
(* geometry *)
Sq(x) == IF x >= 0 THEN x * x ELSE 0 - x * x
Dot(q, x, y) == q[1] * x + q[2] * y
N2(x, y) == x * x + y * y
CosD(x, y) == IF N2(x, y) = 0 THEN 1 ELSE N2(x, y)
VN(q, v) == IF Tab[v].hv = 1 THEN Sq(Dot(q, Tab[v].x, Tab[v].y)) ELSE 0
VD(v) == IF Tab[v].hv = 1 THEN CosD(Tab[v].x, Tab[v].y) ELSE 1
VGt(q, a, b) == VN(q, a) * VD(b) > VN(q, b) * VD(a)
VEq(q, a, b) == VN(q, a) * VD(b) = VN(q, b) * VD(a)

ASSUME TieSafe == \A q \in Queries : \A a, b \in {v \in Variants : Tab[v].hv = 1} :
                    VEq(q, a, b) => \/ /\ Dot(q, Tab[a].x, Tab[a].y) = Dot(q, Tab[b].x, Tab[b].y)
                                       /\ N2(Tab[a].x, Tab[a].y) = N2(Tab[b].x, Tab[b].y)
                                    \/ /\ Dot(q, Tab[a].x, Tab[a].y) = 0 /\ Dot(q, Tab[b].x, Tab[b].y) = 0

RdEff(h) == IF h.rd = -1 THEN 30 ELSE h.rd
ThrEff(h) == IF h.thr[2] = 0 THEN <<0, 1>> ELSE h.thr
MEff(h) == IF h.m = -1 THEN 3 ELSE h.m

Sees(ow, v) == ow = 0 \/ Tab[v].o = ow
Meets(q, v, t) == /\ Tab[v].hv = 1
                  /\ LET d == Dot(q, Tab[v].x, Tab[v].y)
                         M == N2(q[1], q[2]) * N2(Tab[v].x, Tab[v].y)
                     IN IF M = 0 THEN t[1] <= 0 ELSE Sq(t[2] * d) >= Sq(t[1]) * M
Quarter(a) == IF a < QB THEN 2 ELSE 1
QPass(qs, a) == qs \in {0, 4} \/ (qs = 3) \/ (qs = Quarter(a))
CK(v) == IF Tab[v].c = 0 THEN 10 + SRank[Tab[v].id] ELSE Tab[v].c

-----------------------------------------------------------------------------
(* the functional core *)

\* the first k of the positions S of E by (score desc, id asc, tie key asc)
Before(E, q, tb, j, i) ==
    \/ VGt(q, E[j], E[i])
    \/ /\ VEq(q, E[j], E[i])
       /\ \/ Tab[E[j]].id < Tab[E[i]].id
          \/ (Tab[E[j]].id = Tab[E[i]].id /\ tb[j] < tb[i])
\* (since repo fix 397ebc8 the k best are k DISTINCT ids: of several rows with one id only the best-ranked one counts)
BestOfId(E, q, S, tb) == {i \in S : ~\E j \in S : Tab[E[j]].id = Tab[E[i]].id /\ Before(E, q, tb, j, i)}
TopK(E, q, S0, k, tb) == LET S == BestOfId(E, q, S0, tb)
                             r == TLCEval([i \in S |-> Cardinality({j \in S : Before(E, q, tb, j, i)})])
                             kept == {i \in S : r[i] < k}
                         IN SeqByRank(kept, r)

\* the top-m clusters of the owner-visible part of the whole index E
ClusterChoice(E, ow, q, m) ==
    LET U == {i \in 1..Len(E) : Sees(ow, E[i]) /\ Tab[E[i]].hv = 1}
        cks == {CK(E[i]) : i \in U}
        mem == TLCEval([c \in cks |-> {i \in U : CK(E[i]) = c}])
        sx == TLCEval([c \in cks |-> SumOver([i \in U |-> Tab[E[i]].x], mem[c])])
        sy == TLCEval([c \in cks |-> SumOver([i \in U |-> Tab[E[i]].y], mem[c])])
        cn == TLCEval([c \in cks |-> Sq(Dot(q, sx[c], sy[c]))])
        cd == TLCEval([c \in cks |-> CosD(sx[c], sy[c])])
        gt == TLCEval([x \in cks \X cks |-> cn[x[1]] * cd[x[2]] > cn[x[2]] * cd[x[1]]])
        eq == TLCEval([x \in cks \X cks |-> cn[x[1]] * cd[x[2]] = cn[x[2]] * cd[x[1]]])
        rank == TLCEval([c \in cks |-> Cardinality({p \in cks : gt[<<p, c>>] \/ (eq[<<p, c>>] /\ p < c)})])
        chosen == {c \in cks : rank[c] < m}
        same == [x \in cks \X cks |-> \/ /\ sx[x[1]] = sx[x[2]] /\ sy[x[1]] = sy[x[2]]
                                         /\ Cardinality(mem[x[1]]) = Cardinality(mem[x[2]])
                                      \/ /\ N2(sx[x[1]], sy[x[1]]) = 0 /\ N2(sx[x[2]], sy[x[2]]) = 0]
    IN [chosen |-> chosen, ncl |-> Cardinality(cks), better |-> {x \in cks \X cks : gt[x]},
        guard |-> \E p \in chosen, r \in cks \ chosen : eq[<<p, r>>] /\ ~same[<<p, r>>]]

NoClusters == [chosen |-> {}, ncl |-> 0, better |-> {}, guard |-> FALSE]

TierPass(tier, h, v, chosen) == CASE tier = 1 -> RdEff(h) <= 0 \/ Tab[v].a <= RdEff(h)
                                  [] tier = 2 -> CK(v) \in chosen
                                  [] tier = 3 -> QPass(h.qs, Tab[v].a)
                                  [] OTHER -> FALSE

Eligible(E, P, ow, q, tier, h, chosen) ==
    {i \in P : Sees(ow, E[i]) /\ Meets(q, E[i], ThrEff(h)) /\ TierPass(tier, h, E[i], chosen)}

\* tie key of position i (searched inside shard number sh): shard-major, then the candidate order of the tier
TieKey(E, tier, sh, i) == sh * 10000 + (IF tier = 2 THEN CK(E[i]) ELSE 0) * 100 + i

\* search of the positions P of E (P = all of them: the index; a chunk: a shard view)
SearchPos(E, P, ow, q, k, tier, h, cc) ==
    TopK(E, q, Eligible(E, P, ow, q, tier, h, cc.chosen), k, [i \in 1..Len(E) |-> TieKey(E, tier, 0, i)])

ShardsF(n, s) ==
    IF n <= 1 \/ s <= 1 THEN [self |-> TRUE, parts |-> << [i \in 1..n |-> i] >>]
    ELSE LET chunks == Min2(s, n)
             size == (n + chunks - 1) \div chunks
             cnt == (n + size - 1) \div size
         IN [self |-> FALSE,
             parts |-> [j \in 1..cnt |-> [i \in 1..(IF j * size <= n THEN size ELSE n - (j - 1) * size) |-> (j - 1) * size + i]]]

\* search every shard, merge the hits by (score desc, id asc) keeping the order of arrival among equals, clamp to k
MergedPos(E, parts, ow, q, k, tier, h, cc) ==
    LET hits == [j \in 1..Len(parts) |-> SearchPos(E, RangeOf(parts[j]), ow, q, k, tier, h, cc)]
        shardOf == [i \in 1..Len(E) |-> CHOOSE j \in 1..Len(parts) : i \in RangeOf(parts[j])]
        pool == UNION {RangeOf(hits[j]) : j \in 1..Len(parts)}
    IN [hits |-> hits,
        merged |-> TopK(E, q, pool, k, [i \in 1..Len(E) |-> TieKey(E, tier, shardOf[i], i)])]

-----------------------------------------------------------------------------
Tiers == {1, 2, 3, 4}
NoThr == <<0, 0>>
HintsFor(tier) == CASE tier = 1 -> [rd : RDs, thr : Thrs, m : {-1}, qs : {0}]
                    [] tier = 2 -> [rd : {-1}, thr : Thrs, m : TopMs, qs : {0}]
                    [] tier = 3 -> [rd : {-1}, thr : Thrs, m : {-1}, qs : QSets]
                    [] OTHER -> [rd : {-1}, thr : {NoThr}, m : {-1}, qs : {0}]

Init == eps = <<>> /\ gen = 0 /\ ver = 0 /\ muts = 0 /\ last = [op |-> "init"]

Add(v) == /\ Len(eps) < MaxN /\ muts < MaxLen
          /\ eps' = Append(eps, v) /\ ver' = ver + 1 /\ gen' = gen /\ muts' = muts + 1
          /\ last' = [op |-> "add", v |-> v]
Clear == /\ muts < MaxLen
         /\ eps' = <<>> /\ ver' = 0 /\ gen' = gen + 1 /\ muts' = muts + 1
         /\ last' = [op |-> "clear"]
Search(ow, q, k, tier, h) ==
    LET cc == IF tier = 2 THEN ClusterChoice(eps, ow, q, MEff(h)) ELSE NoClusters
        r == SearchPos(eps, 1..Len(eps), ow, q, k, tier, h, cc)
    IN /\ UNCHANGED <<eps, gen, ver, muts>>
       /\ last' = [op |-> "search", ow |-> ow, q |-> q, k |-> k, tier |-> tier, h |-> h, pos |-> r,
                   chosen |-> cc.chosen, ncl |-> cc.ncl, better |-> cc.better, guard |-> cc.guard]
Shards(s) ==
    LET f == ShardsF(Len(eps), s)
    IN /\ UNCHANGED <<eps, gen, ver, muts>>
       /\ last' = [op |-> "shards", s |-> s, self |-> f.self, parts |-> f.parts]
ShardSearch(s, ow, q, k, tier, h) ==
    LET cc == IF tier = 2 THEN ClusterChoice(eps, ow, q, MEff(h)) ELSE NoClusters
        r == SearchPos(eps, 1..Len(eps), ow, q, k, tier, h, cc)
        f == ShardsF(Len(eps), s)
        mg == MergedPos(eps, f.parts, ow, q, k, tier, h, cc)
    IN /\ UNCHANGED <<eps, gen, ver, muts>>
       /\ last' = [op |-> "shardsearch", s |-> s, self |-> f.self, parts |-> f.parts,
                   ow |-> ow, q |-> q, k |-> k, tier |-> tier, h |-> h, pos |-> r,
                   hits |-> mg.hits, merged |-> mg.merged,
                   chosen |-> cc.chosen, ncl |-> cc.ncl, better |-> cc.better, guard |-> cc.guard]

Next == \/ \E v \in Variants : Add(v)
        \/ Clear
        \/ \E s \in Suggs : Shards(s)
        \/ \E ow \in OwnerArgs, q \in Queries, k \in Ks, tier \in Tiers : \E h \in HintsFor(tier) :
              \/ Search(ow, q, k, tier, h)
              \/ \E s \in 2..Len(eps) : ShardSearch(s, ow, q, k, tier, h)
Spec == Init /\ [][Next]_vars

-----------------------------------------------------------------------------
(* clauses.  The observation `last` is hidden by the VIEW (reads are self-loops of the abstract state), and TLC
   evaluates invariants on NEW states only: every clause about an observation is therefore an action property
   [][P']_vars - those are evaluated on every transition. *)
Mutating(op) == op \in {"add", "clear"}
Searching == last.op \in {"search", "shardsearch"}
Sharding == last.op \in {"shards", "shardsearch"}
LexLess(g1, v1, g2, v2) == g1 < g2 \/ (g1 = g2 /\ v1 < v2)

VerCountsAdds == ver = Len(eps)
VersionStrictlyMonotoneOnMutation ==
    [][/\ Mutating(last'.op) => LexLess(gen, ver, gen', ver')
       /\ last'.op = "add" => (ver' = ver + 1 /\ gen' = gen)
       /\ last'.op = "clear" => (ver' = 0 /\ gen' = gen + 1)
       /\ <<gen, ver>> # <<gen', ver'>> => Mutating(last'.op)]_vars
SearchIsPure == [][~Mutating(last'.op) => UNCHANGED <<eps, gen, ver>>]_vars
AddAppends == [][/\ last'.op = "add" => eps' = Append(eps, last'.v)
                 /\ last'.op = "clear" => eps' = <<>>]_vars

R == last.pos
RV(p) == eps[R[p]]
WithinK == Searching => Len(R) <= last.k /\ \A p, r \in 1..Len(R) : p # r => R[p] # R[r]
SortedByScoreThenId ==
    Searching => \A p \in 1..(Len(R) - 1) :
                    \/ VGt(last.q, RV(p), RV(p + 1))
                    \/ (VEq(last.q, RV(p), RV(p + 1)) /\ Tab[RV(p)].id <= Tab[RV(p + 1)].id)
OwnerOk == Searching /\ last.ow # 0 => \A p \in 1..Len(R) : Tab[RV(p)].o = last.ow
RecencyOk == Searching /\ last.tier = 1 /\ RdEff(last.h) > 0 => \A p \in 1..Len(R) : Tab[RV(p)].a <= RdEff(last.h)
ThresholdOk == Searching => \A p \in 1..Len(R) : Meets(last.q, RV(p), ThrEff(last.h))
TopMOk ==
    Searching /\ last.tier = 2 =>
        /\ \A p \in 1..Len(R) : CK(RV(p)) \in last.chosen
        /\ Cardinality(last.chosen) = Min2(MEff(last.h), last.ncl)
        /\ \A x \in last.better : x[2] \in last.chosen => x[1] \in last.chosen
\* nothing eligible is left out unless k better ones were found
TopKOk ==
    Searching =>
        LET el == Eligible(eps, 1..Len(eps), last.ow, last.q, last.tier, last.h, last.chosen)
            tb == [i \in 1..Len(eps) |-> TieKey(eps, last.tier, 0, i)]
        IN /\ RangeOf(R) \subseteq el
           /\ \A i \in el \ RangeOf(R) : \/ (Len(R) = last.k /\ (\A p \in 1..Len(R) : Before(eps, last.q, tb, R[p], i)))
                                           \/ (\E pp \in 1..Len(R) : Tab[eps[R[pp]]].id = Tab[eps[i]].id /\ Before(eps, last.q, tb, R[pp], i))
PartitionOk ==
    Sharding =>
        LET n == Len(eps)
            P == last.parts
            off == [j \in 1..Len(P) |-> SumOver([x \in 1..Len(P) |-> Len(P[x])], 1..(j - 1))]     \* offset of part j
        IN /\ SumOver([x \in 1..Len(P) |-> Len(P[x])], 1..Len(P)) = n
           /\ \A j \in 1..Len(P) : \A i \in 1..Len(P[j]) : P[j][i] = off[j] + i          \* contiguous, in order, each once
           /\ last.self <=> (n <= 1 \/ last.s <= 1)
           /\ last.self => Len(P) = 1
           /\ ~last.self => /\ Len(P) >= 2 /\ Len(P) <= last.s
                            /\ \A j \in 1..Len(P) : Len(P[j]) >= 1
ProjEq(q, a, b) == /\ Len(a) = Len(b)
                   /\ \A p \in 1..Len(a) : Tab[eps[a[p]]].id = Tab[eps[b[p]]].id /\ VEq(q, eps[a[p]], eps[b[p]])
ShardedOk ==
    last.op = "shardsearch" => /\ ProjEq(last.q, last.merged, last.pos)
                               /\ last.tier # 2 => last.merged = last.pos

ResultWithinK == [][WithinK']_vars
ResultSortedByScoreThenId == [][SortedByScoreThenId']_vars
OwnerFilter == [][OwnerOk']_vars
RecencyWindow == [][RecencyOk']_vars
ThresholdRespected == [][ThresholdOk']_vars
ClusterTopM == [][TopMOk']_vars
ResultIsTheTopK == [][TopKOk']_vars
ShardsPartitionInOrder == [][PartitionOk']_vars
ShardedSearchEqualsWhole == [][ShardedOk']_vars

View_ == <<eps, gen, ver, muts>>
\* (the cluster comparison table `better` serves the clause only)
ObsOut(l) == IF "better" \in DOMAIN l THEN [f \in DOMAIN l \ {"better", "ncl"} |-> l[f]] ELSE l
Emit == PrintT(<<"T", ToJson([pre |-> [eps |-> eps, gen |-> gen, ver |-> ver], obs |-> ObsOut(last'),
                              post |-> [eps |-> eps', gen |-> gen', ver |-> ver']])>>)
=============================================================================
