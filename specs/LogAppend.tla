------------------------------ MODULE LogAppend ------------------------------
(* Concurrent appenders of one JSONL stream (clematis.io.log._append_jsonl_unbuffered / append_jsonl),
   stated from the property text (C16):
     - every record becomes exactly one complete LF-terminated line, also with concurrent writers;
     - the records of one writer keep their order; nothing is lost, nothing is duplicated.
   Granularity = the write calls the appender issues on its O_APPEND descriptor: one call lands
   contiguously at the current end of file (that is what O_APPEND guarantees), two calls of the same
   record may be separated by calls of other writers.  Chunks = number of write calls per record as
   *observed* on the real appender (the last call carries the LF).  With Chunks = 1 every interleaving
   is line-atomic; with Chunks >= 2 TLC exhibits the torn-line interleaving.
   file  = sequence of chunks [w, s, c] in kernel order;  pc[w] = next (record, chunk) of writer w. *)
EXTENDS Integers, Sequences, FiniteSets, TLC, Json

CONSTANTS W,        \* writers 1..W
          R,        \* records per writer 1..R
          Chunks    \* write calls per record

VARIABLES file, pc, last
vars == <<file, pc, last>>

Writers == 1..W

-----------------------------------------------------------------------------
(* Parsing the byte stream into lines: a line ends with an LF-carrying chunk (c = Chunks). *)
RECURSIVE Split(_, _, _)
Split(f, cur, acc) ==
    IF f = <<>>
    THEN (IF cur = <<>> THEN acc ELSE Append(acc, [chs |-> cur, term |-> FALSE]))
    ELSE LET h == Head(f) IN
         IF h.c = Chunks
         THEN Split(Tail(f), <<>>, Append(acc, [chs |-> Append(cur, h), term |-> TRUE]))
         ELSE Split(Tail(f), Append(cur, h), acc)

\* a line is the complete image of record (w, s) iff it is exactly that record's chunks 1..Chunks
CompleteLine(l) ==
    /\ l.term /\ Len(l.chs) = Chunks
    /\ \A i \in 1..Chunks : l.chs[i].c = i /\ l.chs[i].w = l.chs[1].w /\ l.chs[i].s = l.chs[1].s

\* what a reader of the file sees: <<writer, seq, complete>>; an unparsable line is <<0, 0, 0>>
Parsed(l) == IF CompleteLine(l) THEN <<l.chs[1].w, l.chs[1].s, 1>> ELSE <<0, 0, 0>>
ParsedLines(f) == LET ls == Split(f, <<>>, <<>>) IN [i \in 1..Len(ls) |-> Parsed(ls[i])]

-----------------------------------------------------------------------------
(* Clause predicates over a parsed file  ls = << <<w, s, complete>>, ... >>  — shared with LogAppendTrace *)
AllLinesComplete(ls) == \A i \in 1..Len(ls) : ls[i][3] = 1
OfWriter(ls, w) == SelectSeq(ls, LAMBDA x : x[3] = 1 /\ x[1] = w)
WriterOrdered(ls, w) == LET q == OfWriter(ls, w) IN \A k \in 1..(Len(q) - 1) : q[k][2] <= q[k + 1][2]
OrderOK(ls, nw) == \A w \in 1..nw : WriterOrdered(ls, w)
Count(ls, w, s) == Len(SelectSeq(ls, LAMBDA x : x[3] = 1 /\ x[1] = w /\ x[2] = s))
NoDuplicate(ls, nw, nr) == \A w \in 1..nw : \A s \in 1..nr : Count(ls, w, s) <= 1
LosslessOK(ls, nw, nr) ==
    /\ Len(ls) = nw * nr
    /\ \A w \in 1..nw : LET q == OfWriter(ls, w) IN
          /\ Len(q) = nr
          /\ {q[k][2] : k \in 1..Len(q)} = 1..nr

-----------------------------------------------------------------------------
Init == /\ file = <<>>
        /\ pc = [w \in Writers |-> [s |-> 1, c |-> 1]]
        /\ last = [op |-> "init"]

\* one write call of writer w: lands at EOF as a unit
WriteChunk(w) ==
    /\ pc[w].s <= R
    /\ file' = Append(file, [w |-> w, s |-> pc[w].s, c |-> pc[w].c])
    /\ pc' = [pc EXCEPT ![w] = IF pc[w].c = Chunks THEN [s |-> pc[w].s + 1, c |-> 1]
                                ELSE [s |-> pc[w].s, c |-> pc[w].c + 1]]
    /\ last' = [op |-> "write", w |-> w]

AllDone == \A w \in Writers : pc[w].s > R
Next == \E w \in Writers : WriteChunk(w)
Spec == Init /\ [][Next]_vars

-----------------------------------------------------------------------------
(* C16 clauses *)
\* every terminated line is the image of exactly one record; when all writers are done nothing dangles
OneCompleteLinePerRecord ==
    LET ls == Split(file, <<>>, <<>>) IN
    /\ \A i \in 1..Len(ls) : ls[i].term => CompleteLine(ls[i])
    /\ AllDone => \A i \in 1..Len(ls) : ls[i].term
PerWriterOrder == OrderOK(ParsedLines(file), W)
NoLossNoDuplication ==
    LET ls == ParsedLines(file) IN
    /\ NoDuplicate(ls, W, R)
    /\ \A w \in Writers : \A s \in 1..R : (s < pc[w].s) => Count(ls, w, s) = 1
    /\ AllDone => LosslessOK(ls, W, R)

View == <<file, pc>>
\* every complete interleaving (kernel order of the write calls) for schedule forcing on the real appender
EmitDone == AllDone => PrintT(<<"T", ToJson([sched |-> [i \in 1..Len(file) |-> file[i].w],
                                             lines |-> ParsedLines(file)])>>)
=============================================================================
