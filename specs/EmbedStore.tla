---------------------------- MODULE EmbedStore ----------------------------
(* The on-disk T2 embedding store (clematis.engine.util.embed_store: write_shard, open_reader,
   EmbedReader.iter_blocks / load_all, _discover_shards) - extra X15, beyond the listed properties.
   Stated from the module's docstrings ("Write a single embedding shard to disk: meta.json, embeddings.bin
   raw contiguous [N, D], ids.tsv one id per line, norms.bin optional float32 [N]"; "Partition-friendly,
   deterministic reader"; "Discover shards under root deterministically"; "When disabled or None, we look for
   either a single shard at root or immediate subdirectories containing meta.json"; "owner_quarter: expect
   root/OWNER/QUARTER/<shard-dir> or meta.json directly under QUARTER"; "Deterministic order by path";
   "cast to fp32 for math parity"), CHANGELOG PR33 ("shard writer/reader with deterministic iteration;
   iter_blocks(batch) yields (ids, embeds_fp32, norms_fp32); no RNG/clocks"; "missing meta rejected") and the
   users (stages/t2/core.py: open_reader(embed_root, partitions=perf.t2.reader.partitions), iter_blocks(reader_batch)).

   A STATE MACHINE over the abstract content of one store directory.
     Slots: seven directories under the root, numbered in the order of their full path STRINGS
        1 ""  (the root itself)   2 "o1-x/q1"   3 "o1/q1"   4 "o1/q1/sA"   5 "o1/q1/sB"   6 "s1"   7 "s2"
        ('-' sorts before '/': the quarter of owner "o1-x" comes before the quarter of owner "o1").
     store[s]  what lies in slot s:  st = "absent" | "ok" | "nometa" | "nobin" | "noids" | "badmeta",
               rows = sequence of <<id, vector class>>, dim, dt = "fp16" | "fp32", norms = norms.bin sidecar written
     stray     files / directories that are no shard lie around at every level of the tree
     reader    the EmbedReader object the client holds: the partition spec it was opened with and the slots it
               discovered (a snapshot: shards written later are not seen until the store is opened again).  A change
               to one of ITS shards takes the reader out of the modelled scope (reader' = closed).
   Actions: WriteShard(slot, content) (new / overwrite), Damage(slot, kind) (meta.json removed, embeddings.bin /
   ids.tsv removed, meta.json unreadable), AddStray, Open(spec), Iter(batch), LoadAll.
   Partition specs (the `partitions` argument):
        1 None   2 {enabled: false, layout: owner_quarter}   3 {enabled: true, layout: none}
        4 {enabled: true, layout: owner_quarter}   5 {enabled: true, layout: owner_quarter, path: <root>} with a
        positional root that does not exist   6 {enabled: true}   7 {enabled: false, path: <root>}, positional root missing
   A returned row is [id, vc, dt, ns, s, i]: the id, the vector class, the dtype it was stored with (fp16 rounds
   the vector), whether its norm comes from the sidecar (norm of the vector as given to the writer) or is computed
   from the stored vector, and where it lies (slot, row number).

   DEVIATION (code as built, modelled here):
    * an EMPTY shard (count 0) is written without complaint, is discovered and opened (meta.count adds 0), but
      iter_blocks / load_all raise ValueError("cannot mmap an empty file") when they reach it: the blocks of the
      shards before it are yielded, then the error; load_all returns nothing.  (err = "emptymap")
    * shards of DIFFERENT dtype are accepted together (only `dim` is compared): each shard is decoded with its own
      dtype (never mixed), meta.embed_store_dtype says fp16 as soon as one shard is fp16.
    * partitions.path replaces the positional root even when partitions.enabled is false (spec 7).
    * a meta.json directly in the root hides every shard below it; under owner_quarter a quarter's own meta.json is
      ignored as soon as one of its sub-directories is a shard.
    * errors: the first damaged shard in path order decides (unreadable meta.json -> RuntimeError "badmeta",
      embeddings.bin / ids.tsv missing -> FileNotFoundError "missingfile"), then no shard at all (FileNotFoundError
      "noshards"), then differing dims (ValueError "dimmismatch").                                              *)
EXTENDS Integers, Sequences, FiniteSets, TLC, Json

CONSTANTS Slots,        \* the slots writable in this run (subset of 1..7)
          Contents,     \* what WriteShard may write: records [rows, dim, dt, norms]
          Specs,        \* partition specs (subset of 1..7)
          Batches,      \* batch sizes for iter_blocks
          DamageKinds,  \* subset of {"nometa", "nobin", "noids", "badmeta"}
          MaxShards,    \* at most this many slots are ever occupied
          WLen          \* store-changing actions only from states at level <= WLen

VARIABLES store, stray, reader, last
vars == <<store, stray, reader, last>>

Depth  == <<0, 2, 2, 3, 3, 1, 1>>
Parent == <<0, 1, 1, 3, 3, 1, 1>>          \* the enclosing slot (quarter of a shard directory; the root otherwise)
LayoutOf(spec) == IF spec \in {4, 5} THEN "owner_quarter" ELSE "none"
Layouts == {"none", "owner_quarter"}
Big == 1000000000                          \* load_all is iter_blocks(batch = 10^9)

Absent == [st |-> "absent", rows |-> <<>>, dim |-> 0, dt |-> "fp32", norms |-> FALSE]
Closed == [open |-> FALSE, spec |-> 0, slots |-> <<>>]

RECURSIVE SetToSeq(_)
SetToSeq(S) == IF S = {} THEN <<>>
               ELSE LET m == CHOOSE x \in S : \A y \in S : x <= y IN <<m>> \o SetToSeq(S \ {m})
RECURSIVE Flatten(_)
Flatten(ss) == IF Len(ss) = 0 THEN <<>> ELSE Head(ss) \o Flatten(Tail(ss))
RECURSIVE SumOver(_, _)
SumOver(f, q) == IF Len(q) = 0 THEN 0 ELSE f[Head(q)] + SumOver(f, Tail(q))
SeqSet(q) == {q[i] : i \in 1..Len(q)}

\* ---------------------------------------------------------------------------------------------------
\* discovery: a directory is a shard iff it holds a meta.json (readable or not)
Live(st, s) == st[s].st \notin {"absent", "nometa"}
Discover(st, lay) ==
    IF 1 \in Slots /\ Live(st, 1) THEN {1}
    ELSE IF lay = "owner_quarter"
         THEN {s \in Slots : Depth[s] = 3 /\ Live(st, s)}
              \cup {q \in Slots : Depth[q] = 2 /\ Live(st, q) /\ ~\E c \in Slots : Depth[c] = 3 /\ Parent[c] = q /\ Live(st, c)}
         ELSE {s \in Slots : Depth[s] = 1 /\ Live(st, s)}

OpenF(st, spec) ==
    LET lay == LayoutOf(spec)
        ds  == SetToSeq(Discover(st, lay))          \* sorted by path
        bad == {i \in 1..Len(ds) : st[ds[i]].st # "ok"}
        dims == {st[ds[i]].dim : i \in 1..Len(ds)}
        fail(e) == [err |-> e, slots |-> <<>>, meta |-> [dtype |-> "", dim |-> 0, count |-> 0, norms |-> FALSE, shards |-> 0, layout |-> lay]]
    IN IF bad # {} THEN LET i == CHOOSE x \in bad : \A y \in bad : x <= y
                        IN fail(IF st[ds[i]].st = "badmeta" THEN "badmeta" ELSE "missingfile")
       ELSE IF Len(ds) = 0 THEN fail("noshards")
       ELSE IF Cardinality(dims) > 1 THEN fail("dimmismatch")
       ELSE [err |-> "none", slots |-> ds,
             meta |-> [dtype |-> IF \E i \in 1..Len(ds) : st[ds[i]].dt = "fp16" THEN "fp16" ELSE "fp32",
                       dim |-> st[ds[1]].dim,
                       count |-> SumOver([s \in Slots |-> Len(st[s].rows)], ds),
                       norms |-> \A i \in 1..Len(ds) : st[ds[i]].norms,
                       shards |-> Len(ds), layout |-> lay]]

\* ---------------------------------------------------------------------------------------------------
\* reading
RowsOf(st, s) == [i \in 1..Len(st[s].rows) |-> [id |-> st[s].rows[i][1], vc |-> st[s].rows[i][2], dt |-> st[s].dt,
                                                ns |-> st[s].norms, s |-> s, i |-> i]]
RECURSIVE Chunk(_, _)
Chunk(q, b) == IF Len(q) = 0 THEN <<>>
               ELSE IF Len(q) <= b THEN <<q>>
               ELSE <<SubSeq(q, 1, b)>> \o Chunk(SubSeq(q, b + 1, Len(q)), b)
RECURSIVE BlocksFrom(_, _, _, _)
BlocksFrom(st, slots, k, b) ==
    IF k > Len(slots) THEN [blocks |-> <<>>, err |-> "none"]
    ELSE IF Len(st[slots[k]].rows) = 0 THEN [blocks |-> <<>>, err |-> "emptymap"]      \* DEVIATION (empty shard)
    ELSE LET rest == BlocksFrom(st, slots, k + 1, b)
         IN [blocks |-> Chunk(RowsOf(st, slots[k]), b) \o rest.blocks, err |-> rest.err]
IterF(st, rd, b) == BlocksFrom(st, rd.slots, 1, b)
LoadAllF(st, rd) == LET r == BlocksFrom(st, rd.slots, 1, Big)
                    IN IF r.err # "none" THEN [rows |-> <<>>, err |-> r.err] ELSE [rows |-> Flatten(r.blocks), err |-> "none"]

\* ---------------------------------------------------------------------------------------------------
Init == /\ store = [s \in Slots |-> Absent] /\ stray = FALSE /\ reader = Closed /\ last = [op |-> "init"]

MayChange == TLCGet("level") <= WLen
Occupied(st) == {s \in Slots : st[s].st # "absent"}
Keep(s) == IF reader.open /\ s \in SeqSet(reader.slots) THEN Closed ELSE reader

WriteShard(s, c) ==
    /\ MayChange
    /\ Cardinality(Occupied(store) \cup {s}) <= MaxShards
    /\ store' = [store EXCEPT ![s] = [st |-> "ok", rows |-> c.rows, dim |-> c.dim, dt |-> c.dt, norms |-> c.norms]]
    /\ reader' = Keep(s) /\ UNCHANGED stray
    /\ last' = [op |-> "write", slot |-> s, c |-> c, kind |-> IF store[s].st = "absent" THEN "new" ELSE "overwrite"]
Damage(s, k) ==
    /\ MayChange /\ store[s].st = "ok"
    /\ store' = [store EXCEPT ![s].st = k]
    /\ reader' = Keep(s) /\ UNCHANGED stray
    /\ last' = [op |-> "damage", slot |-> s, kind |-> k]
AddStray ==
    /\ MayChange /\ ~stray
    /\ stray' = TRUE /\ UNCHANGED <<store, reader>>
    /\ last' = [op |-> "stray"]
Open(spec) ==
    LET r == OpenF(store, spec) IN
    /\ reader' = IF r.err = "none" THEN [open |-> TRUE, spec |-> spec, slots |-> r.slots] ELSE reader
    /\ UNCHANGED <<store, stray>>
    /\ last' = [op |-> "open", spec |-> spec, err |-> r.err, slots |-> r.slots, meta |-> r.meta]
Iter(b) ==
    /\ reader.open
    /\ UNCHANGED <<store, stray, reader>>
    /\ LET r == IterF(store, reader, b) IN last' = [op |-> "iter", batch |-> b, blocks |-> r.blocks, err |-> r.err]
LoadAll ==
    /\ reader.open
    /\ UNCHANGED <<store, stray, reader>>
    /\ LET r == LoadAllF(store, reader) IN last' = [op |-> "loadall", rows |-> r.rows, err |-> r.err]

Next == \/ \E s \in Slots, c \in Contents : WriteShard(s, c)
        \/ \E s \in Slots, k \in DamageKinds : Damage(s, k)
        \/ AddStray
        \/ \E sp \in Specs : Open(sp)
        \/ \E b \in Batches : Iter(b)
        \/ LoadAll
Spec == Init /\ [][Next]_vars

\* ---------------------------------------------------------------------------------------------------
\* design clauses.  State invariants speak about the reader the client holds (`last` is hidden by the VIEW);
\* clauses about one call are action properties (TLC evaluates those on every transition).
ReadOps == {"open", "iter", "loadall"}

\* the shards of a reader are listed in path order, each once, all intact, all of one dimension
ReaderSortedIntact ==
    reader.open => /\ Len(reader.slots) >= 1
                   /\ \A i \in 1..Len(reader.slots) - 1 : reader.slots[i] < reader.slots[i + 1]
                   /\ \A i \in 1..Len(reader.slots) : store[reader.slots[i]].st = "ok"
                   /\ \A i, j \in 1..Len(reader.slots) : store[reader.slots[i]].dim = store[reader.slots[j]].dim

\* every row of every discovered shard exactly once, shards in path order, rows in file order
EveryRowExactlyOnce ==
    reader.open =>
      LET a == LoadAllF(store, reader) IN
      a.err = "none" =>
        /\ Len(a.rows) = SumOver([s \in Slots |-> Len(store[s].rows)], reader.slots)
        /\ \A s \in SeqSet(reader.slots) : \A i \in 1..Len(store[s].rows) :
               Cardinality({k \in 1..Len(a.rows) : a.rows[k].s = s /\ a.rows[k].i = i}) = 1
        /\ \A k \in 1..Len(a.rows) - 1 :
               \/ a.rows[k].s < a.rows[k + 1].s
               \/ a.rows[k].s = a.rows[k + 1].s /\ a.rows[k].i < a.rows[k + 1].i

\* ids and vectors stay aligned, every shard decoded with its own dtype and its own norms source
IdsVectorsAligned ==
    reader.open =>
      LET a == LoadAllF(store, reader) IN
      \A k \in 1..Len(a.rows) :
          LET r == a.rows[k] sh == store[r.s] IN
          /\ r.id = sh.rows[r.i][1] /\ r.vc = sh.rows[r.i][2] /\ r.dt = sh.dt /\ r.ns = sh.norms

\* the concatenated blocks are load_all, whatever the batch size; the errors agree too
BatchIndependent ==
    reader.open =>
      LET a == LoadAllF(store, reader) IN
      \A b \in Batches : LET r == IterF(store, reader, b) IN
          /\ r.err = a.err
          /\ (r.err = "none" => Flatten(r.blocks) = a.rows)

\* a block is never empty, never larger than the batch, never spans two shards
BlocksWellFormed ==
    reader.open =>
      \A b \in Batches : LET r == IterF(store, reader, b) IN
          \A n \in 1..Len(r.blocks) : LET blk == r.blocks[n] IN
              /\ Len(blk) >= 1 /\ Len(blk) <= b
              /\ \A x, y \in 1..Len(blk) : blk[x].s = blk[y].s

ReadNeverWrites == [][last'.op \in ReadOps => store' = store /\ stray' = stray]_vars
WriteTouchesOneShard == [][last'.op \in {"write", "damage"} => \A t \in Slots : t # last'.slot => store'[t] = store[t]]_vars
WriteStoresContent == [][last'.op = "write" => LET sh == store'[last'.slot] c == last'.c IN
                            sh.st = "ok" /\ sh.rows = c.rows /\ sh.dim = c.dim /\ sh.dt = c.dt /\ sh.norms = c.norms]_vars
\* a successful open lists exactly the discovered shards; it succeeds iff there is one, all are intact, dims agree
OpenOutcome == [][last'.op = "open" =>
                    LET d == Discover(store, LayoutOf(last'.spec)) IN
                    /\ (last'.err = "none") = (d # {} /\ (\A s \in d : store[s].st = "ok") /\ Cardinality({store[s].dim : s \in d}) = 1)
                    /\ (last'.err = "none" => SeqSet(last'.slots) = d /\ Len(last'.slots) = Cardinality(d))
                    /\ (last'.err # "none" => reader' = reader)]_vars
DimMismatchRejected == [][last'.op = "open" /\ last'.err = "none" =>
                            \A s \in SeqSet(last'.slots) : store[s].dim = last'.meta.dim]_vars
MissingMetaIsNoShard == [][last'.op = "open" => \A s \in SeqSet(last'.slots) : store[s].st # "nometa"]_vars
\* what does not look like a shard changes nothing for any layout
StrayIgnored == [][last'.op = "stray" => \A l \in Layouts : Discover(store', l) = Discover(store, l)]_vars
\* a reader is a snapshot of the discovery: changes to other slots do not change what it returns
ReaderIsSnapshot == [][(reader.open /\ reader'.open /\ last'.op \in {"write", "damage", "stray"}) =>
                         reader' = reader /\ LoadAllF(store', reader') = LoadAllF(store, reader)]_vars

View_ == <<store, stray, reader>>
RECURSIVE StoreSeq(_, _)
StoreSeq(st, ss) == IF Len(ss) = 0 THEN <<>>
                    ELSE <<[slot |-> Head(ss), st |-> st[Head(ss)].st, rows |-> st[Head(ss)].rows, dim |-> st[Head(ss)].dim,
                            dt |-> st[Head(ss)].dt, norms |-> st[Head(ss)].norms]>> \o StoreSeq(st, Tail(ss))
StJson(st, sy, rd) == [store |-> StoreSeq(st, SetToSeq(Occupied(st))), stray |-> sy, reader |-> rd]
Emit == PrintT(<<"T", ToJson([pre |-> StJson(store, stray, reader), obs |-> last', post |-> StJson(store', stray', reader')])>>)
=============================================================================
