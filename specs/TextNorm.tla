------------------------------ MODULE TextNorm ------------------------------
(* Normaliser / tokeniser / aliasing utilities of the T2 quality paths — extra X09 (first half), beyond
   the listed properties.  Bound to clematis.engine.stages.t2.quality_norm: normalize_text, tokenize,
   apply_aliases, load_alias_map.

   Stated from the module's design notes and docs/m7/{overview,troubleshooting}.md:
     normalisation  "NFKC -> lower -> collapse whitespace"  (runs of whitespace -> one space, ends stripped;
                    "" for falsy input)
     tokenisation   "split on non-alphanumeric; drop empties; optional stopset / min length"; the text is
                    normalised first; tokens shorter than min_token_len are dropped, then tokens in the stop
                    set, then the optional stemmer is applied (stemmer: random family of the harness only)
     aliasing       "exact token-level rewrite or expansion (if canonical contains spaces)", "single pass";
                    canonicals are normalised and split like text except that underscores are preserved;
                    None / {} map = identity
     alias map      "alias: canonical pairs, one per line"; load_alias_map "never raises"; "{} if path is
                    falsy, missing, or unreadable, or if the payload is not a dict[str,str]"; "cached",
                    "process-lifetime cache" by absolute path.

   Characters are integer classes (the harness spells each class with several real characters):
      1  lower-case ASCII letter x ('f')        2  lower-case ASCII letter y ('i')
      3  upper-case ASCII letter X ('F')        4  ASCII digit, or a compatibility form of it ('7', fullwidth 7, superscript 7)
      5  the space U+0020                       6  other whitespace (tab, newline, NBSP, U+3000, U+2003, U+2028, U+001F ...)
      7  punctuation, kept as it is             8  compatibility character whose NFKC form is X or x (fullwidth F, circled F,
      9  lower-case non-ASCII letter ('é','ж')      astral U+1F135 / U+1D405 ...)
     10  underscore                            11  compatibility character whose NFKC form is the TWO letters x y (ligature 'ﬁ')
     12  upper-case non-ASCII letter ('É','Ж'), lower() gives class 9.

   DEVIATION T1 (documentation: "split on non-alphanumeric"): the tokeniser splits on [^0-9A-Za-z], i.e. every
   non-ASCII letter or digit that survives NFKC (class 9: 'é', 'ß', 'ж', '中') and the underscore are SEPARATORS:
   tokenize("café_au") = ["caf", "au"].  Modelled as built (IsAlnum = ASCII letters and digits only).
   DEVIATION N1 (outside this alphabet, harness random family): lower() is applied after NFKC and can leave text
   that is not NFKC-normalised ("H"+U+0331 -> "h"+U+0331, whose NFKC form is the single letter U+1E96; capital
   dotted I + cedilla), so normalize_text is not idempotent on such input and tokenize(normalize_text(s)) may
   differ from tokenize(s) (['h'] vs []).  On the classes above (no combining marks) NormaliseIdempotent holds.
   DEVIATION A1 (docstring "1-pass transform -> idempotent even if canonical strings repeat alias keys", docs
   "single-pass and idempotent; re-applying has no effect"): FALSE as written.  Because the pass is single, tokens
   produced by a rewrite are not rewritten in the same call, and a second call rewrites them:
   apply_aliases(["a"], {"a": "a a"}) = ["a","a"], applied again = ["a","a","a","a"];  {"a":"b","b":"c"}: ["a"] -> ["b"] -> ["c"].
   What holds (AliasIdempotenceAsDocumented): the second application changes nothing WHENEVER no token of the
   first result is an alias key other than a key mapped to itself (in particular for every map none of whose
   canonicals contains an alias key, AliasClosedMapIsIdempotent); out.idem records, per case, whether
   apply(apply(x)) = apply(x), and the harness replays the second application too.
   DEVIATION A2 (documentation silent): a canonical without any token ("", "  ", "!!") DROPS the token.
   DEVIATION L1 (docstring "{} if the payload is not a dict[str,str]"): modelled as built —
     * a mapping with non-scalar values is filtered entry by entry (after YAML's last-wins duplicate handling:
       "k: v" followed by "k: [x]" leaves NO entry for k), the other entries are kept;
     * a payload that is not a YAML mapping (top-level list, scalar, YAML syntax error) is re-read by the line
       parser "key: value": "- k: v" gives {"- k": "v"}, and then "k: [x, y]" gives the literal string "[x, y]".
   CACHE (as documented "cached", stated precisely): the FIRST result per absolute path is returned for the rest
   of the process: a file that is rewritten or deleted later keeps its old map, a file that was missing at the
   first call stays {} after it is created (failures are cached too).  out.second = out.first.               *)
EXTENDS Integers, Sequences, FiniteSets, TLC, Json

CONSTANTS Mode,          \* "text" | "alias" | "load"
          MaxLen, Chars, \* text: strings of up to MaxLen character classes out of Chars
          Opts,          \* text: sequence of tokeniser options [stop |-> set of tokens, min |-> minimum length]
          MaxToks, NTok, \* alias: token sequences of up to MaxToks tokens 1..NTok
          NKeys,         \* alias: candidate alias keys 1..NKeys (NKeys <= NTok)
          MaxCanon,      \* alias: canonicals of 0..MaxCanon tokens
          MaxLines,      \* load: files of up to MaxLines lines
          LineCodes,     \* load: the line kinds used
          Part, NParts   \* partition of the table over several TLC processes

VARIABLES inp, out
vars == <<inp, out>>

RECURSIVE SumSeq(_)
SumSeq(s) == IF s = <<>> THEN 0 ELSE Head(s) + SumSeq(Tail(s))
SetMax(S) == CHOOSE x \in S : \A y \in S : y <= x

------------------------------------------------------------------------------
\* normalisation: sequences of pairs <<class, source position>>
IsWs(c) == c \in {5, 6}
IsAlnum(c) == c \in {1, 2, 3, 4}                 \* ASCII letters and digits (DEVIATION T1)

RECURSIVE NfkcP(_, _)
NfkcP(s, i) == IF i > Len(s) THEN <<>>
               ELSE (IF s[i] = 8 THEN << <<3, i>> >>                   \* compatibility form of X (or x: lower() is a no-op then)
                     ELSE IF s[i] = 11 THEN << <<1, i>>, <<2, i>> >>   \* ligature: two letters
                     ELSE << <<s[i], i>> >>) \o NfkcP(s, i + 1)
LowerC(c) == IF c = 3 THEN 1 ELSE IF c = 12 THEN 9 ELSE c
LowerP(p) == [k \in 1..Len(p) |-> <<LowerC(p[k][1]), p[k][2]>>]
\* runs of whitespace -> one space (source 0); nothing at the ends
RECURSIVE CollapseP(_, _, _, _)
CollapseP(p, i, started, pend) ==
    IF i > Len(p) THEN <<>>
    ELSE IF IsWs(p[i][1]) THEN CollapseP(p, i + 1, started, started)
    ELSE (IF pend THEN << <<5, 0>> >> ELSE <<>>) \o << p[i] >> \o CollapseP(p, i + 1, TRUE, FALSE)
NormP(s) == CollapseP(LowerP(NfkcP(s, 1)), 1, FALSE, FALSE)
Classes(p) == [k \in 1..Len(p) |-> p[k][1]]
Sources(p) == [k \in 1..Len(p) |-> p[k][2]]
Norm(s) == Classes(NormP(s))

\* tokenisation of a normalised string: left-to-right scanner; o = [stop, min]
Keep(t, o) == Len(t) >= o.min /\ t \notin o.stop
Flush(cur, o) == IF cur # <<>> /\ Keep(cur, o) THEN <<cur>> ELSE <<>>
RECURSIVE Scan(_, _, _, _)
Scan(n, i, cur, o) == IF i > Len(n) THEN Flush(cur, o)
                      ELSE IF IsAlnum(n[i]) THEN Scan(n, i + 1, Append(cur, n[i]), o)
                      ELSE Flush(cur, o) \o Scan(n, i + 1, <<>>, o)
NoFilter == [stop |-> {}, min |-> 1]
Tokenize(s, o) == Scan(Norm(s), 1, <<>>, o)

TextOut(s) == LET p == NormP(s)
                  n == Classes(p)
              IN [norm |-> n, src |-> Sources(p), norm2 |-> Norm(n),
                  base |-> Scan(n, 1, <<>>, NoFilter),
                  tok |-> [k \in 1..Len(Opts) |-> Scan(n, 1, <<>>, Opts[k])],
                  tokn |-> Tokenize(n, NoFilter)]

------------------------------------------------------------------------------
\* aliasing: m[k] = canonical of key k (a sequence of tokens, possibly empty), <<0>> = k is not a key
Absent == <<0>>
IsKey(m, t) == t \in 1..NKeys /\ m[t] # Absent
Image(m, t) == IF IsKey(m, t) THEN m[t] ELSE <<t>>
RECURSIVE Apply(_, _)
Apply(ts, m) == IF ts = <<>> THEN <<>> ELSE Image(m, Head(ts)) \o Apply(Tail(ts), m)
AliasOut(ts, m) == LET once == Apply(ts, m)
                       twice == Apply(once, m)
                   IN [once |-> once, twice |-> twice, idem |-> (twice = once)]
Canons == {Absent} \cup UNION {[1..l -> 1..NTok] : l \in 0..MaxCanon}

------------------------------------------------------------------------------
\* alias map files.  Line codes:  0 blank   1 comment   2 a line without colon ("junk")
\*   100+10k+v  "key_k: canonical_v"     200+k  "key_k: [x, y]" (non-scalar value)     300+10k+v  "- key_k: canonical_v"
\* result slots: 1..2 = key_k, 3..4 = the literal key "- key_k"; values: 0 absent, 1..2 canonical_v, 9 the literal text "[x, y]"
IsPair(c) == c \in 100..199
IsListVal(c) == c \in 200..299
IsItem(c) == c \in 300..399
NotAMapping(ls) == \E i \in 1..Len(ls) : ls[i] = 2 \/ IsItem(ls[i])      \* YAML error, list or scalar -> line parser
SlotOf(c) == IF IsPair(c) THEN (c - 100) \div 10 ELSE IF IsListVal(c) THEN c - 200
             ELSE IF IsItem(c) THEN 2 + ((c - 300) \div 10) ELSE 0
ValOf(c, fb) == IF IsPair(c) THEN (c - 100) % 10 ELSE IF IsItem(c) THEN (c - 300) % 10
                ELSE IF fb THEN 9 ELSE 8                                 \* 8: non-scalar YAML value, filtered at the end
Parse(ls) == LET fb == NotAMapping(ls) IN
             [sl \in 1..4 |-> LET idx == {i \in 1..Len(ls) : SlotOf(ls[i]) = sl} IN
                              IF idx = {} THEN 0
                              ELSE LET v == ValOf(ls[SetMax(idx)], fb) IN IF v = 8 THEN 0 ELSE v]     \* last line wins
Empty == [sl \in 1..4 |-> 0]
NewContent == <<121>>                             \* what the file is replaced with / created as: "key_2: canonical_1"
LoadOut(kind, ls, rw) ==
    LET first == IF kind = "file" THEN Parse(ls) ELSE Empty      \* missing, directory, invalid UTF-8, falsy path: {}
    IN [first |-> first,
        second |-> IF kind = "nopath" THEN Empty ELSE first,     \* CACHE: the first result, whatever happened to the file
        fresh |-> IF rw = "keep" THEN first ELSE IF rw = "delete" THEN Empty ELSE Parse(NewContent)]   \* same bytes under a new path
RewritesOf(kind) == IF kind = "file" THEN {"keep", "replace", "delete"}
                    ELSE IF kind = "missing" THEN {"keep", "replace"}    \* replace = the file is created after the first call
                    ELSE {"keep"}

------------------------------------------------------------------------------
Init ==
    \/ /\ Mode = "text"
       /\ \E n \in 0..MaxLen : \E s \in [1..n -> Chars] :
              /\ SumSeq(s) % NParts = Part
              /\ inp = [s |-> s]
              /\ out = TextOut(s)
    \/ /\ Mode = "alias"
       /\ \E n \in 0..MaxToks : \E ts \in [1..n -> 1..NTok] : \E m \in [1..NKeys -> Canons] :
              /\ (SumSeq(ts) + SumSeq([k \in 1..NKeys |-> Len(m[k]) + SumSeq(m[k])])) % NParts = Part
              /\ inp = [toks |-> ts, m |-> m]
              /\ out = AliasOut(ts, m)
    \/ /\ Mode = "load"
       /\ \E kind \in {"file", "missing", "dir", "badutf8", "nopath"} :
          \E n \in 0..(IF kind \in {"file", "badutf8"} THEN MaxLines ELSE 0) : \E ls \in [1..n -> LineCodes] :
          \E rw \in RewritesOf(kind) :
              /\ inp = [kind |-> kind, lines |-> ls, rw |-> rw]
              /\ out = LoadOut(kind, ls, rw)
Next == FALSE
Spec == Init /\ [][Next]_vars

------------------------------------------------------------------------------
\* clauses over the enumerated tables
Text == Mode = "text"
\* the folded form of one character (NFKC then lower), independent of the pipeline above
FoldC(c) == IF c \in {3, 8} THEN <<1>> ELSE IF c = 11 THEN <<1, 2>> ELSE IF c = 12 THEN <<9>> ELSE <<c>>
RECURSIVE Skeleton(_)
Skeleton(s) == IF s = <<>> THEN <<>> ELSE (IF IsWs(Head(s)) THEN <<>> ELSE FoldC(Head(s))) \o Skeleton(Tail(s))
NormaliseIdempotent == Text => out.norm2 = out.norm
NormaliseLowerNFKC ==
    Text => LET n == out.norm  src == out.src IN
            /\ \A k \in 1..Len(n) : n[k] \in {1, 2, 4, 5, 7, 9, 10}          \* no upper case, no compatibility form, no other whitespace
            /\ \A k \in 1..Len(n) : n[k] = 5 => (k > 1 /\ k < Len(n) /\ n[k + 1] # 5)    \* single interior spaces only
            /\ SelectSeq(n, LAMBDA c : c # 5) = Skeleton(inp.s)                \* everything else is kept, folded, in order
            /\ \A k \in 1..(Len(n) - 1) :                                      \* a space stands exactly where whitespace stood
                   IF n[k] = 5 THEN \E i \in (src[k - 1] + 1)..(src[k + 1] - 1) : IsWs(inp.s[i])
                   ELSE n[k + 1] # 5 => \A i \in (src[k] + 1)..(src[k + 1] - 1) : ~IsWs(inp.s[i])
Runs(n) == {r \in (1..Len(n)) \X (1..Len(n)) :
                /\ r[1] <= r[2] /\ \A i \in r[1]..r[2] : IsAlnum(n[i])
                /\ (r[1] = 1 \/ ~IsAlnum(n[r[1] - 1])) /\ (r[2] = Len(n) \/ ~IsAlnum(n[r[2] + 1]))}
TokensAreMaximalAlnumRuns ==
    Text => LET n == out.norm  R == Runs(n) IN
            /\ Len(out.base) = Cardinality(R)
            /\ \A r \in R : out.base[Cardinality({q \in R : q[1] <= r[1]})] = SubSeq(n, r[1], r[2])
StopAndMinLenFilter ==
    Text => \A k \in 1..Len(Opts) : out.tok[k] = SelectSeq(out.base, LAMBDA t : Len(t) >= Opts[k].min /\ t \notin Opts[k].stop)
TokeniseOfNormalisedEqualsTokenise == Text => out.tokn = out.base

Alias == Mode = "alias"
Seg(k) == Image(inp.m, inp.toks[k])                               \* what input token k turns into
Off(k) == SumSeq([j \in 1..(k - 1) |-> Len(Seg(j))])              \* where it starts in the result
AliasSinglePassLeftToRight ==     \* every input token is looked up exactly once; what a rewrite produces is not looked up again
    Alias => \A k \in 1..Len(inp.toks) : SubSeq(out.once, Off(k) + 1, Off(k) + Len(Seg(k))) = Seg(k)
AliasExpansionOrderPreserved ==
    Alias => /\ Len(out.once) = Off(Len(inp.toks) + 1)
             /\ \A k \in 1..Len(inp.toks) : ~IsKey(inp.m, inp.toks[k]) => out.once[Off(k) + 1] = inp.toks[k]
AliasNoneOrEmptyMapIsIdentity == Alias => ((\A k \in 1..NKeys : inp.m[k] = Absent) => out.once = inp.toks)
AliasIdempotenceAsDocumented ==   \* DEVIATION A1: not unconditional (out.idem is FALSE in many enumerated cases)
    Alias => ((\A k \in 1..Len(out.once) : IsKey(inp.m, out.once[k]) => inp.m[out.once[k]] = <<out.once[k]>>) => out.idem)
AliasClosedMapIsIdempotent ==
    Alias => ((\A k \in 1..NKeys : IsKey(inp.m, k) => \A i \in 1..Len(inp.m[k]) : ~IsKey(inp.m, inp.m[k][i])) => out.idem)

Load == Mode = "load"
LoadAliasMapTotal ==
    Load => /\ inp.kind # "file" => out.first = Empty
            /\ \A sl \in 1..4 : out.first[sl] \in {0, 1, 2, 9}
            /\ (\A i \in 1..Len(inp.lines) : inp.lines[i] \in {0, 1, 2}) => out.first = Empty
LoadLastDuplicateWins ==
    (Load /\ inp.kind = "file" /\ \A i \in 1..Len(inp.lines) : IsPair(inp.lines[i]) \/ inp.lines[i] \in {0, 1}) =>
        \A sl \in 1..2 : LET idx == {i \in 1..Len(inp.lines) : SlotOf(inp.lines[i]) = sl} IN
                         out.first[sl] = IF idx = {} THEN 0 ELSE (inp.lines[SetMax(idx)] - 100) % 10
LoadCachedPerPath == Load => out.second = out.first

EmitCase == PrintT(<<"T", ToJson([i |-> inp, o |-> out])>>)
=============================================================================
