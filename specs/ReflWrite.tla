----------------------------- MODULE ReflWrite -----------------------------
(* Reflection write path (clematis.engine.orchestrator.reflection:write_reflection_entries) — the
   part of C19 below the turn pipeline: "writes at most the configured number of memory entries,
   each with ... an id and timestamp that are pure functions of agent, turn, slot and text".

   Enumerate-inputs specification (Next == FALSE): one state per input
     n     : number of entries the reflection result carries (slots 0..n-1)
     cap   : scheduler.budgets.ops_reflection as the writer reads it
     fail  : the set of slots whose index.add raises
     idx   : "ok" / "missing" (no memory index attached to the state) / "typeerr" (the index
             only accepts keyword arguments: the first call raises TypeError, the retry succeeds)
   and the result the writer must produce
     slots     : the slots written, in order  (slot identity = the entry's position in the
                 reflection result, independent of what happened to other slots)
     attempted : n            written : Len(slots)
     reason    : "none" | "ops_cap" | "index_missing" | "partial_failure"
   The harness gives every slot a distinct text and checks, on the real writer, that the entry
   written for slot i carries exactly the id and timestamp the fault-free run gives slot i.   *)
EXTENDS Integers, Sequences, FiniteSets, TLC, Json

CONSTANTS MaxEntries, Caps, IdxKinds

VARIABLES inp, out
vars == <<inp, out>>

Min(a, b) == IF a < b THEN a ELSE b

RECURSIVE Written(_, _, _)
Written(i, hi, fail) == IF i >= hi THEN <<>>
                        ELSE (IF i \in fail THEN <<>> ELSE <<i>>) \o Written(i + 1, hi, fail)

Result(x) ==
    IF x.n = 0 THEN [slots |-> <<>>, attempted |-> 0, written |-> 0, reason |-> "none"]
    ELSE IF x.cap <= 0 THEN [slots |-> <<>>, attempted |-> x.n, written |-> 0, reason |-> "ops_cap"]
    ELSE IF x.idx = "missing" THEN [slots |-> <<>>, attempted |-> x.n, written |-> 0, reason |-> "index_missing"]
    ELSE LET hi == Min(x.n, x.cap)
             s == Written(0, hi, x.fail)
         IN [slots |-> s, attempted |-> x.n, written |-> Len(s),
             reason |-> IF \E i \in x.fail : i < hi THEN "partial_failure" ELSE "none"]

Init == /\ inp \in [n : 0..MaxEntries, cap : Caps, fail : SUBSET (0..(MaxEntries - 1)), idx : IdxKinds]
        /\ out = Result(inp)
Next == FALSE
Spec == Init /\ [][Next]_vars

\* clauses of C19 on the table
EntriesWithinOps == Len(out.slots) <= (IF inp.cap > 0 THEN inp.cap ELSE 0) /\ Len(out.slots) <= inp.n
SlotIdentity ==            \* a slot that is written is written under its own index whatever happens to the other slots
    /\ \A i \in 1..Len(out.slots) : out.slots[i] \in 0..(inp.n - 1) /\ out.slots[i] \notin inp.fail
    /\ \A i \in 1..(Len(out.slots) - 1) : out.slots[i] < out.slots[i + 1]
    /\ \A s \in 0..(Min(inp.n, inp.cap) - 1) : (s \notin inp.fail /\ inp.idx # "missing") => \E i \in 1..Len(out.slots) : out.slots[i] = s
CountsAgree == out.written = Len(out.slots) /\ out.attempted = inp.n

EmitCase == PrintT(<<"T", ToJson([inp |-> [n |-> inp.n, cap |-> inp.cap, idx |-> inp.idx,
                                           fail |-> [i \in 1..MaxEntries |-> (i - 1) \in inp.fail]],
                                  out |-> out])>>)
=============================================================================
