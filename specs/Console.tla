------------------------------ MODULE Console ------------------------------
(* The deterministic operator console (clematis/scripts/console.py, reached by
   `python -m clematis console -- <cmd> ...` through clematis/cli/console.py) - extra X10, beyond the
   listed properties.  Stated from the module docstring, docs/operator-guide.md (sections 2, 10, 11) and
   docs/m14/frontend.md section 5.

   DOCUMENTED
     reset [--snapshot PATH]   loads a snapshot into state; without --snapshot the latest of
                               CLEMATIS_SNAPSHOTS_DIR (default ./.data/snapshots)
     status                    prints the scheduler/budgets summary (uses the latest snapshot by default)
     step [--now-ms N] [--input TEXT] [--out BUNDLE.json]
                               runs exactly one turn; --now-ms omitted = SOURCE_DATE_EPOCH * 1000 (never the
                               wall clock); the bundle goes to --out (canonical: sorted keys, LF) or stdout;
                               stage logs go to CLEMATIS_LOG_DIR if set, otherwise to a temporary directory
                               that is cleaned up
     compare --a A --b B       diffs two bundles on: counts per stage, snapshot count, meta keys
     exit codes                0 = OK / equal, 1 = compare found differences, 2 = adapter or usage error
                               (missing snapshot, argparse errors)
     warning                   reset and step warn on stderr when TZ / PYTHONHASHSEED / SOURCE_DATE_EPOCH /
                               CLEMATIS_NETWORK_BAN differ from the deterministic environment

   AS IMPLEMENTED (the documentation is silent or says otherwise; the model follows the code, the harness
   reports these as observations)
     I1  the console keeps NO state between invocations: `reset` loads, reports and forgets.  What persists
         is the snapshot directory (every step writes state_console.json + its .meta sidecar there, version
         = loaded version + 1; the turn id is always "1"), the log directory (one record per stage stream and
         step, appended) and the bundles.  The state of this machine is exactly that.
     I2  "latest": reset/status take the newest *.json by modification time (find_latest_snapshot) and read
         it strictly; a step without --snapshot uses the engine's discovery (SnapshotDir.tla, D1) and load,
         which is tolerant: an unreadable latest file silently gives the empty state (version 0).  The
         directories of this model hold state_*.json files only, where the two discovery rules agree.
     I3  with CLEMATIS_LOG_DIR set the bundle is assembled from the WHOLE log directory: it holds one record
         per stage for every step run so far, not only for this turn.  With it unset, exactly this turn.
     I4  compare with a missing / unparsable file is not handled: Python traceback, exit status 1 (the
         documented code for "differs"; the documented code for misuse is 2).  err = "crash" below.
     I5  a snapshot file that holds valid JSON which is not an object (kind "list") crashes reset, status
         and step the same way (traceback, exit status 1) instead of the documented exit 2.
     I6  --now-ms and --input reach the orchestrator but leave no trace in the bundle of the console's world
         (no graph store, no memory index): the bundle is a function of (loaded state, logs so far, --t3).
     I7  `step --snapshot PATH` does not step the state of PATH: the orchestrator's boot hook (run on every fresh
         state; the console never marks its state as booted) loads the LATEST file of the snapshot directory over
         it.  PATH only decides whether the command fails (exit 2 when unreadable).  See StepLoad; the constant
         BootHook switches between the implemented and the promised behaviour.
     I8  the warning compares SOURCE_DATE_EPOCH with the value read at import time, so a deviating value never
         warns (not varied here); `next` is an alias of `step`.

   Abstract state
     files : name -> [kind, v, g, side]   snapshot directory: state_<name>.json; kind good | trunc | list,
                                          v = version_etag, g = number of concept nodes carried, side = has
                                          a .meta sidecar
     order : names, oldest -> newest (modification time)
     log   : versions written by the steps logged in the log directory (apply stream), in order
     n3    : number of T3 records logged (steps run with --t3)
     outs  : name -> bundle               bundle files; [kind = "run", log, n3, snapv, g] for console output,
                                          fixed hand-made files p1 p2 p3, "junk" = unparsable
     mode  : [logdir, badenv, sched]      environment of the whole behaviour
     last  : observation of the last command (hidden by the VIEW; clauses on it are ACTION properties)     *)
EXTENDS Integers, Sequences, FiniteSets, TLC, Json

CONSTANTS Worlds,        \* initial worlds: pairs << snapshot directory, environment >>; the directory is a sequence
                         \* (oldest -> newest) over DOMAIN Pre, the environment a record
                         \* [logdir : {"set","unset"}, badenv : SUBSET ReqEnv, sched : BOOLEAN]
          SnapArgs,      \* --snapshot values of reset / status ("none" = omitted, "ghost" = missing file)
          StepSnapArgs,  \* --snapshot values of step
          NowInputs,     \* pairs <<clock, input>>: 0 = option omitted
          StepOuts,      \* --out values ("none" = stdout)
          T3s,           \* --t3 given?
          CmpFiles,      \* operands of compare
          Misuses,       \* malformed command lines
          MaxSteps,      \* successful steps per behaviour
          BootHook       \* TRUE = as implemented (I7); FALSE = `step --snapshot PATH` steps the state of PATH

ReqEnv == {"TZ", "PYTHONHASHSEED", "SOURCE_DATE_EPOCH", "CLEMATIS_NETWORK_BAN"}

\* pre-existing snapshot files (hard-coded test universe)
Pre == [alpha |-> [kind |-> "good", v |-> 5, g |-> 2, side |-> FALSE],
        beta  |-> [kind |-> "trunc", v |-> 0, g |-> 0, side |-> FALSE],
        gamma |-> [kind |-> "list", v |-> 0, g |-> 0, side |-> FALSE],
        delta |-> [kind |-> "good", v |-> 8, g |-> 0, side |-> TRUE]]

\* pre-existing bundle files.  Summary = what `compare` looks at.
NoBundle == [kind |-> "none", log |-> <<>>, n3 |-> 0, snapv |-> 0, g |-> 0]
PreOuts == [p1 |-> [NoBundle EXCEPT !.kind = "p1"], p2 |-> [NoBundle EXCEPT !.kind = "p2"],
            p3 |-> [NoBundle EXCEPT !.kind = "p3"], junk |-> [NoBundle EXCEPT !.kind = "junk"]]
Summary(b) ==
    IF b.kind = "run" THEN [turns |-> Len(b.log), t3 |-> b.n3, snaps |-> 1, meta |-> "export"]
    ELSE IF b.kind = "p1" THEN [turns |-> 1, t3 |-> 0, snaps |-> 1, meta |-> "export"]   \* same projection as one plain step
    ELSE IF b.kind = "p2" THEN [turns |-> 1, t3 |-> 0, snaps |-> 0, meta |-> "min"]      \* the minimal-bundle shape
    ELSE [turns |-> 2, t3 |-> 1, snaps |-> 2, meta |-> "none"]                            \* p3

VARIABLES files, order, log, n3, outs, mode, last,
          steps      \* successful steps so far: bounds the behaviours (a counter variable, not the search level)
vars == <<files, order, log, n3, outs, mode, last, steps>>
St == [files |-> files, order |-> order, log |-> log, n3 |-> n3, outs |-> outs, mode |-> mode]

Put(m, k, v) == [x \in DOMAIN m \cup {k} |-> IF x = k THEN v ELSE m[x]]
Without(s, k) == SelectSeq(s, LAMBDA x : x # k)
Latest(o) == IF o = <<>> THEN "none" ELSE o[Len(o)]

\* strict read of one snapshot file (explicit --snapshot, or the latest file of reset / status)
Load(st, name) ==
    IF name = "none" THEN [res |-> "ok", v |-> 0, g |-> 0, from |-> "none"]
    ELSE IF name \notin DOMAIN st.files THEN [res |-> "err", v |-> 0, g |-> 0, from |-> name]
    ELSE IF st.files[name].kind = "good" THEN [res |-> "ok", v |-> st.files[name].v, g |-> st.files[name].g, from |-> name]
    ELSE IF st.files[name].kind = "trunc" THEN [res |-> "err", v |-> 0, g |-> 0, from |-> name]
    ELSE [res |-> "crash", v |-> 0, g |-> 0, from |-> name]                                   \* I5
\* the engine's tolerant load of the latest file (step without --snapshot), I2
Tolerant(st) ==
    LET l == Latest(st.order) IN
    IF l = "none" THEN Load(st, "none")
    ELSE IF st.files[l].kind = "trunc" THEN [res |-> "ok", v |-> 0, g |-> 0, from |-> "none"]
    ELSE Load(st, l)

\* the state a step starts from.  --snapshot PATH is read strictly (an unreadable PATH is an error).  I7: the turn
\* then runs the orchestrator's boot hook on the fresh state, which loads the LATEST file of the directory over it:
\* a readable latest file replaces version and graph of PATH; an unreadable one empties the graph and keeps the
\* version of PATH.  BootHook = FALSE is the behaviour the option's help text promises ("snapshot .json path").
StepLoad(st, s) ==
    IF s = "none" THEN Tolerant(st)
    ELSE LET ld == Load(st, s)
             l == Latest(st.order) IN
         IF ld.res # "ok" \/ ~BootHook \/ l = "none" THEN ld
         ELSE IF st.files[l].kind = "good" THEN [res |-> "ok", v |-> st.files[l].v, g |-> st.files[l].g, from |-> l]
         ELSE [res |-> "ok", v |-> ld.v, g |-> 0, from |-> s]

Rc(res) == IF res = "ok" THEN 0 ELSE IF res = "err" THEN 2 ELSE 1
ErrOf(res) == IF res = "ok" THEN "none" ELSE IF res = "err" THEN "snapshot" ELSE "crash"

\* ---- functional core: every command maps a state to [st, obs] ------------------------------------------
ResetF(st, s) ==
    LET sel == IF s = "none" THEN Latest(st.order) ELSE s
        ld == Load(st, sel) IN
    [st |-> st, obs |-> [cmd |-> "reset", sarg |-> s, sel |-> sel, rc |-> Rc(ld.res), err |-> ErrOf(ld.res),
                         v |-> ld.v, warn |-> st.mode.badenv, turns |-> 0]]

StatusF(st, s) ==
    LET sel == IF s = "none" THEN Latest(st.order) ELSE s
        ld == Load(st, sel) IN
    [st |-> st, obs |-> [cmd |-> "status", sarg |-> s, sel |-> sel, rc |-> Rc(ld.res), err |-> ErrOf(ld.res),
                         v |-> ld.v, counts |-> (st.mode.logdir = "set" /\ st.mode.sched), warn |-> {}, turns |-> 0]]

StepF(st, s, clock, input, out, t3) ==
    LET ld == StepLoad(st, s)
        common == [cmd |-> "step", sarg |-> s, clock |-> clock, input |-> input, out |-> out, t3 |-> t3,
                   rc |-> Rc(ld.res), err |-> ErrOf(ld.res), warn |-> st.mode.badenv, from |-> ld.from, v0 |-> ld.v] IN
    IF ld.res # "ok" THEN [st |-> st, obs |-> common @@ [turns |-> 0]]
    ELSE LET v1 == ld.v + 1
             keep == st.mode.logdir = "set"
             log1 == IF keep THEN Append(st.log, v1) ELSE st.log
             n31 == IF keep /\ t3 THEN st.n3 + 1 ELSE st.n3
             bundle == [kind |-> "run", log |-> IF keep THEN log1 ELSE <<v1>>,                  \* I3
                        n3 |-> IF keep THEN n31 ELSE (IF t3 THEN 1 ELSE 0), snapv |-> v1, g |-> ld.g]
             st1 == [st EXCEPT !.files = Put(st.files, "console", [kind |-> "good", v |-> v1, g |-> ld.g, side |-> TRUE]),
                               !.order = Append(Without(st.order, "console"), "console"),
                               !.log = log1, !.n3 = n31,
                               !.outs = IF out = "none" THEN st.outs ELSE Put(st.outs, out, bundle)] IN
         [st |-> st1, obs |-> common @@ [turns |-> 1, v1 |-> v1, bundle |-> bundle,
                                         noweff |-> IF clock = 0 THEN "epoch*1000" ELSE "given"]]

Readable(st, f) == f \in DOMAIN st.outs /\ st.outs[f].kind # "junk"
DiffKeys(x, y) == {k \in {"counts", "snapshots_len", "meta_keys"} :
                      \/ k = "counts" /\ (x.turns # y.turns \/ x.t3 # y.t3)
                      \/ k = "snapshots_len" /\ x.snaps # y.snaps
                      \/ k = "meta_keys" /\ x.meta # y.meta}
CompareF(st, a, b) ==
    IF ~Readable(st, a) \/ ~Readable(st, b)
    THEN [st |-> st, obs |-> [cmd |-> "compare", a |-> a, b |-> b, rc |-> 1, err |-> "crash", diff |-> {}, warn |-> {}, turns |-> 0]]   \* I4
    ELSE LET d == DiffKeys(Summary(st.outs[a]), Summary(st.outs[b])) IN
         [st |-> st, obs |-> [cmd |-> "compare", a |-> a, b |-> b, rc |-> IF d = {} THEN 0 ELSE 1, err |-> "none",
                              diff |-> d, sa |-> Summary(st.outs[a]), sb |-> Summary(st.outs[b]), warn |-> {}, turns |-> 0]]

MisuseF(st, m) == [st |-> st, obs |-> [cmd |-> "misuse", what |-> m, rc |-> 2, err |-> "usage", warn |-> {}, turns |-> 0]]

\* ---- the machine ---------------------------------------------------------------------------------------

Init == /\ \E w \in Worlds : /\ order = w[1]
                             /\ files = [n \in {w[1][i] : i \in 1..Len(w[1])} |-> Pre[n]]
                             /\ mode = w[2]
        /\ log = <<>> /\ n3 = 0 /\ outs = PreOuts /\ steps = 0
        /\ last = [cmd |-> "init", rc |-> 0, err |-> "none", warn |-> {}, turns |-> 0]

Do(r) == /\ files' = r.st.files /\ order' = r.st.order /\ log' = r.st.log /\ n3' = r.st.n3
         /\ outs' = r.st.outs /\ mode' = r.st.mode /\ last' = r.obs
         /\ steps' = steps + r.obs.turns

Next == \/ \E s \in SnapArgs : Do(ResetF(St, s))
        \/ \E s \in SnapArgs : Do(StatusF(St, s))
        \/ \E a \in CmpFiles, b \in CmpFiles : Do(CompareF(St, a, b))
        \/ \E m \in Misuses : Do(MisuseF(St, m))
        \/ /\ steps < MaxSteps
           /\ \E s \in StepSnapArgs, ni \in NowInputs, o \in StepOuts, t \in T3s : Do(StepF(St, s, ni[1], ni[2], o, t))
Spec == Init /\ [][Next]_vars

\* ---- clauses ---------------------------------------------------------------------------------------------
DirWellFormed == /\ {order[i] : i \in 1..Len(order)} = DOMAIN files /\ Len(order) = Cardinality(DOMAIN files)
                 /\ \A i \in 1..Len(log) : log[i] >= 1
                 /\ n3 <= Len(log)

StatusIsPure == [][last'.cmd \in {"status", "reset", "compare", "misuse"} => St' = St]_vars
ResetFailureLeavesState == [][last'.rc # 0 => St' = St]_vars
ResetLoadsChosenSnapshot ==
    [][last'.cmd \in {"reset", "status"} /\ last'.rc = 0 =>
          /\ last'.sel = (IF last'.sarg = "none" THEN Latest(order) ELSE last'.sarg)
          /\ IF last'.sel = "none" THEN last'.v = 0
             ELSE last'.sel \in DOMAIN files /\ files[last'.sel].kind = "good" /\ last'.v = files[last'.sel].v]_vars
StepAdvancesExactlyOne ==
    [][last'.cmd = "step" /\ last'.rc = 0 =>
          /\ last'.turns = 1 /\ last'.v1 = last'.v0 + 1
          /\ files'["console"].v = last'.v1 /\ Latest(order') = "console"
          /\ last'.bundle.snapv = last'.v1
          /\ IF mode.logdir = "set" THEN log' = Append(log, last'.v1) /\ last'.bundle.log = log'
                                     ELSE log' = log /\ last'.bundle.log = <<last'.v1>>
          /\ (last'.sarg # "none" /\ ~BootHook => last'.from = last'.sarg /\ last'.v0 = files[last'.sarg].v)
          /\ (last'.sarg # "none" /\ BootHook /\ files[Latest(order)].kind = "good" => last'.from = Latest(order))]_vars
\* the outcome of a step is a function of (state, --snapshot, --out, --t3): the clock and the input text do not
\* enter it (I6); the same call on the same state gives the same bundle
StepDeterministic ==
    [][last'.cmd = "step" =>
          \A ni \in NowInputs : LET r == StepF(St, last'.sarg, ni[1], ni[2], last'.out, last'.t3) IN
                                  /\ r.st = St'
                                  /\ (last'.rc = 0 => r.obs.bundle = last'.bundle)]_vars
CompareReflexive == [][last'.cmd = "compare" /\ last'.a = last'.b /\ Readable(St, last'.a) => last'.rc = 0 /\ last'.diff = {}]_vars
CompareSymmetric == [][last'.cmd = "compare" => LET r == CompareF(St, last'.b, last'.a).obs IN r.rc = last'.rc /\ r.diff = last'.diff /\ r.err = last'.err]_vars
CompareDetectsDifference ==
    [][last'.cmd = "compare" /\ last'.err = "none" =>
          /\ (last'.rc = 1) <=> (Summary(outs[last'.a]) # Summary(outs[last'.b]))
          /\ (Summary(outs[last'.a]).turns # Summary(outs[last'.b]).turns => "counts" \in last'.diff)]_vars
\* 0 success / equal; 2 adapter or usage error; 1 only from compare - or from the two unhandled crashes I4 / I5
ExitCodesAsDocumented ==
    [][/\ last'.rc \in {0, 1, 2}
       /\ (last'.rc = 2) <=> (last'.err \in {"snapshot", "usage"})
       /\ (last'.rc = 0) <=> (last'.err = "none" /\ (last'.cmd = "compare" => last'.diff = {}))
       /\ (last'.rc = 1 => last'.cmd = "compare" \/ last'.err = "crash")]_vars
\* only a successful step writes, and only: state_console.json (+ sidecar), one record per stream, the --out file
NothingWrittenOutsideOut ==
    [][St' # St =>
          /\ last'.cmd = "step" /\ last'.rc = 0
          /\ DOMAIN files' = DOMAIN files \cup {"console"}
          /\ \A n \in DOMAIN files \ {"console"} : files'[n] = files[n]
          /\ Without(order', "console") = Without(order, "console")
          /\ DOMAIN outs' = DOMAIN outs \cup (IF last'.out = "none" THEN {} ELSE {last'.out})
          /\ \A o \in DOMAIN outs \ {last'.out} : outs'[o] = outs[o]
          /\ mode' = mode]_vars
WarnsOnlyWhereDocumented == [][last'.warn = (IF last'.cmd \in {"reset", "step"} THEN mode.badenv ELSE {})]_vars

StepsCounted == steps <= MaxSteps /\ (mode.logdir = "set" => steps = Len(log))

View_ == <<files, order, log, n3, outs, mode, steps>>
Emit == PrintT(<<"T", ToJson([pre |-> St, obs |-> last', post |-> St'])>>)
=============================================================================
