--------------------------- MODULE LogAppendTrace ---------------------------
(* Batch trace validation (C->S) for LogAppend: the final content of a log file written by real
   concurrent writers (threads / processes / forced schedules) is parsed by the harness into
       [op |-> "final", nw |-> #writers, nr |-> #records per writer, lines |-> << <<w, s, complete>> .. >>]
   (complete = 1 iff the line is LF-terminated, parses as JSON and equals the record (w, s) that was
   handed to the appender; anything else is <<0, 0, 0>>).  The clause predicates of LogAppend are
   evaluated on it.  Verdicts are total: first failing clause per trace. *)
EXTENDS LogAppend, IOUtils, TLCExt

Traces == ndJsonDeserialize(IOEnv.TRACE_FILE)

VARIABLES tid, l
tvars == <<file, pc, last, tid, l>>

Clause(e) ==
    IF e.op # "final" THEN "UnknownEvent"
    ELSE IF ~AllLinesComplete(e.lines) THEN "OneCompleteLinePerRecord"
    ELSE IF ~OrderOK(e.lines, e.nw) THEN "PerWriterOrder"
    ELSE IF ~(NoDuplicate(e.lines, e.nw, e.nr) /\ LosslessOK(e.lines, e.nw, e.nr)) THEN "NoLossNoDuplication"
    ELSE ""

TInit == TLCSet(1, 0) /\ Init /\ tid = 1 /\ l = 1
NextTrace == TLCSet(1, tid) /\ tid' = tid + 1 /\ l' = 1 /\ UNCHANGED <<file, pc, last>>

TNext ==
    /\ tid <= Len(Traces)
    /\ LET ev == Traces[tid].ev IN
       IF l > Len(ev) THEN PrintT(<<"V", Traces[tid].tid, "ok", l - 1>>) /\ NextTrace
       ELSE LET e == ev[l] c == Clause(e) IN
            IF c # "" THEN PrintT(<<"V", Traces[tid].tid, c, l>>) /\ NextTrace
            ELSE l' = l + 1 /\ tid' = tid /\ UNCHANGED <<file, pc, last>>

TraceSpec == TInit /\ [][TNext]_tvars
Done == PrintT(<<"V", 0, "done", TLCGet(1)>>)
=============================================================================
