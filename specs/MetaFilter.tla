----------------------------- MODULE MetaFilter -----------------------------
(* T4 meta-filter (clematis.engine.stages.t4.t4_filter), the documented pipeline (C03):
     drop every proposed delta whose originating op is blocked by a cooldown (C03: "none originating from an
        operation still in cooldown" - also when another, live op proposes a delta for the same target)
     -> combine duplicates per target (sum; provenance = smallest op index)
     -> clamp each magnitude to the novelty cap
     -> if the L2 norm exceeds the norm cap, scale all uniformly onto the cap
     -> keep the top-K by magnitude (ties to the smaller target key)
     -> list in target-key order.
   Magnitudes are fixed-point integers (unit 1/1024) so that sums, clamps and squared norms are
   exact; a uniform scale is carried symbolically (flag `scaled`), because the factor cap/norm is
   irrational.  Targets are integers whose order is the order of the canonical target keys.
   The input is a *bag* of proposed deltas (listed as a non-decreasing sequence of item ids); the
   implementation is run on several listings of the same bag.                                   *)
EXTENDS Integers, Sequences, FiniteSets, TLC, Json

CONSTANTS NT,        \* targets 1..NT
          Mags,      \* sequence of magnitudes (integers, unit 1/1024)
          NOps,      \* ops 1..NOps; op index 0 = "no originating op"
          MaxBag,
          NoveltyCaps, L2Caps, ChurnCaps, BlockedSets

\* Mags is a sequence; item ids 1..NI decode arithmetically to <<target, magnitude, op>>
NM == Len(Mags)
NI == NT * NM * (NOps + 1)
ItemOf(i) == LET z == i - 1
                 op == z % (NOps + 1)
                 m == (z \div (NOps + 1)) % NM
                 t == z \div ((NOps + 1) * NM)
             IN <<t + 1, Mags[m + 1], op>>

VARIABLES bag, novelty, l2, churn, blocked, out
vars == <<bag, novelty, l2, churn, blocked, out>>

NonDecr(s) == \A i \in 1..(Len(s) - 1) : s[i] <= s[i + 1]
Bags == UNION {{s \in [1..n -> 1..NI] : NonDecr(s)} : n \in 0..MaxBag}

Abs(x) == IF x < 0 THEN -x ELSE x
SortedSeq(S) == CHOOSE s \in [1..Cardinality(S) -> S] : \A i, j \in 1..Cardinality(S) : i < j => s[i] < s[j]
RECURSIVE SumF(_, _)
SumF(f, S) == IF S = {} THEN 0 ELSE LET t == CHOOSE t \in S : TRUE IN f[t] + SumF(f, S \ {t})

-----------------------------------------------------------------------------
(* the documented pipeline; every intermediate result is bound once *)
Pipeline(b, nov, cap, k, blk) ==
    LET deltas == [i \in 1..Len(b) |-> [tgt |-> ItemOf(b[i])[1], d |-> ItemOf(b[i])[2], op |-> ItemOf(b[i])[3]]]
        idx == 1..Len(b)
        targets == {deltas[i].tgt : i \in idx}
        \* 1) cooldown: the block applies to the individual deltas
        live == {i \in idx : deltas[i].op = 0 \/ deltas[i].op \notin blk}
        aftercd == {deltas[i].tgt : i \in live}
        \* 0) combine duplicates of what is left: sum, provenance = smallest op index (0 = none)
        sumd == [t \in aftercd |-> SumF([i \in idx |-> IF i \in live /\ deltas[i].tgt = t THEN deltas[i].d ELSE 0], idx)]
        opsof == [t \in aftercd |-> {deltas[i].op : i \in {j \in live : deltas[j].tgt = t}} \ {0}]
        minop == [t \in aftercd |-> IF opsof[t] = {} THEN 0 ELSE CHOOSE o \in opsof[t] : \A q \in opsof[t] : o <= q]
        \* 2) novelty clamp
        clamped == [t \in aftercd |-> IF Abs(sumd[t]) > nov THEN (IF sumd[t] > 0 THEN nov ELSE -nov) ELSE sumd[t]]
        nclamped == Cardinality({t \in aftercd : Abs(sumd[t]) > nov})
        \* 3) uniform L2 scale (symbolic)
        sumsq == SumF([t \in aftercd |-> clamped[t] * clamped[t]], aftercd)
        scaled == sumsq > cap * cap
        \* 4) top-K by magnitude desc, target asc (uniform scaling preserves the ranking)
        before == [x \in aftercd \X aftercd |->
                     Abs(clamped[x[1]]) > Abs(clamped[x[2]]) \/ (Abs(clamped[x[1]]) = Abs(clamped[x[2]]) /\ x[1] < x[2])]
        rank == [t \in aftercd |-> Cardinality({u \in aftercd : before[<<u, t>>]})]
        kept == IF Cardinality(aftercd) <= k THEN aftercd ELSE {t \in aftercd : rank[t] < k}
        ts == SortedSeq(kept)
    IN [deltas |-> deltas, targets |-> targets, aftercd |-> aftercd, kept |-> kept, before |-> before,
        approved |-> [i \in 1..Len(ts) |-> [tgt |-> ts[i], d |-> clamped[ts[i]], op |-> minop[ts[i]]]],
        scaled |-> scaled, sumsq |-> sumsq, nclamped |-> nclamped,
        dropped |-> Cardinality(aftercd) - Cardinality(kept), after_cd |-> Cardinality(aftercd)]

Init == /\ bag \in Bags /\ novelty \in NoveltyCaps /\ l2 \in L2Caps /\ churn \in ChurnCaps
        /\ blocked \in BlockedSets
        /\ out = Pipeline(bag, novelty, l2, churn, blocked)
Next == FALSE
Spec == Init /\ [][Next]_vars

-----------------------------------------------------------------------------
(* the envelope (C03), as invariants of the documented pipeline *)
A == out.approved
OnePerTarget == \A i, j \in 1..Len(A) : i # j => A[i].tgt # A[j].tgt
NoveltyBound == \A i \in 1..Len(A) : Abs(A[i].d) <= novelty
L2Bound == out.scaled \/ SumF([i \in 1..Len(A) |-> A[i].d * A[i].d], 1..Len(A)) <= l2 * l2
ChurnBound == Len(A) <= churn
NoCooldownOrigin == \A i \in 1..Len(A) : A[i].op = 0 \/ A[i].op \notin blocked
OnlyProposedTargets == \A i \in 1..Len(A) : A[i].tgt \in out.targets
CanonicalOrder == \A i \in 1..(Len(A) - 1) : A[i].tgt < A[i + 1].tgt
TopKIsTop == \A t \in out.kept, u \in out.aftercd \ out.kept : out.before[<<t, u>>]

EmitCase == PrintT(<<"T", ToJson([deltas |-> out.deltas, novelty |-> novelty, l2 |-> l2, churn |-> churn,
                                  blocked |-> blocked, approved |-> out.approved, scaled |-> out.scaled,
                                  sumsq |-> out.sumsq, nclamped |-> out.nclamped, dropped |-> out.dropped,
                                  after_cd |-> out.after_cd])>>)
=============================================================================
