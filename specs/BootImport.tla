----------------------------- MODULE BootImport -----------------------------
(* Boot-time import of the store section of a snapshot (clematis.engine.snapshot:
   _import_store_from_snapshot, weights fallback for stores that keep a `.w` map) — part of C20:
   a damaged snapshot is a failure of an optional subsystem, so the run must equal the idle run
   (nothing loaded); an intact one is loaded completely.  The import is therefore ATOMIC: the
   store's weight map is either the map it had before boot or the complete map of the snapshot,
   never a mixture.

   The loader is modelled step by step (one action per item parsed), because the property is about
   the state an exception leaves behind:
     Begin          start (the control model InPlace = TRUE clears the live map here)
     Item           parse item i: a damaged item raises -> Failed
     Commit         all items parsed: swap the parsed map in
   State: w = the store's live map (key -> value), tmp = the map under construction.
   Values: 1 = value the store had before boot, 2 = value from the snapshot.                   *)
EXTENDS Integers, Sequences, FiniteSets, TLC, Json

CONSTANTS Keys, MaxItems, InPlace

VARIABLES prior, items, w, tmp, i, pc
vars == <<prior, items, w, tmp, i, pc>>

Empty == [k \in {} |-> 0]
PriorMap == [k \in prior |-> 1]
Put(m, k, v) == [x \in DOMAIN m \cup {k} |-> IF x = k THEN v ELSE m[x]]
RECURSIVE Full(_, _)
Full(its, n) == IF n = 0 THEN Empty ELSE Put(Full(its, n - 1), its[n].key, 2)
FullMap == Full(items, Len(items))

SeqsUpTo(S, n) == UNION {[1..k -> S] : k \in 0..n}

Init == /\ prior \in SUBSET Keys
        /\ items \in SeqsUpTo([key : Keys, ok : BOOLEAN], MaxItems)
        /\ w = PriorMap /\ tmp = Empty /\ i = 1 /\ pc = "start"

Begin == /\ pc = "start" /\ pc' = "items"
         /\ w' = IF InPlace THEN Empty ELSE w
         /\ UNCHANGED <<prior, items, tmp, i>>
Item == /\ pc = "items" /\ i <= Len(items)
        /\ IF items[i].ok
           THEN /\ (IF InPlace THEN w' = Put(w, items[i].key, 2) /\ tmp' = tmp
                               ELSE tmp' = Put(tmp, items[i].key, 2) /\ w' = w)
                /\ i' = i + 1 /\ pc' = pc
           ELSE pc' = "failed" /\ UNCHANGED <<w, tmp, i>>
        /\ UNCHANGED <<prior, items>>
Commit == /\ pc = "items" /\ i > Len(items) /\ pc' = "done"
          /\ w' = IF InPlace THEN w ELSE tmp
          /\ UNCHANGED <<prior, items, tmp, i>>
Next == Begin \/ Item \/ Commit
Spec == Init /\ [][Next]_vars

AllIntact == \A j \in 1..Len(items) : items[j].ok
\* the clauses
FailedImportIsIdle == pc = "failed" => w = PriorMap
IntactImportIsComplete == pc = "done" => (AllIntact /\ w = FullMap)
NeverAMixture == w \in {PriorMap, FullMap} \/ (InPlace /\ pc = "items")   \* (the live map is never observable mid-import in a sequential boot)
AtomicImport == pc \in {"failed", "done"} => w \in {PriorMap, FullMap}

Terminal == pc \in {"failed", "done"}
EmitTerminal == Terminal => PrintT(<<"T", ToJson([prior |-> prior, items |-> items, pc |-> pc,
                                                  w |-> [k \in DOMAIN w |-> w[k]]])>>)
=============================================================================
