--------------------------- MODULE SchedulerTrace ---------------------------
(* Batch trace validation for Scheduler: real next_turn/on_yield histories (driver loop of the demo)
   replayed against the functional core; the starvation bound is evaluated on the real pick
   sequence.  The clock is carried as (hi, lo) limbs in the trace (lo < 100000); inside the spec
   idle times are exact because only differences now - last matter and those stay small... the
   spec keeps `now` and `lastran` as integers bounded by 2^31 (histories are generated accordingly). *)
EXTENDS Scheduler, IOUtils, TLCExt

Traces == ndJsonDeserialize(IOEnv.TRACE_FILE)
VARIABLES tid, l
tvars == <<queue, lastran, consec, now, since, pend, last, tid, l>>

Clause(e) ==
    IF e.op = "advance" THEN ""
    ELSE IF e.op = "select" THEN
        LET r == SelectF(queue, lastran, consec, now) IN
        IF r.agent # e.agent \/ r.reason # e.reason THEN "ChosenEligibleOrReset"
        ELSE IF \E a \in Agents : a # e.agent /\ since[a] + 1 > Bound THEN "WaitBound"
        ELSE ""
    ELSE IF e.op = "yield" THEN
        IF pend.agent # e.agent THEN "YieldBookkeeping"
        ELSE LET c2 == IF pend.reason = "RESET_CONSEC" THEN [a \in Agents |-> 0]
                       ELSE [consec EXCEPT ![pend.agent] = consec[pend.agent] + 1]
                 lr2 == [lastran EXCEPT ![pend.agent] = now]
             IN IF e.queue # RotateF(queue, pend.agent) THEN "YieldBookkeeping"
                ELSE IF \E a \in Agents : e.consec[a] # c2[a] THEN "YieldBookkeeping"
                ELSE IF \E a \in Agents : e.lasthi[a] * 100000 + e.lastlo[a] # lr2[a] THEN "YieldBookkeeping"
                ELSE ""
    ELSE "UnknownEvent"

Reset == /\ queue' = [i \in 1..N |-> i] /\ lastran' = [a \in Agents |-> 0] /\ consec' = [a \in Agents |-> 0]
         /\ now' = 0 /\ since' = [a \in Agents |-> 0] /\ pend' = [agent |-> 0, reason |-> ""]
         /\ last' = [op |-> "init"]
NextTrace == TLCSet(1, tid) /\ tid' = tid + 1 /\ l' = 1 /\ Reset

TInit == TLCSet(1, 0) /\ Init /\ tid = 1 /\ l = 1

TNext ==
    /\ tid <= Len(Traces)
    /\ LET ev == Traces[tid].ev IN
       IF l > Len(ev) THEN PrintT(<<"V", Traces[tid].tid, "ok", l - 1>>) /\ NextTrace
       ELSE LET e == ev[l] c == Clause(e) IN
            IF c # "" THEN PrintT(<<"V", Traces[tid].tid, c, l>>) /\ NextTrace
            ELSE /\ l' = l + 1 /\ tid' = tid
                 /\ IF e.op = "advance"
                    THEN now' = now + e.dt /\ last' = [op |-> "advance", dt |-> e.dt]
                         /\ UNCHANGED <<queue, lastran, consec, since, pend>>
                    ELSE IF e.op = "select" THEN Select ELSE Yield

TraceSpec == TInit /\ [][TNext]_tvars
Done == PrintT(<<"V", 0, "done", TLCGet(1)>>)
=============================================================================
