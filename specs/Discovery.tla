------------------------------ MODULE Discovery ------------------------------
(* Configuration discovery of the CLI (clematis.cli._config.discover_config_path), stated from its
   documentation (docstring, docs/): beyond the listed properties (extra X01).

   Four candidate locations, each in one of the states
       absent   the option / variable is not given (empty string counts as not given)
       file     names an existing regular file
       dirwith  names a directory that contains config.yaml
       dirwo    names an existing directory without config.yaml
       missing  names a path that does not exist
   (the cwd and XDG candidates are fixed paths: <cwd>/configs/config.yaml and
    ${XDG_CONFIG_HOME:-$HOME/.config}/clematis/config.yaml; their states are file / missing, plus
    "a directory of that name" which resolves to config.yaml inside it like every other candidate).

   Rule: an explicit --config always wins and is reported even when it does not resolve
   ('explicit-missing', the path is returned as given); otherwise the first candidate that resolves
   in the order env, cwd, xdg; otherwise (None, 'none').  XDG_CONFIG_HOME unset or empty falls back to
   $HOME/.config.  A resolved selection is always an existing regular file.                      *)
EXTENDS Integers, Sequences, FiniteSets, TLC, Json

CandState == {"absent", "file", "dirwith", "dirwo", "missing"}
FixedState == {"file", "dirwith", "dirwo", "missing"}
XdgVar == {"set", "unset", "empty"}

VARIABLES explicit, env, cwd, xdg, xdgvar, out
vars == <<explicit, env, cwd, xdg, xdgvar, out>>

Resolves(s) == s \in {"file", "dirwith"}

\* which location is selected, with which source tag; sel names the candidate whose file is returned
Decide(e, v, c, x) ==
    IF e # "absent" THEN (IF Resolves(e) THEN [sel |-> "explicit", tag |-> "explicit", resolved |-> TRUE]
                                         ELSE [sel |-> "explicit", tag |-> "explicit-missing", resolved |-> FALSE])
    ELSE IF Resolves(v) THEN [sel |-> "env", tag |-> "env:CLEMATIS_CONFIG", resolved |-> TRUE]
    ELSE IF Resolves(c) THEN [sel |-> "cwd", tag |-> "cwd:configs/config.yaml", resolved |-> TRUE]
    ELSE IF Resolves(x) THEN [sel |-> "xdg", tag |-> "xdg", resolved |-> TRUE]
    ELSE [sel |-> "none", tag |-> "none", resolved |-> FALSE]

Init == /\ explicit \in CandState /\ env \in CandState
        /\ cwd \in FixedState /\ xdg \in FixedState /\ xdgvar \in XdgVar
        /\ out = Decide(explicit, env, cwd, xdg)
Next == FALSE
Spec == Init /\ [][Next]_vars

\* clauses
ExplicitAlwaysWins == explicit # "absent" => out.sel = "explicit"
ResolvedIsFirstInOrder ==
    (explicit = "absent" /\ out.resolved) =>
        /\ (out.sel = "cwd" => ~Resolves(env))
        /\ (out.sel = "xdg" => ~Resolves(env) /\ ~Resolves(cwd))
NoneOnlyWhenNothingResolves ==
    out.sel = "none" <=> (explicit = "absent" /\ ~Resolves(env) /\ ~Resolves(cwd) /\ ~Resolves(xdg))
TagMatchesSelection ==
    /\ (out.tag = "explicit-missing") <=> (explicit # "absent" /\ ~Resolves(explicit))
    /\ out.resolved <=> out.tag \in {"explicit", "env:CLEMATIS_CONFIG", "cwd:configs/config.yaml", "xdg"}

EmitCase == PrintT(<<"T", ToJson([explicit |-> explicit, env |-> env, cwd |-> cwd, xdg |-> xdg, xdgvar |-> xdgvar, out |-> out])>>)
=============================================================================
