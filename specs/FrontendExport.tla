------------------------------ MODULE FrontendExport ------------------------------
(* The frontend log exporter (clematis.scripts.export_logs_for_frontend: build_run_bundle, _read_jsonl,
   _snapshot_payload_from_info, main; reached as `python -m clematis export-logs -- ...`), stated from the script's
   docstring ("Export canonical logs + latest snapshot into a single deterministic JSON bundle"; exit codes
   "0 => success, 2 => user/config/snapshot error (typed message printed)"), its argparse help ("--include-perf
   Include logs/perf/*-perf.jsonl files", "--strict Fail (exit 2) on missing/invalid snapshot schema",
   "--max-stage-entries Cap entries per stage log (head)", "--no-sort-keys ... (default: sort for determinism)"),
   the comments in the code ("Keep line as string to avoid silent loss; deterministic", "Drop None values to keep
   bundle stable and compact") and docs/m8/packaging_cli.md.  Extra X16 (b), beyond the listed properties.

   One decision per case (enumerate-inputs pattern, Next == FALSE).
   mode "bundle": the state is the abstract content of a log directory + a snapshot directory + the options
     present   the set of stage streams (1..10 = t1, t2, t3, t3_plan, t3_dialogue, t3_reflection, t3_filter, t4,
               apply, turn, in this order) whose <name>.jsonl exists
     content   per stream the sequence of its lines, each "ok" (a JSON value), "bad" (not JSON), "blank"
     cap       --max-stage-entries: [set |-> BOOLEAN, n |-> the number]
     perf      logs/perf:  "absent" | "empty" | "files" (a-perf.jsonl with the lines plines, b-perf.jsonl with one
               "ok" line, and files that do not match *-perf.jsonl);   incperf  --include-perf
     snap      the snapshot directory: kind "nodir" | "none" (empty directory) | "garbage" (latest file is not JSON) |
               "empty" (the document {}) | "body";  bodysv the body's schema_version "absent" | "v1" | "v0";
               side the .meta sidecar "absent" | "v1";  shape "maps" (gel.nodes / gel.edges objects) | "absent";
               n, e the counts;  layout which other snapshot files lie next to the latest one
               ("single" none, "numbered" snap_9 next to snap_10, "numvsstate" a newer state_*.json next to snap_1,
                "twostate" an older state_*.json next to the latest state_*.json)
     strict    --strict
   mode "info": _snapshot_payload_from_info called directly with info  "noinfo" (None) | "unreadable" (the path is
     gone) | "garbage" | "nosv" | "v0" | "v1".

   Result: rc; written (the output file exists afterwards); nwarn (number of warnings); logs (per stream the kept
   entries [kind, i = number of the line they came from]); hasperf and perf (<<[key, entries]>> in key order);
   snapshot: [sv ("" = not reported), picked ("latest"), nodes, edges (-1 = not reported)].

   DEVIATIONS (as built, modelled; each named where it is used):
   D1  --max-stage-entries N with N <= 0 keeps ONE entry per non-empty stream (the cap is tested after the append);
       "Cap entries per stage log" evidently means at most N.
   D2  the snapshot's schema is validated on the body only: a body without schema_version whose .meta sidecar says v1
       is accepted by `inspect-snapshot --strict` (Inspect.tla) but rejected here (warning / exit 2 with --strict), and
       the bundle then carries no snapshot.schema_version although get_latest_snapshot_info reports "v1".
   D3  on exit 2 main prints the fixed line "SnapshotError: no valid snapshot found" on STDOUT whatever the cause
       (the docstring promises a typed message; the warnings that name the cause are dropped).
   D4  main evaluates the default of --logs-dir eagerly: clematis.io.paths.logs_dir() is called, and its directory
       created ($CLEMATIS_LOG_DIR or <cwd>/.logs), even when --logs-dir is given.  So "nothing is written except
       the output file" holds only up to that directory (checked exactly by the harness).
   Outside the model (observed on the real code, not enumerated): a stage file that is not UTF-8, or a directory named
   like a stage file, makes build_run_bundle raise (UnicodeDecodeError / IsADirectoryError) instead of exit 2; a log
   line holding NaN / Infinity is re-emitted as the bare token, so the bundle is then not strict JSON; the default of
   --snapshots-dir is the literal ./.data/snapshots, CLEMATIS_SNAPSHOT_DIR is not consulted (unlike --logs-dir).   *)
EXTENDS Integers, Sequences, FiniteSets, TLC, Json

CONSTANTS MaxLines,     \* longest enumerated line pattern
          Caps,         \* values of --max-stage-entries that are enumerated (besides "not given")
          Counts        \* values for n and e

VARIABLES inp, out
vars == <<inp, out>>

Streams == 1..10
Kinds == {"ok", "bad", "blank"}
Patterns(L) == UNION {[1..k -> Kinds] : k \in 0..L}
NoCap == [set |-> FALSE, n |-> 0]
CapVals == {NoCap} \cup {[set |-> TRUE, n |-> c] : c \in Caps}

SnapKinds == {"nodir", "none", "garbage", "empty", "body"}
DefaultSnap == [kind |-> "body", bodysv |-> "v1", side |-> "absent", shape |-> "maps", n |-> 2, e |-> 2, layout |-> "single"]
Snaps == {[kind |-> k, bodysv |-> b, side |-> s, shape |-> sh, n |-> n, e |-> e, layout |-> l] :
          k \in SnapKinds, b \in {"absent", "v1", "v0"}, s \in {"absent", "v1"}, sh \in {"maps", "absent"},
          n \in Counts, e \in Counts, l \in {"single", "numbered", "numvsstate", "twostate"}}
CanonicalSnap(s) == /\ (s.kind # "body" => s.bodysv = "absent" /\ s.shape = "absent")
                    /\ (s.kind \in {"nodir", "none"} => s.side = "absent" /\ s.layout = "single")
                    /\ (s.shape = "absent" => s.n = 0 /\ s.e = 0)

\* the log directory: one stream in focus with an enumerated pattern, the others all absent or all two-liners
Content(focus, lines, others) == [s \in Streams |-> IF s = focus THEN lines ELSE IF others = "all" THEN <<"ok", "bad">> ELSE <<>>]
Present(focus, hasfocus, others) == (IF hasfocus THEN {focus} ELSE {}) \cup (IF others = "all" THEN Streams \ {focus} ELSE {})

LogRich ==
    {[mode |-> "bundle", present |-> Present(f, TRUE, o), content |-> Content(f, l, o), cap |-> c, perf |-> p.perf, incperf |-> p.inc,
      plines |-> IF p.perf = "files" THEN l ELSE <<>>, snap |-> DefaultSnap, strict |-> FALSE, info |-> ""] :
        f \in Streams, o \in {"none", "all"}, l \in Patterns(MaxLines), c \in CapVals,
        p \in {[perf |-> "files", inc |-> FALSE], [perf |-> "absent", inc |-> TRUE], [perf |-> "empty", inc |-> TRUE], [perf |-> "files", inc |-> TRUE]}}
CanonicalLog(i) == \* with the other streams present only the first and the last stream are put in focus
    \A f \in Streams : (Cardinality(i.present) >= 9 /\ f \notin {1, 10}) => i.content[f] = <<"ok", "bad">>
MissingFocus ==   \* the focus stream's file is missing altogether
    {[mode |-> "bundle", present |-> Present(f, FALSE, o), content |-> Content(f, <<>>, o), cap |-> c, perf |-> "absent", incperf |-> FALSE,
      plines |-> <<>>, snap |-> DefaultSnap, strict |-> st, info |-> ""] : f \in Streams, o \in {"none", "all"}, c \in CapVals, st \in BOOLEAN}
SnapRich ==
    {[mode |-> "bundle", present |-> Present(2, TRUE, "none"), content |-> Content(2, l, "none"), cap |-> c, perf |-> "absent", incperf |-> FALSE,
      plines |-> <<>>, snap |-> s, strict |-> st, info |-> ""] :
        l \in {<<>>, <<"ok", "bad", "blank", "ok">>}, c \in {NoCap, [set |-> TRUE, n |-> 1]}, s \in {x \in Snaps : CanonicalSnap(x)}, st \in BOOLEAN}
InfoCases ==
    {[mode |-> "info", present |-> {}, content |-> Content(1, <<>>, "none"), cap |-> NoCap, perf |-> "absent", incperf |-> FALSE,
      plines |-> <<>>, snap |-> DefaultSnap, strict |-> st, info |-> x] :
        x \in {"noinfo", "unreadable", "garbage", "nosv", "v0", "v1"}, st \in BOOLEAN}

-----------------------------------------------------------------------------
\* _read_jsonl: blank lines are skipped, a malformed line is kept in place as {"_raw": line}, the HEAD is kept
Entries(lines) == SelectSeq([j \in 1..Len(lines) |-> [kind |-> lines[j], i |-> j]], LAMBDA r : r.kind # "blank")
Keep(cap) == IF cap.n < 1 THEN 1 ELSE cap.n                         \* D1: N <= 0 behaves like 1
TakeHead(seq, k) == SubSeq(seq, 1, IF k < Len(seq) THEN k ELSE Len(seq))
ReadLines(lines, cap) == IF cap.set THEN TakeHead(Entries(lines), Keep(cap)) ELSE Entries(lines)
ReadStream(i, s) == IF s \in i.present THEN ReadLines(i.content[s], i.cap) ELSE <<>>      \* a missing file is an empty stream

\* what get_latest_snapshot_info makes of the directory
InfoOf(s) == IF s.kind # "body" THEN "noinfo"               \* no directory, no file, unreadable, {}: "no snapshot found"
             ELSE IF s.bodysv = "absent" THEN "nosv"        \* D2: the sidecar does not count here
             ELSE s.bodysv

\* _snapshot_payload_from_info
PayloadFromInfo(info, strict) ==
    IF info = "noinfo" THEN [rc |-> 2, nwarn |-> 1, sv |-> ""]
    ELSE IF info \in {"unreadable", "garbage"}
         THEN (IF strict THEN [rc |-> 2, nwarn |-> 1, sv |-> ""] ELSE [rc |-> 0, nwarn |-> 2, sv |-> ""])  \* cannot read + no schema
    ELSE IF info = "v1" THEN [rc |-> 0, nwarn |-> 0, sv |-> "v1"]
    ELSE IF strict THEN [rc |-> 2, nwarn |-> 1, sv |-> ""]
    ELSE [rc |-> 0, nwarn |-> 1, sv |-> IF info = "nosv" THEN "" ELSE info]

Null == 0 - 1
NoSnap == [sv |-> "", picked |-> "", nodes |-> Null, edges |-> Null]
Failure(p) == [rc |-> 2, written |-> FALSE, nwarn |-> p.nwarn, logs |-> [s \in Streams |-> <<>>], hasperf |-> FALSE, perf |-> <<>>, snapshot |-> NoSnap]

PerfOf(i) == IF i.incperf /\ i.perf = "files"
             THEN <<[key |-> "a-perf.jsonl", entries |-> ReadLines(i.plines, i.cap)], [key |-> "b-perf.jsonl", entries |-> ReadLines(<<"ok">>, i.cap)]>>
             ELSE <<>>

Result(i) ==
    LET p == PayloadFromInfo(IF i.mode = "info" THEN i.info ELSE InfoOf(i.snap), i.strict) IN
    IF p.rc # 0 THEN Failure(p)
    ELSE IF i.mode = "info"
    THEN [rc |-> 0, written |-> FALSE, nwarn |-> p.nwarn, logs |-> [s \in Streams |-> <<>>], hasperf |-> FALSE, perf |-> <<>>,
          snapshot |-> [sv |-> p.sv, picked |-> "latest", nodes |-> 2, edges |-> 2]]
    ELSE [rc |-> 0, written |-> TRUE, nwarn |-> p.nwarn,
          logs |-> [s \in Streams |-> ReadStream(i, s)],
          hasperf |-> i.incperf, perf |-> PerfOf(i),
          snapshot |-> [sv |-> p.sv, picked |-> "latest",
                        nodes |-> IF i.snap.shape = "absent" THEN Null ELSE i.snap.n,
                        edges |-> IF i.snap.shape = "absent" THEN Null ELSE i.snap.e]]

Init == /\ inp \in {i \in LogRich : CanonicalLog(i)} \cup MissingFocus \cup SnapRich \cup InfoCases
        /\ out = Result(inp)
Next == FALSE
Spec == Init /\ [][Next]_vars

-----------------------------------------------------------------------------
Bundle == inp.mode = "bundle"
Found == IF Bundle THEN inp.snap.kind = "body" ELSE inp.info # "noinfo"
SchemaOK == IF Bundle THEN inp.snap.bodysv = "v1" ELSE inp.info = "v1"
IsPrefix(a, b) == Len(a) <= Len(b) /\ \A j \in 1..Len(a) : a[j] = b[j]
NonBlank(lines) == Cardinality({j \in 1..Len(lines) : lines[j] # "blank"})

\* the docstring's exit codes
ExitCodes == out.rc \in {0, 2}
NoSnapshotIsTwo == ~Found => out.rc = 2                                     \* with or without --strict
StrictFailsIffSchemaInvalid == (Found /\ inp.strict) => (out.rc = 2 <=> ~SchemaOK)
NonStrictWarnsAndExports == (Found /\ ~inp.strict) => (out.rc = 0 /\ (out.nwarn > 0 <=> ~SchemaOK))
FailureWritesNothing == out.rc = 2 => (~out.written /\ out.snapshot = NoSnap /\ ~out.hasperf)
\* the bundle always has the ten stage keys; a missing file is an empty list
MissingFileIsEmptyStream == (Bundle /\ out.rc = 0) => \A s \in Streams : (s \notin inp.present => out.logs[s] = <<>>)
\* truncation keeps the head, in file order; without a cap nothing but blank lines is lost, a malformed line stays in place
HeadIsKept == (Bundle /\ out.rc = 0) => \A s \in inp.present : IsPrefix(out.logs[s], Entries(inp.content[s]))
NoSilentLoss == (Bundle /\ out.rc = 0 /\ ~inp.cap.set) => \A s \in inp.present : Len(out.logs[s]) = NonBlank(inp.content[s])
CapBounds == (Bundle /\ out.rc = 0 /\ inp.cap.set) =>
                \A s \in inp.present : Len(out.logs[s]) = (IF NonBlank(inp.content[s]) < Keep(inp.cap) THEN NonBlank(inp.content[s]) ELSE Keep(inp.cap))
\* perf logs on request only, and only files named *-perf.jsonl under logs/perf, in name order
PerfOnRequestOnly == /\ out.hasperf <=> (Bundle /\ out.rc = 0 /\ inp.incperf)
                     /\ ~out.hasperf => out.perf = <<>>
                     /\ \A j \in 1..Len(out.perf) : IsPrefix(out.perf[j].entries, Entries(IF j = 1 THEN inp.plines ELSE <<"ok">>))
\* the logs part does not depend on the snapshot or on --strict, the snapshot part not on the logs
StrictOnlyGates == (Found /\ SchemaOK) => Result([inp EXCEPT !.strict = TRUE]) = Result([inp EXCEPT !.strict = FALSE])
LogsIndependentOfSnapshot == (Bundle /\ out.rc = 0) => out.logs = Result([inp EXCEPT !.snap = DefaultSnap, !.strict = FALSE]).logs

EmitCase == PrintT(<<"T", ToJson([inp |-> inp, out |-> out])>>)
=============================================================================
