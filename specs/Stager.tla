------------------------------- MODULE Stager -------------------------------
(* Log staging with a byte bound (clematis.engine.util.io_logging.LogStager + the documented driver
   reaction in the agent-parallel commit loop), stated from docs/m9/overview.md (PR71) and the
   property text (C16):
     - a staged record carries the composite key (turn, stage order of its stream, slice, arrival);
       documented stream order t1 < t2 < t3_plan < t3_dialogue < t4 < apply < health < turn <
       scheduler (< t3_reflection; unknown streams last) — here streams ARE their ordinals;
     - staging is bounded: when the buffered size plus the new record would exceed the limit *and
       draining can help* (the buffer is not empty) the stager signals back-pressure and the driver
       deterministically drains (sorted), flushes the drained records to their files, and retries the
       record exactly once; a record larger than the whole limit is admitted into the empty buffer,
       so the retry always succeeds (AdmitOversize = TRUE; FALSE is the control model of a stager that
       refuses such a record also when empty — there the retry raises again);
     - requirement: records are flushed in (turn, stage order, slice, arrival) order whatever the limit.
   This module is the *faithful model of that mechanism*; the requirement is stated as invariants over
   the outcome under every limit, so TLC shows for which arrival sequences the mechanism meets it.
   A case = arrival sequence arr (records [t, o, s, z]: turn, stage ordinal, slice, size in abstract
   units); res[L] = outcome under limit L.  Init picks the case, Eval computes all outcomes. *)
EXTENDS Integers, Sequences, FiniteSets, TLC, Json

CONSTANTS MinLen, MaxLen, Turns, Ords, Slices, Sizes, Limits, AdmitOversize

VARIABLES arr, res
vars == <<arr, res>>

Rec == [t : Turns, o : Ords, s : Slices, z : Sizes]

\* composite key as one integer (lexicographic (t, o, s, arrival)); o <= 99, s <= 9, arrival <= 9
Key(a, i) == ((a[i].t * 100 + a[i].o) * 10 + a[i].s) * 10 + i

RECURSIVE SortSet(_, _)
SortSet(a, S) == IF S = {} THEN <<>>
                 ELSE LET m == CHOOSE x \in S : \A y \in S : Key(a, x) <= Key(a, y)
                      IN <<m>> \o SortSet(a, S \ {m})
SeqToSet(q) == {q[i] : i \in 1..Len(q)}

\* ---- functional core: one driver run over the arrival sequence under limit L ----
\* st = [buf (arrival indices), bytes, out (flush order), batches (drained batches), status]
Drain(a, st) == LET b == SortSet(a, SeqToSet(st.buf)) IN
                [st EXCEPT !.buf = <<>>, !.bytes = 0, !.out = st.out \o b,
                           !.batches = IF b = <<>> THEN st.batches ELSE Append(st.batches, b)]
StageF(a, st, i, L) ==
    IF st.status # "ok" THEN st
    ELSE IF st.bytes + a[i].z <= L \/ (AdmitOversize /\ st.buf = <<>>)
    THEN [st EXCEPT !.buf = Append(st.buf, i), !.bytes = st.bytes + a[i].z]
    ELSE LET d == Drain(a, st) IN                      \* back-pressure: drain sorted, flush, retry once
         IF a[i].z <= L \/ AdmitOversize
         THEN [d EXCEPT !.buf = <<i>>, !.bytes = a[i].z, !.bp = d.bp + 1]
         ELSE [d EXCEPT !.status = "raised", !.bp = d.bp + 1, !.at = i]  \* control model only: the retry raises again
RECURSIVE RunFrom(_, _, _, _)
RunFrom(a, st, i, L) == IF i > Len(a) THEN (IF st.status = "ok" THEN Drain(a, st) ELSE st)
                        ELSE RunFrom(a, StageF(a, st, i, L), i + 1, L)
RunF(a, L) == RunFrom(a, [buf |-> <<>>, bytes |-> 0, out |-> <<>>, batches |-> <<>>, status |-> "ok",
                          bp |-> 0, at |-> 0], 1, L)

\* ---- case predicates ----
PerFile(a, q, o) == SelectSeq(q, LAMBDA i : a[i].o = o)
\* arrivals are monotone in (turn, stage, slice) within every file
Monotone(a) == \A i, j \in 1..Len(a) : (i < j /\ a[i].o = a[j].o) => Key(a, i) < Key(a, j)
Oversize(a, L) == \E i \in 1..Len(a) : a[i].z > L
SortedAll(a) == SortSet(a, 1..Len(a))

Init == /\ arr \in UNION {[1..n -> Rec] : n \in MinLen..MaxLen}
        /\ res = <<>>
Eval == /\ res = <<>>
        /\ res' = [L \in Limits |-> RunF(arr, L)]
        /\ arr' = arr
Next == Eval
Spec == Init /\ [][Next]_vars

-----------------------------------------------------------------------------
(* C16 clauses over the outcomes *)
Evaluated == res # <<>>
IsSorted(a, q) == \A k \in 1..(Len(q) - 1) : Key(a, q[k]) < Key(a, q[k + 1])

\* every drained batch is in composite-key order, and what is flushed is exactly what was drained
DrainSorted ==
    Evaluated => \A L \in Limits : \A k \in 1..Len(res[L].batches) : IsSorted(arr, res[L].batches[k])
\* nothing is lost or duplicated by staging (when the driver run completes)
StagedAllFlushedOnce ==
    Evaluated => \A L \in Limits : res[L].status = "ok" =>
        /\ Len(res[L].out) = Len(arr) /\ SeqToSet(res[L].out) = 1..Len(arr)
\* the requirement proper: the per-file line order does not depend on the limit ...
IndepOf(L1, L2) == \A o \in Ords : PerFile(arr, res[L1].out, o) = PerFile(arr, res[L2].out, o)
Indep == \A L1, L2 \in Limits : (res[L1].status = "ok" /\ res[L2].status = "ok") => IndepOf(L1, L2)
\* ... and is the composite-key order (= what an unbounded stager flushes)
FlushSorted == LET srt == SortedAll(arr) IN
               \A L \in Limits : res[L].status = "ok" =>
                   \A o \in Ords : PerFile(arr, res[L].out, o) = PerFile(arr, srt, o)
NoRaise == \A L \in Limits : res[L].status = "ok"

FlushOrderIndependentOfLimit == Evaluated => (Indep /\ FlushSorted)
\* the same, claimed only for the arrival orders the driver produces (monotone within a file)
FlushOrderIndependentOfLimit_Monotone == (Evaluated /\ Monotone(arr)) => (Indep /\ FlushSorted)
\* the retry after a drain always succeeds: every run completes, whatever the sizes and the limit
RetryAlwaysSucceeds == Evaluated => NoRaise
\* exact characterisation (also of the control model: there a record that fits no buffer aborts the run)
RetrySucceeds == Evaluated => \A L \in Limits : (res[L].status = "ok" <=> (AdmitOversize \/ ~Oversize(arr, L)))

View == <<arr, res>>
\* compact emission (integers only): record = ((t*100+o)*10+s)*10+z; f = arrivals monotone within every file;
\* srt = composite-key order of the arrivals; o[L] = flush order as decimal digits; m[L] = at*100 + back-pressures*10 + batches (at = index of the record
\* whose retry raised, 0 = run completed).  (Whether the outcome is limit-independent is recomputed from o by
\* the harness: evaluating the primed invariant inside the emitter is slow.)
RECURSIVE Digits(_)
Digits(q) == IF q = <<>> THEN 0 ELSE Digits(SubSeq(q, 1, Len(q) - 1)) * 10 + q[Len(q)]
Emit == PrintT(<<"T", ToJson([a |-> [i \in 1..Len(arr) |-> ((arr[i].t * 100 + arr[i].o) * 10 + arr[i].s) * 10 + arr[i].z],
                              f |-> (IF Monotone(arr) THEN 1 ELSE 0),
                              srt |-> Digits(SortedAll(arr)),
                              o |-> [L \in Limits |-> Digits(res'[L].out)],
                              m |-> [L \in Limits |-> res'[L].at * 100 + res'[L].bp * 10 + Len(res'[L].batches)]])>>)
=============================================================================
