---------------------------- MODULE NsCacheTrace ----------------------------
(* Batch trace validation (C->S) for NsCache: executions of the real LRUCache / CacheManager —
   driven directly with an injected clock, or through ThreadSafeCache by real threads — replayed
   against the functional core of NsCache.  Same envelope and verdict protocol as LruBytesTrace.  *)
EXTENDS NsCache, IOUtils, TLCExt

Traces == ndJsonDeserialize(IOEnv.TRACE_FILE)

VARIABLES tid, l, holder, depth
tvars == <<d, last, tid, l, holder, depth>>
Has(e, f) == f \in DOMAIN e

StepF(e) ==
    CASE e.op = "set"            -> SetF(d, e.ns, e.k, e.v)
      [] e.op = "get"            -> GetF(d, e.ns, e.k)
      [] e.op = "contains"       -> ContainsF(d, e.ns, e.k)
      [] e.op = "items"          -> ItemsF(d, e.ns)
      [] e.op = "invalidate"     -> InvalidateF(d, e.ns)
      [] e.op = "invalidate_all" -> InvalidateAllF(d)
      [] e.op = "tick"           -> TickF(d, e.dt)
      [] OTHER                   -> [d |-> d, obs |-> [op |-> e.op]]

ObsOK(o, e) ==
    CASE e.op = "set"      -> o.evicted = e.evicted
      [] e.op = "get"      -> o.hit = e.hit /\ (e.hit => o.v = e.v)
      [] e.op = "contains" -> o.r = e.r
      [] e.op = "items"    -> o.ks = e.ks
      [] e.op \in {"invalidate", "invalidate_all"} -> o.removed = e.removed
      [] OTHER             -> TRUE

InvOK(dd) == \A n \in NS : Len(dd[n]) <= Max /\ Cardinality(KeysOf(dd[n])) = Len(dd[n])

\* final: e.items[n] = sequence of <<k, v>> oldest -> newest as observed on the real object
FinalOK(e) == \A n \in NS :
    /\ Len(e.items[n]) = Len(d[n])
    /\ \A i \in 1..Len(d[n]) : e.items[n][i][1] = d[n][i].k /\ e.items[n][i][2] = d[n][i].v

Clause(e) ==
    IF e.op = "acq" THEN (IF holder \in {"", e.th} THEN "" ELSE "MutualExclusion")
    ELSE IF e.op = "rel" THEN (IF holder = e.th /\ depth > 0 THEN "" ELSE "MutualExclusion")
    ELSE IF e.op = "final" THEN (IF FinalOK(e) THEN "" ELSE "NoLostUpdate")
    ELSE IF Has(e, "th") /\ holder # e.th THEN "MutualExclusion"
    ELSE LET r == StepF(e) IN
         IF ~ObsOK(r.obs, e) THEN "SerialEquivalent"
         ELSE IF ~InvOK(r.d) THEN "WithinCaps"
         ELSE ""

TInit == TLCSet(1, 0) /\ d = [n \in NS |-> <<>>] /\ last = [op |-> "init"] /\ tid = 1 /\ l = 1 /\ holder = "" /\ depth = 0

NextTrace == /\ TLCSet(1, tid) /\ tid' = tid + 1 /\ l' = 1 /\ d' = [n \in NS |-> <<>>] /\ last' = [op |-> "init"]
             /\ holder' = "" /\ depth' = 0

TNext ==
    /\ tid <= Len(Traces)
    /\ LET ev == Traces[tid].ev IN
       IF l > Len(ev)
       THEN PrintT(<<"V", Traces[tid].tid, "ok", l - 1>>) /\ NextTrace
       ELSE LET e == ev[l] c == Clause(e) IN
            IF c # ""
            THEN PrintT(<<"V", Traces[tid].tid, c, l>>) /\ NextTrace
            ELSE /\ l' = l + 1 /\ tid' = tid
                 /\ IF e.op = "acq" THEN holder' = e.th /\ depth' = depth + 1 /\ UNCHANGED <<d, last>>
                    ELSE IF e.op = "rel"
                    THEN depth' = depth - 1 /\ holder' = (IF depth = 1 THEN "" ELSE holder) /\ UNCHANGED <<d, last>>
                    ELSE IF e.op = "final" THEN UNCHANGED <<d, last, holder, depth>>
                    ELSE Do(StepF(e)) /\ UNCHANGED <<holder, depth>>

TraceSpec == TInit /\ [][TNext]_tvars
Done == PrintT(<<"V", 0, "done", TLCGet(1)>>)
=============================================================================
