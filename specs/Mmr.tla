-------------------------------- MODULE Mmr --------------------------------
(* MMR (maximal marginal relevance) diversification of the T2 quality layer — extra X05, beyond the
   listed properties.  Bound to clematis.engine.stages.t2.quality_mmr (mmr_select, mmr_reorder_full),
   quality_ops.maybe_apply_mmr and quality.apply_quality (config t2.quality.mmr.{enabled,lambda,k}).

   Stated from the documentation:
     docs/m7/overview.md        "Deterministic MMR on the fused list; selection is stable and tie-broken by
                                 lex(id)";  "With mmr.enabled=false or t2.quality.enabled=false, ordering
                                 equals PR37";  invariant "ties break by lex(id)".
     docs/m7/troubleshooting.md "k: head considered by MMR; omit => full fused list";
                                 "lambda: 0=relevance-only; 1=diversity-heavy";
                                 "With lambda=0 or k=1, MMR degenerates to relevance";
                                 "If items tokenize to the same set ... diversity may be zero -> less movement".
     docstrings (quality_mmr)   greedy selection; k = maximum number of items (default: all); result has
                                 length <= k; relevance = fused score; diversity on token sets with the
                                 Jaccard distance 1 - |a n b| / |a u b| (two empty sets: distance 0);
                                 the first pick is purely by relevance; "full permutation: MMR head then
                                 deterministic tail", the tail being the rest in the baseline order
                                 (relevance descending, id ascending); no duplicates.

   Objective of a candidate c given the already selected set S (S non-empty):
        score(c) = lambda * div(c, S) + (1 - lambda) * rel(c)
   the next pick maximises score, ties go to the lexicographically smallest id.

   Numbers are exact: rel = r/8, lambda = L/4, distances are d/12 (token sets over at most four tokens:
   |a u b| divides 12), so 96*score = 2*L*d + 3*(4-L)*r is an integer.  Ids are the integers 1..n in their
   lexicographic order; the harness spells them so that string order = integer order.

   DEVIATION 1 (documentation silent, modelled as the code behaves; Aggregate = "far"): div(c, S) is the
   distance to the FARTHEST selected item (max over S of the Jaccard distance).  Classical MMR penalises the
   similarity to the NEAREST selected item (div = min over S of the distance = 1 - max similarity); that
   reading is Aggregate = "near".  With "far" a duplicate of one selected item still gets full diversity
   credit as soon as some other selected item is far from it.
   DEVIATION 2 (documentation silent): the count reported as "selected" by the quality wiring
   (q_mmr_selected_n, metric t2q.mmr.selected) is the length of the whole reordered list (n), not the size
   of the MMR head min(k, n).
   DEVIATION 3 (validator: t2.quality.mmr.k must be >= 1): maybe_apply_mmr treats an integer k < 1 as
   "omitted" (whole list); mmr_select itself selects nothing for k = 0.  The spec models mmr_select's k
   (0 allowed, = "at most k"); the harness does not pass k = 0 through the config level.

   out.exact: FALSE when some step's arg-max is decided between mathematically tied candidates whose
   diversity terms differ and are not dyadic (thirds): doubles may then order them either way; the harness
   compares only the order-free clauses for such cases (and counts them as guarded out).            *)
EXTENDS Integers, Sequences, FiniteSets, TLC, Json

CONSTANTS MinN, MaxN,    \* candidate lists of MinN..MaxN items (MaxN <= 4)
          Rels,          \* relevance numerators (over 8)
          TokSets,       \* the token sets an item may carry (sets of token numbers, at most four tokens)
          Lams,          \* lambda numerators (over 4), a subset of 0..4
          Orders,        \* input orders of the candidate list: "rev" | "two" | "all"
          Aggregate      \* "far" (as built) | "near" (classical MMR), see DEVIATION 1

NoK == 99                \* k omitted / None

ASSUME /\ MaxN \in 0..4 /\ MinN \in 0..MaxN /\ Lams \subseteq 0..4 /\ Aggregate \in {"far", "near"}
       /\ \A a \in TokSets, b \in TokSets : (a \cup b) # {} => 12 % Cardinality(a \cup b) = 0

VARIABLES items,         \* id -> [rel, toks]                (ids 1..n)
          order,         \* input position -> id             (the list handed to the implementation)
          lam, k, out
vars == <<items, order, lam, k, out>>

N(it) == Len(it)
SeqRange(s) == {s[i] : i \in DOMAIN s}
Perms(n) == {s \in [1..n -> 1..n] : \A i \in 1..n, j \in 1..n : i # j => s[i] # s[j]}
SetMax(S) == CHOOSE x \in S : \A y \in S : y <= x
SetMin(S) == CHOOSE x \in S : \A y \in S : x <= y

OrdersFor(n) == IF Orders = "all" THEN Perms(n)
                ELSE IF Orders = "two" THEN {[i \in 1..n |-> n + 1 - i], [i \in 1..n |-> (i % n) + 1]}
                ELSE {[i \in 1..n |-> n + 1 - i]}

\* Jaccard distance in twelfths
Dist12(a, b) == IF (a \cup b) = {} THEN 0 ELSE 12 - (12 * Cardinality(a \cap b)) \div Cardinality(a \cup b)

\* diversity of candidate i against the selected set S (non-empty), in twelfths
Div(it, i, S) == LET ds == {Dist12(it[i].toks, it[j].toks) : j \in S}
                 IN IF Aggregate = "far" THEN SetMax(ds) ELSE SetMin(ds)

\* 96 * objective (first pick: relevance only; any positive scale will do inside one step)
Score(it, L, i, S) == IF S = {} THEN it[i].rel ELSE 2 * L * Div(it, i, S) + 3 * (4 - L) * it[i].rel

Beats(it, L, S, i, j) == \/ Score(it, L, i, S) > Score(it, L, j, S)
                         \/ (Score(it, L, i, S) = Score(it, L, j, S) /\ i < j)
Best(it, L, cands, S) == CHOOSE i \in cands : \A j \in cands \ {i} : Beats(it, L, S, i, j)

RECURSIVE Greedy(_, _, _, _, _)
Greedy(it, L, sel, rem, m) ==
    IF m = 0 \/ rem = {} THEN sel
    ELSE LET b == Best(it, L, rem, SeqRange(sel)) IN Greedy(it, L, Append(sel, b), rem \ {b}, m - 1)

\* the relevance order ("baseline"): relevance descending, id ascending (selection sort; BaselineSorted states it)
MostRelevant(it, rem) == CHOOSE i \in rem : \A j \in rem : \/ it[i].rel > it[j].rel
                                                         \/ (it[i].rel = it[j].rel /\ i <= j)
RECURSIVE RelOrder(_, _, _)
RelOrder(it, sel, rem) == IF rem = {} THEN sel
                          ELSE LET b == MostRelevant(it, rem) IN RelOrder(it, Append(sel, b), rem \ {b})
Baseline(it) == RelOrder(it, <<>>, 1..N(it))

HeadSize(n, kk) == IF kk = NoK THEN n ELSE IF kk < n THEN kk ELSE n

\* doubles order the candidates of every step like the exact numbers do
Dyadic(d) == d % 3 = 0
ExactStep(it, L, rem, S) ==
    LET b == Best(it, L, rem, S) IN
    \A j \in rem : (Score(it, L, j, S) = Score(it, L, b, S) /\ Div(it, j, S) # Div(it, b, S))
                       => (L = 0 \/ (Dyadic(Div(it, j, S)) /\ Dyadic(Div(it, b, S))))
Exact(it, L, head) == \A p \in 2..Len(head) :
                          LET S == {head[q] : q \in 1..(p - 1)} IN ExactStep(it, L, (1..N(it)) \ S, S)

Mmr(it, ord, L, kk) ==
    LET n    == N(it)
        head == Greedy(it, L, <<>>, 1..n, HeadSize(n, kk))
        hs   == SeqRange(head)
        tail == SelectSeq(Baseline(it), LAMBDA x : x \notin hs)
    IN [head |-> head, full |-> head \o tail,
        off |-> ord,               \* either switch off: the list is returned as it came
        reported |-> n,            \* DEVIATION 2
        exact |-> Exact(it, L, head)]

ItemRec == [rel : Rels, toks : TokSets]

Init == /\ items \in UNION {[1..n -> ItemRec] : n \in MinN..MaxN}
        /\ order \in OrdersFor(Len(items))
        /\ lam \in Lams
        /\ k \in (0..(MaxN + 1)) \cup {NoK}
        /\ out = Mmr(items, order, lam, k)
Next == FALSE
Spec == Init /\ [][Next]_vars

------------------------------------------------------------------------------
\* documented properties as clauses over the enumerated table
n_ == Len(items)
PrefixSet(p) == {out.head[q] : q \in 1..(p - 1)}          \* selected before position p
Remaining(p) == (1..n_) \ PrefixSet(p)

NoInventionNoDuplicates ==
    /\ \A p \in 1..Len(out.head) : out.head[p] \in 1..n_
    /\ \A p \in 1..Len(out.head), q \in 1..Len(out.head) : p # q => out.head[p] # out.head[q]
    /\ Len(out.full) = n_ /\ SeqRange(out.full) = 1..n_                  \* the full result is a permutation of the input
    /\ SubSeq(out.full, 1, Len(out.head)) = out.head                   \* head first
SizeIsMinKN == Len(out.head) = (IF k = NoK \/ k > n_ THEN n_ ELSE k)
FirstIsMostRelevant ==
    Len(out.head) > 0 => \A j \in 1..n_ : \/ items[out.head[1]].rel > items[j].rel
                                          \/ (items[out.head[1]].rel = items[j].rel /\ out.head[1] <= j)
GreedyStep ==          \* every later pick maximises the objective among the remaining items, given the prefix
    \A p \in 2..Len(out.head) : \A j \in Remaining(p) :
        Score(items, lam, out.head[p], PrefixSet(p)) >= Score(items, lam, j, PrefixSet(p))
TieBreakById ==
    \A p \in 1..Len(out.head) : \A j \in Remaining(p) :
        Score(items, lam, out.head[p], PrefixSet(p)) = Score(items, lam, j, PrefixSet(p)) => out.head[p] <= j
TailInRelevanceOrder ==
    \A p \in (Len(out.head) + 1)..(n_ - 1) :
        \/ items[out.full[p]].rel > items[out.full[p + 1]].rel
        \/ (items[out.full[p]].rel = items[out.full[p + 1]].rel /\ out.full[p] < out.full[p + 1])
BaselineSorted ==
    LET s == Baseline(items) IN
    /\ Len(s) = n_ /\ SeqRange(s) = 1..n_
    /\ \A p \in 1..(n_ - 1) : \/ items[s[p]].rel > items[s[p + 1]].rel
                               \/ (items[s[p]].rel = items[s[p + 1]].rel /\ s[p] < s[p + 1])
LambdaZeroIsRelevanceOrder == lam = 0 => out.full = Baseline(items)
KOneIsRelevanceOrder == k = 1 => out.full = Baseline(items)
LambdaOneIsPureDiversity ==
    lam = 4 => \A p \in 2..Len(out.head) : \A j \in Remaining(p) :
                   Div(items, out.head[p], PrefixSet(p)) >= Div(items, j, PrefixSet(p))
IdenticalTokensNoMovement ==
    ((\A i \in 1..n_, j \in 1..n_ : items[i].toks = items[j].toks) /\ lam < 4) => out.full = Baseline(items)
PrefixStable ==        \* a smaller k selects a prefix of what a larger k selects
    out.head = SubSeq(Greedy(items, lam, <<>>, 1..n_, n_), 1, Len(out.head))
SwitchedOffIsIdentity == out.off = order

EmitCase == PrintT(<<"T", ToJson([r |-> [i \in 1..n_ |-> items[i].rel], t |-> [i \in 1..n_ |-> items[i].toks],
                                  o |-> order, l |-> lam, k |-> k, h |-> out.head, f |-> out.full,
                                  n |-> out.reported, x |-> out.exact])>>)
=============================================================================
