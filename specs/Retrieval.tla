------------------------------ MODULE Retrieval ------------------------------
(* T2 retrieval (clematis.engine.stages.t2.core.t2_semantic over the in-memory index), the DOCUMENTED
   tier walk (C11), transcribed from the configuration reference / m9 "tier-ordered walk" notes / index
   docstrings -- not from the code:

     owner scope      any: no filter | agent: owner = the querying agent | world: owner = "world"
     per tier         the owner-visible episodes that pass the tier filter and have cos >= sim_threshold,
                      ordered by (cos desc, id asc), cut to the first k
       exact_semantic   tier filter: age <= exact_recent_days (inclusive calendar days)
       cluster_semantic tier filter: the episode's cluster is one of the top-m clusters by cosine of the
                        cluster centroid (mean vector of the owner-visible members); an episode without a
                        cluster id forms a cluster of its own
       archive          no tier filter
     walk             tiers in the configured order; an id already collected is skipped (dedupe);
                      the walk stops as soon as k ids are collected
     rescoring        combined = alpha*(cos+1)/2 + beta*recency + gamma*importance,
                      recency = clamp01(1 - age/365); final order (combined desc, id asc)
     use cap          only the first t2_k (slice budget) hits are *used*; the full list is still returned
     residual nudges  walking the used hits in order, the existing nodes whose lower-cased label occurs in
                      the hit's text (by node id), until residual_cap_per_turn nodes are collected

   Everything is integer arithmetic:
     ids      1..n (integer order = id order)
     owner    1 = "A" (the querying agent)  2 = "B"  3 = "world"
     vector   code v: -2,-1,0,1,2 = unit vector with cosine v/2 to the query whose orthogonal part lies on
              axes private to the episode (so two such episodes are never bit-identical unless v = +-2);
              3 = the zero vector (cosine 0 by convention); 4 = cosine 1/2 with the orthogonal part on a
              SHARED axis (all code-4 episodes are bit-identical duplicates)
     cos      s2 = 2*cos;  threshold thr = 20*sim_threshold  (cos >= threshold  <=>  10*s2 >= thr)
     weights  <<a,b,g>> = 4*<<alpha,beta,gamma>>;  importance m = 2*importance;  age in days
     combined 5840*combined = 365*a*(s2+2) + 4*b*rec + 730*g*m,  rec = 365*recency = max(0, 365-age)
     cluster  0 = none, 1 = "c1", 2 = "c2";  cluster keys: 1, 2, and 10+id for the singleton of id
     centroid cos^2 = sx^2/(sx^2+t4) with sx = sum of s2, t4 = 4*|orthogonal part of the sum|^2, sign of sx
     nodes    mention sets are subsets of 1..4; Nodes = the nodes that exist
   `guard` marks cases whose outcome hinges on an exact tie that the implementation evaluates in
   non-exact float arithmetic between DISTINCT inputs (DESIGN 2.4): they are not replayed.           *)
EXTENDS Integers, Sequences, FiniteSets, TLC, Json, Randomization

CONSTANTS Ns,          \* numbers of episodes
          Owners, Ages, Clusters, Imps, Vecs, Mentions,      \* per-episode alphabets
          Nodes,       \* existing node ids
          Ks, Thrs, TierSeqs, TopMs, RecentDays, Weights, Scopes, ResCaps, SliceCaps,
          SampleEps, SampleCfg      \* 0 = enumerate the whole space; s > 0 = RandomSubset(s, space)

NoCap == 99
VARIABLES n, eps, cf, out
vars == <<n, eps, cf, out>>

EpRec == [o : Owners, a : Ages, c : Clusters, m : Imps, v : Vecs, t : Mentions]
CfgSpace == [k : Ks, thr : Thrs, tiers : TierSeqs, m : TopMs, rd : RecentDays, w : Weights,
             scope : Scopes, rcap : ResCaps, scap : SliceCaps]

S2(v) == IF v = 3 THEN 0 ELSE IF v = 4 THEN 1 ELSE v
AxisFree(v) == v \in {-2, 2, 3, 4}
Visible(o, scope) == scope = 0 \/ (scope = 1 /\ o = 1) \/ (scope = 2 /\ o = 3)
RangeOf(s) == {s[i] : i \in DOMAIN s}
Min2(a, b) == IF a <= b THEN a ELSE b

RECURSIVE SumF(_, _)
SumF(f, S) == IF S = {} THEN 0 ELSE LET x == CHOOSE x \in S : TRUE IN f[x] + SumF(f, S \ {x})

\* the elements of S listed by a strict total order given as a rank function
SeqByRank(S, r) == [p \in 1..Cardinality(S) |-> CHOOSE i \in S : r[i] = p - 1]
SortedInts(S) == SeqByRank(S, [i \in S |-> Cardinality({j \in S : j < i})])

RECURSIVE AppendNew(_, _, _)
AppendNew(acc, hits, k) ==
    IF hits = <<>> \/ Len(acc) >= k THEN acc
    ELSE AppendNew(IF Head(hits) \in RangeOf(acc) THEN acc ELSE Append(acc, Head(hits)), Tail(hits), k)

RECURSIVE Walk(_, _, _, _)
Walk(ts, hitsOf, acc, k) ==
    IF ts = <<>> \/ Len(acc) >= k THEN acc
    ELSE Walk(Tail(ts), hitsOf, AppendNew(acc, hitsOf[Head(ts)], k), k)

RECURSIVE TakeNodes(_, _, _)
TakeNodes(S, chosen, cap) ==
    IF S = {} \/ Cardinality(chosen) >= cap THEN chosen
    ELSE LET x == CHOOSE x \in S : \A y \in S : x <= y IN TakeNodes(S \ {x}, chosen \cup {x}, cap)

RECURSIVE ResWalk(_, _, _, _)
ResWalk(hits, ment, chosen, cap) ==
    IF hits = <<>> \/ Cardinality(chosen) >= cap THEN chosen
    ELSE ResWalk(Tail(hits), ment, TakeNodes(ment[Head(hits)] \ chosen, chosen, cap), cap)

-----------------------------------------------------------------------------
(* the documented retrieval; every intermediate result is bound once *)
Retrieve(E, c) ==
    LET ids == DOMAIN E
        s2 == [i \in ids |-> S2(E[i].v)]
        vis == {i \in ids : Visible(E[i].o, c.scope)}
        cand == {i \in vis : 10 * s2[i] >= c.thr}
        cosBefore == [x \in ids \X ids |-> s2[x[1]] > s2[x[2]] \/ (s2[x[1]] = s2[x[2]] /\ x[1] < x[2])]
        TopSeq(S) == LET r == [i \in S |-> Cardinality({j \in S : cosBefore[<<j, i>>]})]
                         kept == {i \in S : r[i] < c.k}
                     IN SeqByRank(kept, r)
        \* ---- clusters over the owner-visible episodes
        ckey == [i \in ids |-> IF E[i].c = 0 THEN 10 + i ELSE E[i].c]
        ckeys == {ckey[i] : i \in vis}
        members == [q \in ckeys |-> {i \in vis : ckey[i] = q}]
        sx == [q \in ckeys |-> SumF(s2, members[q])]
        n4 == [q \in ckeys |-> Cardinality({i \in members[q] : E[i].v = 4})]
        t4 == [q \in ckeys |-> SumF([i \in ids |-> IF E[i].v \in {-1, 0, 1} THEN 4 - E[i].v * E[i].v ELSE 0], members[q])
                               + 3 * n4[q] * n4[q]]
        num == [q \in ckeys |-> IF sx[q] >= 0 THEN sx[q] * sx[q] ELSE 0 - sx[q] * sx[q]]
        den == [q \in ckeys |-> IF sx[q] * sx[q] + t4[q] = 0 THEN 1 ELSE sx[q] * sx[q] + t4[q]]
        cgt == [x \in ckeys \X ckeys |-> num[x[1]] * den[x[2]] > num[x[2]] * den[x[1]]]
        ceq == [x \in ckeys \X ckeys |-> num[x[1]] * den[x[2]] = num[x[2]] * den[x[1]]]
        crank == [q \in ckeys |-> Cardinality({p \in ckeys : cgt[<<p, q>>] \/ (ceq[<<p, q>>] /\ p < q)})]
        chosen == {q \in ckeys : crank[q] < c.m}
        vsig == [q \in ckeys |-> [code \in {-2, 2, 3, 4} |-> Cardinality({i \in members[q] : E[i].v = code})]]
        safeTie == [x \in ckeys \X ckeys |-> /\ x[1] < 10 /\ x[2] < 10
                                             /\ \A i \in members[x[1]] \cup members[x[2]] : AxisFree(E[i].v)
                                             /\ vsig[x[1]] = vsig[x[2]]]
        cguard == \E p \in chosen, q \in ckeys \ chosen : ceq[<<p, q>>] /\ ~safeTie[<<p, q>>]
        \* ---- tiers
        hitsOf == <<TopSeq({i \in cand : E[i].a <= c.rd}),
                    TopSeq({i \in cand : ckey[i] \in chosen}),
                    TopSeq(cand)>>
        acc == Walk(c.tiers, hitsOf, <<>>, c.k)
        got == RangeOf(acc)
        \* ---- rescoring
        rec == [i \in ids |-> IF E[i].a >= 365 THEN 0 ELSE 365 - E[i].a]
        comb == [i \in ids |-> 365 * c.w[1] * (s2[i] + 2) + 4 * c.w[2] * rec[i] + 730 * c.w[3] * E[i].m]
        frank == [i \in got |-> Cardinality({j \in got : comb[j] > comb[i] \/ (comb[j] = comb[i] /\ j < i)})]
        order == SeqByRank(got, frank)
        rguard == \E i, j \in got : /\ i < j /\ comb[i] = comb[j]
                                    /\ <<s2[i], rec[i], E[i].m>> # <<s2[j], rec[j], E[j].m>>
                                    /\ c.w[2] # 0 /\ (rec[i] \notin {0, 365} \/ rec[j] \notin {0, 365})
        \* ---- use cap and residual nudges
        kused == Min2(c.scap, Len(order))
        used == SubSeq(order, 1, kused)
        ment == [i \in ids |-> E[i].t \cap Nodes]
        resid == ResWalk(used, ment, {}, c.rcap)
    IN [ids |-> order, k_used |-> kused, residual |-> resid, comb |-> comb, ckey |-> ckey, chosen |-> chosen,
        nclusters |-> Cardinality(ckeys), cbetter |-> {x \in ckeys \X ckeys : cgt[x]},
        gcluster |-> 2 \in RangeOf(c.tiers) /\ cguard, grank |-> rguard]

Init == /\ n \in Ns
        /\ eps \in (IF SampleEps = 0 THEN [1..n -> EpRec] ELSE RandomSubset(SampleEps, [1..n -> EpRec]))
        /\ cf \in (IF SampleCfg = 0 THEN CfgSpace ELSE RandomSubset(SampleCfg, CfgSpace))
        /\ out = Retrieve(eps, cf)
Next == FALSE
Spec == Init /\ [][Next]_vars

-----------------------------------------------------------------------------
(* the clauses of C11 as invariants of the documented retrieval *)
R == out.ids
Tiers == RangeOf(cf.tiers)
AtMostK == Len(R) <= cf.k
Distinct == \A p, q \in 1..Len(R) : p # q => R[p] # R[q]
OwnerScope == \A p \in 1..Len(R) : Visible(eps[R[p]].o, cf.scope)
Threshold == \A p \in 1..Len(R) : 10 * S2(eps[R[p]].v) >= cf.thr
TierRules ==
    /\ \A p \in 1..Len(R) : \/ (1 \in Tiers /\ eps[R[p]].a <= cf.rd)
                            \/ (2 \in Tiers /\ out.ckey[R[p]] \in out.chosen)
                            \/ 3 \in Tiers
    /\ Cardinality(out.chosen) = Min2(cf.m, out.nclusters)
    /\ \A p \in out.chosen : \A x \in out.cbetter : x[2] = p => x[1] \in out.chosen
RankingLaw == \A p \in 1..(Len(R) - 1) :
                 \/ out.comb[R[p]] > out.comb[R[p + 1]]
                 \/ (out.comb[R[p]] = out.comb[R[p + 1]] /\ R[p] < R[p + 1])
ResidualExistingNodes == out.residual \subseteq Nodes
ResidualLabelsFromUsedHits == \A x \in out.residual : \E p \in 1..out.k_used : x \in eps[R[p]].t
ResidualCap == Cardinality(out.residual) <= cf.rcap
SliceCapOnUse == /\ out.k_used <= Len(R)
                 /\ cf.scap # NoCap => out.k_used <= cf.scap
                 /\ out.k_used = Len(R) \/ out.k_used = cf.scap

EmitCase == PrintT(<<"T", ToJson([eps |-> eps, cf |-> cf, ids |-> out.ids, k_used |-> out.k_used,
                                  residual |-> SortedInts(out.residual), guard |-> out.gcluster \/ out.grank,
                                  gcluster |-> out.gcluster, grank |-> out.grank,
                                  chosen |-> SortedInts(out.chosen)])>>)
=============================================================================
