------------------------------ MODULE Normalise ------------------------------
(* CI identity normalisation of log records (clematis.engine.util.io_logging.normalize_for_identity),
   stated from the documentation (docs/m9/overview.md "Identity normalization (CI)", the function's
   docstring) and the property text (C16):
     - without CI=true nothing is changed;
     - with CI=true only the volatile fields of the identity streams are normalised:
         ms            -> zero                       (t1, t2, t4, apply, turn; and t3_reflection)
         now           -> dropped                    (t1, t2, t4, apply, turn)
         durations_ms  -> every value zero, keys kept (turn only; only when it is a mapping)
         yielded / slice_idx (turn only): kept when the turn really yielded (yielded truthy; yielded is
                          canonicalised to true, an integer-like slice_idx to its integer), dropped otherwise;
     - every other field and every other stream is untouched; normalising twice = normalising once.
   A case is (stream, CI flag, per field "absent" or an abstract value token); `out` is the predicted
   record.  Pure enumeration: all cases are initial states. *)
EXTENDS Integers, Sequences, FiniteSets, TLC, Json

CONSTANTS Streams,      \* stream names to enumerate
          MsT, NowT, DurT, YieldT, SliceT, XT    \* value tokens per field (each includes "absent")

Identity == {"t1.jsonl", "t2.jsonl", "t4.jsonl", "apply.jsonl", "turn.jsonl"}
Reflection == "t3_reflection.jsonl"
Turn == "turn.jsonl"
Fields == {"ms", "now", "durations_ms", "yielded", "slice_idx", "x"}
Truthy == {"true", "one"}

VARIABLES c, out
vars == <<c, out>>

\* the record of a case: only the present fields
RecOf(cc) == LET all == [f \in Fields |->
                          CASE f = "ms" -> cc.ms [] f = "now" -> cc.now [] f = "durations_ms" -> cc.dur
                            [] f = "yielded" -> cc.yielded [] f = "slice_idx" -> cc.slice [] OTHER -> cc.x]
             IN [f \in {g \in Fields : all[g] # "absent"} |-> all[f]]

Drop(r, fs) == [f \in (DOMAIN r) \ fs |-> r[f]]
Set(r, f, v) == IF f \in DOMAIN r THEN [r EXCEPT ![f] = v] ELSE r

ZeroDur(t) == IF t \in {"dpos", "dzero"} THEN "dzero" ELSE t      \* dempty stays empty, nondict untouched
IntOf(t) == IF t \in {"i2", "s2"} THEN "i2" ELSE t                \* "bad" cannot be converted: kept

\* functional core: the documented normalisation
NormF(stream, ci, r) ==
    IF ~ci THEN r
    ELSE IF stream = Reflection THEN Set(r, "ms", "zero")
    ELSE IF stream \notin Identity THEN r
    ELSE LET r1 == Drop(Set(r, "ms", "zero"), {"now"}) IN
         IF stream # Turn THEN r1
         ELSE LET r2 == IF "durations_ms" \in DOMAIN r1 THEN Set(r1, "durations_ms", ZeroDur(r1["durations_ms"])) ELSE r1
              IN IF "yielded" \in DOMAIN r2 /\ r2["yielded"] \in Truthy
                 THEN LET r3 == Set(r2, "yielded", "true")
                      IN IF "slice_idx" \in DOMAIN r3 THEN Set(r3, "slice_idx", IntOf(r3["slice_idx"])) ELSE r3
                 ELSE Drop(r2, {"yielded", "slice_idx"})

Init == /\ c \in [stream : Streams, ci : BOOLEAN, ms : MsT, now : NowT, dur : DurT,
                  yielded : YieldT, slice : SliceT, x : XT]
        /\ out = NormF(c.stream, c.ci, RecOf(c))
Next == FALSE /\ UNCHANGED vars
Spec == Init /\ [][Next]_vars

-----------------------------------------------------------------------------
(* C16 clauses *)
Volatile(stream, ci) ==
    IF ~ci THEN {}
    ELSE IF stream = Turn THEN {"ms", "now", "durations_ms", "yielded", "slice_idx"}
    ELSE IF stream \in Identity THEN {"ms", "now"}
    ELSE IF stream = Reflection THEN {"ms"}
    ELSE {}

Untouched(r, o, f) == (f \in DOMAIN r <=> f \in DOMAIN o) /\ (f \in DOMAIN r => o[f] = r[f])

NormaliseOnlyVolatile ==
    LET r == RecOf(c) IN
    /\ \A f \in Fields \ Volatile(c.stream, c.ci) : Untouched(r, out, f)
    /\ DOMAIN out \subseteq DOMAIN r                       \* nothing is invented
    \* a turn that really yielded keeps its slice markers
    /\ ("yielded" \in DOMAIN r /\ r["yielded"] \in Truthy) =>
          /\ "yielded" \in DOMAIN out /\ out["yielded"] \in Truthy
          /\ ("slice_idx" \in DOMAIN r => "slice_idx" \in DOMAIN out /\ IntOf(out["slice_idx"]) = IntOf(r["slice_idx"]))
    \* volatile values never survive under CI on the streams that own them
    /\ ("ms" \in Volatile(c.stream, c.ci) /\ "ms" \in DOMAIN r) => out["ms"] = "zero"
    /\ ("now" \in Volatile(c.stream, c.ci)) => "now" \notin DOMAIN out

NormaliseIdempotent == NormF(c.stream, c.ci, out) = out

View == <<c>>
EmitCase == PrintT(<<"T", ToJson([c |-> c, out |-> [f \in Fields |-> IF f \in DOMAIN out THEN out[f] ELSE "absent"]])>>)
=============================================================================
