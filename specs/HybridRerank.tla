---------------------------- MODULE HybridRerank ----------------------------
(* Graph-assisted ("hybrid") rerank of retrieval hits — clematis.engine.stages.hybrid:rerank_with_gel,
   called by T2 (stages/t2/quality.py:apply_quality) when t2.hybrid.enabled — extra X06, beyond the
   listed properties.

   What the documentation says (docs/m11/overview.md FAQ, README "Perf/diagnostic logs", docs/m9/migration.md,
   docs/refactors/PR76, examples/gel/enabled.yaml, configs/validate.py, the module's own docstrings):
     * the hybrid reranker is a flagged path of T2, OFF by default; with the flag off (or without a graph)
       retrieval ranking is unchanged ("Does enabling GEL change retrieval ranking?  Not in v3");
     * it "blends dense similarity with graph evidence", deterministically; it returns a "reordered copy of
       items (only within the top-k slice), rest preserved" — a new list, no in-place mutation, small metrics;
     * the caller's list is "already sorted by (-sim, id)"; the result is ordered deterministically
       (score descending, id ascending) — the T2 convention;
     * t2.hybrid.{enabled, use_graph, anchor_top_m >= 1, walk_hops in {1,2}, edge_threshold in [0,1],
       lambda_graph in [0,1], damping in [0,1], degree_norm in {none, invdeg}, max_bonus >= 0, k_max >= 1}.
   The lead's reading of the intended behaviour: anchors = the top anchor_top_m hits; a 1- or 2-hop walk over GEL
   edges with |weight| >= edge_threshold starting from the anchors; bonus = lambda_graph x (accumulated edge
   weight, damped per hop, optionally degree-normalised), capped by max_bonus; final order = (score + bonus)
   descending, id ascending; the result permutes the first k_max hits, the tail keeps its place; gate off /
   use_graph false / empty graph / lambda_graph 0 leave the order unchanged; metrics (k_considered,
   k_reordered, hybrid_used) say what happened.

   DEVIATION / as implemented — the documentation is silent on the arithmetic; the model follows the code, and
   each point below is where the code differs from (or narrows) the reading above:
     D1  the original top-1 hit is pinned: only positions 2..K are re-sorted (K = min(#hits, k_max)), whatever
         its adjusted score;
     D2  walk_hops = 2 REPLACES the direct evidence: 1-hop sums are switched off and the bonus is
         damping x (best 2-hop path product  w(anchor,w) x w(w,v)), a best path (largest magnitude, first
         in list order on ties), not an accumulation; the intermediate w must itself be one of the K hits;
         a path may return to its own anchor (a -> w -> a);
     D3  walk_hops = 1 with a single anchor (anchor_top_m = 1, or clamped to 1) switches the 1-hop sums off
         as well: the rerank is then a no-op whatever the graph (the repository's own tests
         test_deterministic_tie_break_by_id / test_bonus_clamped_by_max_bonus pass vacuously for that reason);
     D4  anchors receive bonuses too (from the OTHER anchors, and through 2-hop paths);
     D5  max_bonus clamps the raw graph evidence to [-max_bonus, +max_bonus] BEFORE lambda_graph scales it:
         adjusted = score + lambda_graph x clamp(evidence); negative edges give negative bonuses;
     D6  degree_norm = invdeg divides by the number of edges with |w| >= edge_threshold between the hit and the
         other K hits (edges to ids outside the slice do not count);
     D7  hybrid_used = TRUE as soon as some 1-hop sum or some best 2-hop path is non-zero — also when
         damping = 0, lambda_graph = 0 or max_bonus = 0 make every bonus zero; then positions 2..K are still
         re-sorted by (score, id), which is the identity only if the caller's list was sorted by its own
         .score (T2 sorts by the COMBINED score but the items carry the raw cosine);
     D8  the metrics carry k_considered only past the gates, k_reordered only when a contribution was looked
         for; k_reordered counts positions whose occupant changed.

   Numbers (exact fixed-point grid, BUILDING.md): scores in 1/8, edge weights / edge_threshold / max_bonus in
   1/4, lambda_graph and damping in 1/2.  Evidence and bonus are carried in 1/128, adjusted scores in 1/256;
   every product and sum is dyadic and exact in doubles.  invdeg divides by a degree in 1..3: the case is marked
   exact = FALSE when some division does not come out even (the harness then compares only the clauses that
   do not depend on the arithmetic).
   Ids are integers (TLC cannot order strings); the harness maps them to strings in the same order.
   (TLCEval: TLC evaluates function constructors lazily, element by element at every application; the
   intermediate tables are forced once.)                                                                   *)
EXTENDS Integers, Sequences, FiniteSets, TLC, Json

CONSTANTS
    Ns,         \* numbers of hits
    IdOrders,   \* sequences of distinct ids: the id at each rank
    ScoreVecs,  \* sequences of scores (1/8): the score at each rank (not necessarily sorted, see D7)
    EdgeCands,  \* candidate GEL edges [a, b, w]: a < b ids, w in 1/4 (may be negative or 0)
    MaxEdges,
    Gates,      \* subset of {"on", "disabled", "nograph"}
    Ms, Hops, Damps, Ths, Lams, Degs, Caps, KMaxes      \* the t2.hybrid vector when the gates are on

VARIABLES hits, edges, cfg, out
vars == <<hits, edges, cfg, out>>

Abs(x) == IF x < 0 THEN -x ELSE x
MinI(a, b) == IF a < b THEN a ELSE b
MaxI(a, b) == IF a > b THEN a ELSE b

\* weight of the undirected edge {x, y}; 0 when there is none
W(E, x, y) == LET S == {e \in E : (e.a = x /\ e.b = y) \/ (e.a = y /\ e.b = x)}
              IN IF S = {} THEN 0 ELSE (CHOOSE e \in S : TRUE).w

\* 1-hop: sum over the anchors (ranks 1..M) other than v of the weights that pass the threshold
RECURSIVE OneHop(_, _, _, _, _, _)
OneHop(H, E, M, th, v, i) ==
    IF i > M THEN 0
    ELSE LET w == W(E, H[i].id, v)
         IN (IF H[i].id # v /\ Abs(w) >= th THEN w ELSE 0) + OneHop(H, E, M, th, v, i + 1)

\* best anchor -> x link: largest magnitude, the first anchor in rank order on ties
RECURSIVE BestAW(_, _, _, _, _, _, _)
BestAW(H, E, M, th, x, i, best) ==
    IF i > M THEN best
    ELSE LET w1 == W(E, H[i].id, x)
         IN BestAW(H, E, M, th, x, i + 1,
                   IF H[i].id # x /\ Abs(w1) >= th /\ Abs(w1) > Abs(best) THEN w1 ELSE best)

\* best 2-hop path to the hit at rank p through an intermediate hit at rank j (1/16)
RECURSIVE BestPath(_, _, _, _, _, _, _, _)
BestPath(H, E, K, th, aw, p, j, best) ==
    IF j > K THEN best
    ELSE LET w2 == W(E, H[j].id, H[p].id)
             val == aw[j] * w2
         IN BestPath(H, E, K, th, aw, p, j + 1,
                     IF j # p /\ aw[j] # 0 /\ Abs(w2) >= th /\ Abs(val) > Abs(best) THEN val ELSE best)

\* the rerank: H hits (rank -> [id, s]), E GEL edges, c the t2.hybrid vector.
\* order[j] = the input rank of the hit at output rank j; bonus (1/128) and adj (1/256) are per INPUT rank.
\* Metrics absent from the returned dict are -1.
Rerank(H, E, c) ==
    LET n == Len(H)
        K == MinI(n, c.kmax)
        ident == [i \in 1..n |-> i]
        Same(kc, kr, m) == [order |-> ident, bonus |-> [i \in 1..n |-> 0], adj |-> [i \in 1..n |-> 32 * H[i].s],
                            used |-> FALSE, kc |-> kc, kr |-> kr, m |-> m, exact |-> TRUE]
    IN
    IF ~c.en \/ ~c.ug \/ E = {} \/ n = 0 THEN Same(-1, -1, -1)
    ELSE IF K <= 1 THEN Same(K, -1, -1)
    ELSE
    LET M == MaxI(1, MinI(c.m, K))
        ids == {H[i].id : i \in 1..K}
        one == TLCEval([i \in 1..K |-> IF c.hops = 1 /\ M >= 2 THEN OneHop(H, E, M, c.th, H[i].id, 1) ELSE 0])
        aw == TLCEval([i \in 1..K |-> IF c.hops = 2 THEN BestAW(H, E, M, c.th, H[i].id, 1, 0) ELSE 0])
        path == TLCEval([i \in 1..K |-> IF c.hops = 2 THEN BestPath(H, E, K, c.th, aw, i, 1, 0) ELSE 0])
        contrib == \E i \in 1..K : one[i] # 0 \/ path[i] # 0
        raw == TLCEval([i \in 1..K |-> IF c.hops = 2 THEN 4 * c.damp * path[i] ELSE 32 * one[i]])      \* 1/128
        deg == TLCEval([i \in 1..K |-> Cardinality({e \in E : /\ Abs(e.w) >= c.th
                                                      /\ \/ (e.a = H[i].id /\ e.b \in ids)
                                                         \/ (e.b = H[i].id /\ e.a \in ids)})])
        inv == c.deg = "invdeg"
        exact == ~inv \/ \A i \in 1..K : deg[i] = 0 \/ raw[i] % deg[i] = 0
        norm == TLCEval([i \in 1..K |-> IF inv /\ deg[i] > 0 THEN raw[i] \div deg[i] ELSE raw[i]])
        cap == 32 * c.cap
        bon == TLCEval([i \in 1..n |-> IF i > K THEN 0 ELSE IF norm[i] > cap THEN cap ELSE IF norm[i] < -cap THEN -cap ELSE norm[i]])
        adj == TLCEval([i \in 1..n |-> 32 * H[i].s + c.lam * bon[i]])                                    \* 1/256
        Before(p, q) == adj[p] > adj[q] \/ (adj[p] = adj[q] /\ H[p].id < H[q].id)
        NewPos(p) == IF p = 1 \/ p > K THEN p ELSE 2 + Cardinality({q \in 2..K : Before(q, p)})
        pos == TLCEval([p \in 1..n |-> NewPos(p)])
        order == TLCEval([j \in 1..n |-> CHOOSE p \in 1..n : pos[p] = j])
    IN
    IF ~contrib THEN Same(K, 0, M)
    ELSE [order |-> order, bonus |-> bon, adj |-> adj, used |-> TRUE, kc |-> K,
          kr |-> Cardinality({j \in 1..n : order[j] # j}), m |-> M, exact |-> exact]

\* ---- the enumerated universe -------------------------------------------------------------------------
HitLists == {[i \in 1..n |-> [id |-> o[i], s |-> sv[i]]] : n \in Ns, o \in IdOrders, sv \in ScoreVecs}
EdgeSets == {E \in SUBSET EdgeCands : /\ Cardinality(E) <= MaxEdges
                                      /\ \A e, f \in E : (e.a = f.a /\ e.b = f.b) => e = f}
OnCfgs == {c \in [en : {TRUE}, ug : {TRUE}, m : Ms, hops : Hops, damp : Damps, th : Ths, lam : Lams,
                  deg : Degs, cap : Caps, kmax : KMaxes] :
              \* damping is only read with walk_hops = 2: one (non-zero if there is one) value with walk_hops = 1
              c.hops = 1 => \A d \in Damps : d <= c.damp}
\* closed gates: the most aggressive vector, so that an ignored gate would show
OffBase == [m |-> 2, hops |-> 1, damp |-> 1, th |-> 0, lam |-> 2, deg |-> "none", cap |-> 8, kmax |-> 128]
OffCfgs == (IF "disabled" \in Gates THEN {[en |-> FALSE, ug |-> u] @@ OffBase : u \in BOOLEAN} ELSE {})
           \cup (IF "nograph" \in Gates THEN {[en |-> TRUE, ug |-> FALSE] @@ OffBase} ELSE {})
Cfgs == (IF "on" \in Gates THEN OnCfgs ELSE {}) \cup OffCfgs

Init == /\ hits \in HitLists
        /\ edges \in EdgeSets
        /\ cfg \in Cfgs
        /\ out = Rerank(hits, edges, cfg)
Next == FALSE
Spec == Init /\ [][Next]_vars

\* ---- clauses over the enumerated table ------------------------------------------------------------------
N == Len(hits)
K == MinI(N, cfg.kmax)
TopM == MaxI(1, MinI(cfg.m, K))
GatesOpen == cfg.en /\ cfg.ug /\ edges # {} /\ N > 0
Identity == \A i \in 1..N : out.order[i] = i
Strong(x, y) == \E e \in edges : ((e.a = x /\ e.b = y) \/ (e.a = y /\ e.b = x)) /\ Abs(e.w) >= cfg.th /\ e.w # 0
RestSorted == \A i, j \in 2..K : i < j => \/ hits[i].s > hits[j].s
                                          \/ (hits[i].s = hits[j].s /\ hits[i].id < hits[j].id)

\* nothing invented, nothing dropped
Permutation == DOMAIN out.order = 1..N /\ {out.order[i] : i \in 1..N} = 1..N
\* hits beyond k_max keep their place and get no bonus
TailBeyondKmaxUntouched == \A i \in 1..N : i > cfg.kmax => (out.order[i] = i /\ out.bonus[i] = 0)
\* closed gate / use_graph false / empty graph / no edge that passes the threshold between the K hits /
\* a weight of zero on the graph term (lambda_graph = 0 or max_bonus = 0, on a list sorted by its own scores) /
\* a single anchor with a 1-hop walk (D3): the order is unchanged
OffIsIdentity ==
    /\ (~GatesOpen \/ K <= 1) => (Identity /\ ~out.used)
    /\ (~\E i, j \in 1..K : i # j /\ Strong(hits[i].id, hits[j].id)) => (Identity /\ ~out.used)
    /\ ((cfg.lam = 0 \/ cfg.cap = 0) /\ RestSorted) => Identity
    /\ (cfg.hops = 1 /\ TopM = 1) => (Identity /\ ~out.used)
\* D1
TopOnePinned == N >= 1 => out.order[1] = 1
\* positions 2..K by adjusted score descending, id ascending on ties; adjusted = score + lambda x bonus
OrderByAdjustedScoreThenId ==
    /\ \A i \in 1..N : out.adj[i] = 32 * hits[i].s + cfg.lam * out.bonus[i]
    /\ out.used => \A i, j \in 2..K : i < j =>
           LET p == out.order[i]  q == out.order[j]
           IN out.adj[p] > out.adj[q] \/ (out.adj[p] = out.adj[q] /\ hits[p].id < hits[q].id)
BonusWithinCap == \A i \in 1..N : Abs(out.bonus[i]) <= 32 * cfg.cap
\* a bonus needs a walk of walk_hops edges (each passing the threshold) that starts at one of the top-M hits
\* and stays inside the K hits
AnchorsFromTopM ==
    \A i \in 1..K : out.bonus[i] # 0 =>
        IF cfg.hops = 1
        THEN \E u \in 1..TopM : u # i /\ Strong(hits[u].id, hits[i].id)
        ELSE \E u \in 1..TopM, j \in 1..K : u # j /\ j # i /\ Strong(hits[u].id, hits[j].id) /\ Strong(hits[j].id, hits[i].id)
\* edges below the threshold might as well not exist
OnlyEdgesAboveThreshold ==
    LET r == Rerank(hits, {e \in edges : Abs(e.w) >= cfg.th}, cfg)
    IN r.order = out.order /\ r.bonus = out.bonus /\ r.used = out.used
\* edges that leave the K considered hits (to an id that is no hit, or to a hit beyond k_max) might as well not exist
OnlyConsideredHitsMatter ==
    LET ids == {hits[i].id : i \in 1..K}
        r == Rerank(hits, {e \in edges : e.a \in ids /\ e.b \in ids}, cfg)
    IN r.order = out.order /\ r.bonus = out.bonus /\ r.used = out.used
MetricsConsistent ==
    /\ out.used => (GatesOpen /\ K >= 2 /\ out.kc = K /\ out.m = TopM)
    /\ ~out.used => Identity
    /\ (GatesOpen /\ out.kc # -1) => out.kc = K
    /\ ~GatesOpen => (out.kc = -1 /\ out.kr = -1)
    /\ out.kr # -1 => (out.kr = Cardinality({j \in 1..N : out.order[j] # j}) /\ out.kr # 1 /\ out.kr <= MaxI(0, K - 1))
    /\ (\E i \in 1..N : out.bonus[i] # 0) => out.used

EmitCase == PrintT(<<"T", ToJson([hits |-> hits, edges |-> edges, cfg |-> cfg, out |-> out])>>)
=============================================================================
