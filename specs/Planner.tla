------------------------------- MODULE Planner -------------------------------
(* T3 planning, one-shot retrieval refinement, speaking and the LLM-plan sanitiser (C13), written as
   decision tables from the documented behaviour (docstrings of parse_and_validate / rag_once, the
   PLANNER_V1 schema text, docs/m3/llm_adapter.md "M3-10", configs/config.yaml t3.policy defaults,
   the T3 test narratives "strong / weak / low evidence").  Five tables, each enumerated completely
   by TLC (`inp` chosen in Init<Part>, `out` = <Part>F(inp), no transitions):

     Delib  deliberate(bundle)            similarity x labels x touched nodes x caps -> ops, intent
     Rag    rag_once(bundle, plan, fn)    + retrieved score, already_used            -> ops, intent, calls
     Turn   run_turn                      + max_rag_loops                             -> retrieval calls
     Speak  speak / llm_speak             raw token count x budget                    -> tokens, truncated
     San    parse_and_validate            class vector of an untrusted string         -> accept | reject

   Numbers: similarities and thresholds are integers in 1/1000 (0.4 = 400); the harness divides by
   1000.0, which is exact at the thresholds (IEEE division is correctly rounded), and adds the
   neighbouring doubles of each threshold.  NONE (= 99) stands for "no per-slice cap".            *)
EXTENDS Integers, Sequences, FiniteSets, TLC, Json

CONSTANTS ThrIdx,        \* which threshold settings (indices into ThrTable) are enumerated
          NBig, NSmall,  \* numbers of touched nodes with |delta| >= eps / < eps
          Caps,          \* per-turn op caps
          SliceCaps,     \* per-slice op caps, NONE = absent
          RagScores,     \* offsets class of the best retrieved score (see RagPoint)
          RagLoops,      \* max_rag_loops values
          TurnSlices,    \* per-slice t3_ops budgets of the scheduler for the Turn table (NONE = scheduler off)
          RawTokens, Budgets, \* Speak
          SanFull        \* TRUE: full cross product of sanitiser classes; FALSE: irrelevant dimensions canonical

NONE == 99

\* ---- documented constants ------------------------------------------------------------------------
TauLowDoc  == 400      \* configs/config.yaml t3.policy.tau_low  0.4
TauHighDoc == 800      \* t3.policy.tau_high 0.8
\* epsilon_edit 0.10 is used by the concretiser only (node classes "<eps" / ">=eps")
MaxRawLen      == 20000   \* raw size guard
PlanMaxItems   == 16      \* PLANNER_V1 maxItems
ItemMaxLen     == 200     \* PLANNER_V1 items.maxLength
RationaleMaxLen == 2000   \* PLANNER_V1 rationale.maxLength

\* threshold settings: 1 = documented defaults; others quantify "all thresholds" (validator: 0 <= lo <= hi <= 1)
ThrTable == <<[lo |-> TauLowDoc, hi |-> TauHighDoc], [lo |-> 250, hi |-> 750],
              [lo |-> 500, hi |-> 500], [lo |-> 0, hi |-> 1000]>>

VARIABLES inp, out
vars == <<inp, out>>

Min2(a, b) == IF a < b THEN a ELSE b
Max2(a, b) == IF a > b THEN a ELSE b
Elems(s) == {s[i] : i \in 1..Len(s)}
Prefix(s, n) == SubSeq(s, 1, Min2(Len(s), Max2(n, 0)))

\* similarity alphabet for a threshold setting: far below, zero, both sides of both thresholds, middle, top
SimPoints(th) == {-100, 0, th.lo - 1, th.lo, th.lo + 1, (th.lo + th.hi) \div 2,
                  th.hi - 1, th.hi, th.hi + 1, 1000}

-----------------------------------------------------------------------------
(* Delib: the documented rule.
     intent: s >= hi -> summary;  lo <= s < hi -> assertion when there are topic labels, else ack;
             s < lo -> question.
     candidate ops in priority order: Speak; EditGraph when s >= lo and some touched node has
     |delta| >= eps; RequestRetrieve when s < lo; the list is cut to min(per-turn cap, slice cap).
     Topic labels: the labels of the input, else the labels of the touched nodes.                   *)
MinCap(cap, sl) == IF sl = NONE THEN cap ELSE Min2(cap, sl)
Intent(th, s, topic) == IF s >= th.hi THEN "summary"
                        ELSE IF s >= th.lo THEN (IF topic THEN "assertion" ELSE "ack")
                        ELSE "question"
Topic(i) == i.lab = "some" \/ i.nbig + i.nsmall > 0

DelibF(i) ==
    LET th == ThrTable[i.thr]
        mc == MinCap(i.cap, i.slice)
        full == <<"Speak">> \o (IF i.sim >= th.lo /\ i.nbig > 0 THEN <<"EditGraph">> ELSE <<>>)
                            \o (IF i.sim < th.lo THEN <<"RequestRetrieve">> ELSE <<>>)
    IN [ops |-> Prefix(full, mc), intent |-> Intent(th, i.sim, Topic(i)), mincap |-> mc,
        simeff |-> i.sim, lo |-> th.lo, hi |-> th.hi, calls |-> 0]

DelibInputs == UNION {[thr : {t}, sim : SimPoints(ThrTable[t]), lab : {"none", "some"}, nbig : NBig,
                       nsmall : NSmall, cap : Caps, slice : SliceCaps] : t \in ThrIdx}

InitDelib == inp \in DelibInputs /\ out = DelibF(inp)

-----------------------------------------------------------------------------
(* Rag: single retrieval refinement.  plan0 is the planner's own plan ("natural") or a hand-made
   Speak+RequestRetrieve plan ("forced", as the repository's tests do).  already_used or no
   RequestRetrieve -> plan unchanged, no retrieval.  Otherwise exactly one retrieval; evidence
   becomes max(pre, best retrieved score; 0 when nothing was retrieved); the Speak intent is recomputed
   from it; one EditGraph may be added if there is room and none is present; cut to the cap.        *)
RagEff(i) == IF i.nhits = 0 THEN 0 ELSE i.rag

RagF(i) ==
    LET th == ThrTable[i.thr]
        mc == MinCap(i.cap, i.slice)
        d == DelibF(i)
        plan0 == IF i.shape = "natural" THEN d.ops ELSE <<"Speak", "RequestRetrieve">>
        intent0 == IF i.shape = "natural" THEN d.intent ELSE "question"
        rr == "RequestRetrieve" \in Elems(plan0)
        calls == IF i.used \/ ~rr THEN 0 ELSE 1
        post == IF calls = 1 THEN Max2(i.sim, RagEff(i)) ELSE i.sim
        addEdit == post >= th.lo /\ "EditGraph" \notin Elems(plan0) /\ i.nbig > 0 /\ Len(plan0) < mc
        ops1 == Prefix(plan0 \o (IF addEdit THEN <<"EditGraph">> ELSE <<>>), mc)
    IN IF calls = 0
       THEN [ops |-> plan0, intent |-> intent0, mincap |-> mc, simeff |-> i.sim, lo |-> th.lo, hi |-> th.hi,
             calls |-> 0, refined |-> FALSE]
       ELSE [ops |-> ops1, intent |-> Intent(th, post, Topic(i)), mincap |-> mc, simeff |-> post,
             lo |-> th.lo, hi |-> th.hi, calls |-> 1, refined |-> TRUE]

RagPoint(th, c) == CASE c = 0 -> th.lo - 1 [] c = 1 -> th.lo [] c = 2 -> th.hi - 1 [] c = 3 -> th.hi
                     [] c = 4 -> 1000 [] OTHER -> 0
RagInputs == UNION {[thr : {t}, sim : SimPoints(ThrTable[t]), lab : {"none", "some"}, nbig : NBig,
                     nsmall : NSmall, cap : Caps, slice : SliceCaps,
                     rag : {RagPoint(ThrTable[t], c) : c \in RagScores}, nhits : {0, 2},
                     shape : {"natural", "forced"}, used : BOOLEAN] : t \in ThrIdx}
RagOK(i) == /\ (i.shape = "forced" => MinCap(i.cap, i.slice) >= 2)
            /\ (i.nhits = 0 => i.rag = RagPoint(ThrTable[i.thr], 4))      \* score irrelevant without hits

InitRag == inp \in {i \in RagInputs : RagOK(i)} /\ out = RagF(inp)

-----------------------------------------------------------------------------
(* Turn: one retrieval for T2, plus the refinement's retrieval iff the plan requests it and
   max_rag_loops >= 1 (only one-shot refinement exists).  With the scheduler on, a plan that uses up
   the slice's t3_ops budget makes the turn yield at the stage boundary after planning (docs/m8
   scheduler: BUDGET_T3_OPS when consumed = budget), i.e. before any refinement or speaking.      *)
TurnF(i) ==
    LET d == DelibF(i)
        rr == "RequestRetrieve" \in Elems(d.ops)
        yielded == i.slice # NONE /\ Len(d.ops) = i.slice
        refine == rr /\ i.loops >= 1 /\ ~yielded
        r == RagF([i EXCEPT !.shape = "natural", !.used = FALSE])
    IN IF refine THEN [r EXCEPT !.calls = 2] @@ [requested |-> rr, yielded |-> FALSE]
       ELSE [ops |-> d.ops, intent |-> d.intent, mincap |-> d.mincap, simeff |-> i.sim, lo |-> d.lo,
             hi |-> d.hi, calls |-> 1, refined |-> FALSE, requested |-> rr, yielded |-> yielded]

TurnInputs == [thr : {1}, sim : SimPoints(ThrTable[1]), lab : {"none", "some"}, nbig : NBig,
               nsmall : {0}, cap : Caps, slice : TurnSlices, rag : {RagPoint(ThrTable[1], c) : c \in RagScores},
               nhits : {0, 2}, shape : {"natural"}, used : {FALSE}, loops : RagLoops, budget : Budgets]

InitTurn == inp \in {i \in TurnInputs : RagOK(i)} /\ out = TurnF(inp)

-----------------------------------------------------------------------------
(* Speak: the utterance is the rendered text cut to the first `budget` whitespace tokens.          *)
SpeakF(i) == [tokens |-> IF i.budget <= 0 THEN 0 ELSE Min2(i.raw, i.budget),
              truncated |-> i.budget <= 0 \/ i.raw > i.budget]

SpeakInputs == [raw : RawTokens, budget : Budgets,
                tmpl : {"default", "noprefix", "unknown", "snippets", "literal"},
                style : {"none", "one", "two"},
                backend : {"rule", "nospeak", "llm_obj", "llm_dict", "llm_raise", "llm_prefixed"}]
SpeakOK(i) == (i.backend \notin {"rule", "nospeak"}) => i.tmpl = "default"      \* the template is not used by llm_speak

InitSpeak == inp \in {i \in SpeakInputs : SpeakOK(i)} /\ out = SpeakF(inp)

-----------------------------------------------------------------------------
(* San: acceptance rules of the plan sanitiser, first failing rule wins.
     - at most MaxRawLen characters;
     - pure JSON, or one fenced block tagged json / jsonc / untagged; nothing outside;
     - the JSON value is one object with exactly the keys plan, rationale and optionally reflection;
     - plan: list of at most PlanMaxItems strings of 1..ItemMaxLen chars, not blank;
     - rationale: string of 1..RationaleMaxLen chars;
     - reflection: boolean, 0/1, or one of 'true'/'false','1'/'0' -> coerced to a boolean (default false);
     - accepted -> the normalised object {plan, rationale, reflection: bool}.                       *)
Fences == {"none", "json", "jsonc", "emptytag", "other", "unterminated", "two"}
Payloads == {"object", "array", "scalar", "invalid", "empty"}
Proses == {"none", "prefix", "suffix"}
Sizes == {"le", "gt"}
PlanCls == {"missing", "nonlist", "le", "gt"}
ItemCls == {"ok", "empty", "blank", "toolong", "nonstring"}
RatCls == {"missing", "empty", "ok", "toolong", "nonstring"}
ReflCls == {"absent", "bool", "int01", "accstr", "other"}

Rej(why) == [ok |-> FALSE, why |-> why, refl |-> FALSE]
SanF(v) ==
    IF v.size = "gt" THEN Rej("raw_too_large")
    ELSE IF v.fence \in {"unterminated", "two"} THEN Rej("not_a_single_block")
    ELSE IF v.prose # "none" THEN Rej("prose_outside")
    ELSE IF v.fence = "other" THEN Rej("fence_language")
    ELSE IF v.payload \in {"invalid", "empty"} THEN Rej("not_json")
    ELSE IF v.payload # "object" THEN Rej("not_an_object")
    ELSE IF v.plan = "missing" \/ v.rat = "missing" THEN Rej("missing_key")
    ELSE IF v.extra THEN Rej("unknown_key")
    ELSE IF v.plan = "nonlist" THEN Rej("plan_type")
    ELSE IF v.plan = "gt" THEN Rej("plan_too_long")
    ELSE IF v.item # "ok" THEN Rej("plan_item")
    ELSE IF v.rat # "ok" THEN Rej("rationale")
    ELSE IF v.refl = "other" THEN Rej("reflection")
    ELSE [ok |-> TRUE, why |-> "", refl |-> IF v.refl = "absent" THEN FALSE ELSE v.rv]

SanAll == [fence : Fences, payload : Payloads, prose : Proses, size : Sizes, plan : PlanCls, item : ItemCls,
           rat : RatCls, extra : BOOLEAN, refl : ReflCls, rv : BOOLEAN]
\* dimensions that cannot be realised / do not exist for a vector are held at a canonical value
SanCanon(v) ==
    /\ (v.payload # "object" => v.plan = "le" /\ v.item = "ok" /\ v.rat = "ok" /\ ~v.extra /\ v.refl = "absent")
    /\ (v.plan \in {"missing", "nonlist"} => v.item = "ok")
    /\ (v.refl \in {"absent", "other"} => v.rv = FALSE)
SanSlim(v) ==       \* quick tier: vary the object's fields only under the accepting envelopes and one rejecting one
    \/ v.payload # "object"
    \/ (v.plan = "le" /\ v.item = "ok" /\ v.rat = "ok" /\ ~v.extra /\ v.refl \in {"absent", "bool"})
    \/ (v.prose = "none" /\ v.size = "le" /\ v.fence \in {"none", "json", "emptytag", "other"})

InitSan == inp \in {v \in SanAll : SanCanon(v) /\ (SanFull \/ SanSlim(v))} /\ out = SanF(inp)

-----------------------------------------------------------------------------
Init == InitDelib
Next == FALSE
Spec      == Init /\ [][Next]_vars
SpecDelib == InitDelib /\ [][Next]_vars
SpecRag   == InitRag /\ [][Next]_vars
SpecTurn  == InitTurn /\ [][Next]_vars
SpecSpeak == InitSpeak /\ [][Next]_vars
SpecSan   == InitSan /\ [][Next]_vars

-----------------------------------------------------------------------------
(* C13 clauses as invariants of the tables *)
\* Delib / Rag / Turn
OpsWithinMinCap == /\ Len(out.ops) <= inp.cap
                   /\ (inp.slice # NONE => Len(out.ops) <= inp.slice)
SpeakFirst == Len(out.ops) > 0 => out.ops[1] = "Speak"
IntentByThresholds == /\ (out.simeff >= out.hi => out.intent = "summary")
                      /\ (out.simeff < out.lo => out.intent = "question")
                      /\ (out.simeff >= out.lo /\ out.simeff < out.hi => out.intent \in {"assertion", "ack"})
RetrieveOnlyBelowLow == "RequestRetrieve" \in Elems(out.ops) => inp.sim < out.lo
IntentByThresholdsRefined == out.refined => IntentByThresholds      \* Rag: a hand-made plan's intent is given
\* Rag: retrieve_fn is called at most once, never when the refinement was already used
AtMostOneRefinementRag == out.calls <= 1 /\ (inp.used => out.calls = 0)
\* Turn: retrieval calls per turn <= 2, exactly 1 when max_rag_loops = 0
AtMostOneRefinement == out.calls <= 2 /\ out.calls >= 1 /\ (inp.loops = 0 => out.calls = 1)
\* Speak
UtteranceWithinTokens == out.tokens <= Max2(inp.budget, 0) /\ out.tokens <= inp.raw
\* San
SanitiserAcceptsOnlySingleObjectWithinLimits ==
    out.ok => /\ inp.payload = "object"
              /\ inp.fence \in {"none", "json", "jsonc", "emptytag"}
              /\ inp.prose = "none"
              /\ inp.size = "le"
              /\ inp.plan = "le" /\ inp.item = "ok"
              /\ inp.rat = "ok"
              /\ ~inp.extra
              /\ inp.refl # "other"

EmitCase == PrintT(<<"T", ToJson([inp |-> inp, out |-> out])>>)
=============================================================================
