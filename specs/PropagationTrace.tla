-------------------------- MODULE PropagationTrace --------------------------
(* Batch trace validation (C->S) for C12.  One trace = one real t1_propagate call over several active
   graphs of arbitrary size and float weights; activations are not predicted here — the clauses that
   do not need them are decided on what the implementation returned:

     event [op |-> "graph", n, es (edge list <<src, dst>>), seeds (nodes whose label or tag occurs in
            the lower-cased text, computed by the harness from the documented rule), radius, iter,
            layers, siter, queue, spops, relax (NoCap = absent), touched (sequence of node numbers;
            node numbers are the ranks of the real ids in id order), c = counters of the single-graph
            call]
     event [op |-> "total", touched, c]   -- the call with all graphs active, in the order of the
            preceding graph events

   Clauses (first failing one is the verdict): PopBudget, LayerBudget, RelaxBudget, SliceCapsTighten,
   TouchedOnceSortedPerGraph, ReachableWithinCaps (BFS on the logged graph within min(radius cap,
   layer cap) hops), SeedsExact, CountersMatchWork (relations between counters and touched nodes that
   hold for every run of the documented algorithm; totals = concatenation / sums).                 *)
EXTENDS Integers, Sequences, FiniteSets, TLC, Json, IOUtils, TLCExt

Traces == ndJsonDeserialize(IOEnv.TRACE_FILE)
NoCap == 99999

VARIABLES tid, l, cat, sums
tvars == <<tid, l, cat, sums>>

MinI(a, b) == IF a < b THEN a ELSE b
SetOf(s) == {s[i] : i \in 1..Len(s)}
Zero == [pops |-> 0, iters |-> 0, props |-> 0, rhits |-> 0, lhits |-> 0, nhits |-> 0]
Add(a, b) == [pops |-> a.pops + b.pops, iters |-> a.iters + b.iters, props |-> a.props + b.props,
              rhits |-> a.rhits + b.rhits, lhits |-> a.lhits + b.lhits, nhits |-> a.nhits + b.nhits]
Same(a, b) == /\ a.pops = b.pops /\ a.iters = b.iters /\ a.props = b.props
              /\ a.rhits = b.rhits /\ a.lhits = b.lhits /\ a.nhits = b.nhits

\* breadth-first search on the logged graph: nodes within k hops of S
RECURSIVE Bfs(_, _, _, _)
Bfs(es, seen, frontier, k) ==
    IF k = 0 \/ frontier = {} THEN seen
    ELSE LET nxt == {es[i][2] : i \in {j \in 1..Len(es) : es[j][1] \in frontier}} \ seen
         IN Bfs(es, seen \cup nxt, nxt, k - 1)

GraphClause(e) ==
    LET popcap == MinI(e.queue, e.spops)
        laycap == MinI(MinI(e.iter, e.layers), e.siter)
        hops == MinI(e.radius, laycap)
        T == SetOf(e.touched)
        S == SetOf(e.seeds)
        c == e.c
        hasin == {e.es[i][2] : i \in 1..Len(e.es)}
    IN IF c.pops > popcap THEN "PopBudget"
       ELSE IF c.iters > laycap \/ c.iters > hops THEN "LayerBudget"
       ELSE IF e.relax # NoCap /\ c.props > e.relax THEN "RelaxBudget"
       ELSE IF (e.spops # NoCap /\ c.pops > e.spops) \/ (e.siter # NoCap /\ c.iters > e.siter) THEN "SliceCapsTighten"
       ELSE IF \E i \in 1..(Len(e.touched) - 1) : e.touched[i] >= e.touched[i + 1] THEN "TouchedOnceSortedPerGraph"
       ELSE IF ~(T \subseteq 1..e.n) THEN "TouchedOnceSortedPerGraph"
       ELSE IF ~(T \subseteq Bfs(e.es, S, S, hops)) THEN "ReachableWithinCaps"
       ELSE IF S = {} /\ (T # {} \/ ~Same(c, Zero)) THEN "SeedsExact"
       ELSE IF \E n \in (1..e.n) \ hasin : (n \in T) # (n \in S) THEN "SeedsExact"
       ELSE IF \/ Cardinality(T \ S) > c.props            \* every touched non-seed received a contribution
               \/ c.pops > Cardinality(S) + c.props         \* every pop was pushed: a seed or one push per propagation
               \/ (c.props > 0 /\ c.pops = 0)
               \/ c.iters > c.props \/ (c.pops > 0 /\ c.iters >= c.pops)
               \/ c.nhits > c.pops + c.props
               \/ c.pops < 0 \/ c.rhits < 0 \/ c.lhits < 0
               \/ (hops = 0 /\ c.props > 0)
            THEN "CountersMatchWork"
       ELSE ""

Clause(e) ==
    IF e.op = "graph" THEN GraphClause(e)
    ELSE IF e.op = "total" THEN
         (IF e.touched # cat THEN "TouchedOnceSortedPerGraph"
          ELSE IF ~Same(e.c, sums) THEN "CountersMatchWork" ELSE "")
    ELSE "UnknownEvent"

TInit == TLCSet(1, 0) /\ tid = 1 /\ l = 1 /\ cat = <<>> /\ sums = Zero
NextTrace == TLCSet(1, tid) /\ tid' = tid + 1 /\ l' = 1 /\ cat' = <<>> /\ sums' = Zero

TNext ==
    /\ tid <= Len(Traces)
    /\ LET ev == Traces[tid].ev IN
       IF l > Len(ev) THEN PrintT(<<"V", Traces[tid].tid, "ok", l - 1>>) /\ NextTrace
       ELSE LET e == ev[l] c == Clause(e) IN
            IF c # "" THEN PrintT(<<"V", Traces[tid].tid, c, l>>) /\ NextTrace
            ELSE /\ l' = l + 1 /\ tid' = tid
                 /\ IF e.op = "graph"
                    THEN cat' = cat \o e.touched /\ sums' = Add(sums, e.c)
                    ELSE UNCHANGED <<cat, sums>>

TraceSpec == TInit /\ [][TNext]_tvars
Done == PrintT(<<"V", 0, "done", TLCGet(1)>>)
=============================================================================
