---------------------------- MODULE SnapshotStore ----------------------------
(* Directory of full/delta snapshot files (clematis.engine.snapshot: write_snapshot_auto,
   read_snapshot, load_latest_snapshot), C07 second half.  Etags E identify payloads.  Files:
     full(e)      "snapshot-<e>.full.json"   holding payload e (or garbage when corrupted)
     delta(t)     "snapshot-<t>.delta.json"  holding [from, to = t]
   `order` lists file names oldest -> newest (modification order; discovery takes the newest).
   A reader must return payload `to`, report absence, or raise — never a state that carries the
   new version with missing or foreign content ("mixed").                                        *)
EXTENDS Integers, Sequences, FiniteSets, TLC, Json

CONSTANTS E, MaxOps, LoadFallback

VARIABLES files, order, h
vars == <<files, order, h>>

FullName(e) == <<"full", e>>
DeltaName(e) == <<"delta", e>>

Init == files = [n \in {} |-> 0] /\ order = <<>> /\ h = <<>>

Has(n) == n \in DOMAIN files
OkFull(e) == Has(FullName(e)) /\ files[FullName(e)].ok
Touch(n) == Append(SelectSeq(order, LAMBDA x : x # n), n)
PutFile(n, c) == [x \in DOMAIN files \cup {n} |-> IF x = n THEN c ELSE files[x]]

\* result of reconstructing through delta file d = [from, to]
ViaDelta(d) ==
    IF Has(FullName(d.from))
    THEN IF files[FullName(d.from)].ok THEN [r |-> "payload", e |-> d.to] ELSE [r |-> "raised", e |-> d.to]
    ELSE IF Has(FullName(d.to))
         THEN IF files[FullName(d.to)].ok THEN [r |-> "payload", e |-> d.to] ELSE [r |-> "raised", e |-> d.to]
         ELSE [r |-> "absent", e |-> d.to]

ReadEtag(t) ==
    IF Has(DeltaName(t)) THEN ViaDelta(files[DeltaName(t)])
    ELSE IF Has(FullName(t))
         THEN IF files[FullName(t)].ok THEN [r |-> "payload", e |-> t] ELSE [r |-> "raised", e |-> t]
         ELSE [r |-> "absent", e |-> t]

ReadPath(n) ==
    IF n[1] = "delta" THEN ViaDelta(files[n])
    ELSE IF files[n].ok THEN [r |-> "payload", e |-> n[2]] ELSE [r |-> "raised", e |-> n[2]]

\* load_latest_snapshot: newest file; never raises; "notloaded" is its way to report absence
LoadLatest ==
    IF order = <<>> THEN [r |-> "notloaded", e |-> 0]
    ELSE LET n == order[Len(order)] IN
         IF n[1] = "full"
         THEN IF files[n].ok THEN [r |-> "loaded", e |-> n[2]] ELSE [r |-> "notloaded", e |-> 0]
         ELSE LET d == files[n] IN
              IF Has(FullName(d.from))
              THEN IF files[FullName(d.from)].ok THEN [r |-> "loaded", e |-> d.to] ELSE [r |-> "notloaded", e |-> 0]
              ELSE IF ~LoadFallback THEN [r |-> "mixed", e |-> d.to]
                   ELSE IF OkFull(d.to) THEN [r |-> "loaded", e |-> d.to] ELSE [r |-> "notloaded", e |-> 0]

WriteAuto(dm, f, t) ==
    /\ f # t
    /\ IF dm /\ Has(FullName(f))
       THEN IF files[FullName(f)].ok
            THEN /\ files' = PutFile(DeltaName(t), [from |-> f, to |-> t, ok |-> TRUE])
                 /\ order' = Touch(DeltaName(t))
                 /\ h' = Append(h, [op |-> "write", dm |-> dm, from |-> f, to |-> t, wrote |-> "delta"])
            ELSE /\ UNCHANGED <<files, order>>
                 /\ h' = Append(h, [op |-> "write", dm |-> dm, from |-> f, to |-> t, wrote |-> "raised"])
       ELSE /\ files' = PutFile(FullName(t), [e |-> t, ok |-> TRUE])
            /\ order' = Touch(FullName(t))
            /\ h' = Append(h, [op |-> "write", dm |-> dm, from |-> f, to |-> t, wrote |-> "full"])

DeleteFull(e) == /\ Has(FullName(e))
                 /\ files' = [x \in DOMAIN files \ {FullName(e)} |-> files[x]]
                 /\ order' = SelectSeq(order, LAMBDA x : x # FullName(e))
                 /\ h' = Append(h, [op |-> "delete", e |-> e])

CorruptFull(e) == /\ OkFull(e)
                  /\ files' = PutFile(FullName(e), [e |-> e, ok |-> FALSE])
                  /\ order' = order      \* the harness preserves the modification time
                  /\ h' = Append(h, [op |-> "corrupt", e |-> e])

Observe == /\ UNCHANGED <<files, order>>
           /\ \/ \E t \in E : h' = Append(h, [op |-> "read_etag", e |-> t, res |-> ReadEtag(t)])
              \/ \E n \in DOMAIN files : h' = Append(h, [op |-> "read_path", kind |-> n[1], e |-> n[2], res |-> ReadPath(n)])
              \/ h' = Append(h, [op |-> "load_latest", res |-> LoadLatest])

IsObs(x) == x.op \in {"read_etag", "read_path", "load_latest"}
Next == /\ Len(h) < MaxOps
        /\ (IF h = <<>> THEN TRUE ELSE ~IsObs(h[Len(h)]))   \* an observation ends a history
        /\ \/ \E dm \in BOOLEAN, f, t \in E : WriteAuto(dm, f, t)
           \/ \E e \in E : DeleteFull(e) \/ CorruptFull(e)
           \/ Observe
Spec == Init /\ [][Next]_vars

NoMixedState == \A i \in 1..Len(h) : IsObs(h[i]) => h[i].res.r # "mixed"
\* a reconstructed payload is always the one the file claims (by construction of the result) and
\* a delta is only ever written against a readable baseline
DeltaHasBaselineAtWrite == \A i \in 1..Len(h) : (h[i].op = "write" /\ h[i].wrote = "delta") => h[i].dm

EmitHist == (IF h = <<>> THEN FALSE ELSE IsObs(h[Len(h)])) => PrintT(<<"T", ToJson([h |-> h])>>)
=============================================================================
