------------------------------ MODULE Scheduler ------------------------------
(* Agent scheduler core (clematis.engine.scheduler: next_turn / on_yield; queue rotation as done by
   the documented driver loop), stated from the property text and docs (C17):
     - selection is a function of (queue, last-ran times, consecutive counters, clock, policy);
     - eligible = queued agents whose consecutive counter is below the allowance Mct;
       none eligible -> the least agent (agent order = lexicographic order of ids), reason RESET;
     - round_robin: first eligible agent in queue order;
       fair_queue : eligible agent with the highest tier  max(0, now - last) \div Aging
                    (tier 0 for all when Aging <= 0), ties to the least agent;
     - yield bookkeeping: last[a] := now; RESET pick -> all counters := 0, else counter[a] += 1;
       under round_robin with Rotate the driver moves the agent to the queue's tail.
   Agents are integers 1..N (their order stands for the lexicographic order of the real ids).
   since[a] counts selections since a's own last selection: the starvation bound is a state invariant. *)
EXTENDS Integers, Sequences, FiniteSets, TLC, Json

CONSTANTS N, Policy, Mct, Aging, Rotate, Advances, MaxNow, MaxDepth,
          AllowLeave,    \* TRUE: the driver may take an agent out of the queue (its bookkeeping entries stay)
          InitStamp      \* the last-ran stamp the state is initialised with (init_scheduler_state(now_ms=...)): it may lie
                         \* AHEAD of the turn clock (restored state, another clock source); a yield still stamps `now`

Agents == 1..N

VARIABLES queue, lastran, consec, now, since, pend, last
vars == <<queue, lastran, consec, now, since, pend, last>>

Bound == 2 * (N - 1) * Mct + 1

MinOf(S) == CHOOSE x \in S : \A y \in S : x <= y
MaxOf(S) == CHOOSE x \in S : \A y \in S : x >= y
Eligible(q, c) == {q[i] : i \in {j \in 1..Len(q) : c[q[j]] < Mct}}
Tier(a, lr, t) == IF Aging <= 0 THEN 0
                  ELSE LET idle == IF t - lr[a] < 0 THEN 0 ELSE t - lr[a] IN idle \div Aging
FirstIn(q, S) == q[MinOf({i \in 1..Len(q) : q[i] \in S})]

\* functional core: [agent, reason]
SelectF(q, lr, c, t) ==
    LET el == Eligible(q, c) IN
    IF el = {} THEN [agent |-> MinOf({q[i] : i \in 1..Len(q)}), reason |-> "RESET_CONSEC"]
    ELSE IF Policy = "fair_queue"
         THEN LET top == MaxOf({Tier(a, lr, t) : a \in el})
              IN [agent |-> MinOf({a \in el : Tier(a, lr, t) = top}), reason |-> "AGING_BOOST"]
         ELSE [agent |-> FirstIn(q, el), reason |-> "ROUND_ROBIN"]

RotateF(q, a) == IF Policy = "round_robin" /\ Rotate
                 THEN Append(SelectSeq(q, LAMBDA x : x # a), a) ELSE q

Init == /\ queue = [i \in 1..N |-> i]
        /\ lastran = [a \in Agents |-> InitStamp]
        /\ consec = [a \in Agents |-> 0]
        /\ now = 0
        /\ since = [a \in Agents |-> 0]
        /\ pend = [agent |-> 0, reason |-> ""]
        /\ last = [op |-> "init"]

Select == /\ pend.agent = 0
          /\ LET r == SelectF(queue, lastran, consec, now) IN
             /\ pend' = r
             /\ since' = [a \in Agents |-> IF a = r.agent THEN 0 ELSE since[a] + 1]
             /\ last' = [op |-> "select", agent |-> r.agent, reason |-> r.reason]
          /\ UNCHANGED <<queue, lastran, consec, now>>

Yield == /\ pend.agent # 0
         /\ lastran' = [lastran EXCEPT ![pend.agent] = now]
         /\ consec' = IF pend.reason = "RESET_CONSEC" THEN [a \in Agents |-> 0]
                      ELSE [consec EXCEPT ![pend.agent] = consec[pend.agent] + 1]
         /\ queue' = RotateF(queue, pend.agent)
         /\ pend' = [agent |-> 0, reason |-> ""]
         /\ last' = [op |-> "yield", agent |-> pend.agent, reset |-> (pend.reason = "RESET_CONSEC")]
         /\ UNCHANGED <<now, since>>

Advance(dt) == /\ now' = now + dt /\ now + dt >= 0 /\ now + dt <= MaxNow
               /\ last' = [op |-> "advance", dt |-> dt]
               /\ UNCHANGED <<queue, lastran, consec, since, pend>>

\* the driver removes an agent from the queue (e.g. it finished); last-ran / consecutive entries of that agent remain
Leave(a) == /\ AllowLeave /\ pend.agent = 0 /\ Len(queue) > 1 /\ \E i \in 1..Len(queue) : queue[i] = a
            /\ queue' = SelectSeq(queue, LAMBDA x : x # a)
            /\ last' = [op |-> "leave", agent |-> a]
            /\ UNCHANGED <<lastran, consec, now, since, pend>>

Next == Select \/ Yield \/ (\E dt \in Advances : Advance(dt)) \/ (\E a \in Agents : Leave(a))
Spec == Init /\ [][Next]_vars
Fair == Spec /\ WF_vars(Select) /\ WF_vars(Yield)

-----------------------------------------------------------------------------
DepthOK == TLCGet("level") <= MaxDepth

\* C17 clauses
Queued == {queue[i] : i \in 1..Len(queue)}
ChosenEligibleOrReset ==
    pend.agent # 0 =>
      /\ \E i \in 1..Len(queue) : queue[i] = pend.agent
      /\ \/ (pend.reason # "RESET_CONSEC" /\ consec[pend.agent] < Mct)
         \/ (pend.reason = "RESET_CONSEC" /\ Eligible(queue, consec) = {}
             /\ pend.agent = MinOf(Queued))
WaitBound == \A a \in Queued : since[a] <= Bound
CountersBounded == \A a \in Agents : consec[a] <= Mct
QueueIsPermutation == /\ Len(queue) = Cardinality(Queued) /\ Queued \subseteq Agents /\ Queued # {}
                      /\ (~AllowLeave => Queued = Agents)
\* liveness on the unconstrained spec: every agent is selected again and again
EveryoneRuns == \A a \in Agents : []<>(pend.agent = a)

View == <<queue, lastran, consec, now, since, pend>>
Emit == PrintT(<<"T", ToJson([pre |-> [queue |-> queue, lastran |-> lastran, consec |-> consec, now |-> now, pend |-> pend],
                              post |-> [queue |-> queue', lastran |-> lastran', consec |-> consec', now |-> now'],
                              obs |-> last'])>>)
=============================================================================
