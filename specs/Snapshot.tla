------------------------------ MODULE Snapshot ------------------------------
(* Legacy single-JSON snapshots (clematis.engine.snapshot: write_snapshot, load_latest_snapshot), C06.

   Abstract state  = version, store weights, GEL (nodes, edge listing, meta), configured bounds.
   Write(s)        = file [version, store, gel = Sanitise(s.gel), schema marker]
   Load(file)      = state [version, weights, gel = Sanitise(file.gel)]          (into a fresh state)

   `Sanitise` is transcribed from the DOCUMENTATION, not from the code:
     * property C06 / DESIGN: "edge weights clamped to the configured bounds and rounded to six
       decimals"; non-finite weights: NaN counts as 0.0, +inf/-inf are clamped like any other
       out-of-range value; the result therefore always lies inside the bounds;
     * _graph_bounds_from_cfg docstring: "clamp/epsilon from graph.* if present, else fall back to
       t4.*" (t4 defaults weight_min = -1.0, weight_max = 1.0); |w| < epsilon -> 0.0;
     * gel.py state layout / write_snapshot comment: edges are keyed by the canonical undirected key
       "src→dst" with src <= dst, `rel` is not part of the key  => one edge per unordered pair;
     * _sanitize_gel_for_write: nodes as dict or list of {id,...}; meta "carry known fields if
       reasonably shaped", otherwise deterministic empty containers.
   Interpretive decision: when several listed edges share a canonical pair the mapping keeps one of
   them; the model resolves "last listed wins" (mapping semantics) but the conformance check admits
   any of the listed candidates (`adm`).

   Weights live on an exact grid: integers in units of 1e-7 (tokens [c |-> "fin", v |-> k]) plus
   the tokens nan / pinf / ninf.  round6 is exact on that grid; a 7th decimal digit 5 (a rounding
   tie whose outcome depends on the binary representation) is excluded from the alphabet.
   Node ids are integers whose order is the Python string order of the concrete ids; 0 = "".   *)
EXTENDS Integers, Sequences, FiniteSets, TLC, Json

CONSTANTS Ids,        \* edge end-point ids (integers; 0 = the empty id)
          Rels,       \* relation tokens (integers)
          WVals,      \* weight tokens
          MaxE,       \* at most MaxE listed edges
          EForms,     \* edge container forms: "dict" (arbitrary keys), "dictk" (GEL-native keys), "list"
          NodeSets,   \* admissible node-id sets
          NForms,     \* node container forms: "dict", "list"
          Metas,      \* meta shapes
          Bounds,     \* records [name, lo, hi, eps]  (1e-7 units)
          Versions,   \* version tokens
          SKinds,     \* store doubles: "none", "w" (weights fallback), "expimp" (export_state/import_state)
          WKeys,      \* store weight keys 1..WKeys
          SVals,      \* store weight tokens
          Auxs,       \* harness-level variation (state form, graph key, agent) - opaque to the model
          NanRule     \* "clamp0": NaN counts as 0.0 and is clamped like any value (documented reading);
                      \* "zero":   NaN becomes 0.0 after the clamp (control: refuted when 0 lies outside the bounds)

SchemaMarker == "v1"          \* docs/m13/snapshot_freeze.md: schema_version "v1" (frozen)
MetaKeeps == {"good", "partial"}   \* shapes whose known fields are carried over

VARIABLES ver, skind, wmap, gel, bnd, aux, out
vars == <<ver, skind, wmap, gel, bnd, aux, out>>

Abs(x) == IF x < 0 THEN -x ELSE x
Min2(a, b) == IF a <= b THEN a ELSE b
Max2(a, b) == IF a <= b THEN b ELSE a
SortedSeq(S) == CHOOSE s \in [1..Cardinality(S) -> S] : \A i, j \in 1..Cardinality(S) : i < j => s[i] < s[j]

ASSUME \A w \in WVals : w.c = "fin" => Abs(w.v) % 10 # 5
ASSUME \A b \in Bounds : b.lo < b.hi /\ b.eps >= 0 /\ Abs(b.lo) % 10 # 5 /\ Abs(b.hi) % 10 # 5

Absent == [c |-> "absent", v |-> 0]
Fin(k) == [c |-> "fin", v |-> k]

-----------------------------------------------------------------------------
(* weights *)
Round6(v) == LET a == Abs(v)
                 q == a \div 10
                 m == IF a % 10 > 5 THEN q + 1 ELSE q
             IN IF v < 0 THEN -(m * 10) ELSE m * 10
ClampI(v, b) == IF v < b.lo THEN b.lo ELSE IF v > b.hi THEN b.hi ELSE v
Clamp(w, b) == IF w.c = "pinf" THEN b.hi
               ELSE IF w.c = "ninf" THEN b.lo
               ELSE IF w.c = "nan" THEN (IF NanRule = "zero" THEN 0 ELSE ClampI(0, b))
               ELSE ClampI(w.v, b)
SanW(w, b) == LET r == Round6(Clamp(w, b)) IN IF Abs(r) < b.eps THEN 0 ELSE r

(* edges: a listing (sequence) of [s, d, r, w]; one survivor per canonical unordered pair *)
Pair(e) == <<Min2(e.s, e.d), Max2(e.s, e.d)>>
SanEdges(es, b) ==
    LET idx == 1..Len(es)
        firsts == {i \in idx : \A j \in 1..(i - 1) : Pair(es[j]) # Pair(es[i])}
        ord == SortedSeq(firsts)
        last == [i \in firsts |-> CHOOSE k \in idx : Pair(es[k]) = Pair(es[i]) /\ \A j \in (k + 1)..Len(es) : Pair(es[j]) # Pair(es[i])]
    IN [k \in 1..Len(ord) |-> LET e == es[last[ord[k]]] IN [s |-> e.s, d |-> e.d, r |-> e.r, w |-> Fin(SanW(e.w, b))]]

SanMeta(m) == IF m \in MetaKeeps THEN m ELSE "default"

Sanitise(g, b) == [nodes |-> g.nodes, nform |-> "dict", edges |-> SanEdges(g.edges, b), eform |-> "dictk",
                   meta |-> SanMeta(g.meta)]

(* expected projection of the restored GEL: per canonical pair the admissible (weight, rel) *)
Expected(g, b) ==
    LET es == g.edges
        idx == 1..Len(es)
        firsts == {i \in idx : \A j \in 1..(i - 1) : Pair(es[j]) # Pair(es[i])}
        ord == SortedSeq(firsts)
    IN [nodes |-> g.nodes, meta |-> SanMeta(g.meta),
        edges |-> [k \in 1..Len(ord) |->
                     [lo |-> Pair(es[ord[k]])[1], hi |-> Pair(es[ord[k]])[2],
                      adm |-> {[w |-> SanW(es[i].w, b), r |-> es[i].r] : i \in {j \in idx : Pair(es[j]) = Pair(es[ord[k]])}}]]]

-----------------------------------------------------------------------------
(* write / load *)
AllAbsent == [k \in 1..WKeys |-> Absent]
StoreOf(kind, wm) == IF kind = "none" THEN AllAbsent ELSE wm
WriteF(v, kind, wm, g, b) == [version |-> v, store |-> StoreOf(kind, wm), gel |-> Sanitise(g, b),
                              schema |-> SchemaMarker, sidecar |-> SchemaMarker]
\* load into a fresh state that owns an empty store double of the same kind
LoadF(f, kind, b) == [ver |-> f.version, wmap |-> StoreOf(kind, f.store), gel |-> Sanitise(f.gel, b)]

Compute(v, kind, wm, g, b) ==
    LET file == WriteF(v, kind, wm, g, b)
        loaded == LoadF(file, kind, b)
        file2 == WriteF(loaded.ver, kind, loaded.wmap, loaded.gel, b)
    IN [san |-> file.gel, san2 |-> loaded.gel, file |-> file, loaded |-> loaded, file2 |-> file2,
        exp |-> Expected(g, b)]

EdgeVals == [s : Ids, d : Ids, r : Rels, w : WVals]
EdgeSeqs == UNION {[1..n -> EdgeVals] : n \in 0..MaxE}
WMaps == [1..WKeys -> SVals \cup {Absent}]

Init == /\ ver \in Versions /\ skind \in SKinds /\ bnd \in Bounds /\ aux \in Auxs
        /\ wmap \in (IF skind = "none" THEN {AllAbsent} ELSE WMaps)
        /\ gel \in [nodes : NodeSets, nform : NForms, edges : EdgeSeqs, eform : EForms, meta : Metas]
        /\ out = Compute(ver, skind, wmap, gel, bnd)
Next == FALSE
Spec == Init /\ [][Next]_vars

-----------------------------------------------------------------------------
(* properties of the documented design, checked on every enumerated state *)
Idempotent == out.san2 = out.san
RestoreVersion == out.loaded.ver = ver
RestoreWeights == out.loaded.wmap = StoreOf(skind, wmap)
RestoreGel == out.loaded.gel = Sanitise(gel, bnd)
WriteLoadWriteFixpoint == out.file2 = out.file
SchemaMarked == out.file.schema = "v1" /\ out.file.sidecar = "v1"

SE == out.san.edges
KeysCanonical == \A i, j \in 1..Len(SE) : i # j => Pair(SE[i]) # Pair(SE[j])
OnGrid6 == \A i \in 1..Len(SE) : SE[i].w.c = "fin" /\ SE[i].w.v % 10 = 0
\* inside the bounds whenever the bounds themselves are six-decimal values (epsilon pruning is documented to win)
InBounds == (bnd.lo % 10 = 0 /\ bnd.hi % 10 = 0) =>
              \A i \in 1..Len(SE) : (bnd.lo <= SE[i].w.v /\ SE[i].w.v <= bnd.hi) \/ (bnd.eps > 0 /\ SE[i].w.v = 0)
\* the survivor chosen by the model is one of the admissible candidates, every listed pair is restored
ChosenAdmissible == /\ Len(out.exp.edges) = Len(SE)
                    /\ \A i \in 1..Len(SE) : /\ Pair(SE[i]) = <<out.exp.edges[i].lo, out.exp.edges[i].hi>>
                                             /\ [w |-> SE[i].w.v, r |-> SE[i].r] \in out.exp.edges[i].adm
NothingLost == {Pair(gel.edges[i]) : i \in 1..Len(gel.edges)} = {Pair(SE[i]) : i \in 1..Len(SE)} /\ out.san.nodes = gel.nodes

EmitCase == PrintT(<<"T", ToJson([ver |-> ver, skind |-> skind, wmap |-> wmap, gel |-> gel, bnd |-> bnd, aux |-> aux,
                                  exp |-> out.exp])>>)
=============================================================================
