------------------------------ MODULE Fusion ------------------------------
(* Rank fusion of the T2 quality layer (clematis.engine.stages.t2.quality_ops:fuse), stated from
   docs/m7/overview.md, "PR37 - Lexical BM25 + rank fusion (enabled path)": opt-in lexical scoring
   and RANK-based fusion over the candidate set, ties break by lex(id), knobs
   t2.quality.lexical.* and t2.quality.fusion.{mode, alpha_semantic}; disabled = identity.
   Extra X11, beyond the listed properties.

   What is modelled.  A candidate i (ids 1..n; integer order = lexicographic order of the real ids)
   has a semantic score sem[i] (small integers, ties allowed) and a lexical LEVEL lex[i] = how often
   the single query term occurs in its text (0 = absent).  All texts have the same length, so BM25 is
   strictly monotone in the level, in the direction of the sign of the term's idf:
       idf = ln((N - df + 1/2) / (df + 1/2) + 1e-9)   with df = #{i : lex[i] > 0}
   which is positive iff df <= N/2 (for df = N/2 it is ln(1 + 1e-9) > 0) and negative beyond - the
   well-known BM25 quirk for terms that occur in most candidates, taken over as the formula states it.
   Ranks: candidates sorted by (-signal, id), rank = 1-based position; reciprocal rank 1 / (rank + C),
   C = 60.  Fused score = alpha * rr_sem + (1 - alpha) * rr_lex with alpha = A / 10; final order by
   (-fused, id).  Fused scores are compared exactly (cross-multiplied integers).
   The reported t2q.lex_hits is the number of (candidate, distinct query term) hits = df here.

   Gate: quality.enabled = FALSE or fusion.mode # "score_interp" -> the input list, unchanged, no meta. *)
EXTENDS Integers, Sequences, FiniteSets, TLC, Json

CONSTANTS MaxN, SemVals, LexVals, Alphas, Gates      \* Gates \subseteq {"on", "off", "mode"}

C == 60

VARIABLES inp, out
vars == <<inp, out>>

Ids(n) == 1..n

\* number of candidates that sort strictly before i under key (-sig[i], i)
Before(sig, n, i) == Cardinality({j \in Ids(n) : sig[j] > sig[i] \/ (sig[j] = sig[i] /\ j < i)})
Rank(sig, n, i) == Before(sig, n, i) + 1

Df(lex, n) == Cardinality({i \in Ids(n) : lex[i] > 0})
\* lexical signal as an integer that orders like BM25 on equal-length texts
LexSig(lex, n) == LET df == Df(lex, n) IN
                  [i \in Ids(n) |-> IF 2 * df <= n THEN lex[i] ELSE 0 - lex[i]]

\* fused score of i as a fraction <<num, den>> (common denominator 10 (rs + C)(rl + C))
Fused(sem, lex, n, a, i) ==
    LET rs == Rank(sem, n, i)
        rl == Rank(LexSig(lex, n), n, i)
    IN <<a * (rl + C) + (10 - a) * (rs + C), 10 * (rs + C) * (rl + C)>>

Gt(x, y) == x[1] * y[2] > y[1] * x[2]
Eq(x, y) == x[1] * y[2] = y[1] * x[2]

\* final position of i
Pos(sem, lex, n, a, i) ==
    LET f == [j \in Ids(n) |-> Fused(sem, lex, n, a, j)] IN
    Cardinality({j \in Ids(n) : Gt(f[j], f[i]) \/ (Eq(f[j], f[i]) /\ j < i)}) + 1

Order(sem, lex, n, a) == [p \in 1..n |-> CHOOSE i \in Ids(n) : Pos(sem, lex, n, a, i) = p]

Inputs == UNION {{[n |-> n, sem |-> s, lex |-> l, a |-> a, gate |-> g, rev |-> r] :
                  s \in [Ids(n) -> SemVals], l \in [Ids(n) -> LexVals], a \in Alphas, g \in Gates, r \in BOOLEAN} : n \in 0..MaxN}

Listing(i) == IF i.rev THEN [p \in 1..i.n |-> i.n + 1 - p] ELSE [p \in 1..i.n |-> p]

Result(i) ==
    IF i.gate # "on" THEN [order |-> Listing(i), hits |-> -1, ranks |-> <<>>]
    ELSE [order |-> Order(i.sem, i.lex, i.n, i.a), hits |-> Df(i.lex, i.n),
          ranks |-> [k \in Ids(i.n) |-> <<Rank(i.sem, i.n, k), Rank(LexSig(i.lex, i.n), i.n, k)>>]]

Init == /\ inp \in Inputs
        /\ out = Result(inp)
Next == FALSE
Spec == Init /\ [][Next]_vars

-----------------------------------------------------------------------------
On == inp.gate = "on"
IsPermutation == Len(out.order) = inp.n /\ {out.order[p] : p \in 1..inp.n} = Ids(inp.n)
\* alpha = 1: the semantic order (ties by id); alpha = 0: the lexical order
AlphaOneIsSemanticOrder ==
    (On /\ inp.a = 10) => \A p \in 1..inp.n : Rank(inp.sem, inp.n, out.order[p]) = p
AlphaZeroIsLexicalOrder ==
    (On /\ inp.a = 0) => \A p \in 1..inp.n : Rank(LexSig(inp.lex, inp.n), inp.n, out.order[p]) = p
\* a candidate that is ahead of another in BOTH signals (or level in one and ahead in the other) stays ahead
Dominance ==
    On => \A i, j \in Ids(inp.n) :
            (/\ Rank(inp.sem, inp.n, i) < Rank(inp.sem, inp.n, j)
             /\ Rank(LexSig(inp.lex, inp.n), inp.n, i) < Rank(LexSig(inp.lex, inp.n), inp.n, j))
            => Pos(inp.sem, inp.lex, inp.n, inp.a, i) < Pos(inp.sem, inp.lex, inp.n, inp.a, j)
GateClosedIsIdentity == ~On => out.order = Listing(inp)
\* the listing order of the candidates does not matter (ranks and ties use ids only): Result ignores inp.rev when on
ListingIrrelevant == On => out = Result([inp EXCEPT !.rev = ~inp.rev])

EmitCase == PrintT(<<"T", ToJson([inp |-> inp, out |-> out])>>)
=============================================================================
