------------------------------ MODULE CacheKeys ------------------------------
(* Cache transparency (C05).  Every stage result is modelled as the record of its true dependencies
   (the most discriminating result function); every cache key is modelled as the code builds it.
   A hit is *stale* when the record stored under the key differs from the record a fresh computation
   would produce now; `cause` names the differing dependency components.

   Caches:  c1  T1 stage cache   (process-global, shared by all engine states)
            c2  T2 stage cache   (process-global)
            cT  turn-level cache (per engine state; invalidated by a committed apply)

   KeyHas says which dependency components the keys cover, i.e. it is the model of the current code:
     "t1.content"   graph etag derived from content (not only node/edge counts)
     "t1.state"     T1 key distinguishes engine states whose graphs have equal content but a different edge
                    iteration order (observable when a relaxation cap cuts an adjacency list)
     "t2.view"      owner scope + agent        "t2.k"      k_retrieval
     "t2.day"       logical day of ctx.now      "t2.graph"  label map of the active graphs
     "t1.caps"      the propagation caps as the algorithm reads them (relax_cap unset vs 0 are different settings)
     "t1.perf"      the EFFECTIVE perf caps (perf.t1.caps.* only while perf.enabled), not the configured ones
     "t2.index"     identity/generation of the memory index (not only its add counter)
     "tl.view" "tl.k" "tl.day" "tl.graph" "tl.mem"   the same for the turn-level key (version, text)
   Dependencies that every key covers already (query text, T1 labels, add counter, version) are always in. *)
EXTENDS Integers, Sequences, FiniteSets, TLC, Json

CONSTANTS S, Agents, Texts, KeyHas, MaxAdds, MaxVer, MaxLen, Episodes, InitEps,
          Acts       \* names of the environment / configuration actions enabled in this run (bounds the state space)

VARIABLES gw, gn, gd, gl, eps, adds, gen, ver, kill, k, scope, day, perf, tod, relax, c1, c2, cT, obs, h
vars == <<gw, gn, gd, gl, eps, adds, gen, ver, kill, k, scope, day, perf, tod, relax, c1, c2, cT, obs, h>>

Has(x) == x \in KeyHas
Opt(x, v) == IF Has(x) THEN v ELSE 0
NoObs == [t1 |-> [hit |-> FALSE, cause |-> {}], t2 |-> [hit |-> FALSE, cause |-> {}], tl |-> [hit |-> FALSE, cause |-> {}]]

Init == /\ gw = [s \in S |-> 0] /\ gn = [s \in S |-> 0] /\ gd = [s \in S |-> 0] /\ gl = [s \in S |-> 0]
        /\ eps = [s \in S |-> InitEps] /\ adds = [s \in S |-> Cardinality(InitEps)] /\ gen = [s \in S |-> 0]
        /\ ver = [s \in S |-> 0] /\ kill = FALSE /\ k = 2 /\ scope = "any" /\ day = 0 /\ perf = 0 /\ tod = 0 /\ relax = 0
        /\ c1 = <<>> /\ c2 = <<>> /\ cT = [s \in S |-> <<>>]
        /\ obs = NoObs /\ h = <<>>

\* caches as sequences of <<key, value>> (association lists; capacity is not the concern here)
Lookup(c, key) == IF \E i \in 1..Len(c) : c[i][1] = key
                  THEN [hit |-> TRUE, val |-> c[CHOOSE i \in 1..Len(c) : c[i][1] = key][2]]
                  ELSE [hit |-> FALSE, val |-> 0]
Store(c, key, val) == Append(SelectSeq(c, LAMBDA e : e[1] # key), <<key, val>>)
Diff(a, b) == {f \in DOMAIN a : a[f] # b[f]}

\* true dependencies
\* cap: the effective T1 frontier cap (configured value while the perf master switch is on, none while it is off)
\* relax: t1.relax_cap  0 = unset (unbounded), 1 = 0 (no relaxation), 2 = 1 (one relaxation: the FIRST edge in the
\* store's iteration order, so the insertion order of the state's edges matters - ord)
\* gd: an existing edge re-targeted (same id, source, weight, relation; other destination);
\* gl: two nodes swap their labels (the set of labels stays, the node that carries a label changes)
F1(s, t) == [gw |-> gw[s], gn |-> gn[s], gd |-> gd[s], gl |-> gl[s], text |-> t, cap |-> perf, relax |-> relax, ord |-> IF relax = 2 THEN s ELSE 0]
View(a) == IF scope = "agent" THEN a ELSE "any"
\* tod: time of day of the logical clock (two instants of the same calendar day)
F2(s, a, t, r1) == [text |-> t, r1 |-> r1, mem |-> eps[s], view |-> View(a), k |-> k, day |-> day, tod |-> tod, graph |-> <<gn[s], gl[s]>>]

\* keys as the code builds them
\* (gl is always in the T1 key: the key carries the seed ids)
K1(s, t) == <<IF Has("t1.content") THEN <<gw[s], gn[s], gd[s]>> ELSE <<gn[s]>>, gl[s], Opt("t1.state", IF relax = 2 THEN s ELSE 0), Opt("t1.perf", perf), Opt("t1.caps", relax), t>>
K2(s, a, t, r1) == <<t, r1, adds[s], Opt("t2.index", <<s, gen[s]>>), Opt("t2.view", View(a)), Opt("t2.k", k),
                     Opt("t2.day", <<day, tod>>), Opt("t2.graph", <<gn[s], gl[s]>>)>>
\* the turn-level key is built after T1 and carries the labels T1 touched (r1: graph content and effective cap)
KT(s, a, t, r1) == <<ver[s], t, Opt("tl.view", View(a)), Opt("tl.k", k), Opt("tl.day", <<day, tod>>),
                 Opt("tl.graph", <<gw[s], gn[s], gd[s], gl[s], r1.cap, r1.relax, r1.ord>>), Opt("tl.mem", <<adds[s], gen[s]>>)>>

Turn(s, a, t) ==
    LET f1 == F1(s, t)
        l1 == Lookup(c1, K1(s, t))
        r1 == IF l1.hit THEN l1.val ELSE f1
        o1 == [hit |-> l1.hit, cause |-> IF l1.hit THEN Diff(l1.val, f1) ELSE {}]
        f2 == F2(s, a, t, r1)
        lT == Lookup(cT[s], KT(s, a, t, r1))
        l2 == Lookup(c2, K2(s, a, t, r1))
        r2 == IF lT.hit THEN lT.val ELSE IF l2.hit THEN l2.val ELSE f2
        oT == [hit |-> lT.hit, cause |-> IF lT.hit THEN Diff(lT.val, f2) ELSE {}]
        o2 == [hit |-> ~lT.hit /\ l2.hit, cause |-> IF ~lT.hit /\ l2.hit THEN Diff(l2.val, f2) ELSE {}]
        cT1 == IF lT.hit THEN cT[s] ELSE Store(cT[s], KT(s, a, t, r1), r2)
    IN /\ c1' = IF l1.hit THEN c1 ELSE Store(c1, K1(s, t), f1)
       /\ c2' = IF lT.hit \/ l2.hit THEN c2 ELSE Store(c2, K2(s, a, t, r1), f2)
       /\ IF kill THEN /\ cT' = [cT EXCEPT ![s] = cT1] /\ ver' = ver
                  ELSE /\ cT' = [cT EXCEPT ![s] = <<>>]          \* committed apply: version + 1, namespace invalidated
                       /\ ver' = [ver EXCEPT ![s] = ver[s] + 1]
       /\ obs' = [t1 |-> o1, t2 |-> o2, tl |-> oT]
       /\ h' = Append(h, [ev |-> "turn", s |-> s, a |-> a, t |-> t, obs |-> obs'])
       /\ UNCHANGED <<gw, gn, gd, gl, eps, adds, gen, kill, k, scope, day, perf, tod, relax>>

Env(name, s) == /\ obs' = NoObs /\ h' = Append(h, [ev |-> name, s |-> s])
                /\ UNCHANGED <<c1, c2, cT, ver>>

EditWeight(s) == gw' = [gw EXCEPT ![s] = 1 - gw[s]] /\ Env("edit_weight", s) /\ UNCHANGED <<gn, gd, gl, eps, adds, gen, kill, k, scope, day, perf, tod, relax>>
EditDst(s) == gd' = [gd EXCEPT ![s] = 1 - gd[s]] /\ Env("edit_dst", s) /\ UNCHANGED <<gw, gn, gl, eps, adds, gen, kill, k, scope, day, perf, tod, relax>>
SwapLabels(s) == gl' = [gl EXCEPT ![s] = 1 - gl[s]] /\ Env("swap_labels", s) /\ UNCHANGED <<gw, gn, gd, eps, adds, gen, kill, k, scope, day, perf, tod, relax>>
AddNode(s) == gn[s] = 0 /\ gn' = [gn EXCEPT ![s] = 1] /\ Env("add_node", s) /\ UNCHANGED <<gw, gd, gl, eps, adds, gen, kill, k, scope, day, perf, tod, relax>>
AddEpisode(s, e) == /\ e \notin eps[s] /\ adds[s] < MaxAdds
                    /\ eps' = [eps EXCEPT ![s] = eps[s] \cup {e}] /\ adds' = [adds EXCEPT ![s] = adds[s] + 1]
                    /\ obs' = NoObs /\ h' = Append(h, [ev |-> "add_episode", s |-> s, e |-> e])
                    /\ UNCHANGED <<gw, gn, gd, gl, gen, ver, kill, k, scope, day, perf, tod, relax, c1, c2, cT>>
ClearIndex(s) == /\ eps[s] # {} /\ gen[s] < 1
                 /\ eps' = [eps EXCEPT ![s] = {}] /\ adds' = [adds EXCEPT ![s] = 0] /\ gen' = [gen EXCEPT ![s] = gen[s] + 1]
                 /\ Env("clear_index", s) /\ UNCHANGED <<gw, gn, gd, gl, kill, k, scope, day, perf, tod, relax>>
ToggleKill == kill' = ~kill /\ Env("toggle_kill", 0) /\ UNCHANGED <<gw, gn, gd, gl, eps, adds, gen, k, scope, day, perf, tod, relax>>
SetK == k' = 3 - k /\ Env("set_k", 0) /\ UNCHANGED <<gw, gn, gd, gl, eps, adds, gen, kill, scope, day, perf, tod, relax>>
SetScope == scope' = (IF scope = "any" THEN "agent" ELSE "any") /\ Env("set_scope", 0) /\ UNCHANGED <<gw, gn, gd, gl, eps, adds, gen, kill, k, day, perf, tod, relax>>
NextHour == tod' = 1 - tod /\ Env("next_hour", 0) /\ UNCHANGED <<gw, gn, gd, gl, eps, adds, gen, kill, k, scope, day, perf, relax>>
SetRelax == relax' = (relax + 1) % 3 /\ Env("set_relax", 0) /\ UNCHANGED <<gw, gn, gd, gl, eps, adds, gen, kill, k, scope, day, perf, tod>>
TogglePerf == perf' = 1 - perf /\ Env("toggle_perf", 0) /\ UNCHANGED <<gw, gn, gd, gl, eps, adds, gen, kill, k, scope, day, tod, relax>>
NextDay == day = 0 /\ day' = 1 /\ Env("next_day", 0) /\ UNCHANGED <<gw, gn, gd, gl, eps, adds, gen, kill, k, scope, perf, tod, relax>>

On(a) == a \in Acts
Next == /\ Len(h) < MaxLen
        /\ \/ \E s \in S, a \in Agents, t \in Texts : ver[s] < MaxVer /\ Turn(s, a, t)
           \/ \E s \in S : (On("edit_weight") /\ EditWeight(s)) \/ (On("add_node") /\ AddNode(s)) \/ (On("clear_index") /\ ClearIndex(s))
                            \/ (On("edit_dst") /\ EditDst(s)) \/ (On("swap_labels") /\ SwapLabels(s))
           \/ \E s \in S, e \in Episodes : On("add_episode") /\ AddEpisode(s, e)
           \/ (On("toggle_kill") /\ ToggleKill) \/ (On("set_k") /\ SetK) \/ (On("set_scope") /\ SetScope) \/ (On("next_day") /\ NextDay)
           \/ (On("toggle_perf") /\ TogglePerf) \/ (On("next_hour") /\ NextHour) \/ (On("set_relax") /\ SetRelax)
Spec == Init /\ [][Next]_vars

-----------------------------------------------------------------------------
Stale == obs.t1.cause # {} \/ obs.t2.cause # {} \/ obs.tl.cause # {}
HitEqualsFresh == ~Stale
\* with the full key set no stale hit exists; with the keys of the current code the stale hits are
\* exactly those caused by components missing from KeyHas (checked by the harness per witness)

View_ == <<gw, gn, gd, gl, eps, adds, gen, ver, kill, k, scope, day, perf, tod, relax, c1, c2, cT, obs>>
EmitStale == Stale => PrintT(<<"T", ToJson([h |-> h])>>)
EmitAtEnd == (Len(h) = MaxLen) => PrintT(<<"T", ToJson([h |-> h])>>)
=============================================================================
