------------------------------ MODULE Bundle ------------------------------
(* The T3 plan bundle (clematis.engine.stages.t3.bundle: make_plan_bundle / assemble_bundle and the
   helpers extract_t1_touched_nodes, extract_labels_from_t1, extract_t2_retrieved, extract_t2_metrics,
   cfg_caps, cfg_snapshot, world_hot_labels, validate_bundle).  Stated from docs/m9/overview.md ("Bundle
   helpers (iso_now, config snapshot, agent/world readers, T1/T2 extractors) reside in t3/bundle.py ...
   behavior and identity remain unchanged"), the header of t3/legacy.py ("PR4: Pure T3 bundle assembly.
   Deterministic: all lists sorted; explicit caps; empty defaults when absent"), the docstring of
   make_plan_bundle ("compact, deterministic T3 bundle") and the shipped tests of the bundle.
   Extra X14, beyond the listed properties.

   What is modelled (an enumerate-inputs spec: inp chosen in Init, out = Result(inp), Next = FALSE).

   T1 result.  Either a LIST of entries or a MAPPING id -> value (attribute graph_deltas, else deltas).
     list entry kinds:  "id"    {"id": i, "delta": d [, "label": L]}
                        "node"  {"node": i, "weight": d [, "name": L]}       (fall-back keys)
                        "src"   {"src": i [, "label": L]}                    (no delta: 0)
                        "junk"  not a dict                                   (ignored)
                        "noid"  {"delta": 5 [, "label": L]}                  (no id: not a node)
                        "emptyid" {"id": "", "delta": 5 [, "label": L]}      (not a node)
                        "dnone" {"id": i, "delta": None [, "label": L]}      (see DEVIATION 1)
     mapping values:    "id" -> the number d;  "node" -> {"weight": d [, "label": L]};  "src" -> a string
                        that is not a number (delta 0).  The label of a node defaults to its id (lab = 0).
     touched nodes = the `cap` entries that come first under (-|delta|, id), listed by id ascending;
     assemble_bundle uses cap = 32.  labels_from_t1 = the sorted set of the labels given in a LIST.
   T2 result.  retrieved = hits as dicts or objects:
                        "dict"  {"id": i, "score": s}     "uscore" {"id": i, "_score": s, "score": 7}
                        "obj"   object(id = i, score = s) "noscore" {"id": i}  (score 0)
                        "dnoid" {"score": s}  (see DEVIATION 3)       "onoid" object(score = s)  (ignored)
     plus a payload variant pv (owner / quarter / text / tags / speaker, table PvOut).
     hits = sorted by (-score, id), cut to max(k_retrieval, 0); k_retrieval from the config (default 64).
     metrics (variant mv): passed through when a dict; k_returned defaults to the RAW length of retrieved.
   Context.  cfg as a dict, as an object with dict attributes, or absent; tokens (default 256),
     max_ops_per_turn (default 3), t2.k_retrieval (default 64); slice_budgets.t3_ops -> slice_caps;
     state.world_hot_labels -> sorted set (state without .get / without the key -> empty);
     input_text, else text, else "".
   validate_bundle lists "missing:<key>" for the eight required keys, in their fixed order.
   Not enumerated, constant in every case and hard-coded in the binding: version "t3-bundle-v1", now (a string
   is passed through), agent.id / style_prefix, t1.metrics (six zero counters when T1 has no metrics dict),
   cfg snapshot defaults max_rag_loops 1, temp 0.7, owner_scope "any", sim_threshold 0.3.

   Integers stand for strings whose lexicographic order is the integer order (ids n1 < n10 < n2 < n3,
   labels, hot labels); deltas are multiples of 1/8 and scores multiples of 1/8 (exact doubles).
   Sentinels: tok = 0 / ops = 0 / slice = 0 mean "key absent"; k = 99 means "k_retrieval absent".

   DEVIATION 1 (as built): a LIST entry whose "delta" is None makes extract_t1_touched_nodes raise TypeError
     (float(None)), and with it assemble_bundle; the MAPPING branch guards the same conversion and yields 0.0
     ("empty defaults when absent").  Modelled: out.err = TRUE, no bundle.
   DEVIATION 2 (as built): the two sorts are stable and use (-|delta|, id) resp. id only, so two entries with
     the SAME id and the same |delta| (resp. two hits with the same id and score) keep their listing order:
     the promised independence of the listing order holds for distinct ids only (ListingIrrelevant is
     conditioned on that); duplicates are not merged.
   DEVIATION 3 (as built): a DICT hit without "id" is kept under the id "None" (str(None)), whereas an OBJECT
     hit without id is dropped.  Modelled: id 0 (sorts before every real id, as "None" does).
   DEVIATION 4 (as built): labels_from_t1 reads the LIST shape only (empty for a mapping, although the
     touched nodes of a mapping carry labels), and it also collects labels of entries that are not nodes
     (no id) and of nodes cut by the cap.
   DEVIATION 5 (as built): t2.metrics.k_returned falls back to the raw number of retrieved records, not to the
     number of hits that made it into the bundle. *)
EXTENDS Integers, Sequences, FiniteSets, TLC, Json

CONSTANTS MaxT1, T1Kinds, T1Ids, T1Deltas, T1Labels, Shapes, Caps,
          MaxT2, T2Kinds, T2Ids, T2Scores, Pvs, Mvs,
          CfgKinds, Toks, Opss, Ks, Slices, Sts, Hots, Txts, Drops

VARIABLES inp, out
vars == <<inp, out>>

AssembleCap == 32
DefTokens == 256
DefOps == 3
DefK == 64
Required == <<"version", "now", "agent", "world", "t1", "t2", "text", "cfg">>
AllKeys == Required \o <<"slice_caps">>

Abs(x) == IF x < 0 THEN 0 - x ELSE x
Mx(a, b) == IF a > b THEN a ELSE b
Mn(a, b) == IF a < b THEN a ELSE b
\* TLC passes operator arguments by name and re-evaluates them at every use; a bound variable holds a VALUE
\* (hence the singleton comprehension in StableSort) and Force turns a lazily applied function into a tuple.
Force(s) == s \o <<>>
Rev(s) == Force([p \in 1..Len(s) |-> s[Len(s) + 1 - p]])
Map(s, F(_)) == Force([p \in 1..Len(s) |-> F(s[p])])

\* stable sort of a sequence under a strict weak order Lt
StableSort(s0, Lt(_, _)) ==
    CHOOSE r \in {Force(LET n == Len(s)
                            pos == [i \in 1..n |-> 1 + Cardinality({j \in 1..n : Lt(s[j], s[i]) \/ (~Lt(s[i], s[j]) /\ j < i)})]
                        IN [p \in 1..n |-> s[CHOOSE i \in 1..n : pos[i] = p]]) : s \in {s0}} : TRUE

\* strictly increasing sequence of the members of a set of integers
SortedSet(S) == LET n == Cardinality(S) IN
                [p \in 1..n |-> CHOOSE x \in S : Cardinality({y \in S : y < x}) = p - 1]

Prefix(s, c) == SubSeq(s, 1, Mn(Mx(c, 0), Len(s)))

-----------------------------------------------------------------------------
(* T1 *)
NodeKinds == {"id", "node", "src"}
T1Entries == {e \in [k : T1Kinds, id : T1Ids \cup {0}, d : T1Deltas \cup {0}, lab : T1Labels] :
                 CASE e.k = "junk" -> e.id = 0 /\ e.d = 0 /\ e.lab = 0
                   [] e.k \in {"noid", "emptyid"} -> e.id = 0 /\ e.d = 0
                   [] e.k \in {"src", "dnone"} -> e.id # 0 /\ e.d = 0
                   [] OTHER -> e.id # 0 /\ e.d \in T1Deltas}

IsNode(e) == e.k \in NodeKinds
NormNode(e) == [id |-> e.id, lab |-> e.lab, d |-> e.d]
ByMagnitude(a, b) == Abs(a.d) > Abs(b.d) \/ (Abs(a.d) = Abs(b.d) /\ a.id < b.id)
ById(a, b) == a.id < b.id

Touched(es, cap) == StableSort(Prefix(StableSort(Map(SelectSeq(es, IsNode), NormNode), ByMagnitude), cap), ById)
T1Raises(shape, es) == shape = "list" /\ \E p \in 1..Len(es) : es[p].k = "dnone"
LabelsOf(shape, es) == IF shape # "list" THEN <<>>
                       ELSE SortedSet({es[p].lab : p \in {q \in 1..Len(es) : es[q].k # "junk" /\ es[q].lab # 0}})

DistinctIds(s) == \A p, q \in 1..Len(s) : p # q => s[p].id # s[q].id
\* a mapping has one value per id; only the {"weight", "label"} value form can carry a label
MapOK(es) == DistinctIds(es) /\ \A p \in 1..Len(es) : es[p].k \in NodeKinds /\ (es[p].k # "node" => es[p].lab = 0)

T1Inputs == UNION {{[shape |-> sh, es |-> es, cap |-> c] :
                      sh \in {x \in Shapes : x = "list" \/ MapOK(es)}, c \in Caps} :
                   es \in UNION {[1..n -> T1Entries] : n \in 0..MaxT1}}

-----------------------------------------------------------------------------
(* T2 *)
T2Entries == {h \in [k : T2Kinds, id : T2Ids \cup {0}, s : T2Scores \cup {0}, pv : Pvs] :
                 CASE h.k = "onoid" -> h.id = 0 /\ h.s = 0 /\ h.pv = 0
                   [] h.k = "dnoid" -> h.id = 0 /\ h.s \in T2Scores
                   [] h.k = "noscore" -> h.id # 0 /\ h.s = 0
                   [] OTHER -> h.id # 0 /\ h.s \in T2Scores}

\* payload table: what the record carries -> what the hit shows ("" / <<>> = the field is absent)
PvOut(pv) ==
    CASE pv = 0 -> [owner |-> "any", quarter |-> "", text |-> "", tags |-> <<>>, speaker |-> ""]
      [] pv = 1 -> [owner |-> "A", quarter |-> "2025Q3", text |-> "hello", tags |-> <<>>, speaker |-> ""]
      [] pv = 2 -> [owner |-> "any", quarter |-> "", text |-> "", tags |-> <<"x", "speaker:bob">>, speaker |-> "bob"]
      [] pv = 3 -> [owner |-> "any", quarter |-> "", text |-> "", tags |-> <<"speaker:", "speaker:bob">>, speaker |-> ""]
      [] pv = 4 -> [owner |-> "B", quarter |-> "", text |-> "", tags |-> <<"speaker:bob">>, speaker |-> "amy"]
      [] pv = 5 -> [owner |-> "any", quarter |-> "", text |-> "", tags |-> <<>>, speaker |-> ""]

IsHit(h) == h.k # "onoid"
NormHit(h) == [id |-> h.id, s |-> h.s, p |-> PvOut(h.pv)]
ByScore(a, b) == a.s > b.s \/ (a.s = b.s /\ a.id < b.id)

EffK(k) == IF k = 99 THEN DefK ELSE k
Hits(hs, k) == Prefix(StableSort(Map(SelectSeq(hs, IsHit), NormHit), ByScore), EffK(k))

\* metrics: kret = k_returned, sim = <<present, mean/8, max/8>>, tier = <<present, names>>, cache
T2Metrics(mv, hs) ==
    CASE mv = "none"  -> [kret |-> Len(hs), sim |-> <<TRUE, 0, 0>>, tier |-> <<FALSE, <<>>>>, cache |-> FALSE]
      [] mv = "empty" -> [kret |-> Len(hs), sim |-> <<FALSE, 0, 0>>, tier |-> <<FALSE, <<>>>>, cache |-> FALSE]
      [] mv = "full"  -> [kret |-> 5, sim |-> <<TRUE, 2, 7>>, tier |-> <<TRUE, <<"exact_semantic", "archive">>>>, cache |-> TRUE]
      [] mv = "junk"  -> [kret |-> 0, sim |-> <<FALSE, 0, 0>>, tier |-> <<FALSE, <<>>>>, cache |-> FALSE]

T2Inputs == {[hs |-> hs, mv |-> mv] : hs \in UNION {[1..n -> T2Entries] : n \in 0..MaxT2}, mv \in Mvs}

-----------------------------------------------------------------------------
(* context *)
CtxInputs == {c \in [cfgk : CfgKinds, tok : Toks, ops : Opss, k : Ks, slice : Slices, st : Sts, hot : Hots, txt : Txts] :
                 /\ c.cfgk = "none" => (c.tok = 0 /\ c.ops = 0 /\ c.k = 99)
                 /\ c.st # "dict" => c.hot = <<>>}

CapsOf(c) == [tokens |-> IF c.tok = 0 THEN DefTokens ELSE c.tok, ops |-> IF c.ops = 0 THEN DefOps ELSE c.ops]
HotOf(c) == IF c.st = "dict" THEN SortedSet({c.hot[p] : p \in 1..Len(c.hot)}) ELSE <<>>

Inputs == {[t1 |-> a, t2 |-> b, ctx |-> c, drop |-> d] : a \in T1Inputs, b \in T2Inputs, c \in CtxInputs, d \in Drops}

Validate(keys) == SelectSeq(Required, LAMBDA key : key \notin keys)

Result(i) ==
    LET err == T1Raises(i.t1.shape, i.t1.es)
        kept == {AllKeys[p] : p \in (1..Len(AllKeys)) \ i.drop}
    IN [err |-> err,
        nodes |-> IF err THEN <<>> ELSE Touched(i.t1.es, i.t1.cap),
        nodes32 |-> IF err THEN <<>> ELSE Touched(i.t1.es, AssembleCap),
        labels |-> LabelsOf(i.t1.shape, i.t1.es),
        hits |-> Hits(i.t2.hs, i.ctx.k),
        t2m |-> T2Metrics(i.t2.mv, i.t2.hs),
        caps |-> CapsOf(i.ctx),
        k |-> EffK(i.ctx.k),
        slice |-> i.ctx.slice,
        hot |-> HotOf(i.ctx),
        txt |-> i.ctx.txt,
        errs |-> IF err THEN <<>> ELSE Validate(kept)]

Init == /\ inp \in Inputs
        /\ out = Result(inp)
Next == FALSE
Spec == Init /\ [][Next]_vars

-----------------------------------------------------------------------------
NodeEntries == SelectSeq(inp.t1.es, IsNode)
HitEntries == SelectSeq(inp.t2.hs, IsHit)
Ids(s) == {s[p].id : p \in 1..Len(s)}

\* touched nodes are listed by id, non-decreasing; hits by score descending, ties by id
NodesSortedById == \A p \in 1..(Len(out.nodes) - 1) : out.nodes[p].id <= out.nodes[p + 1].id
HitsSortedByScoreThenId ==
    \A p \in 1..(Len(out.hits) - 1) :
        out.hits[p].s > out.hits[p + 1].s \/ (out.hits[p].s = out.hits[p + 1].s /\ out.hits[p].id <= out.hits[p + 1].id)
\* exactly min(cap, #nodes) nodes and min(max(k, 0), #hits) hits: truncation, never padding
TruncatedToCaps ==
    /\ ~out.err => Len(out.nodes) = Mn(Mx(inp.t1.cap, 0), Len(NodeEntries))
    /\ ~out.err => Len(out.nodes32) = Mn(AssembleCap, Len(NodeEntries))
    /\ Len(out.hits) = Mn(Mx(out.k, 0), Len(HitEntries))
\* what the cap cuts never outranks what it keeps: (|delta|, id) for nodes, (score, id) for hits
CutKeepsTheTop ==
    /\ ~out.err => \A p \in 1..Len(NodeEntries) :
           LET e == NormNode(NodeEntries[p]) IN
           (\E q \in 1..Len(out.nodes) : out.nodes[q] = e) \/
           (\A q \in 1..Len(out.nodes) : ~ByMagnitude(e, out.nodes[q]))
    /\ \A p \in 1..Len(HitEntries) :
           LET h == NormHit(HitEntries[p]) IN
           (\E q \in 1..Len(out.hits) : out.hits[q] = h) \/ (\A q \in 1..Len(out.hits) : ~ByScore(h, out.hits[q]))
\* nothing is invented
OnlyInputsAppear ==
    /\ \A q \in 1..Len(out.nodes) : \E p \in 1..Len(NodeEntries) : NormNode(NodeEntries[p]) = out.nodes[q]
    /\ \A q \in 1..Len(out.hits) : \E p \in 1..Len(HitEntries) : NormHit(HitEntries[p]) = out.hits[q]
\* set-like lists are strictly increasing
LabelsSortedDistinct ==
    /\ \A p \in 1..(Len(out.labels) - 1) : out.labels[p] < out.labels[p + 1]
    /\ \A p \in 1..(Len(out.hot) - 1) : out.hot[p] < out.hot[p + 1]
\* the listing order of the T1 entries and of the T2 records does not matter (distinct ids, DEVIATION 2)
ListingIrrelevant ==
    (DistinctIds(NodeEntries) /\ DistinctIds(HitEntries)) =>
        LET r == Result([inp EXCEPT !.t1.es = Rev(@), !.t2.hs = Rev(@), !.ctx.hot = Rev(@)])
        IN r.nodes = out.nodes /\ r.nodes32 = out.nodes32 /\ r.hits = out.hits /\ r.labels = out.labels /\ r.hot = out.hot
\* entries that are not nodes / records that are not hits leave no trace in the lists
GarbageIgnored ==
    LET r == Result([inp EXCEPT !.t1.es = SelectSeq(@, LAMBDA e : IsNode(e) \/ e.k = "dnone"), !.t2.hs = SelectSeq(@, IsHit)])
    IN r.nodes = out.nodes /\ r.hits = out.hits /\ r.err = out.err
\* a bundle that was assembled validates; a bundle that lost required keys is reported key by key, in order
ValidateAcceptsAssembled ==
    /\ (inp.drop = {} /\ ~out.err) => out.errs = <<>>
    /\ ~out.err => Len(out.errs) = Cardinality(inp.drop \cap (1..Len(Required)))
    /\ \A p \in 1..(Len(out.errs) - 1) :
           \E a, b \in 1..Len(Required) : a < b /\ Required[a] = out.errs[p] /\ Required[b] = out.errs[p + 1]
\* caps come from the configuration, defaults when absent; the hit list obeys the k of the snapshot
CapsFromConfig ==
    /\ out.caps.tokens = (IF inp.ctx.tok = 0 THEN 256 ELSE inp.ctx.tok)
    /\ out.caps.ops = (IF inp.ctx.ops = 0 THEN 3 ELSE inp.ctx.ops)
    /\ out.k = (IF inp.ctx.k = 99 THEN 64 ELSE inp.ctx.k)
    /\ inp.ctx.cfgk = "none" => (out.caps = [tokens |-> 256, ops |-> 3] /\ out.k = 64)
    /\ Len(out.hits) <= Mx(out.k, 0)
\* the only input that makes the assembly fail is a list entry with delta None (DEVIATION 1)
RaisesOnlyOnNoneDelta ==
    out.err <=> (inp.t1.shape = "list" /\ \E p \in 1..Len(inp.t1.es) : inp.t1.es[p].k = "dnone")

EmitCase == PrintT(<<"T", ToJson([inp |-> inp, out |-> out])>>)
=============================================================================
