----------------------------- MODULE MergeCaches -----------------------------
(* merge_caches_deterministic (clematis.engine.cache), from its documented contract (C15): workers
   are visited in sorted worker order, keys in sorted key order; a key already present in the target
   is skipped (first_wins) or, under assert_equal, must carry an equal value.  The result therefore
   depends only on the *sets* involved, never on the order in which workers or keys are listed.
   Workers and Keys are integers so that their order is expressible.                             *)
EXTENDS Integers, Sequences, FiniteSets, TLC, Json

CONSTANTS Workers, Keys, Vals

VARIABLES target, caches, policy
vars == <<target, caches, policy>>

Partial == UNION {[S -> Vals] : S \in SUBSET Keys}

Init == /\ target \in Partial
        /\ caches \in [Workers -> Partial]
        /\ policy \in {"first_wins", "assert_equal"}
Next == UNCHANGED vars
Spec == Init /\ [][Next]_vars

SortedSeq(S) == CHOOSE s \in [1..Cardinality(S) -> S] :
                   (\A i, j \in 1..Cardinality(S) : i < j => s[i] < s[j])

\* imperative reading: fold workers ascending, keys ascending
RECURSIVE FoldKeys(_, _, _), FoldWorkers(_, _)
FoldKeys(acc, c, ks) ==
    IF ks = <<>> THEN acc
    ELSE LET k == Head(ks) IN
         IF k \in DOMAIN acc.m THEN
              FoldKeys([acc EXCEPT !.conflict = acc.conflict \/ acc.m[k] # c[k]], c, Tail(ks))
         ELSE FoldKeys([acc EXCEPT !.m = [x \in DOMAIN acc.m \cup {k} |-> IF x = k THEN c[k] ELSE acc.m[x]],
                                   !.puts = Append(acc.puts, <<k, c[k]>>)], c, Tail(ks))
FoldWorkers(acc, ws) ==
    IF ws = <<>> THEN acc
    ELSE FoldWorkers(FoldKeys(acc, caches[Head(ws)], SortedSeq(DOMAIN caches[Head(ws)])), Tail(ws))
Result == FoldWorkers([m |-> target, puts |-> <<>>, conflict |-> FALSE], SortedSeq(Workers))

\* declarative reading: the target's value, else the value held by the least worker that has the key
Owners(k) == {w \in Workers : k \in DOMAIN caches[w]}
MinOf(S) == CHOOSE x \in S : \A y \in S : x <= y
Declared == [k \in DOMAIN target \cup {k \in Keys : Owners(k) # {}} |->
               IF k \in DOMAIN target THEN target[k] ELSE caches[MinOf(Owners(k))][k]]
OrderIndependent == Result.m = Declared

ToStrMap(f) == [k \in {ToString(x) : x \in DOMAIN f} |-> f[CHOOSE x \in DOMAIN f : ToString(x) = k]]
EmitCase == PrintT(<<"T", ToJson([target |-> ToStrMap(target),
                                  workers |-> ToStrMap([w \in Workers |-> ToStrMap(caches[w])]),
                                  policy |-> policy, expect |-> ToStrMap(Result.m),
                                  puts |-> Result.puts, conflict |-> Result.conflict])>>)
=============================================================================
