------------------------------ MODULE AgentBatch ------------------------------
(* Agent-level batch driver (clematis.engine.orchestrator.parallel._run_agents_parallel_batch), C10.
   Tasks 1..N (task order = agent order) each with a set of graphs and per-stream record sizes.
   Documented behaviour (docs/m9 PR70/PR71, property text):
     - a batch is the greedy selection, in task order, of agents whose graph sets are pairwise disjoint,
       at most MaxWorkers; agents that are not selected fall back to later (sequential) processing —
       no task is dropped, and overlapping agents are never computed in the same batch;
     - compute phase: each selected agent produces its t1, t2, t4 records into a staging buffer keyed
       (turn, stage order, slice, arrival); when a record does not fit the byte limit the buffer is
       drained in key order and appended, then the record is staged (a record larger than the whole
       limit is admitted into the empty buffer);
     - commit phase in (turn, slice) order: apply, stage the apply record; final drain in key order.
   The reference is the plain loop: for each task in order  t1 t2 t4 apply.
   Files are modelled as sequences of <<agent, stream>>; the comparison is per file.            *)
EXTENDS Integers, Sequences, FiniteSets, TLC, Json, SequencesExt

CONSTANTS N, Graphs, WorkerVals, LimitVals, SizeVals, KillVals,
          DropUnpicked,      \* TRUE: model of a driver that silently drops unselected tasks
          RetryFailsWhenTooBig  \* TRUE: a record larger than the limit aborts the batch

Streams == <<"t1", "t2", "t4", "apply">>
StageOrd(s) == CASE s = "t1" -> 1 [] s = "t2" -> 2 [] s = "t4" -> 4 [] s = "apply" -> 5 [] OTHER -> 99

VARIABLES gsets, workers, limit, size, kill, out
vars == <<gsets, workers, limit, size, kill, out>>

\* kill switch (t4.enabled = false): a turn stops after T2 - no T4 record, no apply, no apply record, the version and the
\* store stay as they are - in the plain loop and therefore in the batch driver as well
CompStreams == IF kill THEN <<"t1", "t2">> ELSE <<"t1", "t2", "t4">>
NC == Len(CompStreams)

Tasks == 1..N
Disjoint(a, b) == gsets[a] \cap gsets[b] = {}
PairwiseDisjoint == \A a, b \in Tasks : a # b => Disjoint(a, b)

\* greedy independent batch over the remaining tasks (sequence rem, in task order)
RECURSIVE Pick(_, _, _)
Pick(rem, picked, used) ==
    IF rem = <<>> \/ Len(picked) >= workers THEN picked
    ELSE LET a == Head(rem) IN
         IF used \cap gsets[a] = {} THEN Pick(Tail(rem), Append(picked, a), used \cup gsets[a])
         ELSE Pick(Tail(rem), picked, used)
SeqMinus(s, t) == SelectSeq(s, LAMBDA x : \A i \in 1..Len(t) : t[i] # x)
RECURSIVE Batches(_)
Batches(rem) == IF rem = <<>> THEN <<>>
                ELSE LET b == Pick(rem, <<>>, {}) IN
                     IF DropUnpicked THEN <<b>> ELSE <<b>> \o Batches(SeqMinus(rem, b))

\* staging of one batch: records arrive as  t1 t2 t4 per agent (compute), then apply per agent (commit)
Arrivals(b) == LET comp == [i \in 1..(NC * Len(b)) |-> <<b[((i - 1) \div NC) + 1], CompStreams[((i - 1) % NC) + 1]>>]
                   comm == IF kill THEN <<>> ELSE [i \in 1..Len(b) |-> <<b[i], "apply">>]
               IN comp \o comm
Sz(r) == size[r[2]]
\* key order inside one drain: stage order, then arrival
KeyLess(x, y) == StageOrd(x.rec[2]) < StageOrd(y.rec[2]) \/ (StageOrd(x.rec[2]) = StageOrd(y.rec[2]) /\ x.seq < y.seq)
SortBuf(S) == LET s == SetToSortSeq(S, KeyLess) IN [i \in 1..Len(s) |-> s[i].rec]
RECURSIVE Stage(_, _, _, _, _)
\* arr: remaining arrivals, buf: set of [rec, seq], used: bytes, seq: counter, written: flushed so far
Stage(arr, buf, used, seq, written) ==
    IF arr = <<>> THEN [ok |-> TRUE, lines |-> written \o SortBuf(buf)]
    ELSE LET r == Head(arr) IN
         IF used + Sz(r) <= limit
         THEN Stage(Tail(arr), buf \cup {[rec |-> r, seq |-> seq]}, used + Sz(r), seq + 1, written)
         ELSE IF Sz(r) > limit /\ RetryFailsWhenTooBig
              THEN [ok |-> FALSE, lines |-> written \o SortBuf(buf)]
              ELSE Stage(Tail(arr), {[rec |-> r, seq |-> seq]}, Sz(r), seq + 1, written \o SortBuf(buf))
RECURSIVE RunBatches(_, _)
RunBatches(bs, acc) ==
    IF bs = <<>> THEN acc
    ELSE LET r == Stage(Arrivals(Head(bs)), {}, 0, 1, <<>>) IN
         IF ~r.ok THEN [ok |-> FALSE, lines |-> acc.lines \o r.lines, results |-> acc.results]
         ELSE RunBatches(Tail(bs), [ok |-> TRUE, lines |-> acc.lines \o r.lines, results |-> acc.results \o Head(bs)])
Driver == RunBatches(Batches([i \in 1..N |-> i]), [ok |-> TRUE, lines |-> <<>>, results |-> <<>>])

LoopStreams == IF kill THEN CompStreams ELSE Streams
Loop == [lines |-> [i \in 1..(Len(LoopStreams) * N) |-> <<((i - 1) \div Len(LoopStreams)) + 1, LoopStreams[((i - 1) % Len(LoopStreams)) + 1]>>],
         results |-> [i \in 1..N |-> i]]
File(lines, s) == SelectSeq(lines, LAMBDA r : r[2] = s)

Init == /\ gsets \in [Tasks -> SUBSET Graphs] /\ workers \in WorkerVals /\ limit \in LimitVals
        /\ size \in [{"t1", "t2", "t4", "apply"} -> SizeVals] /\ kill \in KillVals
        /\ out = Driver
Next == FALSE
Spec == Init /\ [][Next]_vars

\* C10 clauses (premise of the equalities: pairwise-disjoint graph sets)
ResultsEqual == PairwiseDisjoint => (out.ok /\ out.results = Loop.results)
LogLinesEqualPerFile == PairwiseDisjoint => \A i \in 1..4 : File(out.lines, Streams[i]) = File(Loop.lines, Streams[i])
NothingDropped == out.ok => {out.results[i] : i \in 1..Len(out.results)} = Tasks
OverlapNeverSameBatch == \A bi \in 1..Len(Batches([i \in 1..N |-> i])) :
    LET b == Batches([i \in 1..N |-> i])[bi] IN
    /\ Len(b) <= workers
    /\ \A x, y \in 1..Len(b) : x # y => Disjoint(b[x], b[y])

KillSwitchInert == kill => (File(out.lines, "t4") = <<>> /\ File(out.lines, "apply") = <<>>)

EmitCase == PrintT(<<"T", ToJson([gsets |-> gsets, workers |-> workers, limit |-> limit, size |-> size, kill |-> kill, disjoint |-> PairwiseDisjoint,
                                  batches |-> Batches([i \in 1..N |-> i]), ok |-> out.ok, results |-> out.results,
                                  files |-> [s \in {"t1", "t2", "t4", "apply"} |-> File(out.lines, s)]])>>)
=============================================================================
