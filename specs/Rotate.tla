------------------------------- MODULE Rotate -------------------------------
(* Size-based log rotation with numeric suffixes (clematis.scripts.rotate_logs.rotate_one, renames via
   clematis.io.atomic.atomic_replace) and compaction (clematis.io.log.rewrite_jsonl), stated from the
   script's documentation ("--backups: how many backup generations to keep"; cascade oldest-first:
   drop path.N, path.k -> path.(k+1) for k = N-1 .. 1, path -> path.1; only existing files are
   rotated) and the property text (C16): rotation keeps the newest N generations in order without
   losing any but the oldest, also when it is interrupted between two steps; compaction preserves
   the records.
   The directory is a function slot -> <<generation id, #records>> (slot 0 = the live file `path`,
   slot k = `path.k`; <<0, 0>> = no such file).  Slots N+1 .. N+Extra are pre-existing generations
   beyond the retention window (left over from a larger --backups).  Generation ids grow with time.
   An interruption is a process death between two steps or a step that fails with an error: a failed
   rename changes nothing (its source stays in place) and the rotation stops there with the error.
   A rotation is one action parameterised by the number c of cascade steps performed before it is
   interrupted (c = N+1: complete), so every interruption point is a reachable state on which the
   invariants are evaluated.  h records the history for spec-to-code replay. *)
EXTENDS Integers, Sequences, FiniteSets, TLC, Json

CONSTANTS N,        \* --backups
          Extra,    \* pre-existing slots beyond N
          MaxOps,   \* history length
          InitAll   \* TRUE: every subset of slots is an initial directory; FALSE (large N): prefixes and one-gap directories only

M == N + Extra
Slots == 0..M
Absent == <<0, 0>>
Present(d, k) == d[k][1] # 0
Ids(d) == {d[k][1] : k \in {j \in Slots : Present(d, j)}}

VARIABLES dir, nextgen, snap, last, h, d0
vars == <<dir, nextgen, snap, last, h, d0>>

-----------------------------------------------------------------------------
(* functional core *)
\* cascade step j of a rotation (1 = drop slot N; 2..N = shift N-1 .. 1 up; N+1 = live file -> slot 1);
\* a step whose source does not exist is skipped (no file-system call)
SrcOf(j) == IF j = 1 THEN N ELSE N + 1 - j
Effective(d, j) == Present(d, SrcOf(j))
StepF(d, j) ==
    IF ~Effective(d, j) THEN d
    ELSE IF j = 1 THEN [d EXCEPT ![N] = Absent]
    ELSE LET k == SrcOf(j) IN [d EXCEPT ![k + 1] = d[k], ![k] = Absent]

RECURSIVE RotF(_, _, _, _)
\* perform steps j..c; returns [d, eff] (eff = number of file-system calls made)
RotF(d, j, c, eff) ==
    IF j > c THEN [d |-> d, eff |-> eff]
    ELSE RotF(StepF(d, j), j + 1, c, IF Effective(d, j) THEN eff + 1 ELSE eff)

AppendF(d, g) == IF Present(d, 0) THEN [d EXCEPT ![0] = <<d[0][1], d[0][2] + 1>>]
                 ELSE [d EXCEPT ![0] = <<g, 1>>]

-----------------------------------------------------------------------------
\* initial directories: any subset of slots present (gaps, generations beyond N), ids decreasing with the slot
\* (1 or 2 records per pre-existing file)
InitDir(S) == [k \in Slots |-> IF k \in S THEN <<M + 1 - k, 1 + (k % 2)>> ELSE Absent]

\* for retention windows with two-digit suffixes (N >= 10) the initial directories are the dense prefixes 0..k and the
\* full directory with one slot missing
DenseSets == {0..k : k \in 0..M} \cup {Slots \ {g} : g \in 1..M} \cup {{}}
Init == /\ \E S \in (IF InitAll THEN SUBSET Slots ELSE DenseSets) : dir = InitDir(S)
        /\ nextgen = M + 2
        /\ snap = dir /\ d0 = dir
        /\ last = [op |-> "init"]
        /\ h = <<>>

Enc(d) == [k \in 1..(M + 1) |-> d[k - 1][1] * 10 + d[k - 1][2]]
Log(o, d) == h' = Append(h, o @@ [dir |-> Enc(d)])

Append_ ==
    /\ dir' = AppendF(dir, nextgen)
    /\ nextgen' = IF Present(dir, 0) THEN nextgen ELSE nextgen + 1
    /\ snap' = dir
    /\ last' = [op |-> "append"]
    /\ Log([op |-> "append", eff |-> 0, complete |-> TRUE], dir')
    /\ UNCHANGED d0

\* rotate_one(path, N), interrupted after c steps (c = N+1: not interrupted).  Only an existing live
\* file is rotated (documented domain).  An interruption is placed where a file-system call would
\* have been made next (interruptions before skipped steps are the same states).
Rotate(c) ==
    /\ Present(dir, 0)
    /\ LET r == RotF(dir, 1, c, 0) IN
       /\ (c <= N => Effective(r.d, c + 1))
       /\ dir' = r.d
       /\ last' = [op |-> "rotate", complete |-> (c = N + 1), eff |-> r.eff]
       /\ Log([op |-> "rotate", eff |-> r.eff, complete |-> (c = N + 1)], r.d)
    /\ snap' = dir
    /\ UNCHANGED <<nextgen, d0>>

\* rewrite_jsonl(path, records of path): canonical re-serialisation of the same records
Compact ==
    /\ Present(dir, 0)
    /\ dir' = dir /\ snap' = dir
    /\ last' = [op |-> "compact"]
    /\ Log([op |-> "compact", eff |-> 0, complete |-> TRUE], dir)
    /\ UNCHANGED <<nextgen, d0>>

Next == /\ Len(h) < MaxOps
        /\ (Append_ \/ Compact \/ \E c \in 0..(N + 1) : Rotate(c))
Spec == Init /\ [][Next]_vars

-----------------------------------------------------------------------------
(* C16 clauses *)
\* generations stay in order: a lower slot always holds a newer generation; no generation under two names
Ordered == \A i, j \in Slots : (i < j /\ Present(dir, i) /\ Present(dir, j)) => dir[i][1] > dir[j][1]
\* a completed rotation keeps the newest N generations of the window, each one slot further, in order
RotationKeepsNewestN ==
    (last.op = "rotate" /\ last.complete) =>
        /\ ~Present(dir, 0)
        /\ \A k \in 0..(N - 1) : dir[k + 1] = snap[k]
\* at every point of a rotation (completed or interrupted anywhere) the only generation that may be gone is
\* the one that sat in slot N; all others still exist, with all their records
RotationLosesOnlyOldest ==
    last.op = "rotate" =>
        /\ Ids(snap) \ Ids(dir) \subseteq {snap[N][1]}
        /\ \A k \in Slots : Present(dir, k) => \E j \in Slots : snap[j] = dir[k]
BeyondWindowUntouched == last.op = "rotate" => \A k \in (N + 1)..M : dir[k] = snap[k]
CompactionPreservesRecords == last.op = "compact" => dir = snap
AppendOnlyLive == last.op = "append" => \A k \in 1..M : dir[k] = snap[k]

View == <<dir, nextgen, h, d0>>
EmitDone == (Len(h) = MaxOps) => PrintT(<<"T", ToJson([n |-> N, init |-> Enc(d0), h |-> h])>>)
=============================================================================
