-------------------------------- MODULE Delta --------------------------------
(* Path-based snapshot delta codec (clematis.engine.util.snapshot_delta: compute_delta/apply_delta),
   C07.  A payload is a JSON object; only objects are traversed, lists and scalars are atoms.
     delta = adds (path -> value), mods (path -> value), dels (paths); applied adds, mods, dels.
   A path is the join of the key segments from the root.  Two schemes are modelled:
     "naive"   : join with "." / split on every "." / an empty path addresses nothing /
                 values compared with the host language's == (1 == true);
     "escaped" : segments escape "\" and "." with a backslash, split honours escapes, every path
                 has at least one segment, values compared type-strictly.
   RoundTrip is the property: Apply(base, Compute(base, cur)) = cur for all payload pairs.
   Keys are sequences over a small character alphabet so that dotted, empty and escape-looking
   keys are all expressible; JSON values are tagged records [t, v] with integer v.             *)
EXTENDS Integers, Sequences, FiniteSets, TLC, Json, SequencesExt

CONSTANTS KeySet,     \* set of keys (each a sequence of characters)
          Atoms,      \* set of atomic values [t |-> "i"|"b"|"s"|"l"|"n", v |-> Int]
          Scheme, MaxTop, MaxInner

VARIABLES base, cur
vars == <<base, cur>>

IsObj(x) == x.t = "o"
Obj(f) == [t |-> "o", v |-> f]
Empty == [x \in {} |-> 0]
SmallSubsets(K, n) == {S \in SUBSET K : Cardinality(S) <= n}
Objs(K, V, n) == {Obj(f) : f \in UNION {[S -> V] : S \in SmallSubsets(K, n)}}
V1 == Atoms \cup Objs(KeySet, Atoms, MaxInner)
V2 == Objs(KeySet, V1, MaxTop)

-----------------------------------------------------------------------------
(* paths *)
Dot == "."
Bsl == "\\"
RECURSIVE Esc(_)
Esc(s) == IF s = <<>> THEN <<>>
          ELSE IF Head(s) \in {Dot, Bsl} THEN <<Bsl, Head(s)>> \o Esc(Tail(s))
          ELSE <<Head(s)>> \o Esc(Tail(s))
Seg(s) == IF Scheme = "escaped" THEN Esc(s) ELSE s
RECURSIVE Join(_)
Join(segs) == IF Len(segs) = 1 THEN Seg(segs[1]) ELSE Seg(segs[1]) \o <<Dot>> \o Join(Tail(segs))

\* split a path into segments; acc = segment being collected
RECURSIVE SplitN(_, _), SplitE(_, _)
SplitN(p, acc) == IF p = <<>> THEN <<acc>>
                  ELSE IF Head(p) = Dot THEN <<acc>> \o SplitN(Tail(p), <<>>)
                  ELSE SplitN(Tail(p), Append(acc, Head(p)))
SplitE(p, acc) == IF p = <<>> THEN <<acc>>
                  ELSE IF Head(p) = Bsl /\ Len(p) >= 2 THEN SplitE(Tail(Tail(p)), Append(acc, p[2]))
                  ELSE IF Head(p) = Dot THEN <<acc>> \o SplitE(Tail(p), <<>>)
                  ELSE SplitE(Tail(p), Append(acc, Head(p)))
Split(p) == IF Scheme = "escaped" THEN SplitE(p, <<>>)
            ELSE IF p = <<>> THEN <<>> ELSE SplitN(p, <<>>)

-----------------------------------------------------------------------------
(* compute *)
\* host-language equality of the naive scheme: true == 1, false == 0
PyEq(x, y) == \/ x = y
              \/ (x.t \in {"i", "b"} /\ y.t \in {"i", "b"} /\ x.v = y.v)
Same(x, y) == IF Scheme = "escaped" THEN x = y ELSE PyEq(x, y)

RECURSIVE Walk(_, _, _)
Walk(b, c, pre) ==
    LET bk == DOMAIN b
        ck == DOMAIN c
        both == bk \cap ck
        nested == {k \in both : IsObj(b[k]) /\ IsObj(c[k])}
        subs == {Walk(b[k].v, c[k].v, Append(pre, k)) : k \in nested}
    IN [adds |-> {<<Join(Append(pre, k)), c[k]>> : k \in ck \ bk} \cup UNION {s.adds : s \in subs},
        mods |-> {<<Join(Append(pre, k)), c[k]>> : k \in {k \in both \ nested : ~Same(b[k], c[k])}}
                   \cup UNION {s.mods : s \in subs},
        dels |-> {Join(Append(pre, k)) : k \in bk \ ck} \cup UNION {s.dels : s \in subs}]
Compute(b, c) == Walk(b.v, c.v, <<>>)

-----------------------------------------------------------------------------
(* apply *)
Put(f, k, x) == [y \in DOMAIN f \cup {k} |-> IF y = k THEN x ELSE f[y]]
Del(f, k) == [y \in DOMAIN f \ {k} |-> f[y]]
RECURSIVE SetPath(_, _, _), DelPath(_, _)
SetPath(f, ks, x) ==
    IF ks = <<>> THEN f
    ELSE IF Len(ks) = 1 THEN Put(f, ks[1], x)
    ELSE LET nxt == IF ks[1] \in DOMAIN f /\ IsObj(f[ks[1]]) THEN f[ks[1]].v ELSE Empty
         IN Put(f, ks[1], Obj(SetPath(nxt, Tail(ks), x)))
DelPath(f, ks) ==
    IF ks = <<>> THEN f
    ELSE IF Len(ks) = 1 THEN Del(f, ks[1])
    ELSE IF ks[1] \in DOMAIN f /\ IsObj(f[ks[1]])
         THEN Put(f, ks[1], Obj(DelPath(f[ks[1]].v, Tail(ks))))
         ELSE f

\* deterministic application order: sorted by path (character order . < \ < a < b)
Ord(ch) == CASE ch = Dot -> 1 [] ch = Bsl -> 2 [] ch = "a" -> 3 [] ch = "b" -> 4 [] OTHER -> 5
RECURSIVE LexLess(_, _)
LexLess(p, r) == IF r = <<>> THEN FALSE
                 ELSE IF p = <<>> THEN TRUE
                 ELSE IF Ord(Head(p)) # Ord(Head(r)) THEN Ord(Head(p)) < Ord(Head(r))
                 ELSE LexLess(Tail(p), Tail(r))
PairLess(x, y) == LexLess(x[1], y[1])
RECURSIVE ApplySeq(_, _), ApplyDels(_, _)
ApplySeq(f, s) == IF s = <<>> THEN f ELSE ApplySeq(SetPath(f, Split(Head(s)[1]), Head(s)[2]), Tail(s))
ApplyDels(f, s) == IF s = <<>> THEN f ELSE ApplyDels(DelPath(f, Split(Head(s))), Tail(s))
Apply(b, d) ==
    LET f1 == ApplySeq(b.v, SetToSortSeq(d.adds, PairLess))
        f2 == ApplySeq(f1, SetToSortSeq(d.mods, PairLess))
        f3 == ApplyDels(f2, SetToSortSeq(d.dels, LexLess))
    IN Obj(f3)

-----------------------------------------------------------------------------
Init == base \in V2 /\ cur \in V2
Next == FALSE
Spec == Init /\ [][Next]_vars

Rebuilt == Apply(base, Compute(base, cur))
RoundTrip == Rebuilt = cur
\* the three parts of a delta address pairwise different places (escaped scheme)
PathsDisjoint == LET d == Compute(base, cur)
                     ap == {x[1] : x \in d.adds}  mp == {x[1] : x \in d.mods}
                 IN ap \cap mp = {} /\ ap \cap d.dels = {} /\ mp \cap d.dels = {}
                    /\ Cardinality(ap) = Cardinality(d.adds) /\ Cardinality(mp) = Cardinality(d.mods)
SplitJoinInverse == \A k1, k2 \in KeySet : Split(Join(<<k1, k2>>)) = <<k1, k2>> /\ Split(Join(<<k1>>)) = <<k1>>
NoChangeEmptyDelta == (base = cur) => LET d == Compute(base, cur) IN d.adds = {} /\ d.mods = {} /\ d.dels = {}

\* JSON rendering for replay: objects as sequences of <<key-chars, value>> pairs
RECURSIVE Ser(_)
Ser(x) == IF IsObj(x) THEN [t |-> "o", kv |-> SetToSeq({<<k, Ser(x.v[k])>> : k \in DOMAIN x.v})]
          ELSE [t |-> x.t, v |-> x.v]
EmitCase == PrintT(<<"T", ToJson([base |-> Ser(base), cur |-> Ser(cur), rebuilt |-> Ser(Rebuilt)])>>)
=============================================================================
