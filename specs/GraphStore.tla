----------------------------- MODULE GraphStore -----------------------------
(* In-memory concept graph store (clematis.graph.store.InMemoryGraphStore) — extra X03, beyond the
   listed properties.  The store is the state T1 reads and T4/apply writes; its version etag keys the
   T1 result cache (C05 relies on "etag changes whenever anything T1 reads changes").

   One graph.  Abstract state:
     nodes : id -> [label, tag]      (tag: 0 = no tags; the real node carries attrs.tags)
     edges : id -> [src, dst, w, rel]
   The etag is modelled as the content itself (the most discriminating etag); the harness compares the
   EQUALITY RELATION of real etags along a behaviour with the equality relation of contents:
     EtagTracksContent   etag_i = etag_j  <=>  content_i = content_j      (up to hash collisions)
   Operations (one action each, batch semantics = left-to-right, last write wins):
     UpsertNodes(batch)  UpsertEdges(batch)
     ApplyDeltas(batch)  recognised ops: upsert_edge (default id "e:<src>-><dst>", default rel
                         "associates"), upsert_node (an existing node is kept as it is; a new one gets
                         label = given label or its id); anything else is ignored and not counted;
                         report.edits = number of recognised ops.
   Derived views: csr[src] = outgoing (dst, edge) pairs, csc[dst] = incoming; both list every edge
   exactly once and have exactly the sources / destinations as keys.                            *)
EXTENDS Integers, Sequences, FiniteSets, TLC, Json

CONSTANTS NodeIds, EdgeIds, Labels, Weights, Rels, MaxBatch, MaxLen

VARIABLES nodes, edges, h
vars == <<nodes, edges, h>>

NodeRec == [label : Labels, tag : {0, 1}]
EdgeRec == [src : NodeIds, dst : NodeIds, w : Weights, rel : Rels]

\* delta ops: kind 1 = upsert_edge with explicit id, 2 = upsert_edge without id (default id), 3 = upsert_node with
\* label, 4 = upsert_node without label, 5 = unknown op
DeltaOps == [kind : {1}, id : EdgeIds, src : NodeIds, dst : NodeIds, w : Weights]
            \cup [kind : {2}, src : NodeIds, dst : NodeIds, w : Weights]
            \cup [kind : {3}, id : NodeIds, label : Labels]
            \cup [kind : {4}, id : NodeIds]
            \cup [kind : {5}]

SeqsUpTo(S, n) == UNION {[1..k -> S] : k \in 0..n}

\* default edge id for (src, dst): modelled as the pair itself, a key space disjoint from EdgeIds
DefaultId(s, d) == <<"e", s, d>>

RECURSIVE FoldNodes(_, _, _)
FoldNodes(m, b, i) == IF i > Len(b) THEN m
                      ELSE FoldNodes([x \in DOMAIN m \cup {b[i].id} |-> IF x = b[i].id THEN [label |-> b[i].label, tag |-> b[i].tag] ELSE m[x]], b, i + 1)
RECURSIVE FoldEdges(_, _, _)
FoldEdges(m, b, i) == IF i > Len(b) THEN m
                      ELSE FoldEdges([x \in DOMAIN m \cup {b[i].id} |-> IF x = b[i].id THEN [src |-> b[i].src, dst |-> b[i].dst, w |-> b[i].w, rel |-> b[i].rel] ELSE m[x]], b, i + 1)

Put(m, k, v) == [x \in DOMAIN m \cup {k} |-> IF x = k THEN v ELSE m[x]]

RECURSIVE FoldDeltas(_, _, _)
FoldDeltas(st, b, i) ==
    IF i > Len(b) THEN st
    ELSE LET d == b[i] IN
         IF d.kind = 1 THEN FoldDeltas([st EXCEPT !.e = Put(st.e, d.id, [src |-> d.src, dst |-> d.dst, w |-> d.w, rel |-> "associates"]), !.n = st.n + 1], b, i + 1)
         ELSE IF d.kind = 2 THEN FoldDeltas([st EXCEPT !.e = Put(st.e, DefaultId(d.src, d.dst), [src |-> d.src, dst |-> d.dst, w |-> d.w, rel |-> "associates"]), !.n = st.n + 1], b, i + 1)
         ELSE IF d.kind = 3 THEN FoldDeltas([st EXCEPT !.v = IF d.id \in DOMAIN st.v THEN st.v ELSE Put(st.v, d.id, [label |-> d.label, tag |-> 0]), !.n = st.n + 1], b, i + 1)
         ELSE IF d.kind = 4 THEN FoldDeltas([st EXCEPT !.v = IF d.id \in DOMAIN st.v THEN st.v ELSE Put(st.v, d.id, [label |-> "=id", tag |-> 0]), !.n = st.n + 1], b, i + 1)
         ELSE FoldDeltas(st, b, i + 1)

Empty == [x \in {} |-> 0]
Init == nodes = Empty /\ edges = Empty /\ h = <<>>

Rec(op, batch, rep) == h' = Append(h, [op |-> op, batch |-> batch, edits |-> rep,
                                        nodes |-> nodes', edges |-> edges'])

UpsertNodes(b) == /\ nodes' = FoldNodes(nodes, b, 1) /\ edges' = edges /\ Rec("upsert_nodes", b, 0)
UpsertEdges(b) == /\ edges' = FoldEdges(edges, b, 1) /\ nodes' = nodes /\ Rec("upsert_edges", b, 0)
ApplyDeltas(b) == LET r == FoldDeltas([v |-> nodes, e |-> edges, n |-> 0], b, 1) IN
                  /\ nodes' = r.v /\ edges' = r.e /\ Rec("apply_deltas", b, r.n)

NodeBatch == SeqsUpTo([id : NodeIds, label : Labels, tag : {0, 1}], MaxBatch)
EdgeBatch == SeqsUpTo([id : EdgeIds, src : NodeIds, dst : NodeIds, w : Weights, rel : Rels], MaxBatch)
DeltaBatch == SeqsUpTo(DeltaOps, MaxBatch)

Next == /\ Len(h) < MaxLen
        /\ \/ \E b \in NodeBatch : UpsertNodes(b)
           \/ \E b \in EdgeBatch : UpsertEdges(b)
           \/ \E b \in DeltaBatch : ApplyDeltas(b)
Spec == Init /\ [][Next]_vars

\* design clauses
LastWriteWins == [][\A b \in NodeBatch : (UpsertNodes(b) /\ b # <<>>) =>
                      nodes'[b[Len(b)].id] = [label |-> b[Len(b)].label, tag |-> b[Len(b)].tag]]_vars
NodesNeverRemoved == [][DOMAIN nodes \subseteq DOMAIN nodes' /\ DOMAIN edges \subseteq DOMAIN edges']_vars
DeltaKeepsExistingNode == [][\A b \in DeltaBatch : ApplyDeltas(b) => \A x \in DOMAIN nodes : nodes'[x] = nodes[x]]_vars
EditsCountRecognised == h # <<>> /\ h[Len(h)].op = "apply_deltas" =>
                        h[Len(h)].edits = Cardinality({i \in 1..Len(h[Len(h)].batch) : h[Len(h)].batch[i].kind # 5})

View_ == <<nodes, edges>>
EmitAtEnd == (Len(h) = MaxLen) => PrintT(<<"T", ToJson([h |-> h])>>)
=============================================================================
