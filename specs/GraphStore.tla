----------------------------- MODULE GraphStore -----------------------------
(* In-memory concept graph store (clematis.graph.store.InMemoryGraphStore) — extra X03, beyond the
   listed properties.  The store is the state T1 reads and T4/apply writes; its version etag keys the
   T1 result cache (C05 relies on "etag changes whenever anything T1 reads changes").

   One graph.  Abstract state:
     nodes : id -> [label, tag]      (tag: 0 = no tags; the real node carries attrs.tags)
     edges : id -> [src, dst, w, rel]
   norder / eorder : the iteration order of the ids (insertion order; an upsert of an existing id keeps its place).
   The etag is modelled as the whole abstract state (content AND iteration order: T1 reads both); the
   harness compares the EQUALITY RELATION of real etags with the equality relation of abstract states:
     EtagTracksState   etag_i = etag_j  <=>  state_i = state_j      (up to hash collisions)
   Operations (one action each, batch semantics = left-to-right, last write wins):
     UpsertNodes(batch)  UpsertEdges(batch)
     ApplyDeltas(batch)  recognised ops: upsert_edge (default id "e:<src>-><dst>", default rel
                         "associates"), upsert_node (an existing node is kept as it is; a new one gets
                         label = given label or its id); anything else is ignored and not counted;
                         report.edits = number of recognised ops.
   Derived views: csr[src] = outgoing (dst, edge) pairs, csc[dst] = incoming; both list every edge
   exactly once and have exactly the sources / destinations as keys.                            *)
EXTENDS Integers, Sequences, FiniteSets, TLC, Json

CONSTANTS NodeIds, EdgeIds, Labels, Weights, Rels, MaxBatch, MaxLen

NodeRec == [label : Labels, tag : {0, 1}]
EdgeRec == [src : NodeIds, dst : NodeIds, w : Weights, rel : Rels]

VARIABLES nodes, edges, norder, eorder, last
vars == <<nodes, edges, norder, eorder, last>>

\* delta ops: kind 1 = upsert_edge with explicit id, 2 = upsert_edge without id (default id), 3 = upsert_node with
\* label, 4 = upsert_node without label, 5 = unknown op
DeltaOps == [kind : {1}, id : EdgeIds, src : NodeIds, dst : NodeIds, w : Weights]
            \cup [kind : {2}, src : NodeIds, dst : NodeIds, w : Weights]
            \cup [kind : {3}, id : NodeIds, label : Labels]
            \cup [kind : {4}, id : NodeIds]
            \cup [kind : {5}]

SeqsUpTo(S, n) == UNION {[1..k -> S] : k \in 0..n}

\* default edge id for (src, dst): the pair itself, a key space disjoint from EdgeIds ("e:<src>-><dst>" in the code)
DefaultId(s, d) == "e:" \o s \o "->" \o d

Put(m, k, v) == [x \in DOMAIN m \cup {k} |-> IF x = k THEN v ELSE m[x]]
\* iteration order = insertion order of the ids; re-upserting an existing id keeps its position
Ins(ord, k) == IF \E i \in 1..Len(ord) : ord[i] = k THEN ord ELSE Append(ord, k)

RECURSIVE FoldNodes(_, _, _)
FoldNodes(st, b, i) == IF i > Len(b) THEN st
                       ELSE FoldNodes([v |-> Put(st.v, b[i].id, [label |-> b[i].label, tag |-> b[i].tag]), o |-> Ins(st.o, b[i].id)], b, i + 1)
RECURSIVE FoldEdges(_, _, _)
FoldEdges(st, b, i) == IF i > Len(b) THEN st
                       ELSE FoldEdges([e |-> Put(st.e, b[i].id, [src |-> b[i].src, dst |-> b[i].dst, w |-> b[i].w, rel |-> b[i].rel]), o |-> Ins(st.o, b[i].id)], b, i + 1)

RECURSIVE FoldDeltas(_, _, _)
FoldDeltas(st, b, i) ==
    IF i > Len(b) THEN st
    ELSE LET d == b[i] IN
         IF d.kind = 1 THEN FoldDeltas([st EXCEPT !.e = Put(st.e, d.id, [src |-> d.src, dst |-> d.dst, w |-> d.w, rel |-> "associates"]),
                                                  !.eo = Ins(st.eo, d.id), !.n = st.n + 1], b, i + 1)
         ELSE IF d.kind = 2 THEN FoldDeltas([st EXCEPT !.e = Put(st.e, DefaultId(d.src, d.dst), [src |-> d.src, dst |-> d.dst, w |-> d.w, rel |-> "associates"]),
                                                       !.eo = Ins(st.eo, DefaultId(d.src, d.dst)), !.n = st.n + 1], b, i + 1)
         ELSE IF d.kind \in {3, 4}
              THEN FoldDeltas([st EXCEPT !.v = IF d.id \in DOMAIN st.v THEN st.v
                                               ELSE Put(st.v, d.id, [label |-> IF d.kind = 3 THEN d.label ELSE "=id", tag |-> 0]),
                                         !.vo = Ins(st.vo, d.id), !.n = st.n + 1], b, i + 1)
         ELSE FoldDeltas(st, b, i + 1)

Empty == [x \in {} |-> 0]
Init == nodes = Empty /\ edges = Empty /\ norder = <<>> /\ eorder = <<>> /\ last = [op |-> "init"]

UpsertNodes(b) == LET r == FoldNodes([v |-> nodes, o |-> norder], b, 1) IN
                  /\ nodes' = r.v /\ norder' = r.o /\ UNCHANGED <<edges, eorder>>
                  /\ last' = [op |-> "upsert_nodes", batch |-> b, edits |-> 0]
UpsertEdges(b) == LET r == FoldEdges([e |-> edges, o |-> eorder], b, 1) IN
                  /\ edges' = r.e /\ eorder' = r.o /\ UNCHANGED <<nodes, norder>>
                  /\ last' = [op |-> "upsert_edges", batch |-> b, edits |-> 0]
ApplyDeltas(b) == LET r == FoldDeltas([v |-> nodes, vo |-> norder, e |-> edges, eo |-> eorder, n |-> 0], b, 1) IN
                  /\ nodes' = r.v /\ norder' = r.vo /\ edges' = r.e /\ eorder' = r.eo
                  /\ last' = [op |-> "apply_deltas", batch |-> b, edits |-> r.n]

NodeBatch == SeqsUpTo([id : NodeIds, label : Labels, tag : {0, 1}], MaxBatch)
EdgeBatch == SeqsUpTo([id : EdgeIds, src : NodeIds, dst : NodeIds, w : Weights, rel : Rels], MaxBatch)
DeltaBatch == SeqsUpTo(DeltaOps, MaxBatch)

Next == /\ TLCGet("level") <= MaxLen
        /\ \/ \E b \in NodeBatch : UpsertNodes(b)
           \/ \E b \in EdgeBatch : UpsertEdges(b)
           \/ \E b \in DeltaBatch : ApplyDeltas(b)
Spec == Init /\ [][Next]_vars

\* design clauses
OrdersAreTheDomains == /\ {norder[i] : i \in 1..Len(norder)} = DOMAIN nodes /\ Len(norder) = Cardinality(DOMAIN nodes)
                       /\ {eorder[i] : i \in 1..Len(eorder)} = DOMAIN edges /\ Len(eorder) = Cardinality(DOMAIN edges)
NothingRemoved == [][DOMAIN nodes \subseteq DOMAIN nodes' /\ DOMAIN edges \subseteq DOMAIN edges'
                     /\ SubSeq(norder', 1, Len(norder)) = norder /\ SubSeq(eorder', 1, Len(eorder)) = eorder]_vars
DeltaKeepsExistingNode == [][last'.op = "apply_deltas" => \A x \in DOMAIN nodes : nodes'[x] = nodes[x]]_vars
\* (an action property: `last` is hidden by the VIEW, and TLC evaluates state invariants only on states that are new
\* under the view, but action properties on every transition)
EditsCountRecognised == [][last'.op = "apply_deltas" =>
                           last'.edits = Cardinality({i \in 1..Len(last'.batch) : last'.batch[i].kind # 5})]_vars

View_ == <<nodes, edges, norder, eorder>>
Emit == PrintT(<<"T", ToJson([pre |-> [nodes |-> nodes, edges |-> edges, norder |-> norder, eorder |-> eorder],
                              obs |-> last',
                              post |-> [nodes |-> nodes', edges |-> edges', norder |-> norder', eorder |-> eorder']])>>)
=============================================================================
