----------------------------- MODULE Propagation -----------------------------
(* T1 graph propagation (clematis.engine.stages.t1: t1_propagate / _t1_one_graph), one graph, written
   as a step-wise algorithm from the DOCUMENTED rule (C12).  Where each rule is stated:

   [P]   property C12 text: seeds = nodes whose label or tag occurs in the input text; activation
         spreads along edges as weight x relation multiplier x distance decay; only nodes reachable
         from a seed within the radius and layer caps; pop / layer / relaxation / per-node budgets,
         tighter per-slice caps; each touched node once, in id order per graph; counters match the
         work; the store is never modified.
   [MK]  t1._match_keywords docstring: "case-insensitive, deterministic. Iterates labels sorted by
         their lowercase form to ensure stable seeding order"; a seed gets activation 1.0 (max-merge).
   [CY]  configs/config.yaml `t1:` block = documented defaults: decay {mode exp_floor, rate, floor},
         edge_type_mult {supports 1.0, associates 0.6, contradicts 0.8}, iter_cap, node_budget 1.5,
         queue_budget, radius_cap 4.  docs/operator-guide.md §3 repeats the decay block.
   [T1c] comments in t1.py: "max-heap by remaining magnitude"; "Effective depth cap:
         min(iter_cap_layers, iter_cap)"; "Optional hard cap on number of relaxations (edge
         traversals)"; "M5 scheduler slice caps (optional, read-only clamps)"; "Frontier cap acts in
         addition to effective_queue_budget; take the stricter bound"; "times we skipped due to
         iter_cap_layers"; "unique layers beyond seeds we actually explored".
   [TT]  tests/test_t1_stage.py docstrings: "PQ tie-break set to node id"; "radius_cap=0: neighbors
         at depth 1 must not be expanded/emitted ... radius_cap_hits > 0"; "seed acc=1.0 >= 0.5
         triggers budget ... node_budget_hits > 0 and only the seed in deltas"; "iter_cap caps layers
         beyond seeds"; "relax_cap limits total relaxations (edge traversals). With relax_cap=1 and
         three neighbors, exactly one neighbor should be affected".
   [SC]  examples/scheduler/*.yaml: budgets t1_iters ("whole levels of pops"), t1_pops.
   [PF]  configs/config.yaml perf block + util/ring.py, util/lru_det.py docstrings: frontier/visited
         max sizes with deterministic eviction, ring buffer for recent-node dedupe ("short-horizon
         push dedupe"), visited = FIFO set on first insertion, "one-shot visits".
   [D4]  /verif/DESIGN.md §4 C12 (interpretive decision): a node whose accumulated |activation| has
         reached node_budget is neither expanded nor re-queued; the accumulated value may exceed the
         budget through a single large contribution.  Relax per out-edge in insertion order.
   Stated only by the code (no prose): decay formulas max(rate^d, floor) and 1/(1+alpha d^2) [names
   exp_floor / attn_quad are documented]; d = hop distance of the edge's source (least known) + 1;
   multiplier 0.6 for a relation missing from the table (= documented default of "associates");
   EPS = 1e-6 cut-off for a single contribution and for reporting a node.  They are written here as
   constants, never imported.

   Relaxation budget: "hard cap on the number of relaxations" is read as: a relaxation is performed
   only while fewer than relax_cap have been performed, and propagation ends as soon as the count
   reaches the cap (for relax_cap >= 1 this is "stop right after the relaxation that reaches the
   cap"; for relax_cap = 0 no relaxation is ever performed).  Where exactly an exhausted budget is
   noticed is stated by the code only: when the next out-edge is looked at, before the radius / layer
   / EPS tests of that edge (this matters for relax_cap = 0 alone: propagation ends at the first
   out-edge of the first expanded node, so no radius or layer hit is counted for it).  An earlier
   version of this spec tested the budget after those skips; the thorough tier then disagreed with
   the code on rhits / lhits / pops for relax_cap = 0 worlds whose first edges lie beyond the radius -
   a demand the property does not make (DESIGN.md §9.3).  RelaxBudget (props <= relax_cap) is an
   invariant of this machine.

   Numbers: activation values are integers in units of 1/D.  D = 2^22 ("dyadic" worlds: all factors
   are +-2^-k or 3, so the implementation's doubles are exact) or D = 2^12 5^3 (documented default
   multipliers 3/5, 4/5 and attn_quad 1/5, 1/10; F5 = 125).  A world in which a division leaves the
   grid, or in which the pop order / a budget comparison hinges on an exact tie between values that
   carry a non-dyadic factor, is flagged (`guard`) and excluded from exact conformance (DESIGN §2.4).

   Nodes are 1..N (integer order = order of the real ids).  Relations: 1 supports, 2 associates,
   3 contradicts, 4 = a relation missing from the multiplier table.                                *)
EXTENDS Integers, Sequences, FiniteSets, TLC, Json

CONSTANTS N,          \* nodes 1..N
          Worlds      \* tuple of families; a family is a set of worlds [grid, g, lab, tag, cp] (see WorldProduct)

NoCap == 99999        \* "absent" (slice caps, relax_cap, perf caps off are 0)
Nodes == 1..N

VARIABLES grid,          \* "dyadic" (D = 2^22, configured multipliers 1, 1/2, 1/4) | "five" (D = 2^12 5^3, built-in table)
          g,             \* edge list: sequence of [s, d, w = <<num, den>>, r]
          lab, tag,      \* nodes whose label / one of whose tags occurs in the lower-cased text
          cp,            \* caps and decay settings (see CapProduct)
          pc, heap, acc, dist, cnt, cur, ring, vis, \* the running algorithm
          guard, hist, last, out
vars == <<grid, g, lab, tag, cp, pc, heap, acc, dist, cnt, cur, ring, vis, guard, hist, last, out>>

-----------------------------------------------------------------------------
(* helpers to build worlds in configurations *)
D == IF grid = "dyadic" THEN 4194304 ELSE 512000      \* fixed-point unit
F5 == IF grid = "dyadic" THEN 1 ELSE 125                \* its 5-part: v is dyadic iff v % F5 = 0
MultMode == IF grid = "dyadic" THEN "dyadic" ELSE "default"

AllShapes(k, maxE) == UNION {[1..n -> (1..k) \X (1..k)] : n \in 0..maxE}
\* every edge <<1,1>>/supports except one, which ranges over W x R
DressOne(shapes, W, R) ==
    UNION {{[i \in 1..Len(sh) |-> [s |-> sh[i][1], d |-> sh[i][2], w |-> IF i = k THEN x ELSE <<1, 1>>,
                                   r |-> IF i = k THEN y ELSE 1]] :
            k \in 1..Len(sh), x \in W, y \in R} : sh \in shapes}
WorldProduct(Gr, Gs, Ls, Ts, Cs) ==
    {[grid |-> gr, g |-> gg, lab |-> l, tag |-> t, cp |-> c] : gr \in Gr, gg \in Gs, l \in Ls, t \in Ts, c \in Cs}
Dress(shapes, W, R) ==
    UNION {{[i \in 1..Len(sh) |-> [s |-> sh[i][1], d |-> sh[i][2], w |-> wf[i], r |-> rf[i]]] :
            wf \in [1..Len(sh) -> W], rf \in [1..Len(sh) -> R]} : sh \in shapes}
\* nb: node budget in eighths; floor: <<num, den>>; fr/vis/ded: perf caps, 0 = off
CapProduct(Rad, It, Ly, SI, Q, SP, RX, NB, Fl, Md, Fr, Vi, De) ==
    {[radius |-> r, iter |-> i, layers |-> l, siter |-> si, queue |-> q, spops |-> sp, relax |-> rx,
      nb |-> nb, floor |-> fl, mode |-> md, fr |-> fr, vis |-> vi, ded |-> de] :
     r \in Rad, i \in It, l \in Ly, si \in SI, q \in Q, sp \in SP, rx \in RX, nb \in NB, fl \in Fl,
     md \in Md, fr \in Fr, vi \in Vi, de \in De}

-----------------------------------------------------------------------------
Abs(x) == IF x < 0 THEN -x ELSE x
MinI(a, b) == IF a < b THEN a ELSE b
MaxI(a, b) == IF a > b THEN a ELSE b
RECURSIVE Pow2(_)
Pow2(k) == IF k <= 0 THEN 1 ELSE 2 * Pow2(k - 1)
InSeq(s, x) == \E i \in 1..Len(s) : s[i] = x
SortedSeq(S) == CHOOSE s \in [1..Cardinality(S) -> S] : \A i, j \in 1..Cardinality(S) : i < j => s[i] < s[j]

\* v * q (q = <<num, den>>), truncated towards zero; exact iff the division leaves no remainder
Scale(v, q) == LET p == v * q[1] IN IF p >= 0 THEN p \div q[2] ELSE -((-p) \div q[2])
Exact(v, q) == (v * q[1]) % q[2] = 0

\* EPS = 1e-6 [code constant]: |v|/D < 1e-6  <=>  |v| < ceil(D / 10^6)
EpsUnits == (D + 999999) \div 1000000
BelowEps(v) == Abs(v) < EpsUnits

\* relation multipliers [CY]; a relation missing from the table counts 0.6 [code]
Mult(r) == IF MultMode = "default"
           THEN (CASE r = 1 -> <<1, 1>> [] r = 2 -> <<3, 5>> [] r = 3 -> <<4, 5>> [] OTHER -> <<3, 5>>)
           ELSE (CASE r = 1 -> <<1, 1>> [] r = 2 -> <<1, 2>> [] r = 3 -> <<1, 4>> [] r = 5 -> <<0, 1>> [] OTHER -> <<3, 5>>)
\* (r = 5: a relation configured with the multiplier 0 - it spreads nothing, unlike a relation MISSING from the table)

\* distance decay [CY names, code formulas]; rate is 1/2 in every world, alpha is 1
Decay(d, c) == IF c.mode = "attn_quad" THEN <<1, 1 + d * d>>
               ELSE IF c.floor[1] * Pow2(d) > c.floor[2] THEN c.floor ELSE <<1, Pow2(d)>>

\* contribution = parent contribution x weight x relation multiplier x decay(d)   [P]
Contribution(c, e, d, c0) == Scale(Scale(Scale(c, e.w), Mult(e.r)), Decay(d, c0))
ContribExact(c, e, d, c0) == /\ Exact(c, e.w)
                             /\ Exact(Scale(c, e.w), Mult(e.r))
                             /\ Exact(Scale(Scale(c, e.w), Mult(e.r)), Decay(d, c0))

\* effective budgets: slice caps only tighten [T1c, SC]
PopCap(c)   == MinI(c.queue, c.spops)
LayerCap(c) == MinI(MinI(c.iter, c.layers), c.siter)
NBU(c)      == c.nb * (D \div 8)
FrontierCap(c) == IF c.fr > 0 THEN MinI(c.fr, PopCap(c)) ELSE NoCap     \* [T1c]

\* seeds [P, MK]
SeedSetOf(l, t) == l \cup t
\* position of a node's first matching keyword in the sorted keyword listing (labels sort before tags
\* in the concrete alphabet, each in node order)
SeedRank(n, l) == IF n \in l THEN n ELSE N + n
SeedOrderOf(l, t) ==
    LET S == SeedSetOf(l, t) IN
    CHOOSE s \in [1..Cardinality(S) -> S] :
        \A i, j \in 1..Cardinality(S) : i < j => SeedRank(s[i], l) < SeedRank(s[j], l)

\* max-heap by |contribution|, ties to the smaller node id, then to the smaller signed value [T1c, TT]
Item(n, c) == [n |-> n, c |-> c]
Before(a, b) == \/ Abs(a.c) > Abs(b.c)
                \/ (Abs(a.c) = Abs(b.c) /\ a.n < b.n)
                \/ (Abs(a.c) = Abs(b.c) /\ a.n = b.n /\ a.c < b.c)
Insert(h, it) == LET k == Cardinality({i \in 1..Len(h) : ~Before(it, h[i])})
                 IN SubSeq(h, 1, k) \o <<it>> \o SubSeq(h, k + 1, Len(h))

\* perf structures [PF]
RingAdd(r, x, k) == Append(IF Len(r) >= k THEN SubSeq(r, Len(r) - k + 2, Len(r)) ELSE r, x)
VisAdd(v, x, k) == IF InSeq(v, x) THEN v
                   ELSE LET v1 == Append(v, x) IN IF Len(v1) > k THEN SubSeq(v1, Len(v1) - k + 1, Len(v1)) ELSE v1

\* push with recent-node dedupe and frontier cap
PushF(h, r, it, c) ==
    IF c.ded > 0 /\ InSeq(r, it.n) THEN [heap |-> h, ring |-> r, dup |-> TRUE]
    ELSE LET h1 == Insert(h, it)
             fc == FrontierCap(c)
         IN [heap |-> IF Len(h1) > fc THEN SubSeq(h1, 1, fc) ELSE h1,
             ring |-> IF c.ded > 0 THEN RingAdd(r, it.n, c.ded) ELSE r,
             dup |-> FALSE]
RECURSIVE SeedPush(_, _, _, _)
SeedPush(order, h, r, c) ==
    IF order = <<>> THEN [heap |-> h, ring |-> r]
    ELSE LET p == PushF(h, r, Item(Head(order), D), c) IN SeedPush(Tail(order), p.heap, p.ring, c)

OutEdgesOf(gr, u) == SelectSeq([i \in 1..Len(gr) |-> i], LAMBDA i : gr[i].s = u)   \* insertion order [D4]

ZeroCnt == [pops |-> 0, layers |-> 0, props |-> 0, rhits |-> 0, lhits |-> 0, nhits |-> 0, maxd |-> 0,
            cut |-> 0, dups |-> 0]
ResultOf(a, c) == [touched |-> SortedSeq({n \in Nodes : ~BelowEps(a[n])}),
                   pops |-> c.pops, iters |-> c.layers, props |-> c.props, rhits |-> c.rhits,
                   lhits |-> c.lhits, nhits |-> c.nhits, maxd |-> c.maxd]
NoOut == [touched |-> <<>>, pops |-> 0, iters |-> 0, props |-> 0, rhits |-> 0, lhits |-> 0, nhits |-> 0,
          maxd |-> 0]
NoCur == [u |-> 0, c |-> 0, i |-> 0, a |-> 0]

Init == /\ \E i \in 1..Len(Worlds) : \E w \in Worlds[i] : grid = w.grid /\ g = w.g /\ lab = w.lab /\ tag = w.tag /\ cp = w.cp
        /\ pc = "init" /\ heap = <<>> /\ acc = [n \in Nodes |-> 0] /\ dist = [n \in Nodes |-> NoCap]
        /\ cnt = ZeroCnt /\ cur = NoCur /\ ring = <<>> /\ vis = <<>>
        /\ guard = "" /\ hist = <<>> /\ last = [op |-> "init"] /\ out = NoOut

-----------------------------------------------------------------------------
(* Seed: every matching node gets activation 1 and distance 0 and enters the heap; no seeds = no work *)
Seed ==
    /\ pc = "init"
    /\ LET S == SeedSetOf(lab, tag) IN
       IF S = {}
       THEN /\ pc' = "done" /\ out' = NoOut /\ last' = [op |-> "seed", seeds |-> S]
            /\ UNCHANGED <<heap, acc, dist, cnt, cur, ring, vis, guard, hist>>
       ELSE LET sp == SeedPush(SeedOrderOf(lab, tag), <<>>, <<>>, cp) IN
            /\ heap' = sp.heap /\ ring' = sp.ring
            /\ acc' = [n \in Nodes |-> IF n \in S THEN D ELSE 0]
            /\ dist' = [n \in Nodes |-> IF n \in S THEN 0 ELSE NoCap]
            /\ cnt' = [cnt EXCEPT !.maxd = D]
            /\ pc' = "pop" /\ last' = [op |-> "seed", seeds |-> S]
            /\ UNCHANGED <<cur, vis, guard, hist, out>>
    /\ UNCHANGED <<grid, g, lab, tag, cp>>

(* Pop: take the largest remaining |contribution|; counts against the pop budget; a node already
   "visited" (perf cap) is skipped; a node at or above its budget is not expanded [D4] *)
Pop ==
    /\ pc = "pop" /\ heap # <<>> /\ cnt.pops < PopCap(cp)
    /\ LET it == heap[1]
           u == it.n
           seen == cp.vis > 0 /\ InSeq(vis, u)
           layer == dist[u]
           es == OutEdgesOf(g, u)
           tie == /\ Len(heap) >= 2 /\ heap[2] # it /\ Abs(heap[2].c) = Abs(it.c)
                  /\ (it.c % F5 # 0 \/ heap[2].c % F5 # 0)
           over == Abs(acc[u]) >= NBU(cp)
           hinge == Abs(acc[u]) = NBU(cp) /\ acc[u] % F5 # 0
       IN /\ heap' = Tail(heap)
          /\ guard' = IF guard = "" /\ (tie \/ hinge) THEN "tie" ELSE guard
          /\ IF seen
             THEN /\ cnt' = [cnt EXCEPT !.pops = @ + 1]
                  /\ hist' = Append(hist, [k |-> "skip", n |-> u, layer |-> layer, c |-> it.c])
                  /\ last' = [op |-> "pop", n |-> u, expand |-> FALSE]
                  /\ pc' = "pop" /\ UNCHANGED <<cur, vis>>
             ELSE /\ vis' = IF cp.vis > 0 THEN VisAdd(vis, u, cp.vis) ELSE vis
                  /\ cnt' = [cnt EXCEPT !.pops = @ + 1, !.layers = MaxI(@, layer),
                                        !.nhits = IF over THEN @ + 1 ELSE @]
                  /\ hist' = Append(hist, [k |-> "pop", n |-> u, layer |-> layer, c |-> it.c])
                  /\ IF over \/ es = <<>>
                     THEN /\ pc' = "pop" /\ UNCHANGED cur
                          /\ last' = [op |-> "pop", n |-> u, expand |-> FALSE]
                     ELSE /\ pc' = "relax" /\ cur' = [u |-> u, c |-> it.c, i |-> 1, a |-> acc[u]]
                          /\ last' = [op |-> "pop", n |-> u, expand |-> TRUE]
    /\ UNCHANGED <<grid, g, lab, tag, cp, acc, dist, ring, out>>

(* Relax the next out-edge of the node being expanded *)
Relax ==
    /\ pc = "relax"
    /\ LET es == OutEdgesOf(g, cur.u)
           e == g[es[cur.i]]
           v == e.d
           d == dist[cur.u] + 1
           c == Contribution(cur.c, e, d, cp)
           exact == ContribExact(cur.c, e, d, cp)
           inex == ~exact /\ Abs(c) + 3 >= EpsUnits
           adv == IF cur.i = Len(es) THEN "pop" ELSE "relax"
           cur2 == IF cur.i = Len(es) THEN NoCur ELSE [cur EXCEPT !.i = @ + 1]
       IN IF cp.relax # NoCap /\ cnt.props >= cp.relax         \* relaxation budget exhausted: checked when an out-edge
          THEN /\ pc' = "fin" /\ cur' = NoCur                   \* is looked at, before the radius / layer / EPS tests [code]
               /\ last' = [op |-> "relax", kind |-> "stop", v |-> v]
               /\ UNCHANGED <<heap, acc, dist, ring, cnt, guard, hist>>
          ELSE IF d > cp.radius                                \* radius cap [P, TT]
          THEN /\ cnt' = [cnt EXCEPT !.rhits = @ + 1] /\ pc' = adv /\ cur' = cur2
               /\ last' = [op |-> "relax", kind |-> "radius", v |-> v]
               /\ UNCHANGED <<heap, acc, dist, ring, guard, hist>>
          ELSE IF d > LayerCap(cp)                             \* layer cap [P, T1c, TT]
          THEN /\ cnt' = [cnt EXCEPT !.lhits = @ + 1] /\ pc' = adv /\ cur' = cur2
               /\ last' = [op |-> "relax", kind |-> "layer", v |-> v]
               /\ UNCHANGED <<heap, acc, dist, ring, guard, hist>>
          ELSE IF BelowEps(c) /\ ~inex                         \* EPS cut-off
          THEN /\ cnt' = [cnt EXCEPT !.cut = IF c # 0 \/ ~exact THEN @ + 1 ELSE @] /\ pc' = adv /\ cur' = cur2
               /\ last' = [op |-> "relax", kind |-> "eps", v |-> v]
               /\ UNCHANGED <<heap, acc, dist, ring, guard, hist>>
          ELSE LET a2 == acc[v] + c
                   under == Abs(a2) < NBU(cp)
                   p == IF under THEN PushF(heap, ring, Item(v, c), cp)
                        ELSE [heap |-> heap, ring |-> ring, dup |-> FALSE]
                   props2 == cnt.props + 1
                   hinge == Abs(a2) = NBU(cp) /\ (a2 % F5 # 0 \/ c % F5 # 0 \/ acc[v] % F5 # 0)
               IN /\ acc' = [acc EXCEPT ![v] = a2]
                  /\ dist' = [dist EXCEPT ![v] = MinI(@, d)]
                  /\ heap' = p.heap /\ ring' = p.ring
                  /\ cnt' = [cnt EXCEPT !.props = props2, !.maxd = MaxI(@, Abs(c)),
                                        !.nhits = IF under THEN @ ELSE @ + 1,
                                        !.dups = IF p.dup THEN @ + 1 ELSE @]
                  /\ guard' = IF guard # "" THEN guard ELSE IF inex THEN "inexact" ELSE IF hinge THEN "tie" ELSE ""
                  /\ hist' = Append(hist, [k |-> "relax", n |-> v, layer |-> d, c |-> c])
                  /\ last' = [op |-> "relax", kind |-> "spread", v |-> v, c |-> c, accv |-> a2,
                              pushed |-> (under /\ ~p.dup), dup |-> p.dup, under |-> under]
                  /\ IF cp.relax # NoCap /\ props2 >= cp.relax
                     THEN pc' = "fin" /\ cur' = NoCur
                     ELSE pc' = adv /\ cur' = cur2
    /\ UNCHANGED <<grid, g, lab, tag, cp, vis, out>>

(* Finish: report every node whose |activation| is at least EPS once, in id order, with the counters *)
Finish ==
    /\ \/ pc = "fin"
       \/ (pc = "pop" /\ (heap = <<>> \/ cnt.pops >= PopCap(cp)))
    /\ pc' = "done" /\ out' = ResultOf(acc, cnt) /\ last' = [op |-> "finish"]
    /\ UNCHANGED <<grid, g, lab, tag, cp, heap, acc, dist, cnt, cur, ring, vis, guard, hist>>

Next == Seed \/ Pop \/ Relax \/ Finish
Spec == Init /\ [][Next]_vars

-----------------------------------------------------------------------------
(* C12 clauses.  Budgets: invariants of every intermediate state *)
PopBudget == cnt.pops <= cp.queue /\ cnt.pops <= PopCap(cp)
LayerBudget == /\ cnt.layers <= LayerCap(cp)
               /\ \A n \in Nodes : dist[n] # NoCap => dist[n] <= LayerCap(cp) /\ dist[n] <= cp.radius
RelaxBudget == cp.relax = NoCap \/ cnt.props <= cp.relax
NodeBudgetStopsExpansion ==
    /\ pc = "relax" => Abs(cur.a) < NBU(cp)                          \* only nodes under budget are expanded
    /\ (last.op = "relax" /\ last.kind = "spread") =>
          /\ last.pushed => Abs(last.accv) < NBU(cp)                 \* only nodes under budget are re-queued
          /\ (~last.pushed /\ ~last.dup) => Abs(last.accv) >= NBU(cp)
SliceCapsTighten == /\ (cp.spops # NoCap => cnt.pops <= cp.spops)
                    /\ (cp.siter # NoCap => cnt.layers <= cp.siter)
                    /\ PopCap(cp) <= cp.queue /\ LayerCap(cp) <= cp.iter /\ LayerCap(cp) <= cp.layers
FrontierBound == Len(heap) <= FrontierCap(cp)
HeapSorted == \A i \in 1..(Len(heap) - 1) : ~Before(heap[i + 1], heap[i])

(* final-state clauses *)
Touched == {out.touched[i] : i \in 1..Len(out.touched)}
RECURSIVE ReachK(_, _, _)
ReachK(gr, S, k) == IF k = 0 THEN S
                    ELSE LET S2 == S \cup {gr[i].d : i \in {j \in 1..Len(gr) : gr[j].s \in S}}
                         IN IF S2 = S THEN S ELSE ReachK(gr, S2, k - 1)
InDeg(gr, n) == Cardinality({i \in 1..Len(gr) : gr[i].d = n})

TouchedOnceSortedPerGraph ==
    pc = "done" => \A i \in 1..(Len(out.touched) - 1) : out.touched[i] < out.touched[i + 1]
ReachableWithinCaps ==
    pc = "done" => Touched \subseteq ReachK(g, SeedSetOf(lab, tag), MinI(cp.radius, LayerCap(cp)))
SeedsExact ==
    pc = "done" =>
      LET S == SeedSetOf(lab, tag) IN
      /\ (S = {} => out = NoOut)
      /\ \A n \in Nodes : InDeg(g, n) = 0 => (n \in Touched <=> n \in S)
      /\ \A n \in S : dist[n] = 0

\* counters and activations recomputed from the log of work
RECURSIVE SumHist(_, _, _)
SumHist(h, k, n) == IF h = <<>> THEN 0
                    ELSE (IF Head(h).k = k /\ (n = 0 \/ Head(h).n = n) THEN Head(h).c ELSE 0) + SumHist(Tail(h), k, n)
CountK(h, K) == Cardinality({i \in 1..Len(h) : h[i].k \in K})
MaxOver(S) == IF S = {} THEN 0 ELSE CHOOSE x \in S : \A y \in S : x >= y
CountersMatchWork ==
    pc = "done" =>
      /\ out.pops = CountK(hist, {"pop", "skip"})
      /\ out.props = CountK(hist, {"relax"})
      /\ out.iters = MaxOver({hist[i].layer : i \in {j \in 1..Len(hist) : hist[j].k = "pop"}})
      /\ out.maxd = MaxI(IF SeedSetOf(lab, tag) = {} THEN 0 ELSE D,
                         MaxOver({Abs(hist[i].c) : i \in {j \in 1..Len(hist) : hist[j].k = "relax"}}))
      /\ \A n \in Nodes : acc[n] = (IF n \in SeedSetOf(lab, tag) THEN D ELSE 0) + SumHist(hist, "relax", n)
      /\ out.iters <= out.pops /\ (out.props > 0 => out.pops > 0)

\* SpreadRule against an independent recursive definition (acyclic worlds in which nothing was capped,
\* cut or stopped, and every node was expanded at its breadth-first distance)
RECURSIVE HopOf(_, _, _, _)
HopOf(gr, S, n, k) == IF n \in ReachK(gr, S, k) THEN k ELSE IF k >= N THEN NoCap ELSE HopOf(gr, S, n, k + 1)
Desc(gr, n) == ReachK(gr, {gr[i].d : i \in {j \in 1..Len(gr) : gr[j].s = n}}, N)
Acyclic(gr) == \A n \in Nodes : n \notin Desc(gr, n)
RECURSIVE SumF(_, _)
SumF(f, T) == IF T = {} THEN 0 ELSE LET t == CHOOSE t \in T : TRUE IN f[t] + SumF(f, T \ {t})
RECURSIVE Rec(_, _, _, _)
Rec(gr, S, c0, n) ==
    (IF n \in S THEN D ELSE 0)
    + LET ins == {i \in 1..Len(gr) : gr[i].d = n /\ HopOf(gr, S, gr[i].s, 0) # NoCap}
          f == [i \in ins |-> Contribution(Rec(gr, S, c0, gr[i].s), gr[i], HopOf(gr, S, gr[i].s, 0) + 1, c0)]
      IN SumF(f, ins)
SpreadApplicable ==
    /\ pc = "done" /\ Acyclic(g) /\ guard = "" /\ heap = <<>>
    /\ cnt.rhits = 0 /\ cnt.lhits = 0 /\ cnt.nhits = 0 /\ cnt.cut = 0
    /\ cp.fr = 0 /\ cp.vis = 0 /\ cp.ded = 0
    /\ (cp.relax = NoCap \/ cnt.props < cp.relax)
    /\ \A i \in 1..Len(hist) : hist[i].k = "pop" => hist[i].layer = HopOf(g, SeedSetOf(lab, tag), hist[i].n, 0)
SpreadRule ==
    SpreadApplicable => \A n \in Nodes : acc[n] = Rec(g, SeedSetOf(lab, tag), cp, n)

\* each spreading step adds exactly one contribution (per-step form of the rule)
SpreadStep == (last.op = "relax" /\ last.kind = "spread") =>
                 /\ ~BelowEps(last.c) \/ guard # ""
                 /\ cnt.maxd >= Abs(last.c)

-----------------------------------------------------------------------------
EmitCase ==
    pc = "done" =>
      PrintT(<<"T", ToJson([grid |-> grid, g |-> g, lab |-> lab, tag |-> tag, cp |-> cp, out |-> out, guard |-> guard,
                            applicable |-> SpreadApplicable, cut |-> cnt.cut, dups |-> cnt.dups,
                            stopped |-> (cp.relax # NoCap /\ cnt.props >= cp.relax),
                            left |-> Len(heap)])>>)
=============================================================================
