------------------------------ MODULE GelTrace ------------------------------
(* Batch trace validation (C->S) for the GEL rules: executions recorded from the real
   clematis.engine.gel functions (seeded random histories with arbitrary float scores, alphas,
   clamp ranges, floors and half-lives; real orchestrator turns) are judged clause by clause.
   Doubles are logged as [s, h, m, l]: sign (2 = NaN; zero always with sign 0) and the 63 magnitude
   bits of the IEEE-754 pattern in three 21-bit limbs, so <=, <, = on the implementation's floats are
   decided exactly without arithmetic (DESIGN 2.4).  Ids are logged as ranks in the lexicographic
   order of the real id strings.  One trace per NDJSON line:
     [tid, c: config, ev: <<event>>]
     config: lo, hi, floor, thr (doubles), topk, cap (ints)
     event : op in {"init","observe","tick","merge","split","promote","repromote"}, gate,
             edges = <<[ks, kd (ids parsed from the key), s, d (src/dst fields), idok (id field = key),
                        rel (0 coact, 1 concept), w (double), c (co-activation counter)]>>,
             nodes = <<[r (id), k (1 = concept node with a "c::" id)]>>,
             ml = <<#merges, #splits>>, tok = digests of the two lists, ptok = digests of their first
             pn = <<..>> entries (prefix check);
             observe: items <<[id, score]>>, pairs, kused (returned metrics), permok (all listings agree);
             tick: dt0 (dt = 0), half (dt = half-life: factor exactly 1/2).
   Verdicts are total: the first failing clause of a trace is printed ("Clause:cause") and the next
   trace starts.                                                                                *)
EXTENDS GelCore, Json, IOUtils

Traces == ndJsonDeserialize(IOEnv.TRACE_FILE)

VARIABLES tid, l, pv      \* pv: the previous event (its post-state)
tvars == <<tid, l, pv>>

-----------------------------------------------------------------------------
(* exact order on encoded doubles *)
IsNaN(a) == a.s = 2
MagLT(a, b) == a.h < b.h \/ (a.h = b.h /\ (a.m < b.m \/ (a.m = b.m /\ a.l < b.l)))
MagEQ(a, b) == a.h = b.h /\ a.m = b.m /\ a.l = b.l
MagLE(a, b) == MagLT(a, b) \/ MagEQ(a, b)
IsZero(a) == a.h = 0 /\ a.m = 0 /\ a.l = 0
FEQ(a, b) == ~IsNaN(a) /\ ~IsNaN(b) /\ a.s = b.s /\ MagEQ(a, b)
FLT(a, b) == /\ ~IsNaN(a) /\ ~IsNaN(b)
             /\ IF a.s = 1 THEN (IF b.s = 1 THEN MagLT(b, a) ELSE TRUE)
                ELSE (b.s = 0 /\ MagLT(a, b))
FLE(a, b) == FLT(a, b) \/ FEQ(a, b)
Same(a, b) == a.s = b.s /\ MagEQ(a, b)                \* identical value (NaN = NaN)
One == [s |-> 0, h |-> 1047552, m |-> 0, l |-> 0]     \* 1.0 = 0x3FF0000000000000
Zero == [s |-> 0, h |-> 0, m |-> 0, l |-> 0]
AbsLE1(a) == ~IsNaN(a) /\ MagLE(a, One)
\* exact halving of a normal double whose half is normal: exponent field (h \div 1024) minus one
HalfKnown(a) == ~IsNaN(a) /\ (IsZero(a) \/ (a.h >= 2048 /\ a.h < 2047 * 1024))
Half(a) == IF IsZero(a) THEN a ELSE [a EXCEPT !.h = a.h - 1024]

-----------------------------------------------------------------------------
Rng(s) == {s[i] : i \in 1..Len(s)}
KeyOf(x) == <<x.s, x.d>>
Keys(ev) == {KeyOf(x) : x \in Rng(ev.edges)}
Rec(ev, k) == CHOOSE x \in Rng(ev.edges) : KeyOf(x) = k
SameEdge(x, y) == x.rel = y.rel /\ Same(x.w, y.w) /\ x.c = y.c
SameEdges(a, b) == Keys(a) = Keys(b) /\ \A k \in Keys(a) : SameEdge(Rec(a, k), Rec(b, k))
SameNodes(a, b) == Rng(a.nodes) = Rng(b.nodes)
SameMeta(a, b) == a.ml = b.ml /\ a.tok = b.tok
Untouched(a, b) == SameEdges(a, b) /\ SameNodes(a, b) /\ SameMeta(a, b)

\* canonical keys on the recorded store: key = "src->dst" with src <= dst, id = key, one record per pair
KeysOK(ev) ==
    /\ \A x \in Rng(ev.edges) : x.ks = x.s /\ x.kd = x.d /\ x.s > 0 /\ x.d > 0 /\ x.s <= x.d /\ x.idok
    /\ \A i, j \in 1..Len(ev.edges) : i # j => {ev.edges[i].s, ev.edges[i].d} # {ev.edges[j].s, ev.edges[j].d}

InClampF(w, c) == FLE(c.lo, w) /\ FLE(w, c.hi)
EdgeBounded(x, c) == IF x.rel = 0 THEN InClampF(x.w, c) ELSE AbsLE1(x.w)
ClampCause(w, c, op) ==
    IF IsNaN(w) THEN "nan-weight"
    ELSE IF op = "tick" /\ FLT(Zero, c.lo) /\ FLE(Zero, w) /\ FLT(w, c.lo) THEN "tick-below-clamp-min"
    ELSE IF op = "tick" /\ FLT(c.hi, Zero) /\ FLE(w, Zero) /\ FLT(c.hi, w) THEN "tick-above-clamp-max"
    ELSE op \o "-outside-clamp"

-----------------------------------------------------------------------------
(* observe: the documented selection evaluated on the logged doubles *)
ObserveClause(e, c) ==
    LET it == e.items
        Act(i) == FLE(c.thr, it[i][2])
        Bef(i, j) == FLT(it[j][2], it[i][2]) \/ (FEQ(it[i][2], it[j][2]) /\ it[i][1] < it[j][1])
        used == UsedOf(Len(it), Act, Bef, c.topk)
        ps == PairSeq(Len(used), c.cap)
        keys == [r \in 1..Len(ps) |-> Canon(it[used[ps[r][1]]][1], it[used[ps[r][2]]][1])]
        want == [k \in Rng(keys) |-> Cardinality({r \in 1..Len(keys) : keys[r] = k})]
        bump(k) == Rec(e, k).c - (IF k \in Keys(pv) THEN Rec(pv, k).c ELSE 0)
        touched == {k \in Keys(e) : k \notin Keys(pv) \/ ~SameEdge(Rec(e, k), Rec(pv, k))}
        IdAt(i) == it[i][1]
        top == TopIdsOf(Len(it), Act, Bef, c.topk, IdAt)
        outside == {k \in touched : ~InClampF(Rec(e, k).w, c)}
    IN IF ~(Keys(pv) \subseteq Keys(e)) THEN "ObserveAtMostPairCap:edge-removed"
       ELSE IF Cardinality(touched) > c.cap \/ e.pairs > c.cap \/ SumS([k \in touched |-> bump(k)], touched) > c.cap
            THEN "ObserveAtMostPairCap:cap-exceeded"
       ELSE IF \E k \in touched : k[1] \notin top \/ k[2] \notin top THEN "ObserveOnlyTopKAboveThreshold:outside-top-k"
       ELSE IF touched # DOMAIN want \/ (\E k \in touched : bump(k) # want[k]) \/ e.pairs # Len(keys) \/ e.kused # Len(used)
            THEN "ObserveOnlyTopKAboveThreshold:selection-differs"
       ELSE IF ~e.permok THEN "ObserveOrderInsensitive:listing-order"
       ELSE IF outside # {}
            THEN "WithinClamp:" \o ClampCause(Rec(e, CHOOSE k \in outside : TRUE).w, c, "observe")
       ELSE IF ~SameNodes(e, pv) \/ ~SameMeta(e, pv) THEN "MaintenanceOnlyAnnotatesOrAttaches:observe-touched-meta"
       ELSE ""

(* tick: monotone, no new edges, survivors at or above the floor, the dropped ones strictly smaller
   than every survivor (one common factor, multiplication is monotone); exact predictions for the
   factors 1 and 1/2 *)
TickClause(e, c) ==
    LET surv == Keys(e)
        gone == Keys(pv) \ surv
        nofloor == IsNaN(c.floor) \/ IsZero(c.floor)
        leave == {k \in surv : Rec(pv, k).rel = 0 /\ InClampF(Rec(pv, k).w, c) /\ ~InClampF(Rec(e, k).w, c)}
    IN IF ~(surv \subseteq Keys(pv)) THEN "TickNonIncreasing:edge-created"
       ELSE IF \E k \in surv : IsNaN(Rec(e, k).w) \/ ~MagLE(Rec(e, k).w, Rec(pv, k).w) THEN "TickNonIncreasing:magnitude-grew"
       ELSE IF \E k \in surv : Rec(e, k).rel # Rec(pv, k).rel \/ Rec(e, k).c # Rec(pv, k).c
                                \/ (~IsZero(Rec(e, k).w) /\ Rec(e, k).w.s # Rec(pv, k).w.s) THEN "TickNonIncreasing:edge-rewritten"
       ELSE IF ~nofloor /\ (\E k \in surv : MagLT(Rec(e, k).w, c.floor)) THEN "TickDropsExactlyBelowFloor:kept-below-floor"
       ELSE IF nofloor /\ gone # {} THEN "TickDropsExactlyBelowFloor:dropped-above-floor"
       ELSE IF \E k \in gone, j \in surv : ~MagLT(Rec(pv, k).w, Rec(pv, j).w) THEN "TickDropsExactlyBelowFloor:dropped-above-floor"
       ELSE IF e.dt0 /\ (\E k \in gone : ~MagLT(Rec(pv, k).w, c.floor)) THEN "TickDropsExactlyBelowFloor:dropped-above-floor"
       ELSE IF e.dt0 /\ (\E k \in surv : ~Same(Rec(e, k).w, Rec(pv, k).w)) THEN "TickDecayRule:factor-one"
       ELSE IF e.half /\ (\E k \in gone : HalfKnown(Rec(pv, k).w) /\ ~MagLT(Half(Rec(pv, k).w), c.floor))
            THEN "TickDropsExactlyBelowFloor:dropped-above-floor"
       ELSE IF e.half /\ (\E k \in surv : HalfKnown(Rec(pv, k).w) /\ ~MagEQ(Rec(e, k).w, Half(Rec(pv, k).w))) THEN "TickDecayRule:factor-half"
       ELSE IF leave # {}
            THEN "WithinClamp:" \o ClampCause(Rec(e, CHOOSE k \in leave : TRUE).w, c, "tick")
       ELSE IF ~SameNodes(e, pv) \/ ~SameMeta(e, pv) THEN "MaintenanceOnlyAnnotatesOrAttaches:tick-touched-meta"
       ELSE ""

MaintClause(e) ==
    LET own == IF e.op = "merge" THEN 1 ELSE 2
        oth == 3 - own
    IN IF ~SameEdges(e, pv) \/ ~SameNodes(e, pv) THEN "MaintenanceOnlyAnnotatesOrAttaches:edges-changed"
       ELSE IF e.ml[oth] # pv.ml[oth] \/ e.tok[oth] # pv.tok[oth] THEN "MaintenanceOnlyAnnotatesOrAttaches:meta-rewritten"
       ELSE IF e.ml[own] < pv.ml[own] \/ e.pn[own] # pv.ml[own] \/ e.ptok[own] # pv.tok[own] THEN "MaintenanceOnlyAnnotatesOrAttaches:meta-rewritten"
       ELSE ""

PromoteClause(e) ==
    LET conc == {x.r : x \in Rng(e.nodes)}
        touched == {k \in Keys(e) : k \notin Keys(pv) \/ ~SameEdge(Rec(e, k), Rec(pv, k))}
    IN IF ~SameMeta(e, pv) THEN "MaintenanceOnlyAnnotatesOrAttaches:meta-rewritten"
       ELSE IF ~(Keys(pv) \subseteq Keys(e)) \/ ~(Rng(pv.nodes) \subseteq Rng(e.nodes)) THEN "MaintenanceOnlyAnnotatesOrAttaches:removed"
       ELSE IF \E x \in Rng(e.nodes) \ Rng(pv.nodes) : x.k # 1 THEN "MaintenanceOnlyAnnotatesOrAttaches:non-concept-node"
       ELSE IF \E k \in touched : Rec(e, k).rel # 1 \/ ~(k[1] \in conc \/ k[2] \in conc) \/ ~AbsLE1(Rec(e, k).w)
            THEN "MaintenanceOnlyAnnotatesOrAttaches:non-concept-edge"
       ELSE ""

\* first failing clause of event e ("" = accepted)
Clause(e, c) ==
    IF e.op = "init" THEN (IF KeysOK(e) THEN "" ELSE "OneEdgePerUnorderedPair:non-canonical-key")
    ELSE IF ~e.gate THEN (IF Untouched(e, pv) THEN "" ELSE "GateOffUntouched:state-touched")
    ELSE IF ~KeysOK(e) THEN "OneEdgePerUnorderedPair:non-canonical-key"
    ELSE IF e.op = "observe" THEN ObserveClause(e, c)
    ELSE IF e.op = "tick" THEN TickClause(e, c)
    ELSE IF e.op \in {"merge", "split"} THEN MaintClause(e)
    ELSE IF e.op = "promote" THEN PromoteClause(e)
    ELSE IF e.op = "repromote" THEN (IF Untouched(e, pv) THEN "" ELSE "PromotionIdempotent:second-apply-differs")
    ELSE "UnknownEvent:" \o e.op

Empty == [op |-> "init", edges |-> <<>>, nodes |-> <<>>, ml |-> <<0, 0>>, tok |-> <<"", "">>]

TInit == TLCSet(1, 0) /\ tid = 1 /\ l = 1 /\ pv = Empty
NextTrace == TLCSet(1, tid) /\ tid' = tid + 1 /\ l' = 1 /\ pv' = Empty

TNext ==
    /\ tid <= Len(Traces)
    /\ LET ev == Traces[tid].ev IN
       IF l > Len(ev) THEN PrintT(<<"V", Traces[tid].tid, "ok", l - 1>>) /\ NextTrace
       ELSE LET e == ev[l] cl == Clause(e, Traces[tid].c) IN
            IF cl # "" THEN PrintT(<<"V", Traces[tid].tid, cl, l>>) /\ NextTrace
            ELSE l' = l + 1 /\ tid' = tid /\ pv' = e

TraceSpec == TInit /\ [][TNext]_tvars
Done == PrintT(<<"V", 0, "done", TLCGet(1)>>)
=============================================================================
