--------------------------- MODULE ConfigContract ---------------------------
(* The v1 configuration contract of Clematis3 (C14), as a table
       field |-> (type, range / enum, default, three valid corner values)
   plus the structural rules of the key tree and the cross-field rules, and the verdict it implies for
   an input that deviates from "everything omitted" in at most two places (or is an all-valid corner).

   The table was transcribed ONCE, at the pinned commit, from the operator-facing contract and is frozen
   here; it does not co-move with configs/validate.py.  Revision 2 follows the repaired contract (new
   messages for the stage keys t1.radius_cap / t1.decay.* / t1.edge_type_mult / t2.tiers /
   t2.exact_recent_days / t2.clusters_top_m / t2.residual_cap_per_turn / k_surface, "<path> must be a
   finite number", "<section> must be a mapping", unknown keys below t1.decay, rule 9):
     [msg]  the validator's constraint messages ("t2.k_retrieval must be >= 1",
            "t4.novelty_cap_per_node must be in (0, 1]", "... must be >= 1 (or null)",
            "t4.weight_min/weight_max must satisfy weight_min < weight_max", "unknown key", ...)
     [dflt] the inline default table and its comments ("# [0,1]", "# >= 1", "# 1 or 2")
     [yaml] configs/config.yaml for the stage keys that carry no message (t1.decay, t2.tiers, ...)
     [m9] docs/m9/overview.md, [m10] docs/m10/reflection.md, [m11] docs/m11/overview.md,
     [m13] docs/m13/config_freeze.md (top-level keys, version)
   (the per-row citation is kept next to the Python mirror harness/props/c14_table.py, which also holds
   the concrete value of every class; the harness compares both tables column by column).

   Encoding.  Numbers are integers in milli-units (value * 1000).  Row columns:
     n name, k kind (int float bool enum str list map), sec section index,
     hl/lv/lx lower bound (present / value / open), hh/hv/hx upper bound (for lists hh=1: members restricted),
     nul "or null", soft (no message backs the type: deviations are unspecified, not rejected),
     ne non-empty required, hm a third valid value exists, al index of the canonical key this key is a legacy alias of,
     st the type is checked without coercion ("must be an integer ...", "must be a number ...", "must be a mapping of ..."),
     cap the type check enforces an (unprinted) implementation ceiling: the huge class is rejected,
     hd/d default (present / value), mn mx md the valid-min / valid-max / valid-mid values
     (enums: 1000 * position of the value in the enumeration; str/list/map: 1000 = "a valid value").
   Sections: n name, parent, free (1: key names unrestricted, 2: unrestricted but must be strings),
     ndrej (1: a non-object value is rejected by message).

   Leaf classes (per field): 1 absent 2 valid-min 3 valid-max 4 valid-mid 5 below 6 above 7 wrong-type
     8 NaN 9 +inf 10 -inf 11 huge 12 empty-container.
   Structural classes (per section): 1 unknown key 2 non-string key 3 non-dict section.
   A leaf is 1 valid, 0 invalid (the contract rejects it), 2 unspecified (the contract documents coercion
   "certain fields coerced" and is silent on the outcome: either verdict conforms, but an accepted value
   must normalise into the range), 3 not applicable (not enumerated).

   Verdict(v) = REJECT if some leaf is invalid or a cross-field rule is violated,
                ACCEPT if all leaves are valid and all rules hold, UNSPEC otherwise.               *)
EXTENDS Integers, Sequences, FiniteSets, TLC, Json

CONSTANTS Singles,     \* BOOLEAN: enumerate all single-fault vectors
          PairScope,   \* "none" | "section" (both faults below the same top-level key) | "all"
          FPairCls,    \* leaf classes used inside pairwise vectors
          NCorners     \* number of all-valid corner vectors (1 all-min, 2 all-max, 3 all-mid, 4.. mixes)

FT == <<
  [n |-> "version", k |-> "enum", sec |-> 1, hl |-> 0, lv |-> 0, lx |-> 0, hh |-> 0, hv |-> 0, hx |-> 0, nul |-> 0, soft |-> 0, ne |-> 0, hm |-> 0, al |-> 0, st |-> 0, cap |-> 0, d |-> 1000, hd |-> 1, mn |-> 1000, mx |-> 1000, md |-> 0],
  [n |-> "k_surface", k |-> "int", sec |-> 1, hl |-> 1, lv |-> 1000, lx |-> 0, hh |-> 0, hv |-> 0, hx |-> 0, nul |-> 0, soft |-> 0, ne |-> 0, hm |-> 1, al |-> 0, st |-> 1, cap |-> 1, d |-> 32000, hd |-> 1, mn |-> 1000, mx |-> 64000, md |-> 32000],
  [n |-> "surface_method", k |-> "enum", sec |-> 1, hl |-> 0, lv |-> 0, lx |-> 0, hh |-> 0, hv |-> 0, hx |-> 0, nul |-> 0, soft |-> 1, ne |-> 0, hm |-> 0, al |-> 0, st |-> 0, cap |-> 0, d |-> 1000, hd |-> 1, mn |-> 1000, mx |-> 2000, md |-> 0],
  [n |-> "budgets.time_ms", k |-> "int", sec |-> 49, hl |-> 0, lv |-> 0, lx |-> 0, hh |-> 0, hv |-> 0, hx |-> 0, nul |-> 0, soft |-> 1, ne |-> 0, hm |-> 1, al |-> 0, st |-> 0, cap |-> 0, d |-> 0, hd |-> 0, mn |-> 1000, mx |-> 100000000, md |-> 1000000],
  [n |-> "budgets.ops", k |-> "int", sec |-> 49, hl |-> 0, lv |-> 0, lx |-> 0, hh |-> 0, hv |-> 0, hx |-> 0, nul |-> 0, soft |-> 1, ne |-> 0, hm |-> 1, al |-> 0, st |-> 0, cap |-> 0, d |-> 0, hd |-> 0, mn |-> 1000, mx |-> 100000000, md |-> 1000000],
  [n |-> "budgets.tokens", k |-> "int", sec |-> 49, hl |-> 0, lv |-> 0, lx |-> 0, hh |-> 0, hv |-> 0, hx |-> 0, nul |-> 0, soft |-> 1, ne |-> 0, hm |-> 1, al |-> 0, st |-> 0, cap |-> 0, d |-> 0, hd |-> 0, mn |-> 1000, mx |-> 100000000, md |-> 1024000],
  [n |-> "budgets.time_ms_reflection", k |-> "int", sec |-> 49, hl |-> 0, lv |-> 0, lx |-> 0, hh |-> 0, hv |-> 0, hx |-> 0, nul |-> 0, soft |-> 1, ne |-> 0, hm |-> 1, al |-> 0, st |-> 0, cap |-> 0, d |-> 0, hd |-> 0, mn |-> 1000, mx |-> 100000000, md |-> 6000000],
  [n |-> "flags.enable_world_memory", k |-> "bool", sec |-> 50, hl |-> 0, lv |-> 0, lx |-> 0, hh |-> 0, hv |-> 0, hx |-> 0, nul |-> 0, soft |-> 1, ne |-> 0, hm |-> 0, al |-> 0, st |-> 0, cap |-> 0, d |-> 0, hd |-> 0, mn |-> 0, mx |-> 1000, md |-> 0],
  [n |-> "flags.allow_reflection", k |-> "bool", sec |-> 50, hl |-> 0, lv |-> 0, lx |-> 0, hh |-> 0, hv |-> 0, hx |-> 0, nul |-> 0, soft |-> 1, ne |-> 0, hm |-> 0, al |-> 0, st |-> 0, cap |-> 0, d |-> 0, hd |-> 0, mn |-> 0, mx |-> 1000, md |-> 0],
  [n |-> "t1.cache.enabled", k |-> "bool", sec |-> 3, hl |-> 0, lv |-> 0, lx |-> 0, hh |-> 0, hv |-> 0, hx |-> 0, nul |-> 0, soft |-> 1, ne |-> 0, hm |-> 0, al |-> 0, st |-> 0, cap |-> 0, d |-> 0, hd |-> 0, mn |-> 0, mx |-> 1000, md |-> 0],
  [n |-> "t1.cache.max_entries", k |-> "int", sec |-> 3, hl |-> 1, lv |-> 0, lx |-> 0, hh |-> 0, hv |-> 0, hx |-> 0, nul |-> 0, soft |-> 0, ne |-> 0, hm |-> 1, al |-> 0, st |-> 0, cap |-> 0, d |-> 512000, hd |-> 1, mn |-> 0, mx |-> 1000000, md |-> 500000],
  [n |-> "t1.cache.ttl_s", k |-> "int", sec |-> 3, hl |-> 1, lv |-> 0, lx |-> 0, hh |-> 0, hv |-> 0, hx |-> 0, nul |-> 0, soft |-> 0, ne |-> 0, hm |-> 1, al |-> 0, st |-> 0, cap |-> 0, d |-> 300000, hd |-> 1, mn |-> 0, mx |-> 1000000, md |-> 500000],
  [n |-> "t1.cache.ttl_sec", k |-> "int", sec |-> 3, hl |-> 1, lv |-> 0, lx |-> 0, hh |-> 0, hv |-> 0, hx |-> 0, nul |-> 0, soft |-> 0, ne |-> 0, hm |-> 1, al |-> 12, st |-> 0, cap |-> 0, d |-> 0, hd |-> 0, mn |-> 0, mx |-> 1000000, md |-> 500000],
  [n |-> "t1.iter_cap", k |-> "int", sec |-> 2, hl |-> 1, lv |-> 0, lx |-> 0, hh |-> 0, hv |-> 0, hx |-> 0, nul |-> 0, soft |-> 0, ne |-> 0, hm |-> 1, al |-> 0, st |-> 0, cap |-> 0, d |-> 0, hd |-> 0, mn |-> 0, mx |-> 1000000, md |-> 50000],
  [n |-> "t1.queue_budget", k |-> "int", sec |-> 2, hl |-> 1, lv |-> 0, lx |-> 0, hh |-> 0, hv |-> 0, hx |-> 0, nul |-> 0, soft |-> 0, ne |-> 0, hm |-> 1, al |-> 0, st |-> 0, cap |-> 0, d |-> 0, hd |-> 0, mn |-> 0, mx |-> 100000000, md |-> 10000000],
  [n |-> "t1.node_budget", k |-> "float", sec |-> 2, hl |-> 1, lv |-> 0, lx |-> 1, hh |-> 0, hv |-> 0, hx |-> 0, nul |-> 0, soft |-> 0, ne |-> 0, hm |-> 1, al |-> 0, st |-> 0, cap |-> 0, d |-> 0, hd |-> 0, mn |-> 1, mx |-> 1000000, md |-> 1500],
  [n |-> "t1.radius_cap", k |-> "int", sec |-> 2, hl |-> 1, lv |-> 0, lx |-> 0, hh |-> 0, hv |-> 0, hx |-> 0, nul |-> 0, soft |-> 0, ne |-> 0, hm |-> 1, al |-> 0, st |-> 1, cap |-> 0, d |-> 0, hd |-> 0, mn |-> 0, mx |-> 64000, md |-> 4000],
  [n |-> "t1.decay.mode", k |-> "enum", sec |-> 4, hl |-> 0, lv |-> 0, lx |-> 0, hh |-> 0, hv |-> 0, hx |-> 0, nul |-> 0, soft |-> 0, ne |-> 0, hm |-> 0, al |-> 0, st |-> 0, cap |-> 0, d |-> 0, hd |-> 0, mn |-> 1000, mx |-> 2000, md |-> 0],
  [n |-> "t1.decay.rate", k |-> "float", sec |-> 4, hl |-> 1, lv |-> 0, lx |-> 0, hh |-> 1, hv |-> 1000, hx |-> 0, nul |-> 0, soft |-> 0, ne |-> 0, hm |-> 1, al |-> 0, st |-> 1, cap |-> 0, d |-> 0, hd |-> 0, mn |-> 0, mx |-> 1000, md |-> 600],
  [n |-> "t1.decay.floor", k |-> "float", sec |-> 4, hl |-> 1, lv |-> 0, lx |-> 0, hh |-> 1, hv |-> 1000, hx |-> 0, nul |-> 0, soft |-> 0, ne |-> 0, hm |-> 1, al |-> 0, st |-> 1, cap |-> 0, d |-> 0, hd |-> 0, mn |-> 0, mx |-> 1000, md |-> 50],
  [n |-> "t1.decay.alpha", k |-> "float", sec |-> 4, hl |-> 1, lv |-> 0, lx |-> 0, hh |-> 0, hv |-> 0, hx |-> 0, nul |-> 0, soft |-> 0, ne |-> 0, hm |-> 1, al |-> 0, st |-> 1, cap |-> 0, d |-> 0, hd |-> 0, mn |-> 0, mx |-> 10000, md |-> 800],
  [n |-> "t1.edge_type_mult", k |-> "map", sec |-> 2, hl |-> 0, lv |-> 0, lx |-> 0, hh |-> 0, hv |-> 0, hx |-> 0, nul |-> 0, soft |-> 0, ne |-> 0, hm |-> 1, al |-> 0, st |-> 1, cap |-> 0, d |-> 0, hd |-> 0, mn |-> 1000, mx |-> 1000, md |-> 1000],
  [n |-> "t2.backend", k |-> "enum", sec |-> 6, hl |-> 0, lv |-> 0, lx |-> 0, hh |-> 0, hv |-> 0, hx |-> 0, nul |-> 0, soft |-> 0, ne |-> 0, hm |-> 0, al |-> 0, st |-> 0, cap |-> 0, d |-> 1000, hd |-> 1, mn |-> 1000, mx |-> 2000, md |-> 0],
  [n |-> "t2.k_retrieval", k |-> "int", sec |-> 6, hl |-> 1, lv |-> 1000, lx |-> 0, hh |-> 0, hv |-> 0, hx |-> 0, nul |-> 0, soft |-> 0, ne |-> 0, hm |-> 1, al |-> 0, st |-> 0, cap |-> 0, d |-> 10000, hd |-> 1, mn |-> 1000, mx |-> 1000000, md |-> 64000],
  [n |-> "t2.sim_threshold", k |-> "float", sec |-> 6, hl |-> 1, lv |-> -1000, lx |-> 0, hh |-> 1, hv |-> 1000, hx |-> 0, nul |-> 0, soft |-> 0, ne |-> 0, hm |-> 1, al |-> 0, st |-> 0, cap |-> 0, d |-> 0, hd |-> 1, mn |-> -1000, mx |-> 1000, md |-> 300],
  [n |-> "t2.tiers", k |-> "list", sec |-> 6, hl |-> 0, lv |-> 0, lx |-> 0, hh |-> 0, hv |-> 0, hx |-> 0, nul |-> 0, soft |-> 0, ne |-> 0, hm |-> 1, al |-> 0, st |-> 0, cap |-> 0, d |-> 0, hd |-> 0, mn |-> 1000, mx |-> 1000, md |-> 1000],
  [n |-> "t2.exact_recent_days", k |-> "int", sec |-> 6, hl |-> 1, lv |-> 0, lx |-> 0, hh |-> 0, hv |-> 0, hx |-> 0, nul |-> 0, soft |-> 0, ne |-> 0, hm |-> 1, al |-> 0, st |-> 1, cap |-> 1, d |-> 0, hd |-> 0, mn |-> 0, mx |-> 3650000, md |-> 30000],
  [n |-> "t2.clusters_top_m", k |-> "int", sec |-> 6, hl |-> 1, lv |-> 1000, lx |-> 0, hh |-> 0, hv |-> 0, hx |-> 0, nul |-> 0, soft |-> 0, ne |-> 0, hm |-> 1, al |-> 0, st |-> 1, cap |-> 1, d |-> 0, hd |-> 0, mn |-> 1000, mx |-> 64000, md |-> 3000],
  [n |-> "t2.owner_scope", k |-> "enum", sec |-> 6, hl |-> 0, lv |-> 0, lx |-> 0, hh |-> 0, hv |-> 0, hx |-> 0, nul |-> 0, soft |-> 1, ne |-> 0, hm |-> 1, al |-> 0, st |-> 0, cap |-> 0, d |-> 0, hd |-> 0, mn |-> 1000, mx |-> 3000, md |-> 2000],
  [n |-> "t2.residual_cap_per_turn", k |-> "int", sec |-> 6, hl |-> 1, lv |-> 0, lx |-> 0, hh |-> 0, hv |-> 0, hx |-> 0, nul |-> 0, soft |-> 0, ne |-> 0, hm |-> 1, al |-> 0, st |-> 1, cap |-> 1, d |-> 0, hd |-> 0, mn |-> 0, mx |-> 1000000, md |-> 32000],
  [n |-> "t2.reader_batch", k |-> "int", sec |-> 6, hl |-> 1, lv |-> 1000, lx |-> 0, hh |-> 0, hv |-> 0, hx |-> 0, nul |-> 0, soft |-> 0, ne |-> 0, hm |-> 1, al |-> 0, st |-> 0, cap |-> 0, d |-> 0, hd |-> 0, mn |-> 1000, mx |-> 100000000, md |-> 8192000],
  [n |-> "t2.embed_root", k |-> "str", sec |-> 6, hl |-> 0, lv |-> 0, lx |-> 0, hh |-> 0, hv |-> 0, hx |-> 0, nul |-> 0, soft |-> 0, ne |-> 1, hm |-> 1, al |-> 0, st |-> 0, cap |-> 0, d |-> 0, hd |-> 0, mn |-> 1000, mx |-> 1000, md |-> 1000],
  [n |-> "t2.cache.enabled", k |-> "bool", sec |-> 7, hl |-> 0, lv |-> 0, lx |-> 0, hh |-> 0, hv |-> 0, hx |-> 0, nul |-> 0, soft |-> 1, ne |-> 0, hm |-> 0, al |-> 0, st |-> 0, cap |-> 0, d |-> 0, hd |-> 0, mn |-> 0, mx |-> 1000, md |-> 0],
  [n |-> "t2.cache.max_entries", k |-> "int", sec |-> 7, hl |-> 1, lv |-> 0, lx |-> 0, hh |-> 0, hv |-> 0, hx |-> 0, nul |-> 0, soft |-> 0, ne |-> 0, hm |-> 1, al |-> 0, st |-> 0, cap |-> 0, d |-> 512000, hd |-> 1, mn |-> 0, mx |-> 1000000, md |-> 500000],
  [n |-> "t2.cache.ttl_s", k |-> "int", sec |-> 7, hl |-> 1, lv |-> 0, lx |-> 0, hh |-> 0, hv |-> 0, hx |-> 0, nul |-> 0, soft |-> 0, ne |-> 0, hm |-> 1, al |-> 0, st |-> 0, cap |-> 0, d |-> 300000, hd |-> 1, mn |-> 0, mx |-> 1000000, md |-> 500000],
  [n |-> "t2.cache.ttl_sec", k |-> "int", sec |-> 7, hl |-> 1, lv |-> 0, lx |-> 0, hh |-> 0, hv |-> 0, hx |-> 0, nul |-> 0, soft |-> 0, ne |-> 0, hm |-> 1, al |-> 35, st |-> 0, cap |-> 0, d |-> 0, hd |-> 0, mn |-> 0, mx |-> 1000000, md |-> 500000],
  [n |-> "t2.ranking.alpha_sim", k |-> "float", sec |-> 8, hl |-> 1, lv |-> 0, lx |-> 0, hh |-> 1, hv |-> 1000, hx |-> 0, nul |-> 0, soft |-> 0, ne |-> 0, hm |-> 1, al |-> 0, st |-> 0, cap |-> 0, d |-> 1000, hd |-> 1, mn |-> 0, mx |-> 1000, md |-> 750],
  [n |-> "t2.ranking.beta_recency", k |-> "float", sec |-> 8, hl |-> 1, lv |-> 0, lx |-> 0, hh |-> 1, hv |-> 1000, hx |-> 0, nul |-> 0, soft |-> 0, ne |-> 0, hm |-> 1, al |-> 0, st |-> 0, cap |-> 0, d |-> 0, hd |-> 1, mn |-> 0, mx |-> 1000, md |-> 200],
  [n |-> "t2.ranking.gamma_importance", k |-> "float", sec |-> 8, hl |-> 1, lv |-> 0, lx |-> 0, hh |-> 1, hv |-> 1000, hx |-> 0, nul |-> 0, soft |-> 0, ne |-> 0, hm |-> 1, al |-> 0, st |-> 0, cap |-> 0, d |-> 0, hd |-> 1, mn |-> 0, mx |-> 1000, md |-> 50],
  [n |-> "t2.hybrid.enabled", k |-> "bool", sec |-> 9, hl |-> 0, lv |-> 0, lx |-> 0, hh |-> 0, hv |-> 0, hx |-> 0, nul |-> 0, soft |-> 0, ne |-> 0, hm |-> 0, al |-> 0, st |-> 0, cap |-> 0, d |-> 0, hd |-> 1, mn |-> 0, mx |-> 1000, md |-> 0],
  [n |-> "t2.hybrid.use_graph", k |-> "bool", sec |-> 9, hl |-> 0, lv |-> 0, lx |-> 0, hh |-> 0, hv |-> 0, hx |-> 0, nul |-> 0, soft |-> 0, ne |-> 0, hm |-> 0, al |-> 0, st |-> 0, cap |-> 0, d |-> 1000, hd |-> 1, mn |-> 0, mx |-> 1000, md |-> 0],
  [n |-> "t2.hybrid.anchor_top_m", k |-> "int", sec |-> 9, hl |-> 1, lv |-> 1000, lx |-> 0, hh |-> 0, hv |-> 0, hx |-> 0, nul |-> 0, soft |-> 0, ne |-> 0, hm |-> 1, al |-> 0, st |-> 0, cap |-> 0, d |-> 8000, hd |-> 1, mn |-> 1000, mx |-> 1000000, md |-> 8000],
  [n |-> "t2.hybrid.walk_hops", k |-> "int", sec |-> 9, hl |-> 1, lv |-> 1000, lx |-> 0, hh |-> 1, hv |-> 2000, hx |-> 0, nul |-> 0, soft |-> 0, ne |-> 0, hm |-> 0, al |-> 0, st |-> 0, cap |-> 0, d |-> 1000, hd |-> 1, mn |-> 1000, mx |-> 2000, md |-> 0],
  [n |-> "t2.hybrid.edge_threshold", k |-> "float", sec |-> 9, hl |-> 1, lv |-> 0, lx |-> 0, hh |-> 1, hv |-> 1000, hx |-> 0, nul |-> 0, soft |-> 0, ne |-> 0, hm |-> 1, al |-> 0, st |-> 0, cap |-> 0, d |-> 100, hd |-> 1, mn |-> 0, mx |-> 1000, md |-> 100],
  [n |-> "t2.hybrid.lambda_graph", k |-> "float", sec |-> 9, hl |-> 1, lv |-> 0, lx |-> 0, hh |-> 1, hv |-> 1000, hx |-> 0, nul |-> 0, soft |-> 0, ne |-> 0, hm |-> 1, al |-> 0, st |-> 0, cap |-> 0, d |-> 250, hd |-> 1, mn |-> 0, mx |-> 1000, md |-> 250],
  [n |-> "t2.hybrid.damping", k |-> "float", sec |-> 9, hl |-> 1, lv |-> 0, lx |-> 0, hh |-> 1, hv |-> 1000, hx |-> 0, nul |-> 0, soft |-> 0, ne |-> 0, hm |-> 1, al |-> 0, st |-> 0, cap |-> 0, d |-> 500, hd |-> 1, mn |-> 0, mx |-> 1000, md |-> 500],
  [n |-> "t2.hybrid.degree_norm", k |-> "enum", sec |-> 9, hl |-> 0, lv |-> 0, lx |-> 0, hh |-> 0, hv |-> 0, hx |-> 0, nul |-> 0, soft |-> 0, ne |-> 0, hm |-> 0, al |-> 0, st |-> 0, cap |-> 0, d |-> 1000, hd |-> 1, mn |-> 1000, mx |-> 2000, md |-> 0],
  [n |-> "t2.hybrid.max_bonus", k |-> "float", sec |-> 9, hl |-> 1, lv |-> 0, lx |-> 0, hh |-> 0, hv |-> 0, hx |-> 0, nul |-> 0, soft |-> 0, ne |-> 0, hm |-> 1, al |-> 0, st |-> 0, cap |-> 0, d |-> 500, hd |-> 1, mn |-> 0, mx |-> 1000000, md |-> 500],
  [n |-> "t2.hybrid.k_max", k |-> "int", sec |-> 9, hl |-> 1, lv |-> 1000, lx |-> 0, hh |-> 0, hv |-> 0, hx |-> 0, nul |-> 0, soft |-> 0, ne |-> 0, hm |-> 1, al |-> 0, st |-> 0, cap |-> 0, d |-> 128000, hd |-> 1, mn |-> 1000, mx |-> 1000000, md |-> 128000],
  [n |-> "t2.reader.mode", k |-> "enum", sec |-> 10, hl |-> 0, lv |-> 0, lx |-> 0, hh |-> 0, hv |-> 0, hx |-> 0, nul |-> 0, soft |-> 0, ne |-> 0, hm |-> 1, al |-> 0, st |-> 0, cap |-> 0, d |-> 1000, hd |-> 1, mn |-> 1000, mx |-> 3000, md |-> 2000],
  [n |-> "t2.lancedb.partitions.by", k |-> "list", sec |-> 12, hl |-> 0, lv |-> 0, lx |-> 0, hh |-> 0, hv |-> 0, hx |-> 0, nul |-> 0, soft |-> 0, ne |-> 0, hm |-> 1, al |-> 0, st |-> 0, cap |-> 0, d |-> 0, hd |-> 0, mn |-> 1000, mx |-> 1000, md |-> 1000],
  [n |-> "t2.lancedb.partitions.shard_order", k |-> "enum", sec |-> 12, hl |-> 0, lv |-> 0, lx |-> 0, hh |-> 0, hv |-> 0, hx |-> 0, nul |-> 0, soft |-> 0, ne |-> 0, hm |-> 0, al |-> 0, st |-> 0, cap |-> 0, d |-> 0, hd |-> 0, mn |-> 1000, mx |-> 2000, md |-> 0],
  [n |-> "t2.quality.enabled", k |-> "bool", sec |-> 13, hl |-> 0, lv |-> 0, lx |-> 0, hh |-> 0, hv |-> 0, hx |-> 0, nul |-> 0, soft |-> 0, ne |-> 0, hm |-> 0, al |-> 0, st |-> 0, cap |-> 0, d |-> 0, hd |-> 1, mn |-> 0, mx |-> 1000, md |-> 0],
  [n |-> "t2.quality.shadow", k |-> "bool", sec |-> 13, hl |-> 0, lv |-> 0, lx |-> 0, hh |-> 0, hv |-> 0, hx |-> 0, nul |-> 0, soft |-> 0, ne |-> 0, hm |-> 0, al |-> 0, st |-> 0, cap |-> 0, d |-> 0, hd |-> 1, mn |-> 0, mx |-> 1000, md |-> 0],
  [n |-> "t2.quality.trace_dir", k |-> "str", sec |-> 13, hl |-> 0, lv |-> 0, lx |-> 0, hh |-> 0, hv |-> 0, hx |-> 0, nul |-> 0, soft |-> 0, ne |-> 1, hm |-> 1, al |-> 0, st |-> 0, cap |-> 0, d |-> 0, hd |-> 1, mn |-> 1000, mx |-> 1000, md |-> 1000],
  [n |-> "t2.quality.redact", k |-> "bool", sec |-> 13, hl |-> 0, lv |-> 0, lx |-> 0, hh |-> 0, hv |-> 0, hx |-> 0, nul |-> 0, soft |-> 0, ne |-> 0, hm |-> 0, al |-> 0, st |-> 0, cap |-> 0, d |-> 1000, hd |-> 1, mn |-> 0, mx |-> 1000, md |-> 0],
  [n |-> "t2.quality.normalizer.enabled", k |-> "bool", sec |-> 14, hl |-> 0, lv |-> 0, lx |-> 0, hh |-> 0, hv |-> 0, hx |-> 0, nul |-> 0, soft |-> 0, ne |-> 0, hm |-> 0, al |-> 0, st |-> 0, cap |-> 0, d |-> 0, hd |-> 0, mn |-> 0, mx |-> 1000, md |-> 0],
  [n |-> "t2.quality.normalizer.case", k |-> "enum", sec |-> 14, hl |-> 0, lv |-> 0, lx |-> 0, hh |-> 0, hv |-> 0, hx |-> 0, nul |-> 0, soft |-> 0, ne |-> 0, hm |-> 0, al |-> 0, st |-> 0, cap |-> 0, d |-> 1000, hd |-> 1, mn |-> 1000, mx |-> 1000, md |-> 0],
  [n |-> "t2.quality.normalizer.unicode", k |-> "enum", sec |-> 14, hl |-> 0, lv |-> 0, lx |-> 0, hh |-> 0, hv |-> 0, hx |-> 0, nul |-> 0, soft |-> 0, ne |-> 0, hm |-> 0, al |-> 0, st |-> 0, cap |-> 0, d |-> 1000, hd |-> 1, mn |-> 1000, mx |-> 1000, md |-> 0],
  [n |-> "t2.quality.normalizer.stopwords", k |-> "str", sec |-> 14, hl |-> 0, lv |-> 0, lx |-> 0, hh |-> 0, hv |-> 0, hx |-> 0, nul |-> 0, soft |-> 0, ne |-> 1, hm |-> 1, al |-> 0, st |-> 0, cap |-> 0, d |-> 0, hd |-> 0, mn |-> 1000, mx |-> 1000, md |-> 1000],
  [n |-> "t2.quality.normalizer.stemmer", k |-> "enum", sec |-> 14, hl |-> 0, lv |-> 0, lx |-> 0, hh |-> 0, hv |-> 0, hx |-> 0, nul |-> 0, soft |-> 0, ne |-> 0, hm |-> 0, al |-> 0, st |-> 0, cap |-> 0, d |-> 0, hd |-> 0, mn |-> 1000, mx |-> 2000, md |-> 0],
  [n |-> "t2.quality.normalizer.min_token_len", k |-> "int", sec |-> 14, hl |-> 1, lv |-> 1000, lx |-> 0, hh |-> 0, hv |-> 0, hx |-> 0, nul |-> 0, soft |-> 0, ne |-> 0, hm |-> 1, al |-> 0, st |-> 0, cap |-> 0, d |-> 0, hd |-> 0, mn |-> 1000, mx |-> 64000, md |-> 2000],
  [n |-> "t2.quality.aliasing.enabled", k |-> "bool", sec |-> 15, hl |-> 0, lv |-> 0, lx |-> 0, hh |-> 0, hv |-> 0, hx |-> 0, nul |-> 0, soft |-> 0, ne |-> 0, hm |-> 0, al |-> 0, st |-> 0, cap |-> 0, d |-> 0, hd |-> 0, mn |-> 0, mx |-> 1000, md |-> 0],
  [n |-> "t2.quality.aliasing.map_path", k |-> "str", sec |-> 15, hl |-> 0, lv |-> 0, lx |-> 0, hh |-> 0, hv |-> 0, hx |-> 0, nul |-> 0, soft |-> 0, ne |-> 1, hm |-> 1, al |-> 0, st |-> 0, cap |-> 0, d |-> 0, hd |-> 0, mn |-> 1000, mx |-> 1000, md |-> 1000],
  [n |-> "t2.quality.aliasing.max_expansions_per_token", k |-> "int", sec |-> 15, hl |-> 1, lv |-> 0, lx |-> 0, hh |-> 0, hv |-> 0, hx |-> 0, nul |-> 0, soft |-> 0, ne |-> 0, hm |-> 1, al |-> 0, st |-> 0, cap |-> 0, d |-> 0, hd |-> 0, mn |-> 0, mx |-> 64000, md |-> 2000],
  [n |-> "t2.quality.lexical.enabled", k |-> "bool", sec |-> 16, hl |-> 0, lv |-> 0, lx |-> 0, hh |-> 0, hv |-> 0, hx |-> 0, nul |-> 0, soft |-> 0, ne |-> 0, hm |-> 0, al |-> 0, st |-> 0, cap |-> 0, d |-> 0, hd |-> 0, mn |-> 0, mx |-> 1000, md |-> 0],
  [n |-> "t2.quality.lexical.bm25_k1", k |-> "float", sec |-> 16, hl |-> 1, lv |-> 0, lx |-> 0, hh |-> 0, hv |-> 0, hx |-> 0, nul |-> 0, soft |-> 0, ne |-> 0, hm |-> 1, al |-> 0, st |-> 1, cap |-> 0, d |-> 1200, hd |-> 1, mn |-> 0, mx |-> 10000, md |-> 1200],
  [n |-> "t2.quality.lexical.bm25_b", k |-> "float", sec |-> 16, hl |-> 1, lv |-> 0, lx |-> 0, hh |-> 1, hv |-> 1000, hx |-> 0, nul |-> 0, soft |-> 0, ne |-> 0, hm |-> 1, al |-> 0, st |-> 1, cap |-> 0, d |-> 750, hd |-> 1, mn |-> 0, mx |-> 1000, md |-> 750],
  [n |-> "t2.quality.lexical.stopwords", k |-> "enum", sec |-> 16, hl |-> 0, lv |-> 0, lx |-> 0, hh |-> 0, hv |-> 0, hx |-> 0, nul |-> 0, soft |-> 0, ne |-> 0, hm |-> 0, al |-> 0, st |-> 0, cap |-> 0, d |-> 2000, hd |-> 1, mn |-> 1000, mx |-> 2000, md |-> 0],
  [n |-> "t2.quality.lexical.bm25.k1", k |-> "float", sec |-> 17, hl |-> 0, lv |-> 0, lx |-> 0, hh |-> 0, hv |-> 0, hx |-> 0, nul |-> 0, soft |-> 0, ne |-> 0, hm |-> 1, al |-> 0, st |-> 0, cap |-> 0, d |-> 0, hd |-> 0, mn |-> 0, mx |-> 10000, md |-> 1200],
  [n |-> "t2.quality.lexical.bm25.b", k |-> "float", sec |-> 17, hl |-> 0, lv |-> 0, lx |-> 0, hh |-> 0, hv |-> 0, hx |-> 0, nul |-> 0, soft |-> 0, ne |-> 0, hm |-> 1, al |-> 0, st |-> 0, cap |-> 0, d |-> 0, hd |-> 0, mn |-> 0, mx |-> 1000, md |-> 750],
  [n |-> "t2.quality.lexical.bm25.doclen_floor", k |-> "int", sec |-> 17, hl |-> 1, lv |-> 0, lx |-> 0, hh |-> 0, hv |-> 0, hx |-> 0, nul |-> 0, soft |-> 0, ne |-> 0, hm |-> 1, al |-> 0, st |-> 0, cap |-> 0, d |-> 0, hd |-> 0, mn |-> 0, mx |-> 10000000, md |-> 10000],
  [n |-> "t2.quality.fusion.enabled", k |-> "bool", sec |-> 18, hl |-> 0, lv |-> 0, lx |-> 0, hh |-> 0, hv |-> 0, hx |-> 0, nul |-> 0, soft |-> 0, ne |-> 0, hm |-> 0, al |-> 0, st |-> 0, cap |-> 0, d |-> 0, hd |-> 0, mn |-> 0, mx |-> 1000, md |-> 0],
  [n |-> "t2.quality.fusion.mode", k |-> "enum", sec |-> 18, hl |-> 0, lv |-> 0, lx |-> 0, hh |-> 0, hv |-> 0, hx |-> 0, nul |-> 0, soft |-> 0, ne |-> 0, hm |-> 0, al |-> 0, st |-> 0, cap |-> 0, d |-> 1000, hd |-> 1, mn |-> 1000, mx |-> 1000, md |-> 0],
  [n |-> "t2.quality.fusion.alpha_semantic", k |-> "float", sec |-> 18, hl |-> 1, lv |-> 0, lx |-> 0, hh |-> 1, hv |-> 1000, hx |-> 0, nul |-> 0, soft |-> 0, ne |-> 0, hm |-> 1, al |-> 0, st |-> 1, cap |-> 0, d |-> 600, hd |-> 1, mn |-> 0, mx |-> 1000, md |-> 700],
  [n |-> "t2.quality.fusion.score_norm", k |-> "enum", sec |-> 18, hl |-> 0, lv |-> 0, lx |-> 0, hh |-> 0, hv |-> 0, hx |-> 0, nul |-> 0, soft |-> 0, ne |-> 0, hm |-> 0, al |-> 0, st |-> 0, cap |-> 0, d |-> 0, hd |-> 0, mn |-> 1000, mx |-> 2000, md |-> 0],
  [n |-> "t2.quality.mmr.enabled", k |-> "bool", sec |-> 19, hl |-> 0, lv |-> 0, lx |-> 0, hh |-> 0, hv |-> 0, hx |-> 0, nul |-> 0, soft |-> 0, ne |-> 0, hm |-> 0, al |-> 0, st |-> 0, cap |-> 0, d |-> 0, hd |-> 0, mn |-> 0, mx |-> 1000, md |-> 0],
  [n |-> "t2.quality.mmr.lambda", k |-> "float", sec |-> 19, hl |-> 1, lv |-> 0, lx |-> 0, hh |-> 1, hv |-> 1000, hx |-> 0, nul |-> 0, soft |-> 0, ne |-> 0, hm |-> 1, al |-> 0, st |-> 0, cap |-> 0, d |-> 0, hd |-> 0, mn |-> 0, mx |-> 1000, md |-> 500],
  [n |-> "t2.quality.mmr.lambda_relevance", k |-> "float", sec |-> 19, hl |-> 1, lv |-> 0, lx |-> 0, hh |-> 1, hv |-> 1000, hx |-> 0, nul |-> 0, soft |-> 0, ne |-> 0, hm |-> 1, al |-> 78, st |-> 0, cap |-> 0, d |-> 0, hd |-> 0, mn |-> 0, mx |-> 1000, md |-> 750],
  [n |-> "t2.quality.mmr.diversity_by_owner", k |-> "bool", sec |-> 19, hl |-> 0, lv |-> 0, lx |-> 0, hh |-> 0, hv |-> 0, hx |-> 0, nul |-> 0, soft |-> 0, ne |-> 0, hm |-> 0, al |-> 0, st |-> 0, cap |-> 0, d |-> 0, hd |-> 0, mn |-> 0, mx |-> 1000, md |-> 0],
  [n |-> "t2.quality.mmr.diversity_by_token", k |-> "bool", sec |-> 19, hl |-> 0, lv |-> 0, lx |-> 0, hh |-> 0, hv |-> 0, hx |-> 0, nul |-> 0, soft |-> 0, ne |-> 0, hm |-> 0, al |-> 0, st |-> 0, cap |-> 0, d |-> 0, hd |-> 0, mn |-> 0, mx |-> 1000, md |-> 0],
  [n |-> "t2.quality.mmr.k", k |-> "int", sec |-> 19, hl |-> 1, lv |-> 1000, lx |-> 0, hh |-> 0, hv |-> 0, hx |-> 0, nul |-> 0, soft |-> 0, ne |-> 0, hm |-> 1, al |-> 0, st |-> 0, cap |-> 0, d |-> 0, hd |-> 0, mn |-> 1000, mx |-> 1000000, md |-> 8000],
  [n |-> "t2.quality.mmr.k_final", k |-> "int", sec |-> 19, hl |-> 1, lv |-> 1000, lx |-> 0, hh |-> 0, hv |-> 0, hx |-> 0, nul |-> 0, soft |-> 0, ne |-> 0, hm |-> 1, al |-> 82, st |-> 0, cap |-> 0, d |-> 0, hd |-> 0, mn |-> 1000, mx |-> 1000000, md |-> 8000],
  [n |-> "t3.max_rag_loops", k |-> "int", sec |-> 20, hl |-> 1, lv |-> 0, lx |-> 0, hh |-> 1, hv |-> 1000, hx |-> 0, nul |-> 0, soft |-> 0, ne |-> 0, hm |-> 0, al |-> 0, st |-> 0, cap |-> 0, d |-> 1000, hd |-> 1, mn |-> 0, mx |-> 1000, md |-> 0],
  [n |-> "t3.max_ops_per_turn", k |-> "int", sec |-> 20, hl |-> 1, lv |-> 1000, lx |-> 0, hh |-> 1, hv |-> 16000, hx |-> 0, nul |-> 0, soft |-> 0, ne |-> 0, hm |-> 1, al |-> 0, st |-> 0, cap |-> 0, d |-> 8000, hd |-> 1, mn |-> 1000, mx |-> 16000, md |-> 3000],
  [n |-> "t3.backend", k |-> "enum", sec |-> 20, hl |-> 0, lv |-> 0, lx |-> 0, hh |-> 0, hv |-> 0, hx |-> 0, nul |-> 0, soft |-> 0, ne |-> 0, hm |-> 0, al |-> 0, st |-> 0, cap |-> 0, d |-> 1000, hd |-> 1, mn |-> 1000, mx |-> 2000, md |-> 0],
  [n |-> "t3.tokens", k |-> "int", sec |-> 20, hl |-> 1, lv |-> 1000, lx |-> 0, hh |-> 0, hv |-> 0, hx |-> 0, nul |-> 0, soft |-> 0, ne |-> 0, hm |-> 1, al |-> 0, st |-> 0, cap |-> 0, d |-> 256000, hd |-> 1, mn |-> 1000, mx |-> 1000000, md |-> 256000],
  [n |-> "t3.temp", k |-> "float", sec |-> 20, hl |-> 1, lv |-> 0, lx |-> 0, hh |-> 1, hv |-> 1000, hx |-> 0, nul |-> 0, soft |-> 0, ne |-> 0, hm |-> 1, al |-> 0, st |-> 0, cap |-> 0, d |-> 700, hd |-> 1, mn |-> 0, mx |-> 1000, md |-> 200],
  [n |-> "t3.allow_reflection", k |-> "bool", sec |-> 20, hl |-> 0, lv |-> 0, lx |-> 0, hh |-> 0, hv |-> 0, hx |-> 0, nul |-> 0, soft |-> 0, ne |-> 0, hm |-> 0, al |-> 0, st |-> 0, cap |-> 0, d |-> 0, hd |-> 1, mn |-> 0, mx |-> 1000, md |-> 0],
  [n |-> "t3.apply_ops", k |-> "bool", sec |-> 20, hl |-> 0, lv |-> 0, lx |-> 0, hh |-> 0, hv |-> 0, hx |-> 0, nul |-> 0, soft |-> 0, ne |-> 0, hm |-> 0, al |-> 0, st |-> 0, cap |-> 0, d |-> 0, hd |-> 1, mn |-> 0, mx |-> 1000, md |-> 0],
  [n |-> "t3.dialogue.template", k |-> "str", sec |-> 21, hl |-> 0, lv |-> 0, lx |-> 0, hh |-> 0, hv |-> 0, hx |-> 0, nul |-> 0, soft |-> 0, ne |-> 1, hm |-> 1, al |-> 0, st |-> 0, cap |-> 0, d |-> 0, hd |-> 0, mn |-> 1000, mx |-> 1000, md |-> 1000],
  [n |-> "t3.dialogue.include_top_k_snippets", k |-> "int", sec |-> 21, hl |-> 1, lv |-> 0, lx |-> 0, hh |-> 0, hv |-> 0, hx |-> 0, nul |-> 0, soft |-> 0, ne |-> 0, hm |-> 1, al |-> 0, st |-> 0, cap |-> 0, d |-> 0, hd |-> 0, mn |-> 0, mx |-> 64000, md |-> 2000],
  [n |-> "t3.policy.tau_high", k |-> "float", sec |-> 22, hl |-> 1, lv |-> 0, lx |-> 0, hh |-> 1, hv |-> 1000, hx |-> 0, nul |-> 0, soft |-> 0, ne |-> 0, hm |-> 1, al |-> 0, st |-> 0, cap |-> 0, d |-> 0, hd |-> 0, mn |-> 0, mx |-> 1000, md |-> 800],
  [n |-> "t3.policy.tau_low", k |-> "float", sec |-> 22, hl |-> 1, lv |-> 0, lx |-> 0, hh |-> 1, hv |-> 1000, hx |-> 0, nul |-> 0, soft |-> 0, ne |-> 0, hm |-> 1, al |-> 0, st |-> 0, cap |-> 0, d |-> 0, hd |-> 0, mn |-> 0, mx |-> 1000, md |-> 400],
  [n |-> "t3.policy.epsilon_edit", k |-> "float", sec |-> 22, hl |-> 1, lv |-> 0, lx |-> 0, hh |-> 1, hv |-> 1000, hx |-> 0, nul |-> 0, soft |-> 0, ne |-> 0, hm |-> 1, al |-> 0, st |-> 0, cap |-> 0, d |-> 0, hd |-> 0, mn |-> 0, mx |-> 1000, md |-> 100],
  [n |-> "t3.reflection.backend", k |-> "enum", sec |-> 23, hl |-> 0, lv |-> 0, lx |-> 0, hh |-> 0, hv |-> 0, hx |-> 0, nul |-> 0, soft |-> 0, ne |-> 0, hm |-> 0, al |-> 0, st |-> 0, cap |-> 0, d |-> 1000, hd |-> 1, mn |-> 1000, mx |-> 2000, md |-> 0],
  [n |-> "t3.reflection.summary_tokens", k |-> "int", sec |-> 23, hl |-> 1, lv |-> 0, lx |-> 0, hh |-> 0, hv |-> 0, hx |-> 0, nul |-> 0, soft |-> 0, ne |-> 0, hm |-> 1, al |-> 0, st |-> 0, cap |-> 0, d |-> 128000, hd |-> 1, mn |-> 0, mx |-> 1000000, md |-> 128000],
  [n |-> "t3.reflection.embed", k |-> "bool", sec |-> 23, hl |-> 0, lv |-> 0, lx |-> 0, hh |-> 0, hv |-> 0, hx |-> 0, nul |-> 0, soft |-> 0, ne |-> 0, hm |-> 0, al |-> 0, st |-> 0, cap |-> 0, d |-> 1000, hd |-> 1, mn |-> 0, mx |-> 1000, md |-> 0],
  [n |-> "t3.reflection.log", k |-> "bool", sec |-> 23, hl |-> 0, lv |-> 0, lx |-> 0, hh |-> 0, hv |-> 0, hx |-> 0, nul |-> 0, soft |-> 0, ne |-> 0, hm |-> 0, al |-> 0, st |-> 0, cap |-> 0, d |-> 1000, hd |-> 1, mn |-> 0, mx |-> 1000, md |-> 0],
  [n |-> "t3.reflection.topk_snippets", k |-> "int", sec |-> 23, hl |-> 1, lv |-> 0, lx |-> 0, hh |-> 0, hv |-> 0, hx |-> 0, nul |-> 0, soft |-> 0, ne |-> 0, hm |-> 1, al |-> 0, st |-> 0, cap |-> 0, d |-> 3000, hd |-> 1, mn |-> 0, mx |-> 64000, md |-> 3000],
  [n |-> "t3.llm.provider", k |-> "enum", sec |-> 24, hl |-> 0, lv |-> 0, lx |-> 0, hh |-> 0, hv |-> 0, hx |-> 0, nul |-> 0, soft |-> 0, ne |-> 0, hm |-> 0, al |-> 0, st |-> 0, cap |-> 0, d |-> 1000, hd |-> 1, mn |-> 1000, mx |-> 2000, md |-> 0],
  [n |-> "t3.llm.model", k |-> "str", sec |-> 24, hl |-> 0, lv |-> 0, lx |-> 0, hh |-> 0, hv |-> 0, hx |-> 0, nul |-> 0, soft |-> 0, ne |-> 1, hm |-> 1, al |-> 0, st |-> 0, cap |-> 0, d |-> 0, hd |-> 1, mn |-> 1000, mx |-> 1000, md |-> 1000],
  [n |-> "t3.llm.endpoint", k |-> "str", sec |-> 24, hl |-> 0, lv |-> 0, lx |-> 0, hh |-> 0, hv |-> 0, hx |-> 0, nul |-> 0, soft |-> 0, ne |-> 1, hm |-> 1, al |-> 0, st |-> 0, cap |-> 0, d |-> 0, hd |-> 1, mn |-> 1000, mx |-> 1000, md |-> 1000],
  [n |-> "t3.llm.max_tokens", k |-> "int", sec |-> 24, hl |-> 1, lv |-> 1000, lx |-> 0, hh |-> 0, hv |-> 0, hx |-> 0, nul |-> 0, soft |-> 0, ne |-> 0, hm |-> 1, al |-> 0, st |-> 0, cap |-> 0, d |-> 256000, hd |-> 1, mn |-> 1000, mx |-> 1000000, md |-> 256000],
  [n |-> "t3.llm.temp", k |-> "float", sec |-> 24, hl |-> 1, lv |-> 0, lx |-> 0, hh |-> 1, hv |-> 1000, hx |-> 0, nul |-> 0, soft |-> 0, ne |-> 0, hm |-> 1, al |-> 0, st |-> 0, cap |-> 0, d |-> 200, hd |-> 1, mn |-> 0, mx |-> 1000, md |-> 200],
  [n |-> "t3.llm.timeout_ms", k |-> "int", sec |-> 24, hl |-> 1, lv |-> 1000, lx |-> 0, hh |-> 0, hv |-> 0, hx |-> 0, nul |-> 0, soft |-> 0, ne |-> 0, hm |-> 1, al |-> 0, st |-> 0, cap |-> 0, d |-> 10000000, hd |-> 1, mn |-> 1000, mx |-> 20000000, md |-> 10000000],
  [n |-> "t3.llm.fixtures.enabled", k |-> "bool", sec |-> 25, hl |-> 0, lv |-> 0, lx |-> 0, hh |-> 0, hv |-> 0, hx |-> 0, nul |-> 0, soft |-> 0, ne |-> 0, hm |-> 0, al |-> 0, st |-> 0, cap |-> 0, d |-> 0, hd |-> 1, mn |-> 0, mx |-> 1000, md |-> 0],
  [n |-> "t3.llm.fixtures.path", k |-> "str", sec |-> 25, hl |-> 0, lv |-> 0, lx |-> 0, hh |-> 0, hv |-> 0, hx |-> 0, nul |-> 1, soft |-> 1, ne |-> 1, hm |-> 1, al |-> 0, st |-> 0, cap |-> 0, d |-> 0, hd |-> 0, mn |-> 1000, mx |-> 1000, md |-> 1000],
  [n |-> "t4.enabled", k |-> "bool", sec |-> 26, hl |-> 0, lv |-> 0, lx |-> 0, hh |-> 0, hv |-> 0, hx |-> 0, nul |-> 0, soft |-> 0, ne |-> 0, hm |-> 0, al |-> 0, st |-> 0, cap |-> 0, d |-> 1000, hd |-> 1, mn |-> 0, mx |-> 1000, md |-> 0],
  [n |-> "t4.delta_norm_cap_l2", k |-> "float", sec |-> 26, hl |-> 1, lv |-> 0, lx |-> 1, hh |-> 0, hv |-> 0, hx |-> 0, nul |-> 0, soft |-> 0, ne |-> 0, hm |-> 1, al |-> 0, st |-> 0, cap |-> 0, d |-> 1500, hd |-> 1, mn |-> 1, mx |-> 1000000, md |-> 1500],
  [n |-> "t4.novelty_cap_per_node", k |-> "float", sec |-> 26, hl |-> 1, lv |-> 0, lx |-> 1, hh |-> 1, hv |-> 1000, hx |-> 0, nul |-> 0, soft |-> 0, ne |-> 0, hm |-> 1, al |-> 0, st |-> 0, cap |-> 0, d |-> 300, hd |-> 1, mn |-> 1, mx |-> 1000, md |-> 300],
  [n |-> "t4.churn_cap_edges", k |-> "int", sec |-> 26, hl |-> 1, lv |-> 0, lx |-> 0, hh |-> 0, hv |-> 0, hx |-> 0, nul |-> 0, soft |-> 0, ne |-> 0, hm |-> 1, al |-> 0, st |-> 0, cap |-> 0, d |-> 64000, hd |-> 1, mn |-> 0, mx |-> 1000000, md |-> 64000],
  [n |-> "t4.cooldowns", k |-> "map", sec |-> 26, hl |-> 1, lv |-> 0, lx |-> 0, hh |-> 0, hv |-> 0, hx |-> 0, nul |-> 0, soft |-> 0, ne |-> 0, hm |-> 1, al |-> 0, st |-> 0, cap |-> 0, d |-> 0, hd |-> 1, mn |-> 1000, mx |-> 1000, md |-> 1000],
  [n |-> "t4.weight_min", k |-> "float", sec |-> 26, hl |-> 1, lv |-> -1000, lx |-> 0, hh |-> 1, hv |-> 1000, hx |-> 0, nul |-> 0, soft |-> 0, ne |-> 0, hm |-> 1, al |-> 0, st |-> 0, cap |-> 0, d |-> -1000, hd |-> 1, mn |-> -1000, mx |-> 1000, md |-> -500],
  [n |-> "t4.weight_max", k |-> "float", sec |-> 26, hl |-> 1, lv |-> -1000, lx |-> 0, hh |-> 1, hv |-> 1000, hx |-> 0, nul |-> 0, soft |-> 0, ne |-> 0, hm |-> 1, al |-> 0, st |-> 0, cap |-> 0, d |-> 1000, hd |-> 1, mn |-> -1000, mx |-> 1000, md |-> 500],
  [n |-> "t4.snapshot_every_n_turns", k |-> "int", sec |-> 26, hl |-> 1, lv |-> 1000, lx |-> 0, hh |-> 0, hv |-> 0, hx |-> 0, nul |-> 0, soft |-> 0, ne |-> 0, hm |-> 1, al |-> 0, st |-> 0, cap |-> 0, d |-> 1000, hd |-> 1, mn |-> 1000, mx |-> 1000000, md |-> 2000],
  [n |-> "t4.snapshot_dir", k |-> "str", sec |-> 26, hl |-> 0, lv |-> 0, lx |-> 0, hh |-> 0, hv |-> 0, hx |-> 0, nul |-> 0, soft |-> 0, ne |-> 1, hm |-> 1, al |-> 0, st |-> 0, cap |-> 0, d |-> 0, hd |-> 1, mn |-> 1000, mx |-> 1000, md |-> 1000],
  [n |-> "t4.cache_bust_mode", k |-> "enum", sec |-> 26, hl |-> 0, lv |-> 0, lx |-> 0, hh |-> 0, hv |-> 0, hx |-> 0, nul |-> 0, soft |-> 0, ne |-> 0, hm |-> 0, al |-> 0, st |-> 0, cap |-> 0, d |-> 2000, hd |-> 1, mn |-> 1000, mx |-> 2000, md |-> 0],
  [n |-> "t4.cache.enabled", k |-> "bool", sec |-> 27, hl |-> 0, lv |-> 0, lx |-> 0, hh |-> 0, hv |-> 0, hx |-> 0, nul |-> 0, soft |-> 0, ne |-> 0, hm |-> 0, al |-> 0, st |-> 0, cap |-> 0, d |-> 1000, hd |-> 1, mn |-> 0, mx |-> 1000, md |-> 0],
  [n |-> "t4.cache.namespaces", k |-> "list", sec |-> 27, hl |-> 0, lv |-> 0, lx |-> 0, hh |-> 1, hv |-> 0, hx |-> 0, nul |-> 0, soft |-> 0, ne |-> 0, hm |-> 1, al |-> 0, st |-> 0, cap |-> 0, d |-> 0, hd |-> 1, mn |-> 1000, mx |-> 1000, md |-> 1000],
  [n |-> "t4.cache.max_entries", k |-> "int", sec |-> 27, hl |-> 1, lv |-> 0, lx |-> 0, hh |-> 0, hv |-> 0, hx |-> 0, nul |-> 0, soft |-> 0, ne |-> 0, hm |-> 1, al |-> 0, st |-> 0, cap |-> 0, d |-> 512000, hd |-> 1, mn |-> 0, mx |-> 1000000, md |-> 500000],
  [n |-> "t4.cache.ttl_sec", k |-> "int", sec |-> 27, hl |-> 1, lv |-> 0, lx |-> 0, hh |-> 0, hv |-> 0, hx |-> 0, nul |-> 0, soft |-> 0, ne |-> 0, hm |-> 1, al |-> 0, st |-> 0, cap |-> 0, d |-> 600000, hd |-> 1, mn |-> 0, mx |-> 1000000, md |-> 500000],
  [n |-> "t4.cache.ttl_s", k |-> "int", sec |-> 27, hl |-> 1, lv |-> 0, lx |-> 0, hh |-> 0, hv |-> 0, hx |-> 0, nul |-> 0, soft |-> 0, ne |-> 0, hm |-> 1, al |-> 122, st |-> 0, cap |-> 0, d |-> 0, hd |-> 0, mn |-> 0, mx |-> 1000000, md |-> 500000],
  [n |-> "graph.enabled", k |-> "bool", sec |-> 29, hl |-> 0, lv |-> 0, lx |-> 0, hh |-> 0, hv |-> 0, hx |-> 0, nul |-> 0, soft |-> 0, ne |-> 0, hm |-> 0, al |-> 0, st |-> 0, cap |-> 0, d |-> 0, hd |-> 1, mn |-> 0, mx |-> 1000, md |-> 0],
  [n |-> "graph.coactivation_threshold", k |-> "float", sec |-> 29, hl |-> 1, lv |-> 0, lx |-> 0, hh |-> 1, hv |-> 1000, hx |-> 0, nul |-> 0, soft |-> 0, ne |-> 0, hm |-> 1, al |-> 0, st |-> 0, cap |-> 0, d |-> 200, hd |-> 1, mn |-> 0, mx |-> 1000, md |-> 200],
  [n |-> "graph.observe_top_k", k |-> "int", sec |-> 29, hl |-> 1, lv |-> 1000, lx |-> 0, hh |-> 0, hv |-> 0, hx |-> 0, nul |-> 0, soft |-> 0, ne |-> 0, hm |-> 1, al |-> 0, st |-> 0, cap |-> 0, d |-> 64000, hd |-> 1, mn |-> 1000, mx |-> 1000000, md |-> 64000],
  [n |-> "graph.pair_cap_per_obs", k |-> "int", sec |-> 29, hl |-> 1, lv |-> 0, lx |-> 0, hh |-> 0, hv |-> 0, hx |-> 0, nul |-> 0, soft |-> 0, ne |-> 0, hm |-> 1, al |-> 0, st |-> 0, cap |-> 0, d |-> 2048000, hd |-> 1, mn |-> 0, mx |-> 4096000, md |-> 2048000],
  [n |-> "graph.update.mode", k |-> "enum", sec |-> 30, hl |-> 0, lv |-> 0, lx |-> 0, hh |-> 0, hv |-> 0, hx |-> 0, nul |-> 0, soft |-> 0, ne |-> 0, hm |-> 0, al |-> 0, st |-> 0, cap |-> 0, d |-> 1000, hd |-> 1, mn |-> 1000, mx |-> 2000, md |-> 0],
  [n |-> "graph.update.alpha", k |-> "float", sec |-> 30, hl |-> 1, lv |-> 0, lx |-> 1, hh |-> 0, hv |-> 0, hx |-> 0, nul |-> 0, soft |-> 0, ne |-> 0, hm |-> 1, al |-> 0, st |-> 0, cap |-> 0, d |-> 20, hd |-> 1, mn |-> 1, mx |-> 1000, md |-> 20],
  [n |-> "graph.update.clamp_min", k |-> "float", sec |-> 30, hl |-> 0, lv |-> 0, lx |-> 0, hh |-> 0, hv |-> 0, hx |-> 0, nul |-> 0, soft |-> 0, ne |-> 0, hm |-> 1, al |-> 0, st |-> 0, cap |-> 0, d |-> -1000, hd |-> 1, mn |-> -1000, mx |-> 125, md |-> -900],
  [n |-> "graph.update.clamp_max", k |-> "float", sec |-> 30, hl |-> 0, lv |-> 0, lx |-> 0, hh |-> 0, hv |-> 0, hx |-> 0, nul |-> 0, soft |-> 0, ne |-> 0, hm |-> 1, al |-> 0, st |-> 0, cap |-> 0, d |-> 1000, hd |-> 1, mn |-> 250, mx |-> 1000, md |-> 900],
  [n |-> "graph.decay.half_life_turns", k |-> "int", sec |-> 31, hl |-> 1, lv |-> 1000, lx |-> 0, hh |-> 0, hv |-> 0, hx |-> 0, nul |-> 0, soft |-> 0, ne |-> 0, hm |-> 1, al |-> 0, st |-> 0, cap |-> 0, d |-> 200000, hd |-> 1, mn |-> 1000, mx |-> 1000000, md |-> 200000],
  [n |-> "graph.decay.floor", k |-> "float", sec |-> 31, hl |-> 1, lv |-> 0, lx |-> 0, hh |-> 0, hv |-> 0, hx |-> 0, nul |-> 0, soft |-> 0, ne |-> 0, hm |-> 1, al |-> 0, st |-> 0, cap |-> 0, d |-> 0, hd |-> 1, mn |-> 0, mx |-> 250, md |-> 10],
  [n |-> "graph.merge.enabled", k |-> "bool", sec |-> 32, hl |-> 0, lv |-> 0, lx |-> 0, hh |-> 0, hv |-> 0, hx |-> 0, nul |-> 0, soft |-> 0, ne |-> 0, hm |-> 0, al |-> 0, st |-> 0, cap |-> 0, d |-> 0, hd |-> 1, mn |-> 0, mx |-> 1000, md |-> 0],
  [n |-> "graph.merge.min_size", k |-> "int", sec |-> 32, hl |-> 1, lv |-> 2000, lx |-> 0, hh |-> 0, hv |-> 0, hx |-> 0, nul |-> 0, soft |-> 0, ne |-> 0, hm |-> 1, al |-> 0, st |-> 0, cap |-> 0, d |-> 3000, hd |-> 1, mn |-> 2000, mx |-> 64000, md |-> 3000],
  [n |-> "graph.merge.min_avg_w", k |-> "float", sec |-> 32, hl |-> 1, lv |-> 0, lx |-> 0, hh |-> 1, hv |-> 1000, hx |-> 0, nul |-> 0, soft |-> 0, ne |-> 0, hm |-> 1, al |-> 0, st |-> 0, cap |-> 0, d |-> 200, hd |-> 1, mn |-> 125, mx |-> 1000, md |-> 200],
  [n |-> "graph.merge.max_diameter", k |-> "int", sec |-> 32, hl |-> 1, lv |-> 1000, lx |-> 0, hh |-> 0, hv |-> 0, hx |-> 0, nul |-> 0, soft |-> 0, ne |-> 0, hm |-> 1, al |-> 0, st |-> 0, cap |-> 0, d |-> 2000, hd |-> 1, mn |-> 1000, mx |-> 64000, md |-> 2000],
  [n |-> "graph.merge.cap_per_turn", k |-> "int", sec |-> 32, hl |-> 1, lv |-> 0, lx |-> 0, hh |-> 0, hv |-> 0, hx |-> 0, nul |-> 0, soft |-> 0, ne |-> 0, hm |-> 1, al |-> 0, st |-> 0, cap |-> 0, d |-> 4000, hd |-> 1, mn |-> 0, mx |-> 64000, md |-> 4000],
  [n |-> "graph.split.enabled", k |-> "bool", sec |-> 33, hl |-> 0, lv |-> 0, lx |-> 0, hh |-> 0, hv |-> 0, hx |-> 0, nul |-> 0, soft |-> 0, ne |-> 0, hm |-> 0, al |-> 0, st |-> 0, cap |-> 0, d |-> 0, hd |-> 1, mn |-> 0, mx |-> 1000, md |-> 0],
  [n |-> "graph.split.weak_edge_thresh", k |-> "float", sec |-> 33, hl |-> 1, lv |-> 0, lx |-> 0, hh |-> 1, hv |-> 1000, hx |-> 0, nul |-> 0, soft |-> 0, ne |-> 0, hm |-> 1, al |-> 0, st |-> 0, cap |-> 0, d |-> 50, hd |-> 1, mn |-> 0, mx |-> 125, md |-> 50],
  [n |-> "graph.split.min_component_size", k |-> "int", sec |-> 33, hl |-> 1, lv |-> 2000, lx |-> 0, hh |-> 0, hv |-> 0, hx |-> 0, nul |-> 0, soft |-> 0, ne |-> 0, hm |-> 1, al |-> 0, st |-> 0, cap |-> 0, d |-> 2000, hd |-> 1, mn |-> 2000, mx |-> 64000, md |-> 3000],
  [n |-> "graph.split.cap_per_turn", k |-> "int", sec |-> 33, hl |-> 1, lv |-> 0, lx |-> 0, hh |-> 0, hv |-> 0, hx |-> 0, nul |-> 0, soft |-> 0, ne |-> 0, hm |-> 1, al |-> 0, st |-> 0, cap |-> 0, d |-> 4000, hd |-> 1, mn |-> 0, mx |-> 64000, md |-> 4000],
  [n |-> "graph.promotion.enabled", k |-> "bool", sec |-> 34, hl |-> 0, lv |-> 0, lx |-> 0, hh |-> 0, hv |-> 0, hx |-> 0, nul |-> 0, soft |-> 0, ne |-> 0, hm |-> 0, al |-> 0, st |-> 0, cap |-> 0, d |-> 0, hd |-> 1, mn |-> 0, mx |-> 1000, md |-> 0],
  [n |-> "graph.promotion.label_mode", k |-> "enum", sec |-> 34, hl |-> 0, lv |-> 0, lx |-> 0, hh |-> 0, hv |-> 0, hx |-> 0, nul |-> 0, soft |-> 0, ne |-> 0, hm |-> 0, al |-> 0, st |-> 0, cap |-> 0, d |-> 1000, hd |-> 1, mn |-> 1000, mx |-> 2000, md |-> 0],
  [n |-> "graph.promotion.topk_label_ids", k |-> "int", sec |-> 34, hl |-> 1, lv |-> 1000, lx |-> 0, hh |-> 0, hv |-> 0, hx |-> 0, nul |-> 0, soft |-> 0, ne |-> 0, hm |-> 1, al |-> 0, st |-> 0, cap |-> 0, d |-> 3000, hd |-> 1, mn |-> 1000, mx |-> 64000, md |-> 3000],
  [n |-> "graph.promotion.attach_weight", k |-> "float", sec |-> 34, hl |-> 1, lv |-> -1000, lx |-> 0, hh |-> 1, hv |-> 1000, hx |-> 0, nul |-> 0, soft |-> 0, ne |-> 0, hm |-> 1, al |-> 0, st |-> 0, cap |-> 0, d |-> 500, hd |-> 1, mn |-> -1000, mx |-> 1000, md |-> 500],
  [n |-> "graph.promotion.cap_per_turn", k |-> "int", sec |-> 34, hl |-> 1, lv |-> 0, lx |-> 0, hh |-> 0, hv |-> 0, hx |-> 0, nul |-> 0, soft |-> 0, ne |-> 0, hm |-> 1, al |-> 0, st |-> 0, cap |-> 0, d |-> 2000, hd |-> 1, mn |-> 0, mx |-> 64000, md |-> 2000],
  [n |-> "scheduler.enabled", k |-> "bool", sec |-> 35, hl |-> 0, lv |-> 0, lx |-> 0, hh |-> 0, hv |-> 0, hx |-> 0, nul |-> 0, soft |-> 0, ne |-> 0, hm |-> 0, al |-> 0, st |-> 0, cap |-> 0, d |-> 0, hd |-> 1, mn |-> 0, mx |-> 1000, md |-> 0],
  [n |-> "scheduler.policy", k |-> "enum", sec |-> 35, hl |-> 0, lv |-> 0, lx |-> 0, hh |-> 0, hv |-> 0, hx |-> 0, nul |-> 0, soft |-> 0, ne |-> 0, hm |-> 0, al |-> 0, st |-> 0, cap |-> 0, d |-> 1000, hd |-> 1, mn |-> 1000, mx |-> 2000, md |-> 0],
  [n |-> "scheduler.quantum_ms", k |-> "int", sec |-> 35, hl |-> 1, lv |-> 1000, lx |-> 0, hh |-> 0, hv |-> 0, hx |-> 0, nul |-> 0, soft |-> 0, ne |-> 0, hm |-> 1, al |-> 0, st |-> 0, cap |-> 0, d |-> 20000, hd |-> 1, mn |-> 1000, mx |-> 200000, md |-> 20000],
  [n |-> "scheduler.budgets.t1_pops", k |-> "int", sec |-> 36, hl |-> 1, lv |-> 0, lx |-> 0, hh |-> 0, hv |-> 0, hx |-> 0, nul |-> 1, soft |-> 0, ne |-> 0, hm |-> 1, al |-> 0, st |-> 0, cap |-> 0, d |-> 0, hd |-> 0, mn |-> 0, mx |-> 1000000, md |-> 10000],
  [n |-> "scheduler.budgets.t1_iters", k |-> "int", sec |-> 36, hl |-> 1, lv |-> 0, lx |-> 0, hh |-> 0, hv |-> 0, hx |-> 0, nul |-> 1, soft |-> 0, ne |-> 0, hm |-> 1, al |-> 0, st |-> 0, cap |-> 0, d |-> 50000, hd |-> 1, mn |-> 0, mx |-> 1000000, md |-> 50000],
  [n |-> "scheduler.budgets.t2_k", k |-> "int", sec |-> 36, hl |-> 1, lv |-> 0, lx |-> 0, hh |-> 0, hv |-> 0, hx |-> 0, nul |-> 1, soft |-> 0, ne |-> 0, hm |-> 1, al |-> 0, st |-> 0, cap |-> 0, d |-> 64000, hd |-> 1, mn |-> 0, mx |-> 1000000, md |-> 64000],
  [n |-> "scheduler.budgets.t3_ops", k |-> "int", sec |-> 36, hl |-> 1, lv |-> 0, lx |-> 0, hh |-> 0, hv |-> 0, hx |-> 0, nul |-> 1, soft |-> 0, ne |-> 0, hm |-> 1, al |-> 0, st |-> 0, cap |-> 0, d |-> 3000, hd |-> 1, mn |-> 0, mx |-> 1000000, md |-> 3000],
  [n |-> "scheduler.budgets.time_ms_reflection", k |-> "int", sec |-> 36, hl |-> 1, lv |-> 1000, lx |-> 0, hh |-> 0, hv |-> 0, hx |-> 0, nul |-> 1, soft |-> 0, ne |-> 0, hm |-> 1, al |-> 0, st |-> 0, cap |-> 0, d |-> 6000000, hd |-> 1, mn |-> 1000, mx |-> 100000000, md |-> 6000000],
  [n |-> "scheduler.budgets.ops_reflection", k |-> "int", sec |-> 36, hl |-> 1, lv |-> 0, lx |-> 0, hh |-> 0, hv |-> 0, hx |-> 0, nul |-> 1, soft |-> 0, ne |-> 0, hm |-> 1, al |-> 0, st |-> 0, cap |-> 0, d |-> 5000, hd |-> 1, mn |-> 0, mx |-> 1000000, md |-> 5000],
  [n |-> "scheduler.budgets.wall_ms", k |-> "int", sec |-> 36, hl |-> 1, lv |-> 1000, lx |-> 0, hh |-> 0, hv |-> 0, hx |-> 0, nul |-> 1, soft |-> 0, ne |-> 0, hm |-> 1, al |-> 0, st |-> 0, cap |-> 0, d |-> 200000, hd |-> 1, mn |-> 200000, mx |-> 100000000, md |-> 400000],
  [n |-> "scheduler.fairness.max_consecutive_turns", k |-> "int", sec |-> 37, hl |-> 1, lv |-> 1000, lx |-> 0, hh |-> 0, hv |-> 0, hx |-> 0, nul |-> 0, soft |-> 0, ne |-> 0, hm |-> 1, al |-> 0, st |-> 0, cap |-> 0, d |-> 1000, hd |-> 1, mn |-> 1000, mx |-> 64000, md |-> 2000],
  [n |-> "scheduler.fairness.aging_ms", k |-> "int", sec |-> 37, hl |-> 1, lv |-> 0, lx |-> 0, hh |-> 0, hv |-> 0, hx |-> 0, nul |-> 0, soft |-> 0, ne |-> 0, hm |-> 1, al |-> 0, st |-> 0, cap |-> 0, d |-> 200000, hd |-> 1, mn |-> 0, mx |-> 1000000, md |-> 200000],
  [n |-> "perf.enabled", k |-> "bool", sec |-> 38, hl |-> 0, lv |-> 0, lx |-> 0, hh |-> 0, hv |-> 0, hx |-> 0, nul |-> 0, soft |-> 0, ne |-> 0, hm |-> 0, al |-> 0, st |-> 0, cap |-> 0, d |-> 0, hd |-> 1, mn |-> 0, mx |-> 1000, md |-> 0],
  [n |-> "perf.t1.queue_cap", k |-> "int", sec |-> 39, hl |-> 1, lv |-> 1000, lx |-> 0, hh |-> 0, hv |-> 0, hx |-> 0, nul |-> 0, soft |-> 0, ne |-> 0, hm |-> 1, al |-> 0, st |-> 0, cap |-> 0, d |-> 0, hd |-> 0, mn |-> 1000, mx |-> 100000000, md |-> 10000000],
  [n |-> "perf.t1.dedupe_window", k |-> "int", sec |-> 39, hl |-> 1, lv |-> 1000, lx |-> 0, hh |-> 0, hv |-> 0, hx |-> 0, nul |-> 0, soft |-> 0, ne |-> 0, hm |-> 1, al |-> 0, st |-> 0, cap |-> 0, d |-> 0, hd |-> 0, mn |-> 1000, mx |-> 100000000, md |-> 8192000],
  [n |-> "perf.t1.cache.max_entries", k |-> "int", sec |-> 40, hl |-> 1, lv |-> 0, lx |-> 0, hh |-> 0, hv |-> 0, hx |-> 0, nul |-> 0, soft |-> 0, ne |-> 0, hm |-> 1, al |-> 0, st |-> 0, cap |-> 0, d |-> 0, hd |-> 0, mn |-> 0, mx |-> 1000000, md |-> 512000],
  [n |-> "perf.t1.cache.max_bytes", k |-> "int", sec |-> 40, hl |-> 1, lv |-> 0, lx |-> 0, hh |-> 0, hv |-> 0, hx |-> 0, nul |-> 0, soft |-> 0, ne |-> 0, hm |-> 1, al |-> 0, st |-> 0, cap |-> 0, d |-> 0, hd |-> 0, mn |-> 0, mx |-> 1000000000, md |-> 64000000],
  [n |-> "perf.t1.caps.frontier", k |-> "int", sec |-> 41, hl |-> 1, lv |-> 1000, lx |-> 0, hh |-> 0, hv |-> 0, hx |-> 0, nul |-> 0, soft |-> 0, ne |-> 0, hm |-> 1, al |-> 0, st |-> 0, cap |-> 0, d |-> 0, hd |-> 0, mn |-> 1000, mx |-> 100000000, md |-> 100000],
  [n |-> "perf.t1.caps.visited", k |-> "int", sec |-> 41, hl |-> 1, lv |-> 1000, lx |-> 0, hh |-> 0, hv |-> 0, hx |-> 0, nul |-> 0, soft |-> 0, ne |-> 0, hm |-> 1, al |-> 0, st |-> 0, cap |-> 0, d |-> 0, hd |-> 0, mn |-> 1000, mx |-> 100000000, md |-> 100000],
  [n |-> "perf.t2.embed_dtype", k |-> "enum", sec |-> 42, hl |-> 0, lv |-> 0, lx |-> 0, hh |-> 0, hv |-> 0, hx |-> 0, nul |-> 0, soft |-> 0, ne |-> 0, hm |-> 0, al |-> 0, st |-> 0, cap |-> 0, d |-> 0, hd |-> 0, mn |-> 1000, mx |-> 2000, md |-> 0],
  [n |-> "perf.t2.embed_store_dtype", k |-> "enum", sec |-> 42, hl |-> 0, lv |-> 0, lx |-> 0, hh |-> 0, hv |-> 0, hx |-> 0, nul |-> 0, soft |-> 0, ne |-> 0, hm |-> 0, al |-> 0, st |-> 0, cap |-> 0, d |-> 0, hd |-> 0, mn |-> 1000, mx |-> 2000, md |-> 0],
  [n |-> "perf.t2.precompute_norms", k |-> "bool", sec |-> 42, hl |-> 0, lv |-> 0, lx |-> 0, hh |-> 0, hv |-> 0, hx |-> 0, nul |-> 0, soft |-> 0, ne |-> 0, hm |-> 0, al |-> 0, st |-> 0, cap |-> 0, d |-> 0, hd |-> 0, mn |-> 0, mx |-> 1000, md |-> 0],
  [n |-> "perf.t2.cache.max_entries", k |-> "int", sec |-> 43, hl |-> 1, lv |-> 0, lx |-> 0, hh |-> 0, hv |-> 0, hx |-> 0, nul |-> 0, soft |-> 0, ne |-> 0, hm |-> 1, al |-> 0, st |-> 0, cap |-> 0, d |-> 0, hd |-> 0, mn |-> 0, mx |-> 1000000, md |-> 512000],
  [n |-> "perf.t2.cache.max_bytes", k |-> "int", sec |-> 43, hl |-> 1, lv |-> 0, lx |-> 0, hh |-> 0, hv |-> 0, hx |-> 0, nul |-> 0, soft |-> 0, ne |-> 0, hm |-> 1, al |-> 0, st |-> 0, cap |-> 0, d |-> 0, hd |-> 0, mn |-> 0, mx |-> 1000000000, md |-> 128000000],
  [n |-> "perf.t2.reader.partitions.enabled", k |-> "bool", sec |-> 45, hl |-> 0, lv |-> 0, lx |-> 0, hh |-> 0, hv |-> 0, hx |-> 0, nul |-> 0, soft |-> 0, ne |-> 0, hm |-> 0, al |-> 0, st |-> 0, cap |-> 0, d |-> 0, hd |-> 0, mn |-> 0, mx |-> 1000, md |-> 0],
  [n |-> "perf.t2.reader.partitions.layout", k |-> "enum", sec |-> 45, hl |-> 0, lv |-> 0, lx |-> 0, hh |-> 0, hv |-> 0, hx |-> 0, nul |-> 0, soft |-> 0, ne |-> 0, hm |-> 0, al |-> 0, st |-> 0, cap |-> 0, d |-> 0, hd |-> 0, mn |-> 1000, mx |-> 2000, md |-> 0],
  [n |-> "perf.t2.reader.partitions.path", k |-> "str", sec |-> 45, hl |-> 0, lv |-> 0, lx |-> 0, hh |-> 0, hv |-> 0, hx |-> 0, nul |-> 0, soft |-> 0, ne |-> 1, hm |-> 1, al |-> 0, st |-> 0, cap |-> 0, d |-> 0, hd |-> 0, mn |-> 1000, mx |-> 1000, md |-> 1000],
  [n |-> "perf.t2.reader.partitions.by", k |-> "list", sec |-> 45, hl |-> 0, lv |-> 0, lx |-> 0, hh |-> 1, hv |-> 0, hx |-> 0, nul |-> 0, soft |-> 0, ne |-> 1, hm |-> 1, al |-> 0, st |-> 0, cap |-> 0, d |-> 0, hd |-> 0, mn |-> 1000, mx |-> 1000, md |-> 1000],
  [n |-> "perf.snapshots.compression", k |-> "enum", sec |-> 46, hl |-> 0, lv |-> 0, lx |-> 0, hh |-> 0, hv |-> 0, hx |-> 0, nul |-> 0, soft |-> 0, ne |-> 0, hm |-> 0, al |-> 0, st |-> 0, cap |-> 0, d |-> 0, hd |-> 0, mn |-> 1000, mx |-> 2000, md |-> 0],
  [n |-> "perf.snapshots.level", k |-> "int", sec |-> 46, hl |-> 1, lv |-> 1000, lx |-> 0, hh |-> 1, hv |-> 19000, hx |-> 0, nul |-> 0, soft |-> 0, ne |-> 0, hm |-> 1, al |-> 0, st |-> 0, cap |-> 0, d |-> 0, hd |-> 0, mn |-> 1000, mx |-> 19000, md |-> 3000],
  [n |-> "perf.snapshots.delta_mode", k |-> "bool", sec |-> 46, hl |-> 0, lv |-> 0, lx |-> 0, hh |-> 0, hv |-> 0, hx |-> 0, nul |-> 0, soft |-> 0, ne |-> 0, hm |-> 0, al |-> 0, st |-> 0, cap |-> 0, d |-> 0, hd |-> 0, mn |-> 0, mx |-> 1000, md |-> 0],
  [n |-> "perf.snapshots.every_n_turns", k |-> "int", sec |-> 46, hl |-> 1, lv |-> 1000, lx |-> 0, hh |-> 0, hv |-> 0, hx |-> 0, nul |-> 0, soft |-> 0, ne |-> 0, hm |-> 1, al |-> 0, st |-> 0, cap |-> 0, d |-> 0, hd |-> 0, mn |-> 1000, mx |-> 64000, md |-> 2000],
  [n |-> "perf.metrics.report_memory", k |-> "bool", sec |-> 47, hl |-> 0, lv |-> 0, lx |-> 0, hh |-> 0, hv |-> 0, hx |-> 0, nul |-> 0, soft |-> 0, ne |-> 0, hm |-> 0, al |-> 0, st |-> 0, cap |-> 0, d |-> 0, hd |-> 1, mn |-> 0, mx |-> 1000, md |-> 0],
  [n |-> "perf.parallel.enabled", k |-> "bool", sec |-> 48, hl |-> 0, lv |-> 0, lx |-> 0, hh |-> 0, hv |-> 0, hx |-> 0, nul |-> 0, soft |-> 0, ne |-> 0, hm |-> 0, al |-> 0, st |-> 0, cap |-> 0, d |-> 0, hd |-> 1, mn |-> 0, mx |-> 1000, md |-> 0],
  [n |-> "perf.parallel.max_workers", k |-> "int", sec |-> 48, hl |-> 0, lv |-> 0, lx |-> 0, hh |-> 0, hv |-> 0, hx |-> 0, nul |-> 0, soft |-> 0, ne |-> 0, hm |-> 1, al |-> 0, st |-> 0, cap |-> 0, d |-> 0, hd |-> 1, mn |-> -3000, mx |-> 4000, md |-> 1000],
  [n |-> "perf.parallel.t1", k |-> "bool", sec |-> 48, hl |-> 0, lv |-> 0, lx |-> 0, hh |-> 0, hv |-> 0, hx |-> 0, nul |-> 0, soft |-> 0, ne |-> 0, hm |-> 0, al |-> 0, st |-> 0, cap |-> 0, d |-> 0, hd |-> 0, mn |-> 0, mx |-> 1000, md |-> 0],
  [n |-> "perf.parallel.t2", k |-> "bool", sec |-> 48, hl |-> 0, lv |-> 0, lx |-> 0, hh |-> 0, hv |-> 0, hx |-> 0, nul |-> 0, soft |-> 0, ne |-> 0, hm |-> 0, al |-> 0, st |-> 0, cap |-> 0, d |-> 0, hd |-> 0, mn |-> 0, mx |-> 1000, md |-> 0],
  [n |-> "perf.parallel.agents", k |-> "bool", sec |-> 48, hl |-> 0, lv |-> 0, lx |-> 0, hh |-> 0, hv |-> 0, hx |-> 0, nul |-> 0, soft |-> 0, ne |-> 0, hm |-> 0, al |-> 0, st |-> 0, cap |-> 0, d |-> 0, hd |-> 0, mn |-> 0, mx |-> 1000, md |-> 0]
>>

ST == <<
  [n |-> "", parent |-> 0, free |-> 0, ndrej |-> 0],
  [n |-> "t1", parent |-> 1, free |-> 0, ndrej |-> 1],
  [n |-> "t1.cache", parent |-> 2, free |-> 0, ndrej |-> 0],
  [n |-> "t1.decay", parent |-> 2, free |-> 0, ndrej |-> 1],
  [n |-> "t1.edge_type_mult", parent |-> 2, free |-> 2, ndrej |-> 1],
  [n |-> "t2", parent |-> 1, free |-> 0, ndrej |-> 1],
  [n |-> "t2.cache", parent |-> 6, free |-> 0, ndrej |-> 0],
  [n |-> "t2.ranking", parent |-> 6, free |-> 0, ndrej |-> 0],
  [n |-> "t2.hybrid", parent |-> 6, free |-> 0, ndrej |-> 0],
  [n |-> "t2.reader", parent |-> 6, free |-> 0, ndrej |-> 0],
  [n |-> "t2.lancedb", parent |-> 6, free |-> 1, ndrej |-> 1],
  [n |-> "t2.lancedb.partitions", parent |-> 11, free |-> 1, ndrej |-> 1],
  [n |-> "t2.quality", parent |-> 6, free |-> 0, ndrej |-> 1],
  [n |-> "t2.quality.normalizer", parent |-> 13, free |-> 0, ndrej |-> 0],
  [n |-> "t2.quality.aliasing", parent |-> 13, free |-> 0, ndrej |-> 0],
  [n |-> "t2.quality.lexical", parent |-> 13, free |-> 0, ndrej |-> 0],
  [n |-> "t2.quality.lexical.bm25", parent |-> 16, free |-> 0, ndrej |-> 0],
  [n |-> "t2.quality.fusion", parent |-> 13, free |-> 0, ndrej |-> 0],
  [n |-> "t2.quality.mmr", parent |-> 13, free |-> 0, ndrej |-> 0],
  [n |-> "t3", parent |-> 1, free |-> 0, ndrej |-> 1],
  [n |-> "t3.dialogue", parent |-> 20, free |-> 0, ndrej |-> 0],
  [n |-> "t3.policy", parent |-> 20, free |-> 0, ndrej |-> 0],
  [n |-> "t3.reflection", parent |-> 20, free |-> 0, ndrej |-> 0],
  [n |-> "t3.llm", parent |-> 20, free |-> 0, ndrej |-> 0],
  [n |-> "t3.llm.fixtures", parent |-> 24, free |-> 0, ndrej |-> 0],
  [n |-> "t4", parent |-> 1, free |-> 0, ndrej |-> 1],
  [n |-> "t4.cache", parent |-> 26, free |-> 0, ndrej |-> 0],
  [n |-> "t4.cooldowns", parent |-> 26, free |-> 2, ndrej |-> 0],
  [n |-> "graph", parent |-> 1, free |-> 0, ndrej |-> 1],
  [n |-> "graph.update", parent |-> 29, free |-> 0, ndrej |-> 0],
  [n |-> "graph.decay", parent |-> 29, free |-> 0, ndrej |-> 0],
  [n |-> "graph.merge", parent |-> 29, free |-> 0, ndrej |-> 0],
  [n |-> "graph.split", parent |-> 29, free |-> 0, ndrej |-> 0],
  [n |-> "graph.promotion", parent |-> 29, free |-> 0, ndrej |-> 0],
  [n |-> "scheduler", parent |-> 1, free |-> 1, ndrej |-> 1],
  [n |-> "scheduler.budgets", parent |-> 35, free |-> 1, ndrej |-> 0],
  [n |-> "scheduler.fairness", parent |-> 35, free |-> 1, ndrej |-> 0],
  [n |-> "perf", parent |-> 1, free |-> 0, ndrej |-> 1],
  [n |-> "perf.t1", parent |-> 38, free |-> 0, ndrej |-> 0],
  [n |-> "perf.t1.cache", parent |-> 39, free |-> 0, ndrej |-> 0],
  [n |-> "perf.t1.caps", parent |-> 39, free |-> 0, ndrej |-> 0],
  [n |-> "perf.t2", parent |-> 38, free |-> 0, ndrej |-> 0],
  [n |-> "perf.t2.cache", parent |-> 42, free |-> 0, ndrej |-> 0],
  [n |-> "perf.t2.reader", parent |-> 42, free |-> 0, ndrej |-> 0],
  [n |-> "perf.t2.reader.partitions", parent |-> 44, free |-> 0, ndrej |-> 0],
  [n |-> "perf.snapshots", parent |-> 38, free |-> 0, ndrej |-> 0],
  [n |-> "perf.metrics", parent |-> 38, free |-> 0, ndrej |-> 0],
  [n |-> "perf.parallel", parent |-> 38, free |-> 0, ndrej |-> 0],
  [n |-> "budgets", parent |-> 1, free |-> 1, ndrej |-> 0],
  [n |-> "flags", parent |-> 1, free |-> 1, ndrej |-> 0]
>>

NF == Len(FT)
NS == Len(ST)
NCls == 12
BIG == 2000000000

-----------------------------------------------------------------------------
(* leaf validity *)
Leaf(i, c) ==
  LET f == FT[i]
      inv == IF f.soft = 1 THEN 2 ELSE 0
      num == f.k \in {"int", "float"}
      txt == f.k \in {"enum", "str", "list"}
  IN CASE c \in {1, 2, 3} -> 1
       [] c = 4 -> IF f.hm = 1 THEN 1 ELSE 3
       [] c = 5 -> IF (num \/ f.k = "map") /\ f.hl = 1 THEN inv
                   ELSE IF f.k \in {"str", "list"} /\ f.ne = 1 THEN inv ELSE 3
       [] c = 6 -> IF num /\ f.hh = 1 THEN inv
                   ELSE IF f.k = "enum" THEN inv
                   ELSE IF f.k = "list" /\ f.hh = 1 THEN inv ELSE 3
       \* st = 1: the type is checked, nothing is coerced; a float that survives normalisation must be finite
       \* ("<path> must be a finite number"); other int/bool/map values are coerced first (unspecified outcome)
       [] c = 7 -> IF txt \/ f.st = 1 THEN inv ELSE 2
       [] c \in {8, 9, 10} -> IF txt \/ f.st = 1 \/ f.k = "float" THEN inv ELSE 2
       [] c = 11 -> IF txt THEN inv
                    ELSE IF num \/ f.k = "map" THEN (IF f.hh = 1 \/ f.cap = 1 THEN inv ELSE IF f.soft = 1 THEN 2 ELSE 1)
                    ELSE 2
       [] c = 12 -> IF txt \/ f.st = 1 THEN inv ELSE 2

SLeaf(s, c) ==
  LET t == ST[s]
  IN CASE c = 1 -> IF t.free >= 1 THEN 1 ELSE 0
       [] c = 2 -> IF t.free = 1 THEN 2 ELSE 0
       [] c = 3 -> IF t.ndrej = 1 THEN 0 ELSE 2

ELeaf(e, c) == IF e <= NF THEN Leaf(e, c) ELSE SLeaf(e - NF, c)

-----------------------------------------------------------------------------
(* key tree *)
RECURSIVE Under(_, _)
Under(a, s) == IF a = s THEN TRUE ELSE IF a <= 1 THEN FALSE ELSE Under(ST[a].parent, s)
RECURSIVE TopOf(_)
TopOf(s) == IF s = 1 THEN 1 ELSE IF ST[s].parent = 1 THEN s ELSE TopOf(ST[s].parent)
SecOf(e) == IF e <= NF THEN FT[e].sec ELSE e - NF
\* where an element lives: a field in its section, a structural fault in the section it changes; a
\* non-dict section removes everything below it, so nothing else may live there
Loc(e) == IF e <= NF THEN FT[e].sec ELSE e - NF
Compatible(e1, c1, e2, c2) ==
  /\ ~(e1 > NF /\ c1 = 3 /\ Under(Loc(e2), e1 - NF))
  /\ ~(e2 > NF /\ c2 = 3 /\ Under(Loc(e1), e2 - NF))
InScope(e1, e2) == CASE PairScope = "all" -> TRUE
                     [] PairScope = "section" -> TopOf(SecOf(e1)) = TopOf(SecOf(e2))
                     [] OTHER -> FALSE

-----------------------------------------------------------------------------
(* vectors: <<>>, <<<<e, c>>>>, <<<<e1, c1>>, <<e2, c2>>>> with e1 < e2, or the corner <<<<0, k>>>> *)
CornerClass(k, i) ==
  LET f == FT[i]
      pick == CASE k = 1 -> 2 [] k = 2 -> 3 [] k = 3 -> 4
                [] OTHER -> 2 + ((i * (k - 3) + k) % 3)
  IN IF pick = 4 /\ f.hm = 0 THEN 1 ELSE pick
IsCorner(v) == Len(v) = 1 /\ v[1][1] = 0
FClass(v, i) == IF IsCorner(v) THEN CornerClass(v[1][2], i)
                ELSE IF \E k \in 1..Len(v) : v[k][1] = i
                     THEN v[CHOOSE k \in 1..Len(v) : v[k][1] = i][2] ELSE 1
Val(v, i) == LET c == FClass(v, i) f == FT[i]
             IN CASE c = 1 -> f.d [] c = 2 -> f.mn [] c = 3 -> f.mx [] c = 4 -> f.md
                  [] c = 11 -> BIG [] OTHER -> 0
Present(v, i) == FClass(v, i) # 1
FL(v, i) == Leaf(i, FClass(v, i))

\* generic numeric rule over fields a, b: 1 holds / irrelevant, 0 violated, 2 unknown
NumRule(v, a, b, holds) ==
  IF FL(v, a) = 0 \/ FL(v, b) = 0 THEN 1
  ELSE IF FL(v, a) = 2 \/ FL(v, b) = 2 THEN 2
  ELSE IF holds THEN 1 ELSE 0

\* field indices of the rule operands (rows of FT; the harness cross-checks the names)
WMIN == 114  WMAX == 115  TAUH == 93  TAUL == 94  WALL == 157  QUANT == 150
CMIN == 130  CMAX == 131  FLOOR == 133  WEAK == 140  MINAVG == 136
FXEN == 107  FXPATH == 108  ALLOWR == 89  RBACK == 96
RuleNames == <<"t4.weight_min", "t4.weight_max", "t3.policy.tau_high", "t3.policy.tau_low",
               "scheduler.budgets.wall_ms", "scheduler.quantum_ms", "graph.update.clamp_min",
               "graph.update.clamp_max", "graph.decay.floor", "graph.split.weak_edge_thresh",
               "graph.merge.min_avg_w", "t3.llm.fixtures.enabled", "t3.llm.fixtures.path",
               "t3.allow_reflection", "t3.reflection.backend">>
RuleIdx == <<WMIN, WMAX, TAUH, TAUL, WALL, QUANT, CMIN, CMAX, FLOOR, WEAK, MINAVG, FXEN, FXPATH, ALLOWR, RBACK>>
ASSUME \A k \in 1..Len(RuleIdx) : FT[RuleIdx[k]].n = RuleNames[k]

PathGiven(v) == FClass(v, FXPATH) \in {2, 3, 4}
Rule(v, r) ==
  CASE r = 1 -> NumRule(v, WMIN, WMAX, Val(v, WMIN) < Val(v, WMAX))               \* weight_min < weight_max
    [] r = 2 -> IF Present(v, TAUH) /\ Present(v, TAUL)                           \* tau_high >= tau_low (both given)
                THEN NumRule(v, TAUH, TAUL, Val(v, TAUH) >= Val(v, TAUL)) ELSE 1
    [] r = 3 -> NumRule(v, WALL, QUANT, Val(v, WALL) >= Val(v, QUANT))            \* wall_ms >= quantum_ms
    [] r = 4 -> NumRule(v, CMIN, CMAX, Val(v, CMIN) < Val(v, CMAX))               \* clamp_min < clamp_max
    [] r = 5 -> NumRule(v, FLOOR, CMAX, Val(v, FLOOR) <= Val(v, CMAX))            \* decay.floor <= clamp_max
    [] r = 6 -> NumRule(v, WEAK, MINAVG, Val(v, WEAK) <= Val(v, MINAVG))          \* weak_edge_thresh <= min_avg_w
    [] r = 7 -> IF FL(v, FXEN) = 0 THEN 1 ELSE IF FL(v, FXEN) = 2 THEN 2          \* fixtures.enabled => path given
                ELSE IF Val(v, FXEN) = 1000 /\ ~PathGiven(v) THEN 0 ELSE 1
    [] r = 8 -> IF FL(v, ALLOWR) = 0 \/ FL(v, RBACK) = 0 \/ FL(v, FXEN) = 0 THEN 1
                ELSE IF FL(v, ALLOWR) = 2 \/ FL(v, RBACK) = 2 THEN 2
                ELSE IF Val(v, ALLOWR) = 1000 /\ Val(v, RBACK) = 2000              \* reflection on + llm backend
                     THEN (IF FL(v, FXEN) = 2 THEN 2
                           ELSE IF Val(v, FXEN) = 1000 /\ PathGiven(v) THEN 1 ELSE 0)
                     ELSE 1
    [] r = 9 -> NumRule(v, CMIN, CMAX, Val(v, CMIN) <= 0 /\ Val(v, CMAX) >= 0)       \* clamp_min <= 0 <= clamp_max
NRules == 9

Eval(v) ==
  LET idx == IF IsCorner(v) THEN {} ELSE 1..Len(v)
      \* a legacy alias is not consulted when its canonical key is given (documented precedence): whatever
      \* it holds then is unspecified rather than rejected
      shadowed(e) == e <= NF /\ FT[e].al # 0 /\ Present(v, FT[e].al)
      leaf == [k \in idx |-> LET l == ELeaf(v[k][1], v[k][2]) IN IF l = 0 /\ shadowed(v[k][1]) THEN 2 ELSE l]
      faults == {v[k][1] : k \in {j \in idx : leaf[j] = 0}}
      unspec == {v[k][1] : k \in {j \in idx : leaf[j] = 2}}
      rl == [r \in 1..NRules |-> Rule(v, r)]
      broken == {r \in 1..NRules : rl[r] = 0}
      unknown == {r \in 1..NRules : rl[r] = 2}
      verdict == IF faults # {} \/ broken # {} THEN "REJECT"
                 ELSE IF unspec # {} \/ unknown # {} THEN "UNSPEC" ELSE "ACCEPT"
  IN [verdict |-> verdict, faults |-> faults, unspec |-> unspec, rules |-> broken, rules_unknown |-> unknown]

-----------------------------------------------------------------------------
VARIABLES vec, out
vars == <<vec, out>>

ElemClasses(e) == IF e <= NF THEN {c \in 2..NCls : Leaf(e, c) # 3} ELSE {c \in 1..3 : SLeaf(e - NF, c) # 3}
PairClasses(e) == IF e <= NF THEN {c \in FPairCls : Leaf(e, c) # 3} ELSE {c \in 1..3 : SLeaf(e - NF, c) # 3}

Init ==
  /\ \/ vec = <<>>
     \/ Singles /\ \E e \in 1..(NF + NS) : \E c \in ElemClasses(e) : vec = <<<<e, c>>>>
     \/ PairScope # "none" /\ \E e1 \in 1..(NF + NS) : \E e2 \in (e1 + 1)..(NF + NS) :
           /\ InScope(e1, e2)
           /\ \E c1 \in PairClasses(e1) : \E c2 \in PairClasses(e2) :
                 /\ Compatible(e1, c1, e2, c2)
                 /\ vec = <<<<e1, c1>>, <<e2, c2>>>>
     \/ \E k \in 1..NCorners : vec = <<<<0, k>>>>
  /\ out = Eval(vec)
Next == FALSE
Spec == Init /\ [][Next]_vars

-----------------------------------------------------------------------------
(* sanity of the contract itself (M) *)
VerdictTotal == out.verdict \in {"ACCEPT", "REJECT", "UNSPEC"}
OmittedEverythingAccepted == vec = <<>> => out.verdict = "ACCEPT"
RejectHasCause == out.verdict = "REJECT" <=> (out.faults # {} \/ out.rules # {})
FaultsInsideVector == IsCorner(vec) \/ (out.faults \cup out.unspec) \subseteq {vec[k][1] : k \in 1..Len(vec)}
InvalidLeafDominates == \A k \in 1..Len(vec) :
   (~IsCorner(vec) /\ ELeaf(vec[k][1], vec[k][2]) = 0 /\ ~(vec[k][1] <= NF /\ FT[vec[k][1]].al # 0 /\ Present(vec, FT[vec[k][1]].al)))
      => out.verdict = "REJECT"
AllMidCornerAccepted == vec = <<<<0, 3>>>> => out.verdict = "ACCEPT"
CornersAreDefinite == IsCorner(vec) => out.verdict # "UNSPEC"
\* the table is well formed: bounds ordered, valid corner values inside the bounds, default inside the bounds
\* (constant-level: checked once as an assumption)
TableWellFormed ==
  \A i \in 1..NF : LET f == FT[i] IN
     /\ f.sec \in 1..NS
     /\ f.k \in {"int", "float"} =>
          /\ (f.hl = 1 => (IF f.lx = 1 THEN f.mn > f.lv ELSE f.mn >= f.lv))
          /\ (f.hh = 1 => (IF f.hx = 1 THEN f.mx < f.hv ELSE f.mx <= f.hv))
          /\ f.mn <= f.mx /\ (f.hm = 1 => (f.mn <= f.md /\ f.md <= f.mx))
          /\ (f.hd = 1 /\ f.hl = 1 => (IF f.lx = 1 THEN f.d > f.lv ELSE f.d >= f.lv))
          /\ (f.hd = 1 /\ f.hh = 1 => f.d <= f.hv)

ASSUME TableWellFormed

EmitCase == PrintT(<<"T", ToJson([v |-> vec, verdict |-> out.verdict, faults |-> out.faults,
                                  unspec |-> out.unspec, rules |-> out.rules, runk |-> out.rules_unknown,
                                  cls |-> IF IsCorner(vec) THEN [i \in 1..NF |-> CornerClass(vec[1][2], i)] ELSE <<>>])>>)
\* print of the frozen table (TLC evaluates this constant once at start-up; the harness compares the printed
\* table column by column with its mirror and refuses to run on any difference)
EmitTable == PrintT(<<"T", ToJson([table |-> FT, sections |-> ST])>>)
=============================================================================
