----------------------------- MODULE SnapshotDir -----------------------------
(* Snapshot directory and latest-snapshot discovery (clematis.engine.snapshot:
   _pick_latest_snapshot_path, get_latest_snapshot_info, load_latest_snapshot), C06.

   The directory holds any subset of a fixed table of file names: snapshot bodies of the three
   documented families, their ".meta" sidecars (docs/m13/snapshot_freeze.md: "<snapshot>.meta"),
   temporaries of the atomic writer (clematis.io.atomic._make_tmp: "<final name>.<random>"), and
   unrelated files.  `ord` lists the table indices oldest -> newest (modification time).

   Documented precedence, transcribed twice because the two documents disagree on the order of
   the families (both are admissible, neither ever yields a sidecar or a temporary):
     D1 (_pick_latest_snapshot_path docstring): snap_<digits>.json by descending NUMERIC suffix;
        else state_*.json by most recent mtime; else newest *.json by mtime; else none.
     D2 (snapshot_freeze.md "Loader & discovery"): prefers PR34 snapshot-*.full.json /
        snapshot-*.delta.json (newest), then legacy state_*.json (newest); silent about the rest
        (completed with D1).                                                                     *)
EXTENDS Integers, Sequences, FiniteSets, TLC, Json

CONSTANTS Orders,    \* set of permutations of 1..N (oldest -> newest)
          MaxFiles   \* directories with at most MaxFiles entries

\* kind: body | sidecar | temp | other ;  fam: numbered | state | pr34 | json | none ; num: numeric suffix
Tab == <<
  [name |-> "state_A.json",                 kind |-> "body",    fam |-> "state",    num |-> 0],
  [name |-> "state_A.json.meta",            kind |-> "sidecar", fam |-> "none",     num |-> 0],
  [name |-> "state_A.json.k3x9q_2b",        kind |-> "temp",    fam |-> "none",     num |-> 0],
  [name |-> "state_B.json",                 kind |-> "body",    fam |-> "state",    num |-> 0],
  [name |-> "snap_9.json",                  kind |-> "body",    fam |-> "numbered", num |-> 9],
  [name |-> "snap_000010.json",             kind |-> "body",    fam |-> "numbered", num |-> 10],
  [name |-> "snap_000010.json.meta",        kind |-> "sidecar", fam |-> "none",     num |-> 0],
  [name |-> "snapshot-e.full.json",         kind |-> "body",    fam |-> "pr34",     num |-> 0],
  [name |-> "snapshot-e.full.json.meta",    kind |-> "sidecar", fam |-> "none",     num |-> 0],
  [name |-> "x.json",                       kind |-> "body",    fam |-> "json",     num |-> 0],
  [name |-> "notes.txt",                    kind |-> "other",   fam |-> "none",     num |-> 0],
  [name |-> "snapshot-e.full.json.w0_fjz1p", kind |-> "temp",   fam |-> "none",     num |-> 0] >>
N == Len(Tab)

VARIABLES present, ord, out
vars == <<present, ord, out>>

Rank(o, i) == CHOOSE k \in 1..N : o[k] = i
Newest(S, o) == CHOOSE i \in S : \A j \in S : Rank(o, j) <= Rank(o, i)
Bodies(P) == {i \in P : Tab[i].kind = "body"}
Fam(P, f) == {i \in Bodies(P) : Tab[i].fam = f}

\* 0 = "no snapshot"
PickD1(P, o) ==
    IF Fam(P, "numbered") # {} THEN CHOOSE i \in Fam(P, "numbered") : \A j \in Fam(P, "numbered") : Tab[j].num <= Tab[i].num
    ELSE IF Fam(P, "state") # {} THEN Newest(Fam(P, "state"), o)
    ELSE IF Bodies(P) # {} THEN Newest(Bodies(P), o)
    ELSE 0
PickD2(P, o) ==
    IF Fam(P, "pr34") # {} THEN Newest(Fam(P, "pr34"), o)
    ELSE IF Fam(P, "state") # {} THEN Newest(Fam(P, "state"), o)
    ELSE PickD1(P, o)
Admissible(P, o) == {PickD1(P, o), PickD2(P, o)}

Init == /\ present \in {P \in SUBSET (1..N) : Cardinality(P) <= MaxFiles} /\ ord \in Orders
        /\ out = Admissible(present, ord)
Next == FALSE
Spec == Init /\ [][Next]_vars

DiscoveryNeverSidecarOrTemp == \A i \in out : i = 0 \/ Tab[i].kind = "body"
DiscoveryFindsBody == (Bodies(present) # {}) <=> (0 \notin out)
DiscoveryPicksPresent == \A i \in out : i = 0 \/ i \in present

NameOf(i) == IF i = 0 THEN "" ELSE Tab[i].name
EmitCase == PrintT(<<"T", ToJson([present |-> {Tab[i].name : i \in present},
                                  order |-> [k \in 1..N |-> Tab[ord[k]].name],
                                  adm |-> {NameOf(i) : i \in out},
                                  d1 |-> NameOf(PickD1(present, ord)),
                                  forbidden |-> {Tab[i].name : i \in {j \in present : Tab[j].kind \in {"sidecar", "temp"}}}])>>)
=============================================================================
