----------------------------- MODULE DeltaTrace -----------------------------
(* C->S for the delta codec: each trace carries one round trip performed by the real code on random
   JSON, values in the typed encoding [t, v] (objects: record of hex-encoded keys; ints as limbs;
   strings hex; floats by repr).  The verdict is TLA+ value equality  rebuilt = cur.            *)
EXTENDS Integers, Sequences, TLC, Json, IOUtils, TLCExt

Traces == ndJsonDeserialize(IOEnv.TRACE_FILE)
VARIABLES tid
TInit == TLCSet(1, 0) /\ tid = 1
Verdict(e) == IF e.raised THEN "CodecRaised" ELSE IF e.rebuilt = e.cur THEN "ok" ELSE "RoundTrip"
TNext == /\ tid <= Len(Traces)
         /\ PrintT(<<"V", Traces[tid].tid, Verdict(Traces[tid].ev[1]), 1>>)
         /\ TLCSet(1, tid)
         /\ tid' = tid + 1
TraceSpec == TInit /\ [][TNext]_tid
Done == PrintT(<<"V", 0, "done", TLCGet(1)>>)
=============================================================================
