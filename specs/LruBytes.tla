------------------------------ MODULE LruBytes ------------------------------
(* Entry- and byte-bounded LRU cache (clematis.engine.util.lru_bytes.LRUBytes), stated from its
   documented contract (C15):
     - two caps: MaxE entries, MaxB bytes; a cap of 0 means "unbounded in that dimension";
       both 0 = disabled (nothing is ever stored);
     - recency moves on get (hit) and on put (insert and update);
     - put rejects an item whose cost exceeds a positive byte cap (state unchanged);
     - eviction removes the minimal LRU prefix that brings the cache back inside both caps;
     - put reports (#evicted, bytes evicted); byte accounting is exact.
   q is the abstract state: the sequence of entries from LRU to MRU.                       *)
EXTENDS Integers, Sequences, FiniteSets, TLC, Json

CONSTANTS Keys, Costs, Vals, MaxE, MaxB

VARIABLES q, last

vars == <<q, last>>

Entry(k, v, c) == [k |-> k, v |-> v, c |-> c]

RECURSIVE SumCost(_)
SumCost(s) == IF s = <<>> THEN 0 ELSE Head(s).c + SumCost(Tail(s))

KeysOf(s) == {s[i].k : i \in 1..Len(s)}
Without(s, k) == SelectSeq(s, LAMBDA e : e.k # k)
Lookup(s, k) == LET i == CHOOSE i \in 1..Len(s) : s[i].k = k IN s[i]

Disabled == MaxE = 0 /\ MaxB = 0
Within(s) == (MaxE = 0 \/ Len(s) <= MaxE) /\ (MaxB = 0 \/ SumCost(s) <= MaxB)
Drop(s, n) == SubSeq(s, n + 1, Len(s))
\* the number of LRU entries that must go: smallest n such that the rest is within both caps
MinDrop(s) == CHOOSE n \in 0..Len(s) : Within(Drop(s, n)) /\ \A m \in 0..(n - 1) : ~Within(Drop(s, m))

NormCost(c) == IF c < 0 THEN 0 ELSE c

Init == q = <<>> /\ last = [op |-> "init"]

\* Functional core: each operation maps the current sequence to [q |-> new sequence, obs |-> observation].
\* The relational actions below and the trace specification (LruBytesTrace) both use it.
PutF(s, k, v, c0) ==
    LET c == NormCost(c0) IN
    IF Disabled \/ (MaxB > 0 /\ c > MaxB)
    THEN [q |-> s, obs |-> [op |-> "put", k |-> k, v |-> v, c |-> c0, evn |-> 0, evb |-> 0]]
    ELSE LET s1 == Append(Without(s, k), Entry(k, v, c))
             n  == MinDrop(s1)
         IN [q |-> Drop(s1, n),
             obs |-> [op |-> "put", k |-> k, v |-> v, c |-> c0, evn |-> n,
                      evb |-> SumCost(SubSeq(s1, 1, n))]]

GetF(s, k) ==
    IF k \in KeysOf(s)
    THEN [q |-> Append(Without(s, k), Lookup(s, k)),
          obs |-> [op |-> "get", k |-> k, hit |-> TRUE, v |-> Lookup(s, k).v]]
    ELSE [q |-> s, obs |-> [op |-> "get", k |-> k, hit |-> FALSE, v |-> 0]]

ContainsF(s, k) ==
    [q |-> s, obs |-> [op |-> "contains", k |-> k, r |-> (k \in KeysOf(s) /\ ~Disabled)]]

ClearF(s) == [q |-> <<>>, obs |-> [op |-> "clear"]]

Do(r) == q' = r.q /\ last' = r.obs

Put(k, v, c0) == Do(PutF(q, k, v, c0))
Get(k) == Do(GetF(q, k))
Contains(k) == Do(ContainsF(q, k))
Clear == Do(ClearF(q))

Next ==
    \/ \E k \in Keys, v \in Vals, c \in Costs : Put(k, v, c)
    \/ \E k \in Keys : Get(k)
    \/ \E k \in Keys : Contains(k)
    \/ Clear

Spec == Init /\ [][Next]_vars

-----------------------------------------------------------------------------
(* Properties (C15 clauses) *)
WithinEntries == MaxE = 0 \/ Len(q) <= MaxE
WithinBytes   == MaxB = 0 \/ SumCost(q) <= MaxB
UniqueKeys    == Cardinality(KeysOf(q)) = Len(q)
ZeroCapacityDisabled == Disabled => q = <<>>
TypeOK == \A i \in 1..Len(q) : q[i].k \in Keys /\ q[i].v \in Vals /\ q[i].c >= 0

\* StrictLRU as an action property, stated independently of MinDrop: whatever survives a step
\* (other than the key operated on) is a *suffix* of the previous LRU order without that key.
IsSuffix(s, t) == Len(s) <= Len(t) /\ s = SubSeq(t, Len(t) - Len(s) + 1, Len(t))
StrictLRU ==
    [][ last'.op \in {"put", "get"} =>
          IsSuffix(Without(q', last'.k), Without(q, last'.k)) ]_vars
\* minimality: a put never evicts when the result without eviction is already within the caps
NoNeedlessEviction ==
    [][ (last'.op = "put" /\ last'.evn > 0) =>
          ~Within(Append(Without(q, last'.k), Entry(last'.k, last'.v, NormCost(last'.c)))) ]_vars

-----------------------------------------------------------------------------
(* Emission of every transition for spec-to-code replay *)
View == q
Emit == PrintT(<<"T", ToJson([pre |-> q, post |-> q', obs |-> last'])>>)
=============================================================================
