----------------------------- MODULE ShardMerge -----------------------------
(* Deterministic merge of per-shard retrieval hits — extra X09 (second half), beyond the listed properties.
   Bound to clematis.engine.stages.t2.shard: _qscore, sort_key, merge_hits (RawHit buckets) and
   merge_tier_hits_across_shards_dict (the dict-based merge of T2's parallel path).

   Stated from docs/m9/overview.md (PR68/PR69 "Deterministic merge semantics") and the docstrings:
     * "Tier-ordered walk": finish the first tier before the next one; "High-score items in later tiers will not
       displace earlier-tier items once k is satisfied"; every tier that is walked is reported in used_tiers
       ("Append tier to sequence regardless (mirrors sequential walk)"), also when it holds no hit;
     * "Stable sort key within a tier: primary = score (quantized) descending, secondary = id ascending" (lexicographic);
     * "De-duplicate across shards by id (keep the best by the same key)";
     * "Clamp after merge: k applied once globally";
     * _qscore: "Quantize a float to an integer ... 1e9 granularity ...; non-finite or bad values map to 0"
       (quantum 1e-9, Python round(): halves go to the EVEN integer);
     * merge_hits: "keep the best by (score desc, id asc) per episode_id; final list sorted by the same key".

   Scores are exact doubles on the grid  s = j/1024 + e/2^32  (code c = 8*j + e + 3, e in -3..3, j <= 549): then
   s * 1e9 = j * 976562.5 + e * 0.23283064365386962890625 is computed WITHOUT rounding error, an odd j with e = 0
   sits exactly on a half quantum, and e = -2..2 (even j) are different raw scores with the same quantised score.
   Codes 100000 + c are the negated scores, 9001 = NaN, 9002 = +infinity, 9003 = no score at all / None, 9004 = -infinity
   (all "bad": 0).  Ids are integers in their LEXICOGRAPHIC order (the harness spells 1,2,3,4 as "m10","m100","m2","m9").

   A case is a list of hits [id, sc, sh, ti]; shard sh's bucket holds its hits in list order, buckets are handed over in
   shard order.  out.flat = merge_hits over the buckets (tiers ignored); out.all = the tier walk without clamp;
   out.used[k+1] = number of tiers reported for k_retrieval = k; the result for k is the first max(k,1) entries of out.all.

   MODELLED AS BUILT, documentation silent: between duplicates of one id with the SAME quantised score the object that
   is kept (its raw score, its payload) is the first one met (shard order, then bucket order): the merged (id, quantised
   score) list is independent of bucket order and of the order inside buckets, the identity of the kept object is not.
   out.*.src is the list index of the kept hit.
   DEVIATION K0 ("stop at k_retrieval", "global K-clamp"): the clamp is tested after an append, so k_retrieval <= 0 returns
   ONE hit (when there is any) instead of none: merge_tier_hits_across_shards_dict([{"t": [{"id": "a", "score": 0.5}]}], ["t"], 0)
   = ([{"id": "a", ...}], ["t"]).  The validator demands t2.k_retrieval >= 1, so the engine never asks for it.      *)
EXTENDS Integers, Sequences, FiniteSets, TLC, Json

CONSTANTS MaxHits, Ids, Scores, NShards, NTiers,     \* hits use shards 1..NShards and tiers 1..NTiers
          WalkTiers,                                  \* the tier walk visits tiers 1..WalkTiers (>= NTiers: trailing tiers without hits)
          Part, NParts

VARIABLES hits, out
vars == <<hits, out>>

RECURSIVE SumSeq(_)
SumSeq(s) == IF s = <<>> THEN 0 ELSE Head(s) + SumSeq(Tail(s))
SetMax(S) == CHOOSE x \in S : \A y \in S : y <= x
SetMin(S) == CHOOSE x \in S : \A y \in S : x <= y

\* ---- quantisation: round-half-even of s * 1e9, exactly -------------------------------------------------------
U == 8388608                                   \* 2^23: e/2^32 * 1e9 = e * 1953125 / 2^23
QPos(c) == LET j == c \div 8
               e == (c % 8) - 3
               base == (j * 1953125) \div 2            \* floor(j * 976562.5)
               fr == (j % 2) * (U \div 2) + e * 1953125    \* the rest, in units of 1/U
               k == fr \div U                          \* floor (fr may be negative)
               r == fr - k * U
               n == base + k
           IN IF 2 * r < U THEN n ELSE IF 2 * r > U THEN n + 1 ELSE IF n % 2 = 0 THEN n ELSE n + 1
Bad(c) == c \in 9001..9004
Q(c) == IF Bad(c) THEN 0 ELSE IF c >= 100000 THEN 0 - QPos(c - 100000) ELSE QPos(c)

\* ---- the order "best first": quantised score descending, id ascending ----------------------------------------
Before(q1, id1, q2, id2) == q1 > q2 \/ (q1 = q2 /\ id1 < id2)

\* positions of the hits in the order in which the implementation meets them: shard by shard, list order inside
MeetsBefore(h, i, j) == h[i].sh < h[j].sh \/ (h[i].sh = h[j].sh /\ i < j)
FirstMet(h, S) == CHOOSE i \in S : \A j \in S \ {i} : MeetsBefore(h, i, j)

\* kept representative of an id among the hit positions P: best quantised score, the first one met among equals
KeptOf(h, P, id) == LET mine == {i \in P : h[i].id = id}
                        qb == SetMax({Q(h[i].sc) : i \in mine})
                    IN [id |-> id, q |-> qb, src |-> FirstMet(h, {i \in mine : Q(h[i].sc) = qb})]
RECURSIVE SortRecs(_, _)
SortRecs(sel, rem) == IF rem = {} THEN sel
                      ELSE LET b == CHOOSE x \in rem : \A y \in rem \ {x} : Before(x.q, x.id, y.q, y.id)
                           IN SortRecs(Append(sel, b), rem \ {b})
MergeSet(h, P) == SortRecs(<<>>, {KeptOf(h, P, id) : id \in {h[i].id : i \in P}})

Flat(h) == MergeSet(h, DOMAIN h)

\* tier walk without clamp: ids already delivered by an earlier tier are skipped
RECURSIVE Walk(_, _, _)
Walk(h, t, seen) ==
    IF t > NTiers THEN <<>>
    ELSE LET P == {i \in DOMAIN h : h[i].ti = t /\ h[i].id \notin seen}
             m == MergeSet(h, P)
         IN [k \in 1..Len(m) |-> [id |-> m[k].id, q |-> m[k].q, src |-> m[k].src, tier |-> t]] \o Walk(h, t + 1, seen \cup {h[i].id : i \in P})
UsedFor(all, k) == LET kk == IF k < 1 THEN 1 ELSE k            \* DEVIATION K0
                   IN IF Len(all) >= kk THEN all[kk].tier ELSE WalkTiers

Merge(h) == LET all == Walk(h, 1, {}) IN
            [qs |-> [i \in DOMAIN h |-> Q(h[i].sc)],
             flat |-> Flat(h),
             all |-> all,
             used |-> [k1 \in 1..(MaxHits + 2) |-> UsedFor(all, k1 - 1)]]

HitRec == [id : Ids, sc : Scores, sh : 1..NShards, ti : 1..NTiers]
PartOf(h) == SumSeq([i \in DOMAIN h |-> h[i].id + h[i].sc + h[i].sh + h[i].ti]) % NParts

Init == /\ \E n \in 0..MaxHits : hits \in [1..n -> HitRec]
        /\ PartOf(hits) = Part
        /\ out = Merge(hits)
Next == FALSE
Spec == Init /\ [][Next]_vars

------------------------------------------------------------------------------
n_ == Len(hits)
Proj(s) == [k \in 1..Len(s) |-> <<s[k].id, s[k].q>>]
Mirror(h) == [i \in DOMAIN h |-> [h[i] EXCEPT !.sh = NShards + 1 - h[i].sh]]        \* buckets handed over in the opposite order
Reverse(h) == [i \in DOMAIN h |-> h[Len(h) + 1 - i]]                                \* every bucket in the opposite order

SortedByQuantisedScoreThenId ==
    /\ \A p \in 1..(Len(out.flat) - 1) : Before(out.flat[p].q, out.flat[p].id, out.flat[p + 1].q, out.flat[p + 1].id)
    /\ \A p \in 1..(Len(out.all) - 1) : out.all[p].tier = out.all[p + 1].tier =>
           Before(out.all[p].q, out.all[p].id, out.all[p + 1].q, out.all[p + 1].id)
TiesBrokenByIdOnly ==        \* inside one quantum the raw scores do not matter
    \A p \in 1..Len(out.flat), r \in 1..Len(out.flat) :
        (p < r /\ out.flat[p].q = out.flat[r].q) => out.flat[p].id < out.flat[r].id
DuplicatesKeptOnceWithBestScore ==
    /\ \A p \in 1..Len(out.flat), r \in 1..Len(out.flat) : p # r => out.flat[p].id # out.flat[r].id
    /\ {out.flat[p].id : p \in 1..Len(out.flat)} = {hits[i].id : i \in 1..n_}
    /\ \A p \in 1..Len(out.flat) :
           /\ hits[out.flat[p].src].id = out.flat[p].id /\ out.qs[out.flat[p].src] = out.flat[p].q
           /\ \A i \in 1..n_ : hits[i].id = out.flat[p].id => out.qs[i] <= out.flat[p].q
BucketOrderIndependent == Proj(Flat(Mirror(hits))) = Proj(out.flat) /\ Proj(Walk(Mirror(hits), 1, {})) = Proj(out.all)
IntraBucketOrderIndependent == Proj(Flat(Reverse(hits))) = Proj(out.flat) /\ Proj(Walk(Reverse(hits), 1, {})) = Proj(out.all)
TiersKeptApart ==
    /\ \A p \in 1..(Len(out.all) - 1) : out.all[p].tier <= out.all[p + 1].tier
    /\ \A p \in 1..Len(out.all), r \in 1..Len(out.all) : p # r => out.all[p].id # out.all[r].id
    /\ {out.all[p].id : p \in 1..Len(out.all)} = {hits[i].id : i \in 1..n_}
    /\ \A p \in 1..Len(out.all) :                       \* an id belongs to the FIRST tier that holds it, with its best score THERE
           /\ out.all[p].tier = SetMin({hits[i].ti : i \in {j \in 1..n_ : hits[j].id = out.all[p].id}})
           /\ out.all[p].q = SetMax({out.qs[i] : i \in {j \in 1..n_ : hits[j].id = out.all[p].id /\ hits[j].ti = out.all[p].tier}})
ClampReportsTiers ==
    \A k \in 1..(MaxHits + 1) :
        /\ (k = MaxHits + 1 \/ out.used[k + 1] <= out.used[k + 2])           \* a larger k never walks fewer tiers
        /\ (Len(out.all) < k => out.used[k + 1] = WalkTiers)                \* not satisfied: every tier was walked
        /\ (Len(out.all) >= k => out.used[k + 1] = out.all[k].tier)         \* satisfied in the tier of the k-th hit
QuantisationMonotone ==
    \A i \in 1..n_, j \in 1..n_ :
        (hits[i].sc < 9000 /\ hits[j].sc < 9000 /\ hits[i].sc <= hits[j].sc) => out.qs[i] <= out.qs[j]

EmitCase == PrintT(<<"T", ToJson([h |-> hits, o |-> out])>>)
=============================================================================
