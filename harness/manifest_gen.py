"""Regenerates /verif/MANIFEST.json from the table below (single source of truth)."""
import json, os

BASE_CMD = "cd /repo && /venv/bin/python -m pytest -ra -q -p no:cacheprovider --timeout=900 --continue-on-collection-errors"

# pid -> (technique, level text, level_note, design_ref)
CHECKS = {}
NOT_YET = {}
# properties whose check is finished and reviewed (others stay under not_applicable until then)
ENABLED = ["C01", "C02", "C03", "C04", "C05", "C06", "C07", "C08", "C09", "C10", "C11", "C12", "C13", "C14", "C15", "C16", "C17", "C18", "C19", "C20"]

def load():
    import importlib, pkgutil
    import harness.props as P
    for m in pkgutil.iter_modules(P.__path__):
        if m.name.upper() not in ENABLED:
            continue
        mod = importlib.import_module(f"harness.props.{m.name}")
        meta = getattr(mod, "MANIFEST", None)
        if meta and m.name.upper() in ENABLED:
            CHECKS[m.name.upper()] = meta

def main():
    load()
    props = [json.loads(l)["id"] for l in open("/verif/properties.jsonl")]
    checks = []
    for pid in props:
        if pid not in CHECKS:
            continue
        m = CHECKS[pid]
        checks.append({
            "property_id": pid,
            "quick_cmd": f"./check {pid} --tier quick",
            "thorough_cmd": f"./check {pid} --tier thorough",
            "evidence_file": f"/verif/evidence/{pid}.json",
            "replay_cmd_template": f"./check {pid} --replay {{path}}",
            "engine": "tla-mbv",
            "level_claimed": {"category": "model_checking", "text": m["text"],
                              "design_ref": m.get("design_ref", f"DESIGN.md §4 {pid}")},
            "level_note": m["note"],
            "technique": m["technique"],
        })
    na = [{"property_id": pid, "reason": "check not built yet in this round (planned: TLA+ model + conformance binding, see DESIGN.md §4); nothing is claimed for it"}
          for pid in props if pid not in CHECKS]
    man = {
        "version": 1,
        "setup_cmd": "sh -c 'java -version 2>&1 | head -1 && /venv/bin/python -c \"import clematis, yaml, numpy\" && chmod +x /verif/check'",
        "hooks": {
            "guard": "CLEMATIS3_VERIF",
            "enable": "no source hooks: the harness observes through public APIs and documented monkeypatch points of the editable install of /repo (DESIGN.md §2.3); CLEMATIS3_VERIF=1 is exported by ./check but no code in /repo reads it",
            "baseline_off_cmd": BASE_CMD,
            "source_commits": [],
            "add_only": True,
        },
        "engines": [{
            "name": "tla-mbv", "path": "/verif/check",
            "serves_properties": [c["property_id"] for c in checks],
            "kind_free_text": "explicit TLA+ specifications (specs/*.tla) model-checked with TLC; bound to the implementation by spec-to-code replay of TLC-enumerated transitions/cases and by TLC trace validation of executions recorded from the real code",
        }],
        "checks": checks,
        "not_applicable": na,
        "notes": "See DESIGN.md. Known findings: /verif/known_findings.json. Seeded mutants: /verif/seeded/.",
    }
    with open("/verif/MANIFEST.json", "w") as f:
        json.dump(man, f, indent=1)
        f.write("\n")
    print(f"{len(checks)} checks, {len(na)} not yet claimed")

if __name__ == "__main__":
    main()
