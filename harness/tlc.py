"""Thin driver around TLC / SANY.

run_tlc() copies the spec directory into a scratch directory, writes the cfg there and runs
TLC under an outer timeout.  It parses:
  * state counts ("N states generated, M distinct states found"), diameter,
  * per-action coverage (when coverage=True),
  * emitted cases:  PrintT(<<"T", ToJson(x)>>)  ->  python objects (order of emission),
  * invariant / property violations with the counterexample text,
  * TLC errors (anything else) -> TLCError (machinery failure, exit 2 upstream).
"""
from __future__ import annotations

import json
import os
import re
import shutil
import subprocess
import time
from dataclasses import dataclass, field
from typing import Any, Dict, List, Optional

JAR = "/opt/veriftools/tla/tla2tools.jar"
DEPS = "/opt/veriftools/tla/CommunityModules-deps.jar"
SPECS = "/verif/specs"


class TLCError(RuntimeError):
    pass


@dataclass
class TLCResult:
    module: str
    cmd: str
    wall_s: float
    generated: int = 0
    distinct: int = 0
    diameter: int = 0
    emitted: List[Any] = field(default_factory=list)
    coverage: Dict[str, int] = field(default_factory=dict)
    violation: Optional[Dict[str, Any]] = None  # {"kind","name","trace"}
    timed_out: bool = False
    raw_tail: str = ""
    sim_files: List[str] = field(default_factory=list)
    text: str = ""
    verdicts: Dict[Any, Any] = field(default_factory=dict)


_RE_STATS = re.compile(r"^(\d+) states generated, (\d+) distinct states found")
_RE_DEPTH = re.compile(r"depth of the complete state graph search is (\d+)")
_RE_SIMSTATS = re.compile(r"The number of states generated: (\d+)")
_RE_COV = re.compile(r"^<(\w+) line \d+, col \d+ to line \d+, col \d+ of module (\w+)>: (\d+):(\d+)")
_RE_VERDICT = re.compile(r'<<"V", (-?\d+), "([^"]*)", (-?\d+)>>')
_RE_INV = re.compile(r"Error: Invariant (\S+) is violated")
_RE_PROP = re.compile(r"Error: (?:Action|Temporal) propert(?:y|ies) (\S*) ?(?:is|were) violated")


def _unescape_tla_string(s: str) -> str:
    # TLC prints strings with \" and \\ escapes (and \n, \t) – the JSON text inside is thus
    # escaped once more.  json.loads on a quoted version does the right thing.
    return json.loads('"' + s + '"')


_RE_EMIT = re.compile(r'<<"T", "((?:[^"\\]|\\.)*)">>')


def parse_emitted(text: str) -> List[Any]:
    """Extract <<"T", "<json>">> tuples from TLC output (order of emission)."""
    out: List[Any] = []
    for m in _RE_EMIT.finditer(text):
        payload = m.group(1)
        try:
            if "\\" in payload:
                payload = _unescape_tla_string(payload)
            out.append(json.loads(payload))
        except Exception as e:  # pragma: no cover
            raise TLCError(f"cannot parse emitted case: {payload[:200]!r}: {e}")
    return out


def prepare_dir(workdir: str, name: str, module: Optional[str] = None,
                defs: Optional[Dict[str, str]] = None) -> str:
    """copy the specs into a scratch dir; `defs` (name -> TLA+ expression) are appended to `module`
    just before its `Init ==` so that a cfg can say `Const <- name` for values a cfg cannot express
    (negative numbers, sequences, records)"""
    d = os.path.join(workdir, name)
    if os.path.isdir(d):
        shutil.rmtree(d)
    os.makedirs(d)
    for root, _dirs, files in os.walk(SPECS):
        for f in files:
            if f.endswith(".tla"):
                shutil.copy(os.path.join(root, f), os.path.join(d, f))
    if defs and module:
        p = os.path.join(d, f"{module}.tla")
        text = open(p).read()
        i = text.index("\nInit ==")
        extra = "\n".join(f"{k} == {v}" for k, v in defs.items())
        with open(p, "w") as fh:
            fh.write(text[:i] + "\n" + extra + text[i:])
    return d


def run_tlc(
    module: str,
    cfg_text: str,
    workdir: str,
    *,
    name: Optional[str] = None,
    workers: int | str = 1,
    simulate: Optional[str] = None,   # e.g. "num=1000"  (adds -simulate)
    depth: Optional[int] = None,
    seed: Optional[int] = None,
    timeout_s: int = 600,
    coverage: bool = False,
    deadlock: bool = False,
    env: Optional[Dict[str, str]] = None,
    jvm_opts: Optional[List[str]] = None,
    heap: str = "4g",
    expect_violation: bool = False,
    dfid: Optional[int] = None,
    defs: Optional[Dict[str, str]] = None,
) -> TLCResult:
    name = name or module
    d = prepare_dir(workdir, "tlc_" + name, module, defs)
    cfg_path = os.path.join(d, f"{module}.cfg")
    with open(cfg_path, "w") as f:
        f.write(cfg_text)
    # (TLC leaves an empty tlc-<n> directory in java.io.tmpdir per run: keep it inside the run's own scratch directory)
    cmd = ["java", "-XX:+UseParallelGC", f"-Xmx{heap}", f"-Djava.io.tmpdir={d}"]
    cmd += list(jvm_opts or [])
    cmd += ["-cp", f"{JAR}:{DEPS}", "tlc2.TLC", "-noGenerateSpecTE",
            "-metadir", os.path.join(d, "states"), "-workers", str(workers),
            "-config", f"{module}.cfg"]
    if not deadlock:
        cmd += ["-deadlock"]          # -deadlock = do NOT check for deadlock
    if coverage:
        cmd += ["-coverage", "1"]
    if simulate is not None:
        cmd += ["-simulate", simulate]
    if depth is not None:
        cmd += ["-depth", str(depth)]
    if seed is not None:
        cmd += ["-seed", str(seed)]
    if dfid is not None:
        cmd += ["-dfid", str(dfid)]
    cmd += [f"{module}.tla"]
    e = dict(os.environ)
    e.pop("JAVA_TOOL_OPTIONS", None)
    if env:
        e.update(env)
    t0 = time.time()
    timed_out = False
    try:
        p = subprocess.run(cmd, cwd=d, env=e, stdout=subprocess.PIPE, stderr=subprocess.STDOUT,
                           timeout=timeout_s, text=True, errors="replace")
        text = p.stdout
        rc = p.returncode
    except subprocess.TimeoutExpired as ex:
        timed_out = True
        text = ex.stdout.decode("utf-8", "replace") if isinstance(ex.stdout, bytes) else (ex.stdout or "")
        rc = -9
    wall = time.time() - t0
    res = TLCResult(module=module, cmd=" ".join(cmd[cmd.index("tlc2.TLC"):]), wall_s=wall,
                    timed_out=timed_out)
    res.raw_tail = text[-6000:]
    res.text = text
    for m in _RE_VERDICT.finditer(text):
        res.verdicts[int(m.group(1))] = (m.group(2), int(m.group(3)))
    for line in text.splitlines():
        m = _RE_STATS.match(line)
        if m:
            res.generated = int(m.group(1))
            res.distinct = int(m.group(2))
            continue
        m = _RE_DEPTH.search(line)
        if m:
            res.diameter = int(m.group(1))
            continue
        m = _RE_SIMSTATS.search(line)
        if m:
            res.generated = max(res.generated, int(m.group(1)))
            continue
        if coverage:
            m = _RE_COV.match(line)
            if m:
                res.coverage[m.group(1)] = res.coverage.get(m.group(1), 0) + int(m.group(4))
    res.emitted = parse_emitted(text) if '<<"T", "' in text else []
    if simulate is not None and res.distinct == 0:
        res.distinct = res.generated
    # violations
    m = _RE_INV.search(text)
    kind = None
    if m:
        kind, vname = "invariant", m.group(1)
    else:
        m2 = _RE_PROP.search(text)
        if m2:
            kind, vname = "property", m2.group(1) or "?"
        elif "Error: Deadlock reached" in text:
            kind, vname = "deadlock", "Deadlock"
    if kind:
        idx = text.find("Error: ")
        res.violation = {"kind": kind, "name": vname, "trace": text[idx: idx + 20000]}
    # keep the full log for debugging
    with open(os.path.join(d, "tlc.log"), "w") as f:
        f.write(text)
    if timed_out:
        return res
    if res.violation is None and rc != 0:
        raise TLCError(f"TLC failed (rc={rc}) for {module}:\n{text[-3000:]}")
    if res.violation is None and "Error:" in text and "Finished" not in text.split("Error:")[-1]:
        raise TLCError(f"TLC reported an error for {module}:\n{text[-3000:]}")
    if res.violation is not None and not expect_violation:
        pass  # caller decides (a model violation is a hypothesis until replayed)
    return res


def sim_trace_files(d: str, prefix: str) -> List[str]:
    return sorted(os.path.join(d, f) for f in os.listdir(d) if f.startswith(prefix))


def sany(module: str, workdir: str) -> None:
    d = prepare_dir(workdir, "sany_" + module)
    p = subprocess.run(["java", "-cp", f"{JAR}:{DEPS}", "tla2sany.SANY", f"{module}.tla"], cwd=d,
                       stdout=subprocess.PIPE, stderr=subprocess.STDOUT, text=True)
    if p.returncode != 0 or "Semantic errors" in p.stdout or "***Parse Error***" in p.stdout:
        raise TLCError(f"SANY failed for {module}:\n{p.stdout[-3000:]}")
