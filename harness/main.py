"""./check <Cxx> [--tier quick|thorough] [--seed N] [--replay <path>]

exit 0  every clause held on everything explored (known findings printed)
exit 1  VIOLATION property=<id> replay=<path>
exit 2  machinery failure (TLC/SANY error, harness bug) – never a property verdict
"""
from __future__ import annotations

import argparse
import importlib
import json
import os
import sys
import traceback


def main(argv=None) -> int:
    ap = argparse.ArgumentParser()
    ap.add_argument("pid")
    ap.add_argument("--tier", default=os.environ.get("VERIF_TIER", "quick"),
                    choices=["quick", "thorough"])
    ap.add_argument("--seed", type=int, default=int(os.environ.get("VERIF_SEED", "0") or 0))
    ap.add_argument("--replay", default=None)
    a = ap.parse_args(argv)
    pid = a.pid.upper()
    try:
        mod = importlib.import_module(f"harness.props.{pid.lower()}")
    except ModuleNotFoundError as e:
        print(f"no check for {pid}: {e}", file=sys.stderr)
        return 2
    from .core import Run
    from .tlc import TLCError
    try:
        if a.replay:
            with open(a.replay) as f:
                rep = json.load(f)
            rep["_path"] = a.replay
            return int(mod.replay(rep))
        run = Run(pid, a.tier, a.seed)
        mod.check(run)
        return run.finish()
    except TLCError as e:
        print(f"MACHINERY-FAILURE {pid}: {e}", file=sys.stderr)
        return 2
    except Exception:
        traceback.print_exc()
        print(f"MACHINERY-FAILURE {pid}: harness exception", file=sys.stderr)
        return 2


if __name__ == "__main__":
    sys.exit(main())
