"""Run context shared by all property checks: clause accounting, violations, signatures,
known findings, evidence, exit codes (DESIGN.md §2.5, §2.6)."""
from __future__ import annotations

import collections
import hashlib
import json
import os
import shutil
import sys
import time
from typing import Any, Dict, List, Optional

from . import tlc as _tlc

VERIF = "/verif"
WORK = os.path.join(VERIF, ".work")
KNOWN = os.path.join(VERIF, "known_findings.json")


def canon(obj: Any) -> str:
    return json.dumps(obj, sort_keys=True, separators=(",", ":"), default=str)


def tok(b: bytes | str) -> str:
    if isinstance(b, str):
        b = b.encode("utf-8", "surrogatepass")
    return hashlib.sha256(b).hexdigest()[:16]


def load_known(pid: str) -> List[Dict[str, Any]]:
    try:
        with open(KNOWN) as f:
            data = json.load(f)
    except FileNotFoundError:
        return []
    return [e for e in data.get("findings", []) if e.get("property") == pid]


class Run:
    def __init__(self, pid: str, tier: str, seed: int):
        self.pid = pid
        self.tier = tier
        self.seed = seed
        self.t0 = time.time()
        # runs against a scratch tree (VERIF_REPO, used for seeded changes) get their own scratch dir and do
        # not overwrite the evidence of the real tree
        self.alt_repo = os.environ.get("VERIF_REPO", "/repo") not in ("/repo", "")
        self.workdir = os.path.join(WORK, pid if not self.alt_repo else pid + "_alt" + str(abs(hash(os.environ["VERIF_REPO"])) % 100000))
        # two runs of the same check at the same time (quick while thorough is running) must not share a scratch
        # directory: the owner of <workdir>.lock keeps it, a second run works in its own directory
        os.makedirs(WORK, exist_ok=True)
        self._lock = self.workdir + ".lock"
        owner = None
        try:
            with open(self._lock) as f:
                owner = int(f.read().strip() or 0)
            os.kill(owner, 0)
        except Exception:
            owner = None
        if owner and owner != os.getpid():
            self.workdir = self.workdir + f"_p{os.getpid()}"
            self._lock = None
        else:
            with open(self._lock, "w") as f:
                f.write(str(os.getpid()))
        if os.path.isdir(self.workdir):
            shutil.rmtree(self.workdir, ignore_errors=True)
        os.makedirs(self.workdir, exist_ok=True)
        self.clauses: collections.Counter = collections.Counter()
        self.violations: List[Dict[str, Any]] = []
        self.samples: List[Any] = []
        self.states = 0
        self.transitions = 0
        self.traces = 0
        self.evaluations = 0
        self.distinct: set = set()
        self.guarded_out = 0
        self.tlc_runs: List[Dict[str, Any]] = []
        self.coverage: Dict[str, int] = {}
        self.assumptions: List[str] = []
        self.notes: List[str] = []
        self.exhaustive: Optional[bool] = None
        self.rule = ""
        self.constants: Dict[str, Any] = {}
        self.known = load_known(pid)
        self.open_sigs = {canon(e["signature"]): e for e in self.known if e.get("status") == "open"}
        self.known_hits: Dict[str, int] = collections.Counter()
        self.extra: Dict[str, Any] = {}

    # ---- tiers -------------------------------------------------------------------
    @property
    def quick(self) -> bool:
        return self.tier == "quick"

    def pick(self, quick: Any, thorough: Any) -> Any:
        return quick if self.quick else thorough

    # ---- TLC ---------------------------------------------------------------------
    def tlc(self, module: str, cfg_text: str, **kw) -> _tlc.TLCResult:
        kw.setdefault("seed", self.seed)
        res = _tlc.run_tlc(module, cfg_text, self.workdir, **kw)
        self.states += res.distinct
        self.transitions += res.generated
        self.tlc_runs.append({"module": module, "name": kw.get("name") or module, "cmd": res.cmd,
                              "generated": res.generated, "distinct": res.distinct,
                              "diameter": res.diameter, "wall_s": round(res.wall_s, 2),
                              "emitted": len(res.emitted), "timed_out": res.timed_out,
                              "violation": (res.violation or {}).get("name")})
        for k, v in res.coverage.items():
            self.coverage[f"{module}.{k}"] = self.coverage.get(f"{module}.{k}", 0) + v
        return res

    def validate_traces(self, module: str, constants: dict, traces: list, name: str = None,
                        timeout_s: int = 600, extra_cfg: str = "") -> dict:
        """C->S batch trace validation.  traces = [{"tid": int, "ev": [...]}, ...].  Returns
        {tid: (verdict, position)}; a missing verdict is a machinery failure."""
        from .util import cfg_val
        name = name or module
        path = os.path.join(self.workdir, f"traces_{name}.ndjson")
        with open(path, "w") as f:
            for t in traces:
                f.write(json.dumps(t, separators=(",", ":")) + "\n")
        lines = ["SPECIFICATION TraceSpec"]
        if constants:
            lines.append("CONSTANTS")
            for k, v in constants.items():
                lines.append(f" {k} = {cfg_val(v)}")
        lines.append("POSTCONDITION Done")
        if extra_cfg:
            lines.append(extra_cfg)
        res = self.tlc(module, "\n".join(lines) + "\n", name=name, workers=1, timeout_s=timeout_s,
                       env={"TRACE_FILE": path})
        if res.violation is not None or res.timed_out:
            raise _tlc.TLCError(f"trace validation {name} did not complete: {res.raw_tail[-2000:]}")
        v = res.verdicts
        if v.get(0, (None, None))[0] != "done" or v[0][1] != len(traces):
            raise _tlc.TLCError(f"trace validation {name}: consumed {v.get(0)} of {len(traces)} traces\n{res.raw_tail[-1500:]}")
        missing = [t["tid"] for t in traces if t["tid"] not in v]
        if missing:
            raise _tlc.TLCError(f"trace validation {name}: no verdict for traces {missing[:5]}")
        return v

    def model_must_hold(self, res: _tlc.TLCResult) -> None:
        """A violation inside a *design* model that is not routed through replay is a machinery
        problem (the model is expected to satisfy its own invariants)."""
        if res.violation is not None:
            raise _tlc.TLCError(
                f"model {res.module} violates {res.violation['name']} (expected to hold):\n"
                + res.violation["trace"][:4000])
        if res.timed_out:
            self.notes.append(f"TLC run {res.module} hit its time budget (partial exploration)")

    # ---- clause accounting ------------------------------------------------------------
    def ok(self, clause: str, n: int = 1) -> None:
        self.clauses[clause] += n

    def case(self, key: Any = None) -> None:
        self.evaluations += 1
        if key is not None:
            self.distinct.add(key if isinstance(key, (str, int, tuple)) else canon(key))

    def sample(self, obj: Any, cap: int = 6) -> None:
        if len(self.samples) < cap:
            self.samples.append(obj)

    def fail(self, clause: str, signature: Dict[str, Any], witness: Dict[str, Any], msg: str,
             replay: Optional[Dict[str, Any]] = None) -> bool:
        """Record a failed clause on the *real code*.  Returns True when it is a listed open
        finding (suppressed), False when it is a new violation."""
        self.clauses[clause] += 1
        sig = dict(signature)
        sig.setdefault("clause", clause)
        key = canon(sig)
        if key in self.open_sigs:
            self.known_hits[key] += 1
            return True
        self.violations.append({"clause": clause, "signature": sig, "witness": witness,
                                "message": msg, "replay": replay})
        return False

    # ---- end of run ------------------------------------------------------------------
    def finish(self) -> int:
        wall = time.time() - self.t0
        # known findings
        for key, ent in self.open_sigs.items():
            n = self.known_hits.get(key, 0)
            if n:
                print(f"KNOWN-FINDING: property={self.pid} {ent['id']}: {ent['description']} "
                      f"[reproduced {n}x]")
            else:
                print(f"NOTE: property={self.pid} listed finding {ent['id']} was not reproduced "
                      f"by this run (tier={self.tier})")
        # new violations, grouped by signature
        groups: Dict[str, List[Dict[str, Any]]] = collections.OrderedDict()
        for v in self.violations:
            groups.setdefault(canon(v["signature"]), []).append(v)
        rc = 0
        for i, (key, vs) in enumerate(groups.items()):
            v = vs[0]
            path = os.path.join(self.workdir, f"violation_{i}.json")
            with open(path, "w") as f:
                json.dump({"property": self.pid, "clause": v["clause"], "signature": v["signature"],
                           "message": v["message"], "count": len(vs), "witness": v["witness"],
                           "replay": v["replay"], "seed": self.seed, "tier": self.tier}, f,
                          indent=1, default=str)
            print(f"# {self.pid} clause {v['clause']} failed ({len(vs)}x): {v['message']}")
            print(f"VIOLATION property={self.pid} replay={path}")
            rc = 1
        self.write_evidence(wall, len(groups))
        summ = ", ".join(f"{k}={v}" for k, v in sorted(self.clauses.items()))
        print(f"# {self.pid} tier={self.tier} seed={self.seed} wall={wall:.1f}s states={self.states} "
              f"transitions={self.transitions} impl_cases={self.traces} rc={rc}")
        print(f"# clauses: {summ}")
        for n in self.notes:
            print(f"# note: {n}")
        if self._lock:
            try:
                os.unlink(self._lock)
            except OSError:
                pass
        elif rc == 0:
            shutil.rmtree(self.workdir, ignore_errors=True)      # a secondary scratch directory with nothing to replay
        return rc

    def write_evidence(self, wall: float, nviol: int) -> None:
        if self.alt_repo:
            return
        cov = {
            "states": int(self.states),
            "transitions": int(self.transitions),
            "traces_validated_against_impl": int(self.traces),
            "samples": self.samples or [{"note": "no sample recorded"}],
            "evaluations": int(max(self.evaluations, self.traces)),
            "distinct_nontrivial": int(len(self.distinct)),
            "rule": self.rule,
            "checker_cmd": "; ".join(r["cmd"] for r in self.tlc_runs)[:4000],
            "tlc_runs": self.tlc_runs,
            "clause_evaluations": dict(self.clauses),
            "action_coverage": self.coverage,
            "guarded_out": self.guarded_out,
            "constants": self.constants,
            "known_findings_reproduced": {self.open_sigs[k]["id"]: n for k, n in self.known_hits.items()},
            "notes": self.notes,
        }
        if self.exhaustive is not None:
            cov["exhaustive"] = bool(self.exhaustive)
        cov.update(self.extra)
        ev = {
            "property_id": self.pid,
            "tier": self.tier,
            "seed": int(self.seed),
            "level": "model_checking",
            "coverage": cov,
            "assumptions": self.assumptions,
            "wall_s": round(wall, 2),
            "violations": int(nviol),
        }
        # extras (X..: specs of behaviour beyond the listed properties) keep their coverage reports apart from
        # the per-property evidence files
        sub = "evidence" if not self.pid.startswith("X") else os.path.join("extras", "evidence")
        os.makedirs(os.path.join(VERIF, sub), exist_ok=True)
        path = os.path.join(VERIF, sub, f"{self.pid}.json")
        tmp = path + ".tmp"
        with open(tmp, "w") as f:
            json.dump(ev, f, indent=1, default=str)
            f.write("\n")
        os.replace(tmp, path)
