"""Executes Turn.tla input vectors on the real orchestrator and returns what the spec talks about:
the sequence of emitted record streams, version, snapshot, reflection memory, result / exception.

Input dimensions -> real engine (all through configuration or documented seams, DESIGN.md §2.3):
  sched/yield_at  scheduler.enabled + quantum_ms with a scripted perf counter that jumps exactly at the
                  boundary check of the chosen stage (call index found by a calibration run)
  graph/maint     graph.enabled, graph.{merge,split,promotion}.enabled
  allow_refl      t3.allow_reflection          plan_refl   wrapper around the real planner sets Plan.reflection
  kill            t4.enabled=false             dry         ctx._dry_run_until_t4
  reuse           the same context object is passed again
  refl_out        error: orchestrator.reflect raises; timeout: the scripted clock jumps inside reflect
  ops_cap         scheduler.budgets.ops_reflection
  faults          exception injected at the callee of the fail-soft site
"""
from __future__ import annotations

import copy
import json
import os
from types import SimpleNamespace
from typing import Any, Callable, Dict, List, Optional, Tuple

from . import engine as E

STAGE_ORDER = ["T1", "T2", "T3", "T4", "Apply"]


class Boom(Exception):
    pass


class RecordingIndex:
    """memory index double for reflection writes (state['memory_index'])"""

    def __init__(self, fail: Optional[type] = None):
        self.entries: List[dict] = []
        self.fail = fail

    def add(self, ep):
        if self.fail:
            raise self.fail("verif: index.add")
        self.entries.append(copy.deepcopy(ep))


# spellings of a boolean the configuration validator documents as equivalent (configs/validate.py:_coerce_bool)
BOOL_SPELLINGS = [(True, False), ("true", "false"), ("on", "off"), (1, 0), ("1", "0"), (" Yes", " No ")]


def _spell(b: bool, k: int):
    return BOOL_SPELLINGS[k % len(BOOL_SPELLINGS)][0 if b else 1]


class Session:
    """a sequence of turns on one engine state (one behaviour of Turn.tla)"""

    def __init__(self, workdir: str, base_cfg: Optional[dict] = None, graphs=None, episodes=None, agent="A",
                 text="I like apple and banana", exc: type = RuntimeError, boot_loaded: bool = True):
        self.workdir = workdir
        self.snapdir = os.path.join(workdir, "snaps")
        self.base_cfg = base_cfg or {}
        self.state = E.mk_state(graphs or E.DEFAULT_GRAPHS, episodes if episodes is not None else E.default_episodes(),
                                boot_loaded=boot_loaded)
        self.refl_index = RecordingIndex()
        self.state["memory_index"] = self.refl_index
        self.agent = agent
        self.text = text
        self.turn = 0
        self.ctx = None
        self.exc = exc
        self._calib: Dict[str, Dict[str, int]] = {}
        self.log_dir: Optional[str] = None        # set to also write the records to disk with the real appender
        self.post_cfg: Dict[Tuple[str, ...], Any] = {}   # leaves set AFTER validation (the engine also runs on raw configs)

    # ---- configuration ----
    def cfg_for(self, inp: dict) -> dict:
        if getattr(self, "raw_cfg", False):      # the configuration under test is used as is (plus scratch dirs)
            return E.deep_merge(self.base_cfg, {"t4": {"snapshot_dir": self.snapdir}})
        over = {
            "t1": {"cache": {"enabled": False}},
            "t2": {"sim_threshold": -1.0, "cache": {"enabled": False}},
            "t4": {"enabled": not inp.get("kill", False), "snapshot_dir": self.snapdir, "snapshot_every_n_turns": 1},
            "t3": {"allow_reflection": _spell(bool(inp.get("allow_refl", False)), getattr(self, "bool_spelling", 0))},
            "scheduler": {"enabled": bool(inp.get("sched", False)), "quantum_ms": 100,
                          "budgets": {"ops_reflection": int(inp.get("ops_cap", 5)), "time_ms_reflection": 6000}},
            "graph": {"enabled": bool(inp.get("graph", False))},
        }
        if inp.get("maint"):
            over["graph"].update({"merge": {"enabled": True}, "split": {"enabled": True}, "promotion": {"enabled": True}})
        return E.deep_merge(E.deep_merge(over, self.base_cfg), inp.get("cfg_extra") or {})

    # ---- one turn ----
    def run(self, inp: dict, extra_patches: Optional[Callable[[dict], List[Any]]] = None) -> Dict[str, Any]:
        import clematis.engine.orchestrator as orch
        import clematis.engine.orchestrator.core as core
        from clematis.engine.stages.t3 import deliberate as real_deliberate
        self.turn += 1
        cfg = E.validated_cfg(self.cfg_for(inp))
        for path, val in self.post_cfg.items():
            node = cfg
            for k in path[:-1]:
                node = node[k]
            node[path[-1]] = copy.deepcopy(val)
        if inp.get("reuse") and self.ctx is not None:
            ctx = self.ctx
            ctx.turn_id = self.turn
            ctx.cfg = cfg
            ctx.config = cfg
            ctx.now_ms = E.NOW_MS + self.turn * 1000
        else:
            ctx = E.mk_ctx(cfg, self.agent, self.turn, now_ms=E.NOW_MS + self.turn * 1000)
        self.ctx = ctx
        if inp.get("dry"):
            ctx._dry_run_until_t4 = True
        elif hasattr(ctx, "_dry_run_until_t4"):
            delattr(ctx, "_dry_run_until_t4")
        # T3 is skipped in a dry run, so a reflection request can only arrive the way the batch driver transports it:
        # as a flag on the state
        if inp.get("dry") and inp.get("plan_refl"):
            self.state["_planner_reflection_flag"] = True
        else:
            self.state.pop("_planner_reflection_flag", None)
        faults = set(inp.get("faults") or [])
        fake = E.FakeTime(steps=(0.0,))
        boundaries: List[Tuple[str, int]] = []

        real_should_yield = core._should_yield

        def spy_should_yield(slice_ctx, consumed):
            boundaries.append((STAGE_ORDER[len(boundaries)] if len(boundaries) < len(STAGE_ORDER) else "?", fake.calls))
            return real_should_yield(slice_ctx, consumed)

        def planner(c, s, bundle):
            plan = real_deliberate(bundle)
            if inp.get("plan_refl"):
                try:
                    plan.reflection = True
                except Exception:
                    plan = SimpleNamespace(ops=list(plan.ops), reflection=True, deltas=list(getattr(plan, "deltas", []) or []),
                                           version=getattr(plan, "version", "t3-plan-v1"), request_retrieve=None)
            if inp.get("plan_deltas"):
                plan.deltas = list(inp["plan_deltas"])
            return plan

        real_rag = core.rag_once

        def rag_keep(bundle, plan, retrieve_fn, **k):
            # the one-shot RAG refinement rebuilds the plan: carry the injected flag / deltas over
            new_plan, metrics = real_rag(bundle, plan, retrieve_fn, **k)
            try:
                if inp.get("plan_refl"):
                    new_plan.reflection = True
                if inp.get("plan_deltas"):
                    new_plan.deltas = list(inp["plan_deltas"])
            except Exception:
                pass
            return new_plan, metrics

        patches: List[Any] = [E.patched_attr(orch, t3_deliberate=planner), E.patched_attr(core, _should_yield=spy_should_yield),
                              E.patched_attr(core, rag_once=rag_keep)]
        from clematis.engine.stages.t3.reflect import reflect as real_reflect

        if inp.get("refl_out") == "error" or "refl_compute" in faults:
            def bad_reflect(*a, **k):
                raise self.exc("verif: reflect")
            patches.append(E.patched_attr(orch, reflect=bad_reflect))
        elif inp.get("refl_out") == "timeout" or inp.get("refl_elapsed_ms") is not None:
            # timeout: 7000 ms > time_ms_reflection = 6000 unless the vector names the elapsed time itself
            # (boundary values: budget + 0.4 ms is a timeout, exactly the budget is not)
            el_ms = float(inp["refl_elapsed_ms"]) if inp.get("refl_elapsed_ms") is not None else 7000.0

            def slow_reflect(*a, **k):
                fake.t += el_ms / 1000.0
                return real_reflect(*a, **k)
            patches.append(E.patched_attr(orch, reflect=slow_reflect))
        self.refl_index.fail = self.exc if "refl_write" in faults else None
        if "refl_log" in faults:
            def bad_log(*a, **k):
                raise self.exc("verif: reflection log")
            patches.append(E.patched_attr(core, log_t3_reflection=bad_log))
        if "gel_maint" in faults:
            def bad_merge(*a, **k):
                raise self.exc("verif: gel merge")
            patches.append(E.patched_attr(core, gel_merge_candidates=bad_merge))
        if extra_patches is not None:
            patches.extend(extra_patches(inp))

        # forced yield: jump the scripted clock at the boundary check of the chosen stage
        ya = inp.get("yield_at", "none")
        if ya != "none":
            key = json.dumps({k: v for k, v in inp.items() if k not in ("yield_at", "yield_jump")}, sort_keys=True, default=str)
            calib = self._calib.get(key)
            if calib is None:
                calib = self._calibrate(inp)
                self._calib[key] = calib
            at = calib.get(ya)
            if at is None:
                return {"skipped": f"stage {ya} has no boundary in this configuration", "log": [], "raised": None}
            if inp.get("yield_jump") == "after_prev":
                # the time passes right AFTER the previous stage boundary was checked (i.e. early in the stage, long
                # before this stage's own bookkeeping): the slice is over its quantum when the boundary of `ya` is reached
                order = [st for st in STAGE_ORDER if st in calib]
                k = order.index(ya)
                if k > 0:
                    at = calib[order[k - 1]] + 1
            fake = _JumpTime(at)
        before_entries = len(self.refl_index.entries)
        snap_before = _listing(self.snapdir)
        res_line, raised = None, None
        with E.LogCapture(write_through=bool(self.log_dir), log_dir=self.log_dir) as cap, E.patched_time(fake):
            for p in patches:
                p.__enter__()
            try:
                r = orch.run_turn(ctx, self.state, self.text)
                res_line = getattr(r, "line", None)
            except Exception as e:      # noqa
                raised = f"{type(e).__name__}: {e}"
            finally:
                for p in reversed(patches):
                    p.__exit__(None, None, None)
        log = [s[:-len(".jsonl")] if s.endswith(".jsonl") else s for s, _ in cap.records]
        return {"log": log, "records": cap.records, "ver": self.state.get("version_etag"), "line": res_line, "raised": raised,
                "refl_new": self.refl_index.entries[before_entries:], "snap": _listing(self.snapdir) != snap_before,
                "boundaries": boundaries, "ctx": ctx}

    def _calibrate(self, inp: dict) -> Dict[str, int]:
        """run the same vector without a yield on a deep copy of the session state and record at which
        perf_counter call each stage boundary is checked"""
        import copy as _c
        twin = Session.__new__(Session)
        twin.__dict__.update({k: v for k, v in self.__dict__.items() if k not in ("state", "refl_index", "ctx", "_calib")})
        twin.state = _c.deepcopy({k: v for k, v in self.state.items() if k != "_cache_mgr"})
        twin.refl_index = RecordingIndex()
        twin.state["memory_index"] = twin.refl_index
        twin.ctx = None
        twin._calib = {}
        twin.turn = self.turn - 1
        twin.snapdir = os.path.join(self.workdir, "snaps_calib")
        out = twin.run(dict(inp, yield_at="none", reuse=False))
        return {st: calls for st, calls in out["boundaries"]}


class _JumpTime(E.FakeTime):
    """perf counter that jumps by 10 s at the `at`-th call (the one that computes consumed.ms for the
    chosen boundary) and is constant otherwise"""

    def __init__(self, at: int):
        super().__init__(steps=(0.0,))
        self.at = at

    def perf_counter(self):
        self.calls += 1
        if self.calls == self.at:
            self.t += 10.0
        return self.t


def _listing(d):
    if not os.path.isdir(d):
        return ()
    out = []
    for n in sorted(os.listdir(d)):
        st = os.stat(os.path.join(d, n))
        out.append((n, st.st_mtime_ns, st.st_size, st.st_ino))
    return tuple(out)
