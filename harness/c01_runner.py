"""Subprocess side of C01: executes one behaviour (world seed, per-turn inputs, config knobs) under one
nuisance setting (hash seed = this process's PYTHONHASHSEED, scripted perf-counter pattern, switch
interval jitter), once cold and once more warm in the same process, and prints for every run the
list of (key, token) observations: utterances, canonical log lines as written to disk under CI=true
(paths normalised), snapshot bodies."""
from __future__ import annotations

import hashlib
import json
import os
import random
import shutil
import sys


def tok(b: bytes) -> str:
    return hashlib.sha256(b).hexdigest()[:16]


CANON = ("t1.jsonl", "t2.jsonl", "t4.jsonl", "apply.jsonl", "turn.jsonl", "health.jsonl")


def world(seed):
    from harness import engine as E
    r = random.Random(f"c01w|{seed}")
    labels = ["apple", "Banana", "cherry pie", "date", "elder", "fig"]
    graphs = {}
    for gi in range(r.choice([1, 2, 3])):
        nodes = []
        for j in range(r.randrange(2, 5)):
            tags = r.sample(["fruit", "food", "red"], r.randrange(0, 3))
            nodes.append((f"g{gi}:n{j}", r.choice(labels), tags))
        edges = []
        for j in range(r.randrange(1, 6)):
            a, b = r.choice(nodes)[0], r.choice(nodes)[0]
            edges.append((f"g{gi}:e{j}", a, b, r.choice([0.25, 0.5, 1.0, -0.5, 0.3333333]), r.choice(["supports", "associates", "contradicts", "unknown"])))
        graphs[f"g:{gi}"] = {"nodes": nodes, "edges": edges}
    if seed % 3 == 0:
        # more than five touched nodes whose ids contain case-only twins: the planner caps its topic labels at five,
        # and which labels survive may not depend on the hash seed
        # (ids that sort before every other graph's ids, so the cap of five falls inside a twin pair)
        ids = ["a:a", "a:b", "a:C", "a:c", "a:D", "a:d", "a:E", "a:e", "a:F", "a:f"]
        graphs["g:twins"] = {"nodes": [(i, "apple", []) for i in ids], "edges": [("a:e1", "a:a", "a:b", 0.5, "supports")]}
    eps = []
    words = ["apple", "banana", "cherry", "pie", "date", "elder", "fig", "weather"]
    for i in range(r.randrange(0, 7) if seed % 3 != 1 else r.randrange(3, 7)):      # (booting worlds co-retrieve: see knobs)
        text = " ".join(r.choice(words) for _ in range(r.randrange(1, 5)))
        eps.append(E.mk_episode(f"ep{i}", r.choice(["A", "B", "world"]), text, ts=f"2025-08-{r.randrange(1, 29):02d}T00:00:00Z",
                                importance=r.choice([0.0, 0.5, 1.0]), cluster=r.choice(["c1", "c2", None])))
    if len(eps) >= 2 and r.random() < 0.5:
        eps[1]["vec_full"] = eps[0]["vec_full"]          # exact score tie -> id tie-break
    gel = {"nodes": {e["id"]: {"id": e["id"]} for e in eps[:3]},
           "edges": ({f"{eps[0]['id']}→{eps[1]['id']}": {"id": f"{eps[0]['id']}→{eps[1]['id']}", "src": eps[0]["id"], "dst": eps[1]["id"], "weight": 0.7, "rel": "coact", "attrs": {}}} if len(eps) >= 2 else {}),
           "meta": {"schema": "v1.1", "merges": [], "splits": [], "promotions": [], "concept_nodes_count": 0, "edges_count": 1 if len(eps) >= 2 else 0}}
    return graphs, eps, gel


def knobs(seed):
    r = random.Random(f"c01k|{seed}")
    over = {"t2": {"k_retrieval": r.choice([1, 2, 3, 64]), "sim_threshold": r.choice([-1.0, 0.0, 0.3]), "owner_scope": r.choice(["any", "agent", "world"]),
                   "ranking": {"alpha_sim": r.choice([0.5, 0.75, 1.0]), "beta_recency": r.choice([0.0, 0.25]), "gamma_importance": r.choice([0.0, 0.25])},
                   "hybrid": {"enabled": r.random() < 0.3}},
            "t1": {"radius_cap": r.choice([1, 2, 4]), "iter_cap": r.choice([1, 3, 50])},
            "t3": {"max_ops_per_turn": r.choice([1, 3])}}
    # a GEL that learns quickly and merges small clusters, so that (when a behaviour opens the graph gate and the
    # maintenance passes) the meta block persisted in the snapshot has something in it
    over["graph"] = {"coactivation_threshold": 0.0, "observe_top_k": 4, "update": {"mode": "additive", "alpha": 0.3},
                     "merge": {"min_size": 2, "min_avg_w": 0.05, "max_diameter": 2, "cap_per_turn": 4}}
    if seed % 3 == 1:             # the booting worlds: several memories retrieved together, so the GEL has pairs to learn from
        over["t2"].update({"k_retrieval": 4, "sim_threshold": -1.0, "owner_scope": "any"})
    if r.random() < 0.5:          # stage caches on (process-global): warm re-runs hit them
        over["t1"]["cache"] = {"enabled": True}
        over["t2"]["cache"] = {"enabled": True}
    if r.random() < 0.5:
        # budget-driven yields (deterministic: the stage counter reaches its budget) - their records are canonical too
        over["scheduler"] = {"budgets": {r.choice(["t1_pops", "t1_iters", "t2_k"]): r.choice([1, 2])}}
    if r.random() < 0.4:
        over["perf"] = {"enabled": True, "parallel": {"enabled": True, "t1": True, "t2": True, "max_workers": r.choice([2, 3])}}
        if r.random() < 0.5:
            over["perf"]["metrics"] = {"report_memory": True}
            over["t2"]["quality"] = {"enabled": r.random() < 0.5}
    return over


LAST_INDEX_ID = [None]


def other_world(eps):
    """the same memory ids and count with different texts (and therefore vectors)"""
    from harness import engine as E
    out = []
    for e in eps:
        words = list(reversed((e.get("text") or "x").split())) + ["weather"]
        out.append(E.mk_episode(e["id"], e["owner"], " ".join(words), ts=e["ts"], importance=(e.get("aux") or {}).get("importance", 0.5),
                                cluster=(e.get("aux") or {}).get("cluster")))
    return out


def run_once(case, outdir, clock, tag, eps_override=None):
    from harness import engine as E
    from harness.turnrun import Session
    graphs, eps, gel = world(case["world"])
    if eps_override is not None:
        eps = eps_override(eps)
    d = os.path.join(outdir, tag)
    # every third world starts from a state that has not booted yet: the first turn runs the snapshot loader, which
    # builds the (empty) GEL containers itself
    booting = case["world"] % 3 == 1
    s = Session(d, base_cfg=knobs(case["world"]), graphs=graphs, episodes=eps, boot_loaded=not booting)
    if tag == "warm2" and LAST_INDEX_ID[0] is not None:
        # adversarial but legal allocation: the new world's memory index lands on the address of the index that the
        # previous (dropped) world used - CPython reuses freed addresses
        from clematis.memory.index import InMemoryIndex
        # (walk the allocator's free lists for that size class until the freed block is handed out; other objects
        # created since may have been given nearer blocks first)
        cands, pick = [], None
        for _ in range(200000):
            c = InMemoryIndex()
            if id(c) == LAST_INDEX_ID[0]:
                pick = c
                break
            cands.append(c)
        if pick is not None:
            for e in eps:
                pick.add(dict(e))
            s.state["mem_index"] = pick
        del cands
    LAST_INDEX_ID[0] = id(s.state["mem_index"])
    s.log_dir = os.path.join(d, "logs")
    import copy
    if not booting:
        s.state["graph"] = copy.deepcopy(gel)
        s.state["gel"] = s.state["graph"]
    agents = ["A", "B"]
    texts = ["I like APPLE and banana", "cherry pie, fruit!", "date elder fig", ""]
    obs = []
    rc = random.Random(f"clock|{clock}|{case['world']}")
    orig_fake = E.FakeTime

    cur = {"sched": False}

    class ClockTime(orig_fake):
        def perf_counter(self):
            self.calls += 1
            if clock == "zero":
                pass
            elif cur["sched"]:
                # with the scheduler gate open a slice yields on elapsed wall time by design: perturb the
                # clock only below the quantum (the property's premise: no time-driven yield)
                self.t += rc.choice([0.0, 1e-7, 1e-6])
            elif clock == "huge":
                self.t += 3600.0
            else:
                self.t += rc.choice([0.0, 1e-6, 0.013, 2.5])
            return self.t
    import harness.turnrun as TR
    TR.E.FakeTime = ClockTime
    try:
        for ti, step in enumerate(case["h"]):
            inp = dict(step["inp"])
            inp["reuse"] = False
            if booting:                     # the booting worlds run with the GEL and its maintenance passes live
                inp["graph"] = inp["maint"] = True
            cur["sched"] = bool(inp.get("sched"))
            s.agent = agents[ti % 2]
            s.text = texts[(ti + case["world"]) % len(texts)]
            o = s.run(inp)
            obs.append((f"utter#{ti}", tok(repr((o["line"], o["raised"])).encode())))
        # the same engine state driven through the multi-agent batch driver (its sequential path: one real
        # run_turn per task on a per-agent clone of the driver's context, which carries the logical clock)
        import clematis.engine.orchestrator.parallel as par
        cur["sched"] = False
        base = len(case["h"])
        for rnd in range(2):
            cfg = E.validated_cfg(s.cfg_for({}))
            dctx = E.mk_ctx(cfg, "driver", base + rnd + 1, now_ms=E.NOW_MS + (base + rnd + 1) * 1000)
            tasks = [(a, texts[(rnd + k + case["world"]) % len(texts)]) for k, a in enumerate(agents)]
            with E.LogCapture(write_through=True, log_dir=s.log_dir), E.patched_time(ClockTime(steps=(0.0,))):
                try:
                    res = par._run_agents_parallel_batch(dctx, s.state, tasks)
                    line = [getattr(r, "line", None) for r in res]
                except Exception as e:      # noqa
                    line = f"{type(e).__name__}: {e}"
            obs.append((f"batch#{rnd}", tok(repr(line).encode())))
    finally:
        TR.E.FakeTime = orig_fake
    dd = d.encode()
    for f in sorted(os.listdir(s.log_dir)) if os.path.isdir(s.log_dir) else []:
        if f in CANON:
            with open(os.path.join(s.log_dir, f), "rb") as fh:
                for li, line in enumerate(fh.read().replace(dd, b"<D>").split(b"\n")):
                    if line:
                        obs.append((f"{f}#{li}", tok(line), line.decode("utf-8", "replace")))
    if os.path.isdir(s.snapdir):
        for f in sorted(os.listdir(s.snapdir)):
            if f.endswith(".json"):
                with open(os.path.join(s.snapdir, f), "rb") as fh:
                    obs.append((f"snap#{f}", tok(fh.read().replace(dd, b"<D>"))))
    return obs


# "random": a wall date two days BEFORE the logical clock of the turns, so that a recency window anchored on the wall
# clock instead of ctx.now still contains the memories (a far-away wall date empties the window under every
# perturbation alike and the runs would agree with each other)
WALL_DATES = {"zero": None, "huge": (2031, 3, 3), "random": (2025, 8, 30)}


def install_wall_clock(clock):
    """the wall-clock DATE is a nuisance too: datetime.now()/utcnow() report another day (installed before
    the engine is imported; the logical clock of the turns is unchanged)"""
    ymd = WALL_DATES.get(clock)
    if ymd is None:
        return
    import datetime as _dt
    real = _dt.datetime
    fixed = real(*ymd, 23, 59, 30, tzinfo=_dt.timezone.utc)

    class _WallClock(real):
        @classmethod
        def now(cls, tz=None):
            return fixed.astimezone(tz) if tz is not None else fixed.replace(tzinfo=None)

        @classmethod
        def utcnow(cls):
            return fixed.replace(tzinfo=None)
    _dt.datetime = _WallClock


def install_process_clocks(clock):
    """time.time() / time.perf_counter() of the whole process (stages other than the orchestrator read them directly,
    e.g. the duration that apply_changes measures): every reading jumps ahead.  time.monotonic is left alone (the
    standard library's own waits use it)."""
    if clock == "zero":
        return
    import time as _t
    real_time, real_pc = _t.time, _t.perf_counter
    rc = random.Random(f"pclock|{clock}")
    st = {"t": 0.0, "p": 0.0}

    def fake_time():
        st["t"] += 2.5 if clock == "huge" else rc.choice([0.0, 0.004, 1.2])
        return real_time() + st["t"]

    def fake_perf_counter():
        st["p"] += 1.0 if clock == "huge" else rc.choice([0.0, 1e-6, 0.013, 2.5])
        return real_pc() * (1000.0 if clock == "huge" else 1.0) + st["p"]
    _t.time, _t.perf_counter = fake_time, fake_perf_counter


def main():
    install_wall_clock(sys.argv[3])
    install_process_clocks(sys.argv[3])
    case = json.load(open(sys.argv[1]))
    outdir = sys.argv[2]
    clock = sys.argv[3]
    jitter = sys.argv[4] == "1"
    os.environ["CI"] = "true"
    os.environ["SOURCE_DATE_EPOCH"] = "1700000000"
    if jitter:
        sys.setswitchinterval(1e-6)
    out = {}
    for tag in ("cold", "warm"):
        out[tag] = run_once(case, outdir, clock, tag)
    # a warm process that has served ANOTHER world before (same memory size, other contents; its engine state is
    # dropped and collected first, so a new index may reuse its address): the replay must not see any of it
    import gc
    run_once(case, outdir, clock, "other", eps_override=other_world)
    gc.collect()
    out["warm2"] = run_once(case, outdir, clock, "warm2")
    shutil.rmtree(outdir, ignore_errors=True)
    print("C01RESULT " + json.dumps(out))


if __name__ == "__main__":
    main()
