"""Shared engine harness for the Turn-level properties (C01 C02 C04 C05 C09 C10 C17 C19 C20):
validated configs with attribute+dict access, world construction (graph store, memory index),
contexts with a logical clock, log capture at the orchestrator's append seam, scripted perf counter,
recording/faulting store double, reset of the process-global stage caches.

Nothing here writes inside /repo: callers pass directories under run.workdir.
"""
from __future__ import annotations

import copy
import json
import os
import sys
from types import SimpleNamespace
from typing import Any, Callable, Dict, List, Optional, Tuple


class AttrDict(dict):
    """dict with recursive attribute access (what the stages expect of ctx.cfg / ctx.config)"""

    def __getattr__(self, name):
        try:
            return self[name]
        except KeyError as e:
            raise AttributeError(name) from e

    def __setattr__(self, name, value):
        self[name] = value

    def __deepcopy__(self, memo):
        return AttrDict({k: copy.deepcopy(v, memo) for k, v in self.items()})


def to_attr(obj):
    if isinstance(obj, dict):
        return AttrDict({k: to_attr(v) for k, v in obj.items()})
    if isinstance(obj, list):
        return [to_attr(v) for v in obj]
    return obj


def deep_merge(a: dict, b: dict) -> dict:
    out = copy.deepcopy(a)
    for k, v in (b or {}).items():
        if isinstance(v, dict) and isinstance(out.get(k), dict):
            out[k] = deep_merge(out[k], v)
        else:
            out[k] = copy.deepcopy(v)
    return out


_BASE = None


def engine_defaults() -> dict:
    """the engine's own documented defaults (clematis.engine.types.Config) restricted to the keys the
    validator accepts — the validator's normalised output omits stage keys such as t1.decay, so a bare
    validate_config({}) is not a complete runtime configuration (see C14)"""
    global _BASE
    if _BASE is not None:
        return copy.deepcopy(_BASE)
    from dataclasses import asdict
    from clematis.engine.types import Config
    from configs.validate import validate_config
    d = asdict(Config())
    for _ in range(40):
        try:
            validate_config(copy.deepcopy(d))
            break
        except Exception as e:
            removed = False
            for line in str(e).splitlines():
                line = line.strip()
                if line.endswith("unknown key") or "unknown" in line:
                    path = line.split()[0].strip(":")
                    cur = d
                    parts = path.split(".")
                    try:
                        for k in parts[:-1]:
                            cur = cur[k]
                        cur.pop(parts[-1], None)
                        removed = True
                    except Exception:
                        pass
            if not removed:
                raise
    _BASE = d
    return copy.deepcopy(d)


def validated_cfg(overrides: Optional[dict] = None, complete: bool = True) -> AttrDict:
    """validate_config(engine defaults (+) overrides) as attribute+dict config"""
    from configs.validate import validate_config
    base = engine_defaults() if complete else {}
    return to_attr(validate_config(deep_merge(base, overrides or {})))


NOW_ISO = "2025-09-01T00:00:00Z"
NOW_MS = 1756684800000


def mk_ctx(cfg: AttrDict, agent: str = "A", turn: int = 1, now: Optional[str] = NOW_ISO,
           now_ms: Optional[int] = NOW_MS, **extra) -> SimpleNamespace:
    ctx = SimpleNamespace(turn_id=turn, agent_id=agent, now=now, now_ms=now_ms, cfg=cfg, config=cfg)
    for k, v in extra.items():
        setattr(ctx, k, v)
    return ctx


# ---- worlds ------------------------------------------------------------------------------------
def mk_store(graphs: Dict[str, dict]):
    """graphs = {gid: {"nodes": [(id,label,[tags])...], "edges": [(id,src,dst,w,rel)...]}}"""
    from clematis.graph.store import InMemoryGraphStore
    from clematis.engine.types import Node, Edge
    st = InMemoryGraphStore()
    for gid, g in graphs.items():
        st.ensure(gid)
        st.upsert_nodes(gid, [Node(id=n[0], label=n[1], attrs=({"tags": list(n[2])} if len(n) > 2 and n[2] else {})) for n in g.get("nodes", [])])
        st.upsert_edges(gid, [Edge(id=e[0], src=e[1], dst=e[2], weight=float(e[3]), rel=e[4]) for e in g.get("edges", [])])
    return st


def mk_index(episodes: List[dict]):
    from clematis.memory.index import InMemoryIndex
    idx = InMemoryIndex()
    for ep in episodes:
        idx.add(dict(ep))
    return idx


def hash_vec(text: str, dim: int = 32):
    from clematis.adapters.embeddings import BGEAdapter
    return BGEAdapter(dim=dim).encode([text])[0]


def mk_episode(eid: str, owner: str, text: str, ts: str = "2025-08-25T00:00:00Z", importance: float = 0.5,
               cluster: Optional[str] = None, vec=None, dim: int = 32) -> dict:
    ep = {"id": eid, "owner": owner, "text": text, "ts": ts, "aux": {"importance": importance},
          "vec_full": (vec if vec is not None else hash_vec(text, dim)), "tags": []}
    if cluster is not None:
        ep["aux"]["cluster_id"] = cluster
    return ep


def mk_state(graphs: Dict[str, dict], episodes: List[dict], active: Optional[List[str]] = None,
             version: str = "0", boot_loaded: bool = True, store=None) -> Dict[str, Any]:
    st: Dict[str, Any] = {
        "store": store if store is not None else mk_store(graphs),
        "active_graphs": list(active if active is not None else sorted(graphs.keys())),
        "mem_index": mk_index(episodes),
        "version_etag": version,
    }
    if boot_loaded:
        st["_boot_loaded"] = True
    return st


DEFAULT_GRAPHS = {
    "g:surface": {
        "nodes": [("n:apple", "apple", ["fruit"]), ("n:banana", "Banana", []), ("n:cherry", "cherry pie", []), ("n:date", "date", [])],
        "edges": [("e1", "n:apple", "n:banana", 0.5, "supports"), ("e2", "n:banana", "n:cherry", 0.5, "associates"),
                  ("e3", "n:cherry", "n:apple", -0.5, "contradicts"), ("e4", "n:apple", "n:date", 1.0, "supports")],
    }
}


def default_episodes(owners=("A", "B", "world")) -> List[dict]:
    eps = []
    texts = ["apple banana story", "cherry pie recipe with apple", "banana bread", "date palm and apple orchard", "unrelated weather report"]
    for i, t in enumerate(texts):
        eps.append(mk_episode(f"ep{i}", owners[i % len(owners)], t, ts=f"2025-08-{10 + i:02d}T00:00:00Z",
                              importance=[0.0, 0.5, 1.0][i % 3], cluster=f"c{i % 2}"))
    return eps


# ---- global caches -----------------------------------------------------------------------------
def reset_global_caches():
    import clematis.engine.stages.t1 as t1m
    import clematis.engine.stages.t2.cache as t2c
    t1m._T1_CACHE = None
    t1m._T1_CACHE_CFG = None
    t1m._T1_CACHE_KIND = None
    t2c._T2_CACHE = None
    t2c._T2_CACHE_CFG = None
    t2c._T2_CACHE_KIND = None


# ---- log capture -------------------------------------------------------------------------------
class LogCapture:
    """captures every (stream, payload) the orchestrator emits, in emission order; optionally also
    writes through to disk (CLEMATIS_LOG_DIR) with the real appender"""

    def __init__(self, write_through: bool = False, log_dir: Optional[str] = None):
        self.records: List[Tuple[str, dict]] = []
        self.write_through = write_through
        self.log_dir = log_dir
        self._saved = None

    def __enter__(self):
        import clematis.engine.orchestrator as orch
        self._orch = orch
        self._saved = orch.__dict__.get("append_jsonl", None)
        self._had = "append_jsonl" in orch.__dict__
        if self.log_dir:
            os.makedirs(self.log_dir, exist_ok=True)
            self._old_env = os.environ.get("CLEMATIS_LOG_DIR")
            os.environ["CLEMATIS_LOG_DIR"] = self.log_dir
        from clematis.io.log import append_jsonl as real_append

        def cap(stream, payload, *a, **k):
            self.records.append((os.path.basename(str(stream)), copy.deepcopy(payload)))
            if self.write_through:
                real_append(stream, payload)
        orch.append_jsonl = cap
        return self

    def __exit__(self, *exc):
        if self._had:
            self._orch.append_jsonl = self._saved
        else:
            self._orch.__dict__.pop("append_jsonl", None)
        if self.log_dir:
            if self._old_env is None:
                os.environ.pop("CLEMATIS_LOG_DIR", None)
            else:
                os.environ["CLEMATIS_LOG_DIR"] = self._old_env
        return False

    def by_stream(self) -> Dict[str, List[dict]]:
        out: Dict[str, List[dict]] = {}
        for s, p in self.records:
            out.setdefault(s, []).append(p)
        return out


VOLATILE = {"ms", "ms_plan", "ms_rag", "ms_speak", "ms_deliberate", "durations_ms"}


def canon_record(stream: str, rec: dict) -> dict:
    """what the property calls the canonical content of a record: CI identity normalisation (durations /
    timestamps) applied by the real normaliser, then volatile ms fields masked"""
    from clematis.engine.util.io_logging import normalize_for_identity
    old = os.environ.get("CI")
    os.environ["CI"] = "true"
    try:
        r = normalize_for_identity(stream, copy.deepcopy(rec))
    finally:
        if old is None:
            os.environ.pop("CI", None)
        else:
            os.environ["CI"] = old
    return r


class FakeTime:
    """scripted perf_counter for orchestrator.core (`core.time = FakeTime(...)`): each call advances by
    the next step of `steps` (cycled)"""

    def __init__(self, steps=(0.0,), start: float = 100.0):
        self.t = start
        self.steps = list(steps) or [0.0]
        self.i = 0
        self.calls = 0

    def perf_counter(self):
        self.calls += 1
        self.t += self.steps[self.i % len(self.steps)]
        self.i += 1
        return self.t

    def time(self):
        return 1_700_000_000.0 + self.t

    def sleep(self, s):
        self.t += s

    def __getattr__(self, n):
        import time as _t
        return getattr(_t, n)


class patched_time:
    def __init__(self, fake):
        self.fake = fake

    def __enter__(self):
        import clematis.engine.orchestrator.core as core
        self.core = core
        self.saved = core.time
        core.time = self.fake
        return self.fake

    def __exit__(self, *a):
        self.core.time = self.saved
        return False


class patched_attr:
    """temporarily set attributes on a module/object (restores previous values / absence)"""

    def __init__(self, obj, **attrs):
        self.obj, self.attrs = obj, attrs

    def __enter__(self):
        self.saved = {}
        for k, v in self.attrs.items():
            self.saved[k] = (k in self.obj.__dict__, self.obj.__dict__.get(k))
            setattr(self.obj, k, v)
        return self

    def __exit__(self, *a):
        for k, (had, old) in self.saved.items():
            if had:
                setattr(self.obj, k, old)
            else:
                try:
                    delattr(self.obj, k)
                except Exception:
                    pass
        return False


# ---- store double ------------------------------------------------------------------------------
class RecordingStore:
    """graph store double: delegates reads to an inner InMemoryGraphStore, records apply_deltas calls
    and follows a scripted fault plan.  Batch semantics are all-or-nothing: a raising call applies
    nothing."""

    def __init__(self, inner=None, batch_raises: bool = False, single_raises=(), exc=RuntimeError):
        from clematis.graph.store import InMemoryGraphStore
        self.inner = inner or InMemoryGraphStore()
        self.calls: List[Tuple[str, List[str], str]] = []   # (kind, [target ids], outcome)
        self.applied: Dict[str, int] = {}
        self.weights: Dict[str, float] = {}
        self.batch_raises = batch_raises
        self.single_raises = set(single_raises)
        self.exc = exc
        self.noop_ids = set()       # deltas the store accepts but reports as "no edit" (value unchanged)
        self.report = "counts"      # shape of the value a successful call returns: counts | none | empty | edits_none
        self._first_in_turn = True

    def new_turn(self, batch_raises=False, single_raises=()):
        self.batch_raises = batch_raises
        self.single_raises = set(single_raises)
        self._first_in_turn = True
        self.calls = []

    def apply_deltas(self, gid, deltas):
        ids = [getattr(d, "target_id", None) or (d.get("target_id") if isinstance(d, dict) else str(d)) for d in deltas]
        first = self._first_in_turn
        self._first_in_turn = False
        kind = "batch" if first else "single"
        fail = self.batch_raises if first else any(i in self.single_raises for i in ids)
        if fail:
            self.calls.append((kind, ids, "raise"))
            raise self.exc("verif: store fault")
        self.calls.append((kind, ids, "ok"))
        for d, i in zip(deltas, ids):
            self.applied[i] = self.applied.get(i, 0) + 1
            self.weights[i] = self.weights.get(i, 0.0) + float(getattr(d, "delta", 0.0))
        if self.report == "none":
            return None
        if self.report == "empty":
            return {}
        if self.report == "edits_none":
            return {"edits": None, "clamps": None}
        return {"edits": sum(1 for i in ids if i not in self.noop_ids), "clamps": 0}

    def __getattr__(self, n):
        if n == "export_state" and not self.__dict__.get("offers_export"):
            raise AttributeError(n)
        return getattr(self.inner, n)


class ExportingStore(RecordingStore):
    """a duck-typed store with the optional hooks of richer back ends: it is falsy while it holds nothing
    (defines __len__) and offers export_state(), which may raise (a store error inside the snapshot writer)"""

    def __init__(self, *a, export_raises: bool = False, **k):
        super().__init__(*a, **k)
        self.export_raises = export_raises
        self.export_calls = 0

    def __len__(self):
        return len(self.applied)

    def export_state(self):
        self.export_calls += 1
        if self.export_raises:
            raise self.exc("verif: store export fault")
        return {"weights": [{"target_kind": "node", "target_id": i, "attr": "weight", "value": float(w)} for i, w in sorted(self.weights.items())]}
