"""Small shared helpers: process pool map, seeded RNG, deep freeze."""
from __future__ import annotations

import multiprocessing as mp
import os
import random
from typing import Any, Callable, Iterable, List, Sequence

NPROC = int(os.environ.get("VERIF_NPROC", "0") or 0) or min(16, os.cpu_count() or 4)


def _run_chunk(args):
    fn, chunk = args
    return [fn(c) for c in chunk]


def pmap(fn: Callable[[Any], Any], cases: Sequence[Any], procs: int | None = None,
         chunk: int | None = None) -> List[Any]:
    """Order-preserving parallel map with fork workers (fn must be a module-level function)."""
    cases = list(cases)
    n = len(cases)
    procs = procs or NPROC
    if n == 0:
        return []
    if procs <= 1 or n < 64:
        return [fn(c) for c in cases]
    chunk = chunk or max(1, min(2000, n // (procs * 4) or 1))
    chunks = [(fn, cases[i:i + chunk]) for i in range(0, n, chunk)]
    ctx = mp.get_context("fork")
    with ctx.Pool(procs) as pool:
        out: List[Any] = []
        for part in pool.imap(_run_chunk, chunks):
            out.extend(part)
    return out


def rng(seed: int, *salt: Any) -> random.Random:
    return random.Random(f"{seed}|" + "|".join(map(str, salt)))


def cfg_set(vals: Iterable[Any]) -> str:
    """Render a python iterable as a TLA+ cfg set literal."""
    out = []
    for v in vals:
        if isinstance(v, str):
            out.append('"%s"' % v)
        elif isinstance(v, bool):
            out.append("TRUE" if v else "FALSE")
        else:
            out.append(str(v))
    return "{" + ", ".join(out) + "}"


def cfg_val(v: Any) -> str:
    if isinstance(v, bool):
        return "TRUE" if v else "FALSE"
    if isinstance(v, str):
        return '"%s"' % v
    if isinstance(v, (set, frozenset, list, tuple)):
        return cfg_set(sorted(v, key=lambda x: (str(type(x)), x)))
    return str(v)


class Def(str):
    """a constant given as a TLA+ expression: rendered as `K <- K_def` (pass defs to run.tlc)"""


def split_defs(constants: dict):
    """-> (constants with Def values replaced by markers, defs dict for run.tlc)"""
    defs = {f"{k}_def": str(v) for k, v in constants.items() if isinstance(v, Def)}
    return defs


def make_cfg(constants: dict, invariants=(), properties=(), spec="Spec", emit=True, view="View",
             constraint=None, action_constraint=None, extra="") -> str:
    lines = [f"SPECIFICATION {spec}", "CONSTANTS"]
    for k, v in constants.items():
        if isinstance(v, Def):
            lines.append(f" {k} <- {k}_def")
            continue
        lines.append(f" {k} = {cfg_val(v)}")
    for i in invariants:
        lines.append(f"INVARIANT {i}")
    for p in properties:
        lines.append(f"PROPERTY {p}")
    if emit:
        lines.append(f"ACTION_CONSTRAINT {action_constraint or 'Emit'}")
    elif action_constraint:
        lines.append(f"ACTION_CONSTRAINT {action_constraint}")
    if constraint:
        lines.append(f"CONSTRAINT {constraint}")
    if view:
        lines.append(f"VIEW {view}")
    if extra:
        lines.append(extra)
    return "\n".join(lines) + "\n"
