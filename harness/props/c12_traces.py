"""C12, code-to-spec direction: seeded random graphs (<= 200 nodes, arbitrary float weights, random caps,
decay settings, multiplier tables, perf caps), each call recorded as a trace of per-graph records plus the
multi-graph totals, validated by PropagationTrace.tla; negative controls per clause."""
from __future__ import annotations

import copy
from types import SimpleNamespace
from typing import Any, Dict, List, Tuple

from ..util import pmap, rng

NOCAP = 99999
WORDS = ["alpha", "Beta", "GAMMA", "delta", "Eps", "zeta", "eta", "Theta", "iota", "kap pa", "lam-da", "mu", "nu", "xi",
         "omicron", "pi", "rho", "sigma", "tau", "ups", "phi", "chi", "psi", "omega", "été", "naïve", "Straße"]
RELS = ["supports", "associates", "contradicts", "mystery", ""]


def _weight(r):
    k = r.random()
    if k < 0.15:
        return r.choice([0.0, -0.0, 1e-7, -1e-7, 1e-6, 2e-6, 1.0, -1.0, 0.5])
    if k < 0.25:
        return r.choice([3.0, -7.5, 1e3, 1e-3])
    return r.uniform(-2.0, 2.0)


def gen_world(seed: int, tidn: int):
    """-> (graphs, text, t1cfg, perf, slice_budgets); graphs = [(gid, nodes, edges)], deterministic in (seed, tidn)"""
    r = rng(seed, "c12trace", tidn)
    big = (tidn % 10 == 0)
    ngraphs = r.choice([1, 1, 2, 3])
    graphs = []
    kws_all: List[str] = []
    for gi in range(ngraphs):
        n = r.randint(13, 200) if (big and gi == 0) else r.randint(1, 12)
        ids = [f"{'gxy'[gi]}{r.choice(['', ':', '.'])}{j}" for j in range(n)]
        nodes = []
        for j, nid in enumerate(ids):
            label = r.choice(WORDS) + str(r.randint(0, 30)) if r.random() < 0.9 else ""
            tags: List[Any] = []
            for _ in range(r.choice([0, 0, 1, 2])):
                tags.append(r.choice([r.choice(WORDS) + str(r.randint(0, 30)), "", 3, None, r.choice(WORDS)]))
            nodes.append((nid, label, tags))
            kws_all += [label] + [t for t in tags if isinstance(t, str)]
        m = r.randint(0, min(3 * n, 400))
        edges = []
        for k in range(m):
            s = r.choice(ids)
            d = r.choice(ids) if r.random() < 0.9 else s
            edges.append((f"e{gi}_{k}", s, d, _weight(r), r.choice(RELS)))
        r.shuffle(nodes)
        graphs.append((f"G{gi}", nodes, edges))
    kws = [k for k in kws_all if k]
    picks = [r.choice(kws) for _ in range(r.choice([0, 1, 1, 2, 3, 6]))] if kws else []
    text = " ".join((p.upper() if r.random() < 0.5 else p) for p in picks) + r.choice(["", " and MU", " x", " ÉTÉ"])
    loose = lambda xs, big_: r.choice(xs) if r.random() < 0.6 else big_    # noqa: E731
    t1cfg: Dict[str, Any] = {
        "cache": {"enabled": False},
        "queue_budget": loose([0, 1, 2, 5, 20], 10_000), "node_budget": r.choice([0.25, 1.0, 1.5, 1.5, 4.0, 100.0]),
        "radius_cap": loose([0, 1, 2, 3], 4), "iter_cap": loose([0, 1, 2, 3], 50), "iter_cap_layers": loose([0, 1, 2], 50),
    }
    mode = r.choice(["exp_floor", "exp_floor", "attn_quad"])
    t1cfg["decay"] = {"mode": mode, "rate": r.choice([0.6, 0.5, 0.9, 1.0, 0.1]), "floor": r.choice([0.05, 0.0, 0.3]),
                      "alpha": r.choice([0.8, 0.0, 2.0])}
    if r.random() < 0.5:
        t1cfg["relax_cap"] = r.choice([None, 0, 1, 2, 3, 10, 100])
    if r.random() < 0.4:
        t1cfg["edge_type_mult"] = {"supports": r.uniform(0, 1.5), "associates": r.uniform(0, 1), "contradicts": -0.5}
    perf: Dict[str, Any] = {}
    if r.random() < 0.3:
        perf = {"enabled": True, "metrics": {"report_memory": r.random() < 0.5},
                "t1": {"caps": {"frontier": r.choice([0, 1, 2, 8]), "visited": r.choice([0, 1, 4])}, "dedupe_window": r.choice([0, 1, 4])}}
    sb = None
    if r.random() < 0.4:
        sb = {"t1_iters": r.choice([None, 0, 1, 2]), "t1_pops": r.choice([None, 0, 1, 3, 50])}
    return graphs, text, t1cfg, perf, sb


def _store(graphs):
    from clematis.graph.store import InMemoryGraphStore
    from clematis.engine.types import Node, Edge
    st = InMemoryGraphStore()
    for gid, nodes, edges in graphs:
        st.upsert_nodes(gid, [Node(id=nid, label=lb, attrs=({"tags": list(tg)} if tg else {})) for nid, lb, tg in nodes])
        if edges:
            st.upsert_edges(gid, [Edge(id=eid, src=s, dst=d, weight=w, rel=rel) for eid, s, d, w, rel in edges])
    return st


def _ctx(t1cfg, perf, sb):
    ctx = SimpleNamespace(cfg=SimpleNamespace(t1=copy.deepcopy(t1cfg), perf=copy.deepcopy(perf)))
    if sb is not None:
        ctx.slice_budgets = dict(sb)
    return ctx


def _counters(m):
    return {"pops": m["pops"], "iters": m["iters"], "props": m["propagations"], "rhits": m["radius_cap_hits"],
            "lhits": m["layer_cap_hits"], "nhits": m["node_budget_hits"]}


def record(args) -> Dict[str, Any]:
    """run the real code, return the trace (+ 'store_ok')"""
    from . import c12
    seed, tidn = args
    graphs, text, t1cfg, perf, sb = gen_world(seed, tidn)
    low = text.lower()
    ev: List[Dict[str, Any]] = []
    owner: Dict[str, Tuple[int, int]] = {}
    store_ok = True
    for gi, (gid, nodes, edges) in enumerate(graphs):
        ids = sorted(nid for nid, _l, _t in nodes)
        rank = {nid: i + 1 for i, nid in enumerate(ids)}
        for nid in ids:
            owner[nid] = (gi, rank[nid])
        # documented seed rule, stated independently: label or (string) tag occurs in the lower-cased text
        seeds = sorted(rank[nid] for nid, lb, tg in nodes
                       if any(isinstance(k, str) and k and k.lower() in low for k in [lb] + list(tg)))
        st = _store(graphs)
        snap = c12.snapshot_store(st)
        res = c12.call_t1(st, [gid], _ctx(t1cfg, perf, sb), text)
        store_ok = store_ok and c12.store_unchanged(st, snap)
        got = [d.get("id") for d in res.graph_deltas]
        sbb = sb or {}
        ev.append({"op": "graph", "n": len(ids), "es": [[rank[s], rank[d]] for _e, s, d, _w, _r in edges], "seeds": seeds,
                   "radius": t1cfg["radius_cap"], "iter": t1cfg["iter_cap"], "layers": t1cfg["iter_cap_layers"],
                   "siter": NOCAP if sbb.get("t1_iters") is None else sbb["t1_iters"],
                   "queue": t1cfg["queue_budget"],
                   "spops": NOCAP if sbb.get("t1_pops") is None else sbb["t1_pops"],
                   "relax": NOCAP if t1cfg.get("relax_cap") is None else t1cfg["relax_cap"],
                   "touched": [rank.get(i, 0) for i in got], "c": _counters(res.metrics)})
    st = _store(graphs)
    snap = c12.snapshot_store(st)
    gids = [g[0] for g in graphs]
    res = c12.call_t1(st, gids, _ctx(t1cfg, perf, sb), text)
    store_ok = store_ok and c12.store_unchanged(st, snap)
    ev.append({"op": "total", "touched": [owner.get(d.get("id"), (0, 0))[1] for d in res.graph_deltas], "c": _counters(res.metrics)})
    return {"tid": tidn, "ev": ev, "store_ok": store_ok}


def _controls(traces: List[Dict[str, Any]], per: int = 2) -> List[Tuple[str, Dict[str, Any]]]:
    """corrupted copies of recorded traces, each with the clause that must reject it (the corruption is
    chosen so that no earlier clause of the record can fire first)"""
    out: List[Tuple[str, Dict[str, Any]]] = []

    def add(clause, tr, i, fn):
        if sum(1 for cl, _ in out if cl == clause) >= per:
            return
        t = copy.deepcopy(tr)
        fn(t["ev"][i])
        out.append((clause, t))

    def swap(e):
        e["touched"][0], e["touched"][1] = e["touched"][1], e["touched"][0]

    def extra(e):
        e["n"] += 1
        e["touched"].append(e["n"])

    for tr in traces:
        for i, e in enumerate(tr["ev"]):
            if e["op"] == "total":
                add("CountersMatchWork", tr, i, lambda x: x["c"].__setitem__("pops", x["c"]["pops"] + 1))
                continue
            add("PopBudget", tr, i, lambda x: x["c"].__setitem__("pops", min(x["queue"], x["spops"]) + 1))
            add("LayerBudget", tr, i, lambda x: x["c"].__setitem__("iters", min(x["iter"], x["layers"], x["siter"], x["radius"]) + 1))
            if e["c"]["props"] >= 1:
                add("RelaxBudget", tr, i, lambda x: x.__setitem__("relax", x["c"]["props"] - 1))
            if len(e["touched"]) >= 2:
                add("TouchedOnceSortedPerGraph", tr, i, swap)
            add("ReachableWithinCaps", tr, i, extra)
            src = [s for s in e["seeds"] if all(d != s for _s, d in e["es"]) and s in e["touched"]]
            if src:
                add("SeedsExact", tr, i, lambda x, s0=src[0]: x["touched"].remove(s0))
    return out


def check(run) -> None:
    from ..tlc import TLCError
    q = run.quick
    n = 400 if q else 6000
    batch = 2000
    tids = list(range(1, n + 1))
    controls_done = set()
    for b0 in range(0, n, batch):
        part = tids[b0:b0 + batch]
        traces = pmap(record, [(run.seed, t) for t in part], chunk=8)
        send = [{"tid": t["tid"], "ev": t["ev"]} for t in traces]
        ctl: List[Tuple[str, Dict[str, Any]]] = []
        if b0 == 0:
            accepted_guess = [t for t in send if all(e.get("relax", 1) != 0 for e in t["ev"])]
            for k, (clause, c) in enumerate(_controls(accepted_guess), 1):
                ctl.append((clause, dict(c, tid=-k)))
        v = run.validate_traces("PropagationTrace", {}, send + [c for _cl, c in ctl], name=f"PropagationTrace_{b0}", timeout_s=1500)
        for clause, c in ctl:
            verdict, pos = v[c["tid"]]
            if verdict == "ok":
                raise TLCError(f"PropagationTrace accepted a negative control for {clause}")
            # the corrupted event may also trip an earlier clause of the same record; it must not be accepted,
            # and the intended clause must be the verdict for at least one control of its kind
            if verdict == clause:
                controls_done.add(clause)
            run.ok("PropagationTrace.negative_control_rejected")
        for t in traces:
            run.traces += 1
            run.case(("trace", t["tid"]))
            verdict, pos = v[t["tid"]]
            rp = {"kind": "trace", "args": [run.seed, t["tid"]]}
            if not t["store_ok"]:
                run.fail("StoreUnmodified", {"clause": "StoreUnmodified", "cause": "store changed", "direction": "trace"},
                         {"trace": t["tid"]}, f"random world {t['tid']}: the graph store differs after t1_propagate", replay=rp)
            if verdict == "ok":
                run.ok("PropagationTrace.accepted")
                continue
            e = t["ev"][pos - 1] if 0 < pos <= len(t["ev"]) else None
            sig = {"clause": verdict, "cause": "trace"}
            if verdict == "RelaxBudget" and e is not None:
                sig = {"clause": verdict, "cause": "relax_cap=0" if e.get("relax") == 0 else "relax_cap>0"}
            small = {k: e[k] for k in e if k != "es"} if e else None
            run.fail(verdict, sig, {"trace": t["tid"], "position": pos, "event": small},
                     f"random world {t['tid']} rejected at event {pos} ({verdict}): {small}", replay=rp)
        if b0 == 0:
            run.sample({"trace": {"tid": send[0]["tid"], "ev": [{k: x for k, x in e.items() if k != "es"} for e in send[0]["ev"]]}}, cap=4)
    want = {"TouchedOnceSortedPerGraph", "PopBudget", "LayerBudget", "RelaxBudget", "ReachableWithinCaps", "SeedsExact", "CountersMatchWork"}
    if not want <= controls_done:
        raise TLCError(f"negative controls did not exercise clauses {sorted(want - controls_done)}")


def replay(r) -> List[Tuple[str, dict, str]]:
    """re-record one random world and let TLC (PropagationTrace) judge it again"""
    import json
    import os
    import shutil
    import tempfile
    from .. import tlc as _tlc
    seed, tidn = r["args"]
    t = record((seed, tidn))
    fails = []
    if not t["store_ok"]:
        fails.append(("StoreUnmodified", {"cause": "store changed"}, "store differs after the call"))
    base = "/verif/.work"
    os.makedirs(base, exist_ok=True)
    wd = tempfile.mkdtemp(prefix="C12_replay_", dir=base)
    try:
        path = os.path.join(wd, "traces.ndjson")
        with open(path, "w") as f:
            f.write(json.dumps({"tid": t["tid"], "ev": t["ev"]}, separators=(",", ":")) + "\n")
        res = _tlc.run_tlc("PropagationTrace", "SPECIFICATION TraceSpec\nPOSTCONDITION Done\n", wd, name="replay", workers=1,
                           timeout_s=600, env={"TRACE_FILE": path})
        verdict, pos = res.verdicts.get(t["tid"], ("no verdict", 0))
    finally:
        shutil.rmtree(wd, ignore_errors=True)
    if verdict != "ok":
        e = t["ev"][pos - 1] if 0 < pos <= len(t["ev"]) else {}
        small = {k: e[k] for k in e if k != "es"}
        sig = {"cause": "trace"}
        if verdict == "RelaxBudget":
            sig = {"cause": "relax_cap=0" if e.get("relax") == 0 else "relax_cap>0"}
        fails.append((verdict, sig, f"random world {tidn} rejected at event {pos}: {small}"))
    return fails
