def check(run):
    pass
def replay(r):
    return []
