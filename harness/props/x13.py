"""X13 (extra, beyond the listed properties) — the log capture of the agent-level driver (engine/util/logmux.py).

(M)    LogMux.tla: threads with their own context (active mux, reset tokens), muxes (one of them raising on write),
       streams, the files behind the real appender; set / reset (any token, also a used one or another thread's) /
       write / flush / clear / spawn (plain thread or context copy); ten clauses as action properties / invariants.
(S->C)  every transition (pre state, operation, post state) is replayed on the real module with REAL threads: each model
       thread is an OS thread that executes its commands in its own context (a context copy is a thread started inside
       `copy_context().run`), the appender behind the module is replaced by a recorder; after the operation the active
       mux of EVERY thread, every buffer and every file are compared with the spec, as are the exceptions of reset.
       Seeded random long histories against a Python transcription of the same rules, and the orchestrator's
       _begin_log_capture / _end_log_capture / use_mux as derived operations.
"""
from __future__ import annotations

import contextvars
import json
import queue
import threading
from typing import Any, Dict, List, Tuple

from ..util import make_cfg, pmap, rng

MANIFEST = {"technique": "TLA+ state machine of the context-local log capture (threads x muxes x tokens x files) model-checked with TLC; every transition replayed on clematis.engine.util.logmux with real threads and a recording appender; random histories",
            "text": "extra spec beyond the listed properties", "note": "not a listed property; run with ./check X13"}

CLAUSES_INV = ["TypeOK", "BufferInCallOrder"]
CLAUSES_ACT = ["CaptureIsolation", "PassThrough", "FlushInOrder", "DiskAppendOnly", "ContextsAreSeparate", "ResetRestores",
               "NewThreadUncaptured", "OnlyWritersTouchFiles"]


class _Worker:
    """one model thread: an OS thread with its own context, executing closures one at a time"""

    def __init__(self, ctx: contextvars.Context | None):
        self.q: "queue.Queue" = queue.Queue()
        self.r: "queue.Queue" = queue.Queue()
        target = self._loop if ctx is None else (lambda: ctx.run(self._loop))
        self.th = threading.Thread(target=target, daemon=True)
        self.th.start()

    def _loop(self):
        while True:
            fn = self.q.get()
            if fn is None:
                return
            try:
                self.r.put(("ok", fn()))
            except BaseException as e:      # noqa: BLE001
                self.r.put(("exc", e))

    def call(self, fn):
        self.q.put(fn)
        kind, v = self.r.get(timeout=20)
        if kind == "exc":
            raise v
        return v

    def stop(self):
        self.q.put(None)


class World:
    """the real module driven like the model"""

    def __init__(self, broken: List[int]):
        import clematis.engine.util.logmux as LM
        self.LM = LM
        self.disk: Dict[str, List[int]] = {}
        self._orig = LM._append_jsonl
        LM._append_jsonl = lambda stream, obj: self.disk.setdefault(str(stream), []).append(obj["rec"])
        self.mux: Dict[int, Any] = {}
        self.broken = set(broken)
        self.workers: Dict[int, _Worker] = {}
        self.tokens: Dict[int, List[Any]] = {}

    def mux_of(self, m: int):
        if m == 0:
            return None
        if m not in self.mux:
            LM = self.LM
            if m in self.broken:
                class Bad(LM.LogMux):
                    def write(self, stream, obj):
                        raise RuntimeError("mux full")
                self.mux[m] = Bad()
            else:
                self.mux[m] = LM.LogMux()
        return self.mux[m]

    def mux_id(self, obj) -> int:
        if obj is None:
            return 0
        for k, v in self.mux.items():
            if v is obj:
                return k
        return -1

    def spawn(self, t: int, u: int, copy: bool):
        if t == 0:
            self.workers[u] = _Worker(None)
        elif copy:
            self.workers[u] = self.workers[t].call(lambda: _Worker(contextvars.copy_context()))
        else:
            self.workers[u] = self.workers[t].call(lambda: _Worker(None))
        self.tokens[u] = []

    def close(self):
        for w in self.workers.values():
            w.stop()
        self.LM._append_jsonl = self._orig

    # --- operations
    def do(self, o) -> Dict[str, Any]:
        LM = self.LM
        op = o["op"]
        if op == "set":
            mx = self.mux_of(o["v"])
            tok = self.workers[o["t"]].call(lambda: LM.set_mux(mx))
            self.tokens[o["t"]].append(tok)
            return {}
        if op == "reset":
            tok = self.tokens[o["owner"]][o["token"] - 1]
            try:
                self.workers[o["t"]].call(lambda: LM.reset_mux(tok))
                return {"res": "ok"}
            except (RuntimeError, ValueError) as e:
                return {"res": type(e).__name__}
        if op == "write":
            rec = {"rec": o["rec"]}
            self.workers[o["t"]].call(lambda: LM.write_or_buffer(o["s"], rec))
            return {}
        if op == "flush":
            mx = self.mux_of(o["m"])
            self.workers[o["t"]].call(lambda: LM.flush(mx.dump()))
            return {}
        if op == "clear":
            self.mux_of(o["m"]).clear()
            return {}
        if op == "spawn":
            self.spawn(o["t"], o["u"], bool(o["copy"]))
            return {}
        raise ValueError(op)

    def project(self, threads, muxes, streams) -> Dict[str, Any]:
        LM = self.LM
        cur = {}
        for t in threads:
            cur[t] = self.mux_id(self.workers[t].call(lambda: LM.LOG_MUX.get())) if t in self.workers else 0
        buf = {m: [[s, o["rec"]] for (s, o) in (self.mux[m].dump() if m in self.mux and m not in self.broken else [])] for m in muxes}
        return {"alive": sorted(self.workers), "cur": cur, "buf": buf, "disk": {s: list(self.disk.get(s, [])) for s in streams}}


def _seq(x) -> list:
    return list(x) if x else []


def _abs(st, threads, muxes, streams) -> Dict[str, Any]:
    cur = _seq(st["cur"])
    buf = st["buf"]
    buf = {m: [list(p) for p in _seq(buf[m - 1] if isinstance(buf, list) else buf.get(str(m)))] for m in muxes}
    return {"alive": sorted(st["alive"]), "cur": {t: cur[t - 1] for t in threads}, "buf": buf,
            "disk": {s: _seq(st["disk"].get(s)) for s in streams}}


def build(pre, consts) -> World:
    """construct the pre state on the real module: spawn, re-issue every token, restore the current values, fill buffers/files"""
    threads, muxes, streams = consts["Threads"], consts["Muxes"], consts["Streams"]
    w = World(consts["Broken"])
    a = _abs(pre, threads, muxes, streams)
    toks = _seq(pre["tok"])
    w.spawn(0, 1, False)
    for t in a["alive"]:
        if t != 1:
            w.spawn(1, t, False)
    LM = w.LM
    for t in a["alive"]:
        tl = _seq(toks[t - 1])
        # token i replaced tl[i].old: set the old value first, then obtain the token with any value; used ones are spent
        for i, tk in enumerate(tl):
            old = w.mux_of(tk["old"])
            w.workers[t].call(lambda: LM.LOG_MUX.set(old))
            placeholder = w.mux_of(tl[i + 1]["old"]) if i + 1 < len(tl) else None
            tok = w.workers[t].call(lambda: LM.set_mux(placeholder))
            w.tokens[t].append(tok)
        for i, tk in enumerate(tl):
            if tk["used"]:
                tok = w.tokens[t][i]
                w.workers[t].call(lambda: LM.reset_mux(tok))
        final = w.mux_of(a["cur"][t])
        w.workers[t].call(lambda: LM.LOG_MUX.set(final))
    for m in muxes:
        mx = w.mux_of(m)
        if m not in w.broken:
            for s, r in a["buf"][m]:
                mx.write(s, {"rec": r})
    for s in streams:
        w.disk[s] = list(a["disk"][s])
    return w


def replay_transition(args) -> List[Tuple[str, str]]:
    t, consts = args
    threads, muxes, streams = consts["Threads"], consts["Muxes"], consts["Streams"]
    o = t["obs"]
    w = None
    try:
        w = build(t["pre"], consts)
        got0, want0 = w.project(threads, muxes, streams), _abs(t["pre"], threads, muxes, streams)
        if got0 != want0:
            return [("Construct", f"could not build the pre state: {got0} vs {want0}")]
        try:
            res = w.do(o)
        except Exception as e:      # noqa: BLE001
            return [("CaptureTotal", f"{json.dumps(o)} raised {type(e).__name__}: {e} in state {want0}")]
        got, want = w.project(threads, muxes, streams), _abs(t["post"], threads, muxes, streams)
    finally:
        if w is not None:
            w.close()
    fails: List[Tuple[str, str]] = []
    where = f"{json.dumps(o)} in state cur={want0['cur']} buf={want0['buf']} disk={want0['disk']}"
    if o["op"] == "reset" and res.get("res") != o["res"]:
        fails.append(("ResetRestores", f"{where}: reset_mux -> {res.get('res')}, spec {o['res']}"))
    if got["cur"] != want["cur"]:
        clause = {"reset": "ResetRestores", "spawn": "NewThreadUncaptured"}.get(o["op"], "ContextsAreSeparate")
        fails.append((clause, f"{where}: active mux per thread {got['cur']}, spec {want['cur']}"))
    if got["buf"] != want["buf"]:
        clause = "CaptureIsolation" if o["op"] == "write" else "FlushInOrder" if o["op"] == "flush" else "BuffersAfterOp"
        fails.append((clause, f"{where}: buffers {got['buf']}, spec {want['buf']}"))
    if got["disk"] != want["disk"]:
        clause = ("PassThrough" if o.get("to") == 0 else "CaptureIsolation") if o["op"] == "write" else \
            "FlushInOrder" if o["op"] == "flush" else "OnlyWritersTouchFiles"
        fails.append((clause, f"{where}: appender received {got['disk']}, spec {want['disk']}"))
    return fails


# --- random histories against a transcription of the rules ---------------------------------------------------------
def random_history(args) -> List[Tuple[str, str]]:
    seed, i = args
    r = rng(seed, "x13", i)
    threads, muxes, streams = [1, 2, 3, 4], [1, 2, 3, 4], ["t1.jsonl", "t2.jsonl", "apply.jsonl"]
    broken = [4]
    w = World(broken)
    w.spawn(0, 1, False)
    cur = {1: 0}
    toks: Dict[int, List[Dict[str, Any]]] = {1: []}
    buf: Dict[int, List[List[Any]]] = {m: [] for m in muxes}
    disk: Dict[str, List[int]] = {s: [] for s in streams}
    n = 0
    fails: List[Tuple[str, str]] = []
    try:
        for step in range(r.choice([30, 80])):
            alive = sorted(cur)
            t = r.choice(alive)
            k = r.random()
            if k < 0.2:
                v = r.choice([0] + muxes)
                o = {"op": "set", "t": t, "v": v}
                toks[t].append({"old": cur[t], "used": False})
                cur[t] = v
            elif k < 0.4 and any(toks[x] for x in alive):
                owner = r.choice([x for x in alive if toks[x]])
                if r.random() < 0.7:
                    owner = t if toks[t] else owner
                idx = r.randrange(len(toks[owner]))
                exp = "RuntimeError" if toks[owner][idx]["used"] else "ValueError" if owner != t else "ok"
                o = {"op": "reset", "t": t, "owner": owner, "token": idx + 1, "res": exp}
                if exp == "ok":
                    cur[t] = toks[t][idx]["old"]
                    toks[t][idx]["used"] = True
            elif k < 0.75:
                n += 1
                s = r.choice(streams)
                o = {"op": "write", "t": t, "s": s, "rec": n}
                if cur[t] != 0 and cur[t] not in broken:
                    buf[cur[t]].append([s, n])
                else:
                    disk[s].append(n)
            elif k < 0.85:
                m = r.choice(muxes)
                o = {"op": "flush", "t": t, "m": m}
                for s, rec in buf[m]:
                    disk[s].append(rec)
            elif k < 0.9:
                m = r.choice(muxes)
                o = {"op": "clear", "m": m}
                buf[m] = []
            elif len(alive) < len(threads):
                u = [x for x in threads if x not in cur][0]
                cp = r.random() < 0.5
                o = {"op": "spawn", "t": t, "u": u, "copy": cp}
                cur[u] = cur[t] if cp else 0
                toks[u] = []
            else:
                continue
            res = w.do(o)
            if o["op"] == "reset" and res.get("res") != o["res"]:
                fails.append(("ResetRestores", f"random history {i} step {step}: {o} -> {res}"))
            got = w.project(threads, muxes, streams)
            want = {"alive": sorted(cur), "cur": {x: cur.get(x, 0) for x in threads},
                    "buf": {m: ([] if m in broken else buf[m]) for m in muxes}, "disk": disk}
            if got != want:
                fails.append(("RandomHistoryConforms", f"random history {i} step {step} after {o}: {got}, rules give {want}"))
            if fails:
                break
    finally:
        w.close()
    return fails


def derived_ops(_x) -> List[Tuple[str, str]]:
    """use_mux and the orchestrator's begin/end capture are set + LIFO reset; nesting restores the outer capture"""
    import clematis.engine.util.logmux as LM
    from clematis.engine.orchestrator import logging as OL
    fails: List[Tuple[str, str]] = []
    got: List[Tuple[str, int]] = []
    orig = LM._append_jsonl
    LM._append_jsonl = lambda s, o: got.append((s, o["rec"]))
    try:
        outer, inner = LM.LogMux(), LM.LogMux()
        with LM.use_mux(outer) as mo:
            if mo is not outer:
                fails.append(("UseMuxYieldsMux", "use_mux does not yield the mux it activates"))
            LM.write_or_buffer("a", {"rec": 1})
            with LM.use_mux(inner):
                LM.write_or_buffer("a", {"rec": 2})
                with LM.use_mux(None):
                    LM.write_or_buffer("a", {"rec": 3})
                LM.write_or_buffer("b", {"rec": 4})
            LM.write_or_buffer("b", {"rec": 5})
            try:
                with LM.use_mux(inner):
                    raise KeyError("x")
            except KeyError:
                pass
            LM.write_or_buffer("a", {"rec": 6})
        LM.write_or_buffer("a", {"rec": 7})
        want_outer, want_inner, want_disk = [("a", 1), ("b", 5), ("a", 6)], [("a", 2), ("b", 4)], [("a", 3), ("a", 7)]
        o = [(s, x["rec"]) for s, x in outer.dump()]
        i = [(s, x["rec"]) for s, x in inner.dump()]
        if (o, i, got) != (want_outer, want_inner, want_disk):
            fails.append(("NestingRestores", f"nested use_mux: outer {o} inner {i} files {got}; spec {want_outer} {want_inner} {want_disk}"))
        d = outer.dump()
        d.append(("z", {"rec": 99}))
        if len(outer.dump()) != 3:
            fails.append(("DumpIsACopy", "appending to dump() changed the mux"))
        mux, tok = OL._begin_log_capture()
        LM.write_or_buffer("a", {"rec": 8})
        OL._end_log_capture(tok)
        OL._end_log_capture(tok)          # a second end is swallowed and changes nothing
        LM.write_or_buffer("a", {"rec": 9})
        if [(s, x["rec"]) for s, x in mux.dump()] != [("a", 8)] or got[-1] != ("a", 9) or LM.LOG_MUX.get() is not None:
            fails.append(("BeginEndCapture", f"_begin/_end_log_capture: buffered {mux.dump()} files {got} active {LM.LOG_MUX.get()}"))
    finally:
        LM._append_jsonl = orig
    return fails


def check(run) -> None:
    q = run.quick
    run.rule = "every transition of LogMux.tla replayed on clematis.engine.util.logmux with real threads; distinct = transition / history"
    consts = {"Threads": [1, 2] if q else [1, 2, 3], "Muxes": [1, 2, 3], "Broken": [3], "Streams": ["a", "b"],
              "MaxRec": 2 if q else 3, "MaxTok": 2}
    cfg = make_cfg(consts, CLAUSES_INV, CLAUSES_ACT, emit=True, view="View")
    res = run.tlc("LogMux", cfg, name="LogMux_mc", workers=1, timeout_s=1500)
    run.model_must_hold(res)
    seen, cases = set(), []
    for t in res.emitted:
        key = json.dumps([t["pre"], t["obs"]], sort_keys=True)
        if key not in seen:
            seen.add(key)
            cases.append(t)
    cap = 6000 if q else 120000
    if len(cases) > cap:
        r = rng(run.seed, "x13-sample")
        cases = r.sample(cases, cap)
        run.exhaustive = False
    else:
        run.exhaustive = True
    ops = set()
    for t, fails in zip(cases, pmap(replay_transition, [(t, consts) for t in cases], chunk=50)):
        run.traces += 1
        run.case(json.dumps([t["pre"], t["obs"]], sort_keys=True))
        ops.add((t["obs"]["op"], t["obs"].get("res"), t["obs"].get("copy"), t["obs"].get("to", -1) == 0))
        if not fails:
            run.ok("LogMux.conforms")
        for clause, msg in fails:
            run.fail(clause, {"clause": clause}, t["obs"], msg, replay={"transition": t, "consts": consts})
    run.sample({"transition": cases[len(cases) // 2]} if cases else {}, cap=2)
    need = {("reset", "ok", None, False), ("reset", "RuntimeError", None, False), ("reset", "ValueError", None, False),
            ("spawn", None, True, False), ("spawn", None, False, False), ("write", None, None, True), ("write", None, None, False),
            ("flush", None, None, False), ("clear", None, None, False)}
    missing = need - ops
    if missing:
        from ..tlc import TLCError
        raise TLCError(f"vacuity: transition kinds never replayed: {sorted(map(str, missing))}")
    hist = [(run.seed, i) for i in range(200 if q else 4000)]
    for (s, i), fails in zip(hist, pmap(random_history, hist, chunk=20)):
        run.traces += 1
        run.case(f"rand-{i}")
        if not fails:
            run.ok("LogMux.random_history")
        for clause, msg in fails:
            run.fail(clause, {"clause": clause}, {"history": i}, msg, replay={"history": [s, i]})
    for clause, msg in derived_ops(None):
        run.fail(clause, {"clause": clause}, {}, msg, replay={"derived": True})
    run.ok("LogMux.derived_ops")
    run.assumptions += ["model threads are OS threads; a context copy is a thread started inside copy_context().run (what asyncio tasks and run-in-context helpers do)",
                        "the appender behind logmux is replaced by a recorder (module attribute _append_jsonl)"]


def replay(rep) -> int:
    r = rep["replay"]
    if "transition" in r:
        fails = replay_transition((r["transition"], r["consts"]))
    elif "history" in r:
        fails = random_history(tuple(r["history"]))
    else:
        fails = derived_ops(None)
    for f in fails:
        print(": ".join(f))
    if fails:
        print(f"VIOLATION property=X13 replay={rep.get('_path', '?')}")
        return 1
    print("replay: conforms")
    return 0
