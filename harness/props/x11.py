"""X11 (extra, beyond the listed properties) — rank fusion of the T2 quality layer (quality_ops.fuse).

(M)    Fusion.tla enumerates candidate sets (id -> semantic score, lexical level), alpha = A/10, the gate (on / quality off /
       unsupported mode) and the listing order, computes both rank lists (ties by id), the exact fused scores and the final
       order, and checks the documented properties as invariants (alpha 1 = semantic order, alpha 0 = lexical order,
       dominance, closed gate = identity, listing order irrelevant).
(S->C)  every enumerated case is spelled out (equal-length texts in which the query term occurs `level` times) and passed to
       the real fuse(): order, fused scores (against exact fractions), t2q.lex_hits, input untouched, closed gate = the very
       input list.
"""
from __future__ import annotations

import copy
import json
from fractions import Fraction as F
from typing import Any, Dict, List, Tuple

from ..util import make_cfg, pmap

MANIFEST = {"technique": "TLA+ specification of reciprocal-rank fusion (exact integer arithmetic) enumerated by TLC; every case replayed on quality_ops.fuse",
            "text": "extra spec beyond the listed properties", "note": "not a listed property; run with ./check X11"}

IDS = {1: "a", 2: "a10", 3: "a2", 4: "b", 5: "c"}       # integer order = lexicographic order
CLAUSES = ["IsPermutation", "AlphaOneIsSemanticOrder", "AlphaZeroIsLexicalOrder", "Dominance", "GateClosedIsIdentity", "ListingIrrelevant"]
L = 5                                                    # tokens per text


def _seq(x) -> list:
    return list(x) if x else []


def run_case(c) -> List[Tuple[str, str]]:
    from clematis.engine.stages.t2.quality_ops import fuse
    i, o = c["inp"], c["out"]
    n = i["n"]
    sem, lex = _seq(i["sem"]), _seq(i["lex"])
    order = list(range(n, 0, -1)) if i["rev"] else list(range(1, n + 1))
    items = []
    for k in order:
        words = ["zed"] * lex[k - 1] + ["pad"] * (L - lex[k - 1])
        # the occurrences are spread over the text and spelled in mixed case
        words = [w.upper() if (k + j) % 2 else w for j, w in enumerate(words[k % len(words):] + words[:k % len(words)])]
        items.append({"id": IDS[k], "score": sem[k - 1] / 8.0, "text": " ".join(words), "owner": "A"})
    qcfg: Dict[str, Any] = {"enabled": i["gate"] != "off", "lexical": {"bm25_k1": 1.2, "bm25_b": 0.75, "stopwords": "en-basic"},
                            "fusion": {"mode": "score_interp" if i["gate"] != "mode" else "rrf_v2", "alpha_semantic": i["a"] / 10.0}}
    cfg = {"t2": {"quality": qcfg}}
    before = copy.deepcopy(items)
    where = (f"candidates(id: sem, level)={{{', '.join(f'{IDS[k]}: {sem[k - 1]}/8 x{lex[k - 1]}' for k in range(1, n + 1))}}} listed {[d['id'] for d in items]} "
             f"alpha={i['a'] / 10.0} gate={i['gate']}")
    fails: List[Tuple[str, str]] = []
    try:
        fused, meta = fuse("Zed", items, cfg=cfg)
    except Exception as e:      # noqa: BLE001
        return [("FusionTotal", f"{where}: fuse raised {type(e).__name__}: {e}")]
    if items != before:
        fails.append(("InputNotMutated", f"{where}: fuse changed its input"))
    want = [IDS[k] for k in _seq(o["order"])]
    got = [d.get("id") for d in fused]
    if i["gate"] != "on":
        if got != want or meta:
            fails.append(("GateClosedIsIdentity", f"{where}: fuse returned {got} meta={meta}, spec: the input list, no meta"))
        if any("score_fused" in d for d in fused):
            fails.append(("GateClosedIsIdentity", f"{where}: fuse annotated the items although the gate is closed"))
        return fails
    if sorted(got) != sorted(want):
        return fails + [("IsPermutation", f"{where}: fuse returned {got}")]
    if got != want:
        a = i["a"]
        clause = "AlphaOneIsSemanticOrder" if a == 10 else "AlphaZeroIsLexicalOrder" if a == 0 else "FusedOrder"
        fails.append((clause, f"{where}: fuse returned {got}, spec {want} (ranks sem/lex per id: { {IDS[k]: _seq(o['ranks'])[k - 1] for k in range(1, n + 1)} })"))
    ranks = _seq(o["ranks"])
    for d in fused:
        k = [kk for kk, v in IDS.items() if v == d["id"]][0]
        rs, rl = ranks[k - 1]
        exact = F(i["a"], 10) * F(1, rs + 60) + F(10 - i["a"], 10) * F(1, rl + 60)
        if abs(F(float(d.get("score_fused", -1))) - exact) > F(1, 10 ** 15):
            fails.append(("FusedScore", f"{where}: score_fused of {d['id']} is {d.get('score_fused')!r}, spec {float(exact)!r} (ranks {rs}/{rl})"))
            break
        if {kk: vv for kk, vv in d.items() if kk != "score_fused"} != before[[b["id"] for b in before].index(d["id"])]:
            fails.append(("InputNotMutated", f"{where}: the fused record of {d['id']} lost or changed fields of the candidate"))
            break
    if int(meta.get("t2q.lex_hits", -1)) != o["hits"]:
        fails.append(("LexHits", f"{where}: t2q.lex_hits={meta.get('t2q.lex_hits')!r}, spec {o['hits']}"))
    return fails


def check(run) -> None:
    q = run.quick
    run.rule = "every candidate set / alpha / gate / listing order of Fusion.tla replayed on quality_ops.fuse; distinct = case"
    jobs = [("n3", {"MaxN": 3, "SemVals": [0, 1, 4], "LexVals": [0, 1, 2], "Alphas": [0, 3, 6, 10], "Gates": ["on", "off", "mode"]})]
    if q:
        jobs.append(("n4", {"MaxN": 4, "SemVals": [1, 4], "LexVals": [0, 2], "Alphas": [5, 6], "Gates": ["on"]}))
    else:
        jobs.append(("n4", {"MaxN": 4, "SemVals": [0, 1, 4], "LexVals": [0, 1, 2], "Alphas": [0, 1, 5, 6, 9, 10], "Gates": ["on"]}))
        jobs.append(("n5", {"MaxN": 5, "SemVals": [1, 4], "LexVals": [0, 3], "Alphas": [4, 5, 7], "Gates": ["on", "off"]}))
    seen = set()
    for name, consts in jobs:
        cfg = make_cfg(consts, CLAUSES, [], emit=False, view=None, constraint="EmitCase")
        res = run.tlc("Fusion", cfg, name=f"Fusion_{name}", workers=8, timeout_s=1500)
        run.model_must_hold(res)
        cases = []
        for c in res.emitted:
            key = json.dumps(c["inp"], sort_keys=True)
            if key not in seen:
                seen.add(key)
                cases.append(c)
        for c, fails in zip(cases, pmap(run_case, cases, chunk=64)):
            run.traces += 1
            run.case(json.dumps(c["inp"], sort_keys=True))
            if not fails:
                run.ok("Fusion.conforms")
            for clause, msg in fails:
                run.fail(clause, {"clause": clause}, c["inp"], msg, replay={"case": c})
        if cases:
            run.sample({"case": cases[len(cases) // 2]}, cap=3)
    run.exhaustive = True
    run.assumptions += ["texts of equal length with one query term: BM25 is monotone in the term frequency, in the direction of the sign of the idf",
                        "the semantic scores are multiples of 1/8 (exact floats)"]


def replay(rep) -> int:
    fails = run_case(rep["replay"]["case"])
    for f in fails:
        print(": ".join(f))
    if fails:
        print(f"VIOLATION property=X11 replay={rep.get('_path', '?')}")
        return 1
    print("replay: conforms")
    return 0
