"""X09 (extra, beyond the listed properties) — text normaliser / tokeniser / aliasing of the T2 quality paths, and the
deterministic merge of per-shard retrieval hits.

(M)    TextNorm.tla enumerates (text) every string of up to 4-5 character classes with its normal form, its tokens and the
       tokens under three stop-set / minimum-length options, (alias) every token sequence x every alias map over 2-3 keys with
       the result of one and of two applications, (load) every alias-map file of up to 3-4 lines (pairs, duplicates, comments,
       junk, non-scalar values, list items), missing / directory / invalid UTF-8 / falsy paths, and what a second call returns
       after the file was replaced, deleted or created.  ShardMerge.tla enumerates every list of up to 3-4 hits
       (id, score on an exact double grid around a half quantum, shard, tier) with the quantised scores, the merge_hits result,
       the tier walk and the tiers reported for every k.  The documented properties are invariants of the tables.
(S->C)  every enumerated case is replayed on the real functions (quality_norm.normalize_text / tokenize / apply_aliases /
       load_alias_map on real files; shard._qscore / sort_key / merge_hits / merge_tier_hits_across_shards_dict, also with the
       buckets in reverse order and reversed inside).
       Random families (x09_text.py, x09_shard.py): strings with real Unicode (fullwidth forms, ligatures, combining marks,
       Turkish i, sharp s, final sigma, zero-width characters, astral characters), stemmer, bigger alias maps with chains and
       cycles, many shards with many duplicates — against a python reference of the stated rules (exact fractions for the quantum).
"""
from __future__ import annotations

import os
from concurrent.futures import ThreadPoolExecutor
from typing import Any, Dict, List, Tuple

from .. import tlc as _tlc
from ..util import Def, make_cfg, pmap, split_defs
from . import x09_shard as S
from . import x09_text as T

MANIFEST = {"technique": "TLA+ specifications of the text normaliser / tokeniser / alias rewriting / alias-map loading (TextNorm.tla) and of the deterministic "
                         "shard merge with exact score quantisation (ShardMerge.tla), enumerated by TLC; every case replayed on quality_norm and t2.shard; "
                         "random families with real Unicode and many shards against a python reference with exact fractions",
            "text": "extra spec beyond the listed properties", "note": "not a listed property; run with ./check X09"}

TEXT_CLAUSES = ["NormaliseIdempotent", "NormaliseLowerNFKC", "TokensAreMaximalAlnumRuns", "StopAndMinLenFilter", "TokeniseOfNormalisedEqualsTokenise",
                "AliasSinglePassLeftToRight", "AliasExpansionOrderPreserved", "AliasNoneOrEmptyMapIsIdentity", "AliasIdempotenceAsDocumented",
                "AliasClosedMapIsIdempotent", "LoadAliasMapTotal", "LoadLastDuplicateWins", "LoadCachedPerPath"]
SHARD_CLAUSES = ["SortedByQuantisedScoreThenId", "TiesBrokenByIdOnly", "DuplicatesKeptOnceWithBestScore", "BucketOrderIndependent",
                 "IntraBucketOrderIndependent", "TiersKeptApart", "ClampReportsTiers", "QuantisationMonotone"]
PROCS = 4
LINE_CODES = [0, 1, 2, 111, 112, 121, 122, 201, 202, 311]

TEXT_BASE = {"Mode": "text", "MaxLen": 1, "Chars": list(range(1, 13)), "Opts": Def(T.opts_tla()), "MaxToks": 1, "NTok": 3, "NKeys": 2, "MaxCanon": 2,
             "MaxLines": 1, "LineCodes": LINE_CODES, "Part": 0, "NParts": 1}
C = S.code
HALF = [C(513, -1), C(513, 0), C(513, 1)]                       # around a half quantum that rounds DOWN to the even integer
SCORES6 = HALF + [C(515, 0), C(512, -2), C(512, 2)]             # a half quantum that rounds UP; two raw scores inside one quantum
SCORES_ALL = SCORES6 + [C(515, -1), C(512, 3), C(0, -3), C(1, 0, True), C(3, 0, True), S.NAN, S.PINF, S.NONE, S.NINF]


def _jobs(run) -> List[Dict[str, Any]]:
    """[{module, name, consts, kind, params}]; a table is split over NParts TLC processes"""
    jobs: List[Dict[str, Any]] = []

    def text(name, parts, **kw):
        for p in range(parts):
            jobs.append({"module": "TextNorm", "name": f"{name}_p{p}", "consts": dict(TEXT_BASE, Part=p, NParts=parts, **kw), "kind": kw["Mode"]})

    def shard(name, parts, walk, **kw):
        for p in range(parts):
            jobs.append({"module": "ShardMerge", "name": f"{name}_p{p}", "consts": dict(kw, WalkTiers=walk, Part=p, NParts=parts), "kind": "shard"})
    if run.quick:
        text("text4", 2, Mode="text", MaxLen=4)
        shard("hits3", 2, 3, MaxHits=3, Ids=[1, 2, 3], Scores=HALF, NShards=2, NTiers=2)
        text("alias", 1, Mode="alias", MaxToks=4, NTok=3, NKeys=2, MaxCanon=2)
        text("load3", 1, Mode="load", MaxLines=3)
        shard("hits2", 1, 3, MaxHits=2, Ids=[1, 2, 3, 4], Scores=SCORES_ALL, NShards=2, NTiers=2)
    else:
        text("text5", 4, Mode="text", MaxLen=5)
        shard("hits3", 4, 3, MaxHits=3, Ids=[1, 2, 3], Scores=SCORES6, NShards=2, NTiers=2)
        text("alias3k", 4, Mode="alias", MaxToks=4, NTok=3, NKeys=3, MaxCanon=2)
        shard("hits4", 4, 2, MaxHits=4, Ids=[1, 2], Scores=HALF, NShards=2, NTiers=2)
        text("text6", 2, Mode="text", MaxLen=6, Chars=[1, 3, 5, 6, 7, 9, 11])
        text("alias4t", 2, Mode="alias", MaxToks=4, NTok=4, NKeys=2, MaxCanon=2)
        shard("hits3w", 2, 4, MaxHits=3, Ids=[1, 2, 3], Scores=[C(513, 0), C(515, 0)], NShards=3, NTiers=3)
        shard("hits2", 1, 3, MaxHits=2, Ids=[1, 2, 3, 4], Scores=SCORES_ALL, NShards=3, NTiers=2)
        text("alias3c", 1, Mode="alias", MaxToks=5, NTok=2, NKeys=2, MaxCanon=3)
        text("load4", 1, Mode="load", MaxLines=4)
    return jobs


def _run_wave(run, jobs: List[Dict[str, Any]]) -> List[List[Any]]:
    """several single-threaded TLC processes side by side (the enumeration of initial states is sequential in TLC)"""
    def one(job):
        consts = job["consts"]
        cfg = make_cfg(consts, TEXT_CLAUSES if job["module"] == "TextNorm" else SHARD_CLAUSES, [], emit=False, view=None, constraint="EmitCase")
        return _tlc.run_tlc(job["module"], cfg, run.workdir, name=job["name"], workers=1, timeout_s=2400, defs=split_defs(consts), seed=run.seed,
                            heap="3g", jvm_opts=["-XX:ParallelGCThreads=2", "-XX:CICompilerCount=2"])
    with ThreadPoolExecutor(max_workers=PROCS) as ex:
        results = list(ex.map(one, jobs))
    out = []
    for job, res in zip(jobs, results):
        run.states += res.distinct
        run.transitions += res.generated
        run.tlc_runs.append({"module": job["module"], "name": job["name"], "cmd": res.cmd, "generated": res.generated, "distinct": res.distinct,
                             "diameter": res.diameter, "wall_s": round(res.wall_s, 2), "emitted": len(res.emitted),
                             "timed_out": res.timed_out, "violation": (res.violation or {}).get("name")})
        run.model_must_hold(res)
        if res.timed_out or len(res.emitted) != res.distinct or not res.emitted:
            raise _tlc.TLCError(f"X09: TLC run {job['name']} emitted {len(res.emitted)} of {res.distinct} cases (timed out: {res.timed_out})")
        out.append(res.emitted)
        res.emitted = []
        res.text = ""
    return out


def _shard_params(consts) -> Tuple[int, int, int]:
    return consts["NShards"], consts["WalkTiers"], consts["MaxHits"]


def run_case(kind: str, case: Any, params: Any = None) -> List[Tuple[str, str]]:
    if kind == "text":
        return T.run_text_case(case)
    if kind == "alias":
        return T.run_alias_case(case)
    if kind == "load":
        return T.run_load_case((case, params))
    return S.run_shard_case((case,) + tuple(params))


def _account(run, key, fails, wit, replay) -> None:
    run.traces += 1
    run.case(key)
    for clause, msg in fails:
        run.fail(clause, {"clause": clause}, wit, msg, replay=replay)


def check(run) -> None:
    q = run.quick
    run.rule = ("every case of TextNorm.tla (strings of <= 4-6 character classes; token sequences x alias maps; alias-map files of <= 3-4 lines and their "
                "second load) and of ShardMerge.tla (<= 3-4 hits on the exact score grid over 2-3 shards and tiers, every k) replayed on quality_norm and "
                "t2.shard; seeded random families (real Unicode, stemmer, alias chains and cycles, up to 8 shards) against a python reference; distinct = distinct case")
    run.constants = {"quantum": "1e-9, halves to even", "score_grid": "j/1024 + e/2^32", "ids": S.IDS, "char_classes": 12,
                     "tokeniser_options": T.OPTS, "alias_words": T.WORD}
    run.assumptions += [
        "DEVIATION T1: the tokeniser splits on [^0-9A-Za-z]: non-ASCII letters / digits and '_' are separators (docs: 'split on non-alphanumeric')",
        "DEVIATION N1: lower() after NFKC can leave text that is not NFKC-normalised (H + U+0331, capital dotted I + cedilla): normalize_text is not "
        "idempotent there and tokenize(normalize_text(s)) may differ from tokenize(s); counted in the random family, not a failure",
        "DEVIATION A1: 'single pass => idempotent even if canonical repeats an alias' is false as written; modelled: the second application is again one pass",
        "DEVIATION A2: a canonical without tokens drops the token",
        "DEVIATION L1: a payload that is not a str->str mapping is filtered entry-wise / re-read by the line parser instead of giving {}",
        "CACHE: load_alias_map returns the first result per absolute path for the rest of the process (stale after the file changes; failures cached)",
        "DEVIATION K0: merge_tier_hits_across_shards_dict returns one hit for k_retrieval <= 0 (the validator demands k_retrieval >= 1)",
        "between duplicates of an id with equal quantised score the first one met is kept (shard order, then bucket order): modelled as built"]
    for msg in (T.self_check(), S.grid_self_check(SCORES_ALL)):
        if msg:
            raise _tlc.TLCError("X09: " + msg)
    load_root = os.path.join(run.workdir, "load")
    os.makedirs(load_root, exist_ok=True)
    jobs = _jobs(run)
    stats = {"alias_cases": 0, "alias_reapplying_changes_result": 0, "text_cases": 0, "load_cases": 0, "shard_cases": 0,
             "shard_cases_with_tie_inside_a_quantum": 0, "shard_cases_with_duplicate_ids": 0}
    sampled = set()
    for w in range(0, len(jobs), PROCS):
        wave = jobs[w:w + PROCS]
        for job, cases in zip(wave, _run_wave(run, wave)):
            kind = job["kind"]
            params = load_root if kind == "load" else _shard_params(job["consts"]) if kind == "shard" else None
            fn = {"text": T.run_text_case, "alias": T.run_alias_case, "load": T.run_load_case, "shard": S.run_shard_case}[kind]
            args = cases if kind in ("text", "alias") else [(c, params) for c in cases] if kind == "load" else [(c,) + params for c in cases]
            outs = pmap(fn, args, procs=PROCS, chunk=4000 if kind != "load" else 300)
            for idx, (c, fails) in enumerate(zip(cases, outs)):
                _account(run, (job["name"], idx), fails, c, {"kind": kind, "case": c, "params": params})
                if not fails:
                    run.ok(f"{job['module']}.{kind}.conforms")
                stats[kind + "_cases"] += 1
                if kind == "alias" and not c["o"]["idem"]:
                    stats["alias_reapplying_changes_result"] += 1
                elif kind == "shard":
                    fl = c["o"]["flat"] or []
                    if len({r["q"] for r in fl}) < len(fl):
                        stats["shard_cases_with_tie_inside_a_quantum"] += 1
                    if len(fl) < len(c["h"] or []):
                        stats["shard_cases_with_duplicate_ids"] += 1
            if kind not in sampled and cases:
                sampled.add(kind)
                run.sample({"kind": kind, "case": cases[(2 * len(cases)) // 3]}, cap=4)
            del cases, outs, args
    if not stats["alias_reapplying_changes_result"] or not stats["shard_cases_with_tie_inside_a_quantum"] or not stats["shard_cases_with_duplicate_ids"]:
        raise _tlc.TLCError(f"X09: vacuous tables: {stats}")
    run.extra["table_statistics"] = stats
    run.notes.append(f"DEVIATION A1 witnessed: in {stats['alias_reapplying_changes_result']} of {stats['alias_cases']} enumerated alias cases a second "
                     f"application of apply_aliases changes the result (smallest: tokens ['llm'], map {{'llm': 'llm llm'}})")
    # ---- random families -----------------------------------------------------------------------------------------
    fam = [("rand_text", T.random_text_case, 6000 if q else 400000), ("rand_alias", T.random_alias_case, 4000 if q else 250000),
           ("rand_shard", S.random_shard_case, 3000 if q else 120000)]
    dev = {"normalize_output_not_NFKC": 0, "tokens_of_normalised_text_differ": 0, "sample": None}
    for name, fn, n in fam:
        args = [(run.seed, i) for i in range(n)]
        g = 0
        for a, o in zip(args, pmap(fn, args, procs=PROCS, chunk=1000)):
            if o.get("guarded"):
                g += 1
                run.guarded_out += 1
                continue
            _account(run, (name, a[1]), o["fails"], {"seed": a[0], "i": a[1], "case": o.get("case")}, {"kind": name, "random": list(a)})
            for cl, m in o["ok"].items():
                run.ok(f"{name}.{cl}", m)
            if o.get("not_nfkc"):
                dev["normalize_output_not_NFKC"] += 1
                if o.get("tok_differs"):
                    dev["tokens_of_normalised_text_differ"] += 1
                    if dev["sample"] is None or len(o["case"]) < len(dev["sample"]):
                        dev["sample"] = o["case"]
        if g > n // 10:
            raise _tlc.TLCError(f"X09: {g} of {n} {name} cases were guarded out")
    run.extra["deviation_N1_in_random_family"] = dict(dev, sample=ascii(dev["sample"]))
    run.notes.append(f"DEVIATION N1 witnessed in the random family: normalize_text left non-NFKC output in {dev['normalize_output_not_NFKC']} strings, "
                     f"tokenize(normalize_text(s)) != tokenize(s) in {dev['tokens_of_normalised_text_differ']} (smallest reproducer: 'H\\u0331': ['h'] vs [])")
    run.exhaustive = False


FAMILIES = {"rand_text": T.random_text_case, "rand_alias": T.random_alias_case, "rand_shard": S.random_shard_case}


def replay(rep) -> int:
    r = rep["replay"]
    if "random" in r:
        fails = FAMILIES[r["kind"]](tuple(r["random"])).get("fails", [])
    else:
        params = r.get("params")
        if r["kind"] == "load":
            params = "/verif/.work/X09_replay"
            os.makedirs(params, exist_ok=True)
        fails = run_case(r["kind"], r["case"], params)
    for f in fails:
        print(": ".join(f))
    if fails:
        print(f"VIOLATION property=X09 replay={rep.get('_path', '?')}")
        return 1
    print("replay: conforms")
    return 0
