"""C18 — GEL edge weights stay bounded, decay monotonically, keys canonical.

(M)    Gel.tla: the documented observe / tick / merge / split / promotion rules on an exact fixed-point
       grid (unit 2^-20), configuration chosen in Init from the alphabets (mode, alpha, clamp range,
       floor, threshold, top-k, pair cap, maintenance settings), histories over
       {Observe(bag), Tick(n half-lives), Merge, Split, Promote, Gate}; every clause is an invariant or
       an action property, explored exhaustively to a bounded depth.
(S->C)  every emitted transition is replayed on the real gel functions with a plain dict state built
       from the abstract pre-state: edges (key -> src, dst, rel, weight), nodes and meta lists are
       compared with the spec's post-state after the operation, the clauses are evaluated directly on
       the real result, and for Observe every permutation of the item list must give the same state.
(C->S)  c18_traces: seeded random long histories with arbitrary floats, validated by GelTrace.tla.
       c18_turn: real orchestrator turns (gate on/off, maintenance passes) against the same core.
"""
from __future__ import annotations

import copy
import itertools
import json
from fractions import Fraction
from typing import Any, Dict, List, Tuple

from ..util import Def, make_cfg, pmap, split_defs

MANIFEST = {
    "technique": "TLA+ spec of the GEL rules (observe/tick/merge/split/promotion, gate) on an exact dyadic grid model-checked with TLC over configuration alphabets and bounded histories; every transition replayed on the real gel functions incl. all permutations of the item list; random long float histories and real orchestrator turns validated by TLC trace checking with IEEE-754 order encoding",
    "text": "Bounded exhaustive model checking of the documented GEL rules with the ten C18 clauses as invariants / action properties (clamp bounds, monotone decay, drop exactly below the floor, one canonically keyed edge per unordered pair, pair cap, top-k above threshold, listing-order insensitivity, maintenance only annotates/attaches, idempotent promotion, closed gate = untouched), bound to the code by transition-coverage replay on observe_retrieval / tick / *_candidates / apply_* with a plain dict state (edges, nodes, meta compared after every operation), by trace validation of seeded random long histories with arbitrary float scores, alphas, clamp ranges and half-lives (weights compared exactly through their bit patterns), and by real run_turn executions with graph.enabled on and off.",
    "note": "Small scope for the exhaustive part: <= 4 base ids (+ their concept ids), bags of <= 4 items, histories <= 5 operations, weights on a 2^-20 grid with alpha in {1/8, 1/2}, decay factors 2^-n. The increment rule (additive +alpha, proportional +alpha(1-min(|w|,1))) is taken from the module and its unit tests; docs/m11/overview.md summarises a score-weighted variant. Ids containing the key separator are outside the exhaustive alphabet; a separate probe observes two pairs whose joined spellings coincide (open finding C18-separator-in-ids). Orderings of merge candidates that hinge on 'size ASC' (docs) vs 'size DESC' (module) are guarded out. Clamp ranges that exclude 0, alpha=inf and floor=NaN (formerly accepted, each broke WithinClamp) are rejected by the repaired validator; the check asserts the rejection and re-runs the reproducer if one is accepted again.",
}

D = 1 << 20
NAN_V, PINF, NINF = 3000000, 2000000, -2000000
LOW = ["a", "a10", "b"]          # sort before every "c::.." id
HIGH = ["d", "e", "é"]      # sort after
HALF_LIVES = [1, 3, 200]


# ------------------------------------------------------------------------------------------------
# concretisation
# ------------------------------------------------------------------------------------------------
def names(nn: int, nlow: int) -> Dict[int, str]:
    """rank -> real id; rank order = lexicographic order of the ids"""
    base = LOW[:nlow] + HIGH[:nn - nlow]
    out = {}
    for i in range(1, nn + 1):
        r = i if i <= nlow else i + nn
        out[r] = base[i - 1]
        out[nlow + i] = "c::" + base[i - 1]
    assert [out[r] for r in sorted(out)] == sorted(out.values()), out
    return out


def fl(x: int) -> float:
    if x == NAN_V:
        return float("nan")
    if x == PINF:
        return float("inf")
    if x == NINF:
        return float("-inf")
    return x / D


_VALID: Dict[str, Any] = {}


def graph_cfg(c: Dict[str, Any], enabled: bool, half_life: int):
    """abstract config -> the graph subtree as the real validator returns it (None = not accepted,
    i.e. outside the property's quantifier)"""
    mt = c["mt"]
    raw = {
        "enabled": bool(enabled),
        "coactivation_threshold": c["thr"] / D,
        "observe_top_k": c["topk"],
        "pair_cap_per_obs": c["cap"],
        "update": {"mode": c["mode"], "alpha": 1.0 / c["aden"], "clamp_min": c["lo"] / D, "clamp_max": c["hi"] / D},
        "decay": {"half_life_turns": half_life, "floor": c["floor"] / D},
        "merge": {"enabled": True, "min_size": mt["minsize"], "min_avg_w": mt["minw"] / D,
                  "max_diameter": mt["maxdiam"], "cap_per_turn": mt["mcap"]},
        "split": {"enabled": True, "weak_edge_thresh": mt["weak"] / D, "min_component_size": mt["mincomp"],
                  "cap_per_turn": mt["scap"]},
        "promotion": {"enabled": True, "label_mode": "lexmin", "topk_label_ids": 3, "attach_weight": mt["attach"] / D,
                      "cap_per_turn": mt["pcap"]},
    }
    key = json.dumps(raw, sort_keys=True)
    if key not in _VALID:
        from configs.validate import validate_config
        try:
            _VALID[key] = validate_config({"graph": copy.deepcopy(raw)})["graph"]
        except Exception:
            _VALID[key] = None
    v = _VALID[key]
    return copy.deepcopy(v) if v is not None else None


def merge_rec(m, nm) -> Dict[str, Any]:
    ids = [nm[r] for r in sorted(m["nodes"])]
    return {"nodes": ids, "size": m["size"], "avg_w": (m["sumw"] / D) / m["cnt"], "diameter": m["diam"],
            "signature": "|".join(ids)}


def split_rec(s, nm) -> Dict[str, Any]:
    orig = [nm[r] for r in sorted(s["original"])]
    parts = sorted([nm[r] for r in sorted(p)] for p in s["parts"])
    return {"original": orig, "parts": parts, "removed_edges": s["removed"], "orig_edges": s["orig"],
            "signature": "|".join(orig)}


def build_state(g, nm) -> Dict[str, Any]:
    edges = {}
    for e in sorted(g["edges"], key=lambda e: (e["s"], e["d"])):
        src, dst = nm[e["s"]], nm[e["d"]]
        key = f"{src}→{dst}"
        edges[key] = {"id": key, "src": src, "dst": dst, "weight": e["w"] / D, "rel": e["rel"], "updated_at": None,
                      "attrs": ({"coact": 0, "last_seen_turn": None} if e["rel"] == "coact" else {})}
    nodes = {nm[r]: {"id": nm[r], "label": nm[r][3:], "attrs": {"kind": "concept"}} for r in sorted(g["nodes"])}
    meta = {"schema": "v1", "merges": [merge_rec(m, nm) for m in g["merges"]],
            "splits": [split_rec(s, nm) for s in g["splits"]], "promotions": [],
            "concept_nodes_count": len(nodes)}
    return {"graph": {"nodes": nodes, "edges": edges, "meta": meta}}


def want_edges(g, nm) -> Dict[str, Tuple[str, str, str, float]]:
    return {f"{nm[e['s']]}→{nm[e['d']]}": (nm[e["s"]], nm[e["d"]], e["rel"], e["w"] / D) for e in g["edges"]}


def alpha_edges(state) -> Dict[str, Tuple[Any, Any, Any, Any]]:
    return {k: (r.get("src"), r.get("dst"), r.get("rel"), r.get("weight")) for k, r in state["graph"]["edges"].items()}


# ------------------------------------------------------------------------------------------------
# clauses evaluated directly on a real graph store
# ------------------------------------------------------------------------------------------------
def clamp_cause(w: float, lo: float, hi: float, op: str) -> str:
    if w != w:
        return "nan-weight"
    if op == "tick" and lo > 0 and 0 <= w < lo:
        return "tick-below-clamp-min"
    if op == "tick" and hi < 0 and hi < w <= 0:
        return "tick-above-clamp-max"
    return f"{op}-outside-clamp"


def within_clamp(edges: Dict[str, Any], lo: float, hi: float) -> List[Tuple[str, float]]:
    bad = []
    for k, r in edges.items():
        w = r.get("weight")
        if r.get("rel") == "concept":
            ok = isinstance(w, float) and -1.0 <= w <= 1.0
        else:
            ok = isinstance(w, float) and lo <= w <= hi
        if not ok:
            bad.append((k, w))
    return bad


def canonical_keys(edges: Dict[str, Any]) -> List[str]:
    """OneEdgePerUnorderedPair on the real store: key = 'src→dst', src <= dst, id = key, one record per pair"""
    out = []
    seen = {}
    for k, r in edges.items():
        s, d = r.get("src"), r.get("dst")
        if not (isinstance(s, str) and isinstance(d, str)):
            out.append(f"edge {k!r} has no string endpoints")
            continue
        if k != f"{s}→{d}" or r.get("id") != k:
            out.append(f"edge stored under {k!r} has src={s!r} dst={d!r} id={r.get('id')!r}")
        if not s <= d:
            out.append(f"edge {k!r}: src > dst")
        p = frozenset((s, d))
        if p in seen:
            out.append(f"two edges for the pair {sorted(p)}: {seen[p]!r} and {k!r}")
        seen[p] = k
    return out


# ------------------------------------------------------------------------------------------------
# S->C: one transition
# ------------------------------------------------------------------------------------------------
def _items(obs_items, nm, variant: int):
    """three shapes the adapter accepts"""
    out = []
    for i, it in enumerate(obs_items):
        idv, s = nm[it[0]], fl(it[1])
        v = (variant + i) % 3
        out.append((idv, s) if v == 0 else {"id": idv, "score": s} if v == 1 else {"episode_id": idv, "similarity": s, "score": s})
    return out


def replay_transition(case) -> List[Tuple[str, Dict[str, Any], str]]:
    """-> list of (clause, signature-extra, message); [] = conforms"""
    from clematis.engine import gel
    consts, t = case
    nm = names(consts["NN"], consts["NLow"])
    c, obs, on = t["cfg"], t["obs"], t["gate"]
    op = obs["op"]
    fails: List[Tuple[str, Dict[str, Any], str]] = []
    if op == "gate":
        return fails
    h = HALF_LIVES[(len(t["pre"]["edges"]) + c["topk"]) % 3]
    gcfg = graph_cfg(c, on, h)
    if gcfg is None:
        return [("__rejected__", {}, "config not accepted by the validator")]
    ctx = {"graph": gcfg}
    ctx0 = copy.deepcopy(ctx)
    lo, hi = c["lo"] / D, c["hi"] / D
    state = build_state(t["pre"], nm)
    pre_real = copy.deepcopy(state)
    pre_ok = not within_clamp(state["graph"]["edges"], lo, hi)

    def F(clause, msg, **sig):
        sig.setdefault("cause", "records-differ" if clause == "MaintenanceRecords" else "unspecified")
        fails.append((clause, dict(sig), msg))

    # ---- run the operation -----------------------------------------------------------------
    metrics = None
    promos_applied: List[Dict[str, Any]] = []
    if op == "observe":
        items = _items(obs["items"], nm, len(obs["items"]))
        metrics = gel.observe_retrieval(ctx, state, items, turn=7, agent="A")
    elif op == "tick":
        metrics = gel.tick(ctx, state, decay_dt=obs["n"] * h, turn=7, agent="A")
    elif op == "merge":
        cands = gel.merge_candidates(ctx, state)
        for m in cands[: int(gcfg["merge"]["cap_per_turn"])]:
            gel.apply_merge(ctx, state, m)
        if not on:
            gel.apply_merge(ctx, state, {"nodes": ["a", "b"], "size": 2, "avg_w": 0.5, "diameter": 1, "signature": "a|b"})
        elif len(cands) != obs["n"]:
            F("MaintenanceRecords", f"merge_candidates lists {len(cands)} clusters, spec says {obs['n']}")
    elif op == "split":
        cands = gel.split_candidates(ctx, state)
        for s in cands[: int(gcfg["split"]["cap_per_turn"])]:
            gel.apply_split(ctx, state, s)
        if not on:
            gel.apply_split(ctx, state, {"original": ["a", "b"], "parts": [["a"], ["b"]], "removed_edges": 1, "orig_edges": 1, "signature": "a|b"})
        elif len(cands) != obs["n"]:
            F("MaintenanceRecords", f"split_candidates lists {len(cands)} candidates, spec says {obs['n']}")
    elif op == "promote":
        clusters = gel.merge_candidates(ctx, state)
        promos = gel.promote_clusters(ctx, state, clusters)
        for p in promos[: int(gcfg["promotion"]["cap_per_turn"])]:
            gel.apply_promotion(ctx, state, p)
            promos_applied.append(p)
        if not on:
            gel.apply_promotion(ctx, state, {"concept_id": "c::a", "label": "a", "members": ["a", "b"], "attach_weight": 0.5})
    if ctx != ctx0:
        F("GateOffUntouched" if not on else "PostState", "the call mutated the configuration")

    # ---- gate closed: nothing may be touched -------------------------------------------------
    if not on:
        if state != pre_real:
            F("GateOffUntouched", f"{op} with graph.enabled=false changed the state: {_diff(pre_real, state)}", cause="state-touched")
        bare: Dict[str, Any] = {"version_etag": "0"}
        _call_gated(gel, ctx, bare, op, nm, obs)
        if bare != {"version_etag": "0"}:
            F("GateOffUntouched", f"{op} with graph.enabled=false attached {sorted(bare)} to a state without graph", cause="graph-created")
        return fails

    ge = state["graph"]["edges"]
    pe = pre_real["graph"]["edges"]
    # ---- clauses evaluated directly on the real result -------------------------------------------
    for msg in canonical_keys(ge):
        F("OneEdgePerUnorderedPair", f"after {op}: {msg}", cause="non-canonical-key")
    if op in ("observe", "tick") and pre_ok:
        bad = within_clamp(ge, lo, hi)
        if bad:
            k, w = bad[0]
            F("WithinClamp", f"after {op}: weight of {k!r} is {w!r}, outside [{lo}, {hi}] (pre-state inside)",
              cause=clamp_cause(w, lo, hi, op))
    if op == "tick":
        fac = Fraction(1, 2 ** obs["n"])
        floor = Fraction(c["floor"], D)
        for k, r in pe.items():
            w0 = Fraction(r["weight"])
            should_drop = abs(w0) * fac < floor
            if (k not in ge) != should_drop:
                F("TickDropsExactlyBelowFloor", f"edge {k!r} |w|={abs(w0)} * {fac} vs floor {floor}: dropped={k not in ge}",
                  cause="kept-below-floor" if should_drop else "dropped-above-floor")
            elif k in ge and abs(Fraction(ge[k]["weight"])) > abs(w0):
                F("TickNonIncreasing", f"edge {k!r}: |{r['weight']}| -> |{ge[k]['weight']}|", cause="magnitude-grew")
        if set(ge) - set(pe):
            F("TickNonIncreasing", f"tick created edges {sorted(set(ge) - set(pe))}", cause="edge-created")
    if op == "observe":
        cap = c["cap"]
        bumps = {k: int(r.get("attrs", {}).get("coact", 0)) - int(pe.get(k, {}).get("attrs", {}).get("coact", 0)) for k, r in ge.items()}
        touched = sorted(k for k in ge if k not in pe or ge[k]["weight"] != pe[k]["weight"] or bumps[k])
        nb = sum(bumps.values())
        if nb > cap or metrics["pairs_updated"] > cap or len(touched) > cap:
            F("ObserveAtMostPairCap", f"{nb} updates on {len(touched)} edges, pairs_updated={metrics['pairs_updated']}, cap {cap}", cause="cap-exceeded")
        if set(pe) - set(ge):
            F("ObserveAtMostPairCap", f"observe removed edges {sorted(set(pe) - set(ge))}", cause="edge-removed")
        want_keys = [f"{nm[k[0]]}→{nm[k[1]]}" for k in obs["keys"]]
        want_b = {k: want_keys.count(k) for k in set(want_keys)}
        got_b = {k: v for k, v in bumps.items() if v}
        if got_b != want_b or metrics["pairs_updated"] != len(want_keys) or metrics["k_used"] != len(obs["used"]) or metrics["k_in"] != len(obs["items"]):
            F("ObserveOnlyTopKAboveThreshold",
              f"items {obs['items']} thr={c['thr'] / D} top_k={c['topk']} cap={cap}: updated {got_b} k_used={metrics['k_used']} "
              f"pairs_updated={metrics['pairs_updated']}, spec: used {[nm[i] for i in obs['used']]}, pairs {want_keys}", cause="selection-differs")
        # all listings of the same bag
        n = len(obs["items"])
        perms = itertools.permutations(range(n)) if n <= 4 else [tuple(reversed(range(n)))]
        base_items = _items(obs["items"], nm, n)
        for p in perms:
            if list(p) == list(range(n)):
                continue
            st2 = copy.deepcopy(pre_real)
            m2 = gel.observe_retrieval(ctx, st2, [base_items[i] for i in p], turn=7, agent="A")
            if st2 != state or m2 != metrics:
                F("ObserveOrderInsensitive", f"listing {[base_items[i] for i in p]} gives {_diff(state, st2)} vs listing {base_items}", cause="listing-order")
                break
    if op in ("merge", "split", "promote"):
        gm, pm = state["graph"]["meta"], pre_real["graph"]["meta"]
        if op != "promote" and (ge != pe or state["graph"]["nodes"] != pre_real["graph"]["nodes"]):
            F("MaintenanceOnlyAnnotatesOrAttaches", f"{op} pass changed nodes/edges: {_diff(pre_real, state)}", cause="edges-changed")
        for lst, own in (("merges", "merge"), ("splits", "split")):
            if gm[lst][: len(pm[lst])] != pm[lst] or (op != own and len(gm[lst]) != len(pm[lst])):
                F("MaintenanceOnlyAnnotatesOrAttaches", f"{op} pass rewrote meta.{lst}", cause="meta-rewritten")
        if op == "promote":
            conc = set(state["graph"]["nodes"])
            for k in ge:
                if k in pe and ge[k] == pe[k]:
                    continue
                r = ge[k]
                if r.get("rel") != "concept" or not ({r.get("src"), r.get("dst")} & conc):
                    F("MaintenanceOnlyAnnotatesOrAttaches", f"promotion touched edge {k!r} -> {r}", cause="non-concept-edge")
            if set(pe) - set(ge) or set(pre_real["graph"]["nodes"]) - conc:
                F("MaintenanceOnlyAnnotatesOrAttaches", "promotion removed nodes/edges", cause="removed")
            for nid in conc - set(pre_real["graph"]["nodes"]):
                if not nid.startswith("c::") or state["graph"]["nodes"][nid].get("attrs", {}).get("kind") != "concept":
                    F("MaintenanceOnlyAnnotatesOrAttaches", f"promotion created non-concept node {nid!r}", cause="non-concept-node")
            # idempotence of every applied promotion
            after = copy.deepcopy(state)
            for p in promos_applied:
                gel.apply_promotion(ctx, state, p)
                if state != after:
                    F("PromotionIdempotent", f"second apply_promotion({p}) changed the state: {_diff(after, state)}", cause="second-apply-differs")
                    state = copy.deepcopy(after)
            want_p = [(nm[p["cid"]], sorted(nm[m] for m in p["members"]), p["w"] / D) for p in obs["promos"]]
            got_p = [(p["concept_id"], sorted(p["members"]), p["attach_weight"]) for p in promos_applied]
            if want_p != got_p:
                F("MaintenanceRecords", f"promotions applied {got_p}, spec says {want_p}")

    # ---- projection equality with the spec --------------------------------------------------------
    got_e, exp_e = alpha_edges(state), want_edges(t["post"], nm)
    if got_e != exp_e and not any(f[0] in ("ObserveOnlyTopKAboveThreshold",) for f in fails):
        if set(got_e) != set(exp_e):
            clause = {"tick": "TickDropsExactlyBelowFloor", "observe": "ObserveOnlyTopKAboveThreshold"}.get(op, "MaintenanceOnlyAnnotatesOrAttaches")
        else:
            clause = {"tick": "TickDecayRule", "observe": "ObserveUpdateRule"}.get(op, "MaintenanceOnlyAnnotatesOrAttaches")
        F(clause, f"after {op}: edges {_ediff(got_e, exp_e)} (got vs spec)", cause="post-state-differs")
    got_n = set(state["graph"]["nodes"])
    exp_n = {nm[r] for r in t["post"]["nodes"]}
    if got_n != exp_n:
        F("MaintenanceOnlyAnnotatesOrAttaches", f"after {op}: nodes {sorted(got_n)}, spec says {sorted(exp_n)}", cause="nodes-differ")
    meta = state["graph"]["meta"]
    exp_m = [merge_rec(m, nm) for m in t["post"]["merges"]]
    exp_s = [split_rec(s, nm) for s in t["post"]["splits"]]
    got_s = [dict(s, parts=sorted(s["parts"])) for s in meta["splits"]]
    if op == "merge" and obs.get("amb"):
        pass                                  # ordering hinges on size ASC/DESC (docs vs module): guarded out by the caller
    elif meta["merges"] != exp_m:
        F("MaintenanceRecords", f"after {op}: meta.merges {meta['merges']}, spec says {exp_m}")
    if got_s != exp_s:
        F("MaintenanceRecords", f"after {op}: meta.splits {got_s}, spec says {exp_s}")
    if meta.get("promotions") != [] or meta.get("concept_nodes_count") != len(exp_n):
        F("MaintenanceRecords", f"after {op}: promotions={meta.get('promotions')} concept_nodes_count={meta.get('concept_nodes_count')} (spec {len(exp_n)})")
    return fails


def _call_gated(gel, ctx, state, op, nm, obs):
    if op == "observe":
        gel.observe_retrieval(ctx, state, _items(obs["items"], nm, 0) or [("a", 1.0), ("b", 1.0)], turn=1, agent="A")
    elif op == "tick":
        gel.tick(ctx, state, decay_dt=1, turn=1, agent="A")
    elif op == "merge":
        gel.merge_candidates(ctx, state)
        gel.apply_merge(ctx, state, {"nodes": ["a", "b"], "size": 2})
    elif op == "split":
        gel.split_candidates(ctx, state)
        gel.apply_split(ctx, state, {"original": ["a", "b"], "parts": [["a"], ["b"]]})
    elif op == "promote":
        gel.promote_clusters(ctx, state, [{"nodes": ["a", "b"]}])
        gel.apply_promotion(ctx, state, {"concept_id": "c::a", "label": "a", "members": ["a", "b"], "attach_weight": 0.5})


def _ediff(got, exp) -> str:
    ks = sorted(k for k in set(got) | set(exp) if got.get(k) != exp.get(k))
    return "; ".join(f"{k}: {got.get(k)} vs {exp.get(k)}" for k in ks[:4])


def _diff(a, b) -> str:
    ga, gb = a.get("graph", {}), b.get("graph", {})
    out = []
    for part in ("edges", "nodes", "meta"):
        xa, xb = ga.get(part, {}), gb.get(part, {})
        for k in sorted(set(xa) | set(xb), key=str):
            if xa.get(k) != xb.get(k):
                out.append(f"{part}[{k!r}]: {xa.get(k)!r} -> {xb.get(k)!r}")
    return "; ".join(out[:4]) or "(other keys differ)"


# ------------------------------------------------------------------------------------------------
# families of TLC runs
# ------------------------------------------------------------------------------------------------
INVS = ["WithinClamp", "OneEdgePerUnorderedPair", "PromotionIdempotent"]
PROPS = ["TickNonIncreasing", "TickDropsExactlyBelowFloor", "ObserveAtMostPairCap", "ObserveOnlyTopKAboveThreshold",
         "ObserveOrderInsensitive", "MaintenanceOnlyAnnotatesOrAttaches", "GateOffUntouched"]


def tla_set(xs) -> str:
    return "{" + ", ".join(xs) + "}"


def tla_int(x: int) -> str:
    return f"(0 - {-x})" if x < 0 else str(x)


def clamp_def(cl) -> Def:
    return Def(tla_set(f"<<{tla_int(lo)}, {tla_int(hi)}>>" for lo, hi in cl))


def maint(minw, minsize, maxdiam, mcap, weak, mincomp, scap, attach, pcap) -> str:
    return (f"[minw |-> {minw}, minsize |-> {minsize}, maxdiam |-> {maxdiam}, mcap |-> {mcap}, weak |-> {weak}, "
            f"mincomp |-> {mincomp}, scap |-> {scap}, attach |-> {attach}, pcap |-> {pcap}]")


M1 = maint(D // 2, 2, 2, 1, D // 2, 2, 4, D // 2, 2)
M2 = maint(D // 4, 3, 1, 4, D // 8, 2, 1, 3 * D // 4, 1)


def graph_def(edges: Dict[Tuple[int, int], int]) -> str:
    if not edges:
        return "<<>>"
    return " @@ ".join(f'(<<{a}, {b}>> :> [w |-> {tla_int(w)}, rel |-> "coact"])' for (a, b), w in sorted(edges.items()))


def seq_def(xs) -> Def:
    return Def("<<" + ", ".join(tla_int(x) for x in xs) + ">>")


# validator-accepted clamp ranges (clamp_min <= 0 <= clamp_max), incl. the two one-sided ones
CLAMPS_0 = [(-D, D), (-D // 2, D // 2)]
CLAMPS_1 = [(0, 3 * D // 4), (-3 * D // 4, 0)]


def base_consts(**over) -> Dict[str, Any]:
    c = {"NN": 3, "NLow": 2, "D": D, "Modes": ["additive", "proportional"], "AlphaDens": [8, 2],
         "Clamps": clamp_def(CLAMPS_0), "Floors": [0, D // 8], "Thresholds": [0], "TopKs": [3], "PairCaps": [2],
         "Maints": Def(tla_set([M1])), "InitGraphs": Def(tla_set(["<<>>"])), "InitGates": [True], "ItemIds": seq_def([1, 2, 6]),
         "Scores": seq_def([D]), "MaxItems": 3, "Dts": [0, 1],
         "Ops": ["observe", "tick", "merge", "split", "promote", "gate"], "MaxDepth": 3,
         "CheckPerms": False}
    c.update(over)
    return c


def _jsonable(consts):
    return {k: (str(v) if isinstance(v, Def) else v) for k, v in consts.items()}


def tlc_retry(run, module, cfg, **kw):
    """TLC occasionally trips over its own record normalisation when several workers share a value
    ("nonexistent field" RuntimeException); such a crash says nothing about the model: retry single-threaded"""
    from ..tlc import TLCError
    try:
        return run.tlc(module, cfg, **kw)
    except TLCError as e:
        if "nonexistent field" not in str(e) and "unexpected exception" not in str(e):
            raise
        run.notes.append(f"TLC run {kw.get('name')} crashed inside TLC (worker race); repeated with one worker")
        return run.tlc(module, cfg, **dict(kw, workers=1))


def _nv(nv, key, cond) -> None:
    nv[key] = nv.get(key, 0) + (1 if cond else 0)


def run_family(run, name: str, consts: Dict[str, Any], workers=1, timeout=900) -> None:
    cfg = make_cfg(consts, INVS, PROPS, spec="SpecD")
    res = tlc_retry(run, "Gel", cfg, name=name, workers=workers, timeout_s=timeout, defs=split_defs(consts), coverage=False)
    run.model_must_hold(res)
    for cl in INVS + PROPS:
        if cl != "ObserveOrderInsensitive" or consts["CheckPerms"]:
            run.ok("model." + cl)
    jc = _jsonable(consts)
    small = {"NN": consts["NN"], "NLow": consts["NLow"]}
    cases = [(small, t) for t in res.emitted if t["obs"]["op"] != "gate"]
    outs = pmap(replay_transition, cases)
    ops = {}
    for (c, t), fails in zip(cases, outs):
        op = t["obs"]["op"]
        if fails and fails[0][0] == "__rejected__":
            run.guarded_out += 1
            continue
        if op == "merge" and t["obs"].get("amb"):
            run.guarded_out += 1
        run.traces += 1
        run.case((name, json.dumps(t, sort_keys=True)))
        ops[op] = ops.get(op, 0) + 1
        if not fails:
            run.ok(f"Gel.{op}.conforms" if t["gate"] else f"Gel.{op}.gate_off_untouched")
        for clause, sig, msg in fails:
            run.fail(clause, dict(sig, clause=clause), {"family": name, "transition": t}, f"{name}: {msg}",
                     replay={"family": "transition", "constants": c, "transition": t})
    run.extra.setdefault("replayed_ops", {})[name] = ops
    nv = run.extra.setdefault("nonvacuity", {})
    for _c, t in cases:
        o, c = t["obs"], t["cfg"]
        if not t["gate"]:
            continue
        if o["op"] == "observe":
            n_act = len(o["used"])
            _nv(nv, "observe.updates_edges", bool(o["keys"]))
            _nv(nv, "observe.below_threshold_or_nan_excluded", n_act < len(o["items"]) and n_act < c["topk"])
            _nv(nv, "observe.top_k_truncates", n_act == c["topk"] < len(o["items"]))
            _nv(nv, "observe.pair_cap_truncates", len(o["keys"]) == c["cap"] < n_act * (n_act - 1) // 2)
            _nv(nv, "observe.same_key_twice", len({tuple(k) for k in o["keys"]}) < len(o["keys"]))
            _nv(nv, "observe.self_pair", any(k[0] == k[1] for k in o["keys"]))
            _nv(nv, "observe.clamp_saturates", any(e["w"] in (c["hi"], c["lo"]) for e in t["post"]["edges"]) and bool(o["keys"]))
        elif o["op"] == "tick":
            _nv(nv, "tick.drops", bool(o["dropped"]))
            _nv(nv, "tick.decays_and_keeps", o["n"] > 0 and bool(t["post"]["edges"]))
        elif o["op"] == "merge":
            _nv(nv, "merge.appends", len(t["post"]["merges"]) > len(t["pre"]["merges"]))
            _nv(nv, "merge.cap_truncates", o["n"] > c["mt"]["mcap"])
        elif o["op"] == "split":
            _nv(nv, "split.appends", len(t["post"]["splits"]) > len(t["pre"]["splits"]))
        elif o["op"] == "promote":
            _nv(nv, "promote.attaches", bool(o["promos"]))
            _nv(nv, "promote.again_on_promoted_graph", bool(o["promos"]) and bool(t["pre"]["nodes"]))
    if cases:
        pick = [x for x in cases if x[1]["obs"]["op"] == "observe" and len(x[1]["post"]["edges"]) >= 2] or cases
        run.sample({"family": name, "constants": jc, "transition": pick[len(pick) // 2][1]}, cap=8)


# settings the validator used to accept and under which the real code left the clamp range (fixed at the
# validator: "clamp range must contain 0", "non-finite numbers rejected"); each must now be REJECTED — if one
# is accepted again the reproducer is run on the real code and a violation reported under its old signature
FORMER = [
    ("tick-below-clamp-min", {"update": {"mode": "additive", "alpha": 0.5, "clamp_min": 0.4, "clamp_max": 0.8},
                              "decay": {"half_life_turns": 1, "floor": 0.0}}),
    ("nan-weight", {"update": {"mode": "proportional", "alpha": float("inf"), "clamp_min": -1.0, "clamp_max": 1.0}}),
    ("tick-above-clamp-max", {"update": {"mode": "additive", "alpha": 0.07, "clamp_min": -0.8, "clamp_max": -0.4},
                              "decay": {"half_life_turns": 1, "floor": float("nan")}}),
]


def formerly_accepted(run) -> None:
    from configs.validate import validate_config
    from clematis.engine import gel
    for cause, sub in FORMER:
        raw = dict(copy.deepcopy(sub), enabled=True, coactivation_threshold=0.2)
        run.traces += 1
        run.case(("former", cause))
        try:
            g = validate_config({"graph": copy.deepcopy(raw)})["graph"]
        except Exception:
            run.ok("Validator.rejects." + cause)
            continue
        ctx, st = {"graph": g}, {}
        seen: List[float] = []
        for step in ("observe", "tick", "observe", "observe", "tick", "tick"):
            if step == "observe":
                gel.observe_retrieval(ctx, st, [("a", 1.0), ("b", 1.0)], turn=1)
            else:
                gel.tick(ctx, st, decay_dt=1, turn=2)
            seen += [r["weight"] for r in st["graph"]["edges"].values()]
        lo, hi = float(g["update"]["clamp_min"]), float(g["update"]["clamp_max"])
        bad = [w for w in seen if not (lo <= w <= hi)]
        if bad:
            run.fail("WithinClamp", {"clause": "WithinClamp", "cause": cause}, {"graph": repr(raw), "weights": repr(seen)},
                     f"validate_config accepts {raw} again and observe,tick,observe,observe,tick,tick gives weights {seen} outside [{lo}, {hi}]",
                     replay={"family": "former", "cause": cause})
        else:
            run.notes.append(f"validate_config accepts {raw} again (no clamp violation reproduced)")


def separator_in_ids(run) -> None:
    """ids that contain the key separator: two different unordered pairs must still be two edges (the model's keys are
    pairs; the real keys are strings joined with the separator)"""
    from configs.validate import validate_config
    from clematis.engine import gel
    g = validate_config({"graph": {"enabled": True, "coactivation_threshold": 0.0, "update": {"mode": "additive", "alpha": 0.125}}})["graph"]
    for (p1, p2) in ((("a→b", "c"), ("a", "b→c")), (("x→", "y"), ("x", "→y"))):
        ctx, st = {"graph": g}, {}
        gel.observe_retrieval(ctx, st, [(p1[0], 0.9), (p1[1], 0.8)], turn=1)
        gel.observe_retrieval(ctx, st, [(p2[0], 0.9), (p2[1], 0.8)], turn=2)
        edges = st["graph"]["edges"]
        run.traces += 1
        run.case(("separator_in_ids", json.dumps([p1, p2], ensure_ascii=False)))
        pairs = {tuple(sorted((r["src"], r["dst"]))) for r in edges.values()}
        if len(edges) != 2 or pairs != {tuple(sorted(p1)), tuple(sorted(p2))}:
            run.fail("OneEdgePerUnorderedPair", {"clause": "OneEdgePerUnorderedPair", "cause": "separator-in-id"},
                     {"pairs": [list(p1), list(p2)], "edges": {k: [r["src"], r["dst"], r.get("attrs", {}).get("coact")] for k, r in edges.items()}},
                     f"observing the pair {p1} and then the pair {p2} leaves {len(edges)} edge(s): "
                     f"{ {k: (r['src'], r['dst'], r.get('attrs', {}).get('coact')) for k, r in edges.items()} }",
                     replay={"family": "separator_in_ids"})
        else:
            run.ok("OneEdgePerUnorderedPair.separator_in_ids")


def check(run) -> None:
    q = run.quick
    run.rule = ("every transition (config, gate, pre-graph, operation, post-graph) of the bounded-depth exhaustive Gel state graphs "
                "replayed on the real gel functions, Observe under all permutations of the item list; distinct = distinct "
                "(family, transition); plus random long float histories and real orchestrator turns validated by TLC (GelTrace)")
    chain4 = graph_def({(1, 2): D // 2, (2, 7): D // 4, (7, 8): D // 2})
    tri3 = graph_def({(1, 2): D // 2, (2, 6): D // 2, (1, 1): D // 4})
    # ---- A: selection (threshold, order, top-k, pair cap, ties, duplicates, NaN / inf), depth 1 ----
    sel = base_consts(NN=4, Modes=["additive"], AlphaDens=[8], Clamps=clamp_def([(-D, D)]), Floors=[0],
                      Thresholds=[0, D // 2], TopKs=[1, 2, 3], PairCaps=[0, 2, 64] if q else [0, 1, 2, 64], ItemIds=seq_def([1, 2, 7, 8]),
                      Scores=seq_def([0, D // 2, D, NAN_V] if q else [NINF, 0, D // 2, D, PINF, NAN_V]),
                      MaxItems=3, Ops=["observe"], MaxDepth=1, CheckPerms=True)
    run_family(run, "select3", sel)
    sel4 = dict(sel, Scores=seq_def([D // 2, D] if q else [D // 2, D, NAN_V]), ItemIds=seq_def([1, 2, 7] if q else [1, 2, 7, 8]),
                MaxItems=4, TopKs=[2, 3] if q else [2, 3, 4], PairCaps=[2, 64] if q else [1, 2, 5, 64], CheckPerms=not q)
    run_family(run, "select4", sel4)
    # ---- B: dynamics (mode, alpha, clamp, floor) x histories --------------------------------------
    dyn = base_consts(MaxDepth=2 if q else 3, InitGraphs=Def(tla_set(["<<>>", tri3])))
    run_family(run, "dyn0", dyn)
    if q:       # one more operation of history on a narrower configuration alphabet
        run_family(run, "dyn3", dict(dyn, AlphaDens=[2], Clamps=clamp_def([(-D // 2, D // 2)]), Floors=[D // 8], MaxDepth=3))
    # one-sided ranges [0, 3/4] and [-3/4, 0]: saturation at 0, floor must be <= clamp_max
    dyn1 = dict(dyn, Clamps=clamp_def(CLAMPS_1), AlphaDens=[2] if q else [8, 2])
    run_family(run, "dyn1", dyn1)
    # ---- C: maintenance on 4 base ids (split needs two parts of >= 2 nodes) ------------------------
    mt = base_consts(NN=4, Modes=["additive"], AlphaDens=[2], Clamps=clamp_def([(-D, D)] if q else CLAMPS_0 + CLAMPS_1[:1]),
                     Floors=[D // 8], PairCaps=[64], Maints=Def(tla_set([M1] if q else [M1, M2])),
                     InitGraphs=Def(tla_set(["<<>>", chain4])), ItemIds=seq_def([2, 7] if q else [1, 2, 7]), MaxItems=2,
                     Dts=[1], MaxDepth=2 if q else 3)
    run_family(run, "maint4", mt)
    # an attachment weight outside the clamp range (both accepted by the validator: attach_weight in [-1, 1])
    M3 = maint(D // 4, 2, 2, 1, D // 8, 2, 4, D, 2)
    run_family(run, "maint_clamp", dict(mt, Clamps=clamp_def([(-D // 2, D // 2)] if q else [(-D // 2, D // 2), (0, 3 * D // 4)]),
                                        Maints=Def(tla_set([M3])), MaxDepth=2))
    if not q:
        deep = base_consts(Modes=["proportional"], AlphaDens=[2], Clamps=clamp_def(CLAMPS_0 + CLAMPS_1[:1]), Floors=[D // 8],
                           PairCaps=[1, 64], ItemIds=seq_def([1, 2]), MaxItems=2, Dts=[1, 2],
                           Ops=["observe", "tick", "promote"], MaxDepth=5)
        run_family(run, "deep5", deep)
    formerly_accepted(run)
    separator_in_ids(run)
    run.exhaustive = True
    run.constants = {"D": D, "half_lives": HALF_LIVES, "names_4_2": names(4, 2)}
    from . import c18_traces, c18_turn
    c18_traces.check(run)
    c18_turn.check(run)
    run.assumptions += [
        "small scope for the exhaustive part: <= 4 base ids, bags <= 4 items, histories <= 5 operations, 2^-20 grid",
        "the exhaustive id alphabet has no id with the key separator '→'; the probe separator_in_ids covers that case (open finding)",
        "a transition whose exact result leaves the grid is not generated (double arithmetic stays exact on every replayed case)",
        "WithinClamp binds every edge weight, concept attachment edges included, to [clamp_min, clamp_max]",
        "configurations are passed through the real validate_config; a rejected configuration is outside the quantifier (guarded out)",
        "config alphabets contain validator-accepted settings only (clamp_min <= 0 <= clamp_max, finite scalars); the three settings that used to be accepted and broke WithinClamp are asserted to be rejected",
    ]


def replay(rep) -> int:
    r = rep["replay"]
    fam = r["family"]
    if fam == "transition":
        fails = [(c, m) for c, _s, m in replay_transition((r["constants"], r["transition"]))]
    elif fam == "former":
        from types import SimpleNamespace
        box = SimpleNamespace(traces=0, notes=[], case=lambda k: None, ok=lambda c: None, out=[])
        box.fail = lambda clause, sig, wit, msg, replay=None: box.out.append((clause, msg))
        formerly_accepted(box)
        fails = [f for f in box.out]
    elif fam == "separator_in_ids":
        from types import SimpleNamespace
        box = SimpleNamespace(traces=0, notes=[], case=lambda k: None, ok=lambda c: None, out=[])
        box.fail = lambda clause, sig, wit, msg, replay=None: box.out.append((clause, msg))
        separator_in_ids(box)
        fails = [f for f in box.out]
    elif fam.startswith("trace"):
        from . import c18_traces
        fails = c18_traces.replay(r)
    else:
        from . import c18_turn
        fails = c18_turn.replay(r)
    for clause, msg in fails:
        print(f"{clause}: {msg}")
    if fails:
        print(f"VIOLATION property=C18 replay={rep.get('_path', '?')}")
        return 1
    print("replay: conforms")
    return 0
