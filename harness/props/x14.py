"""X14 (extra, beyond the listed properties) — the T3 plan bundle (clematis.engine.stages.t3.bundle).

(M)    Bundle.tla enumerates T1 results (list / mapping shape; entries with id / node / src keys, deltas with ties of |delta|,
       labels; junk, id-less, empty-id and delta-None entries), T2 results (hits as dicts / objects, _score / score / no score,
       ties, id-less records, payload variants, metrics variants), the context (cfg as dict / object / absent, tokens, ops,
       k_retrieval incl. absent / 0 / negative, slice budgets, hot labels, text) and the keys dropped before validate_bundle,
       computes the bundle and checks the documented properties as invariants (sorted lists, truncation to caps, the cut keeps
       the top, nothing invented, listing order irrelevant, garbage ignored, validate accepts what was assembled, caps from cfg).
(S->C)  every enumerated case is built as real python objects and passed to the real helpers (extract_t1_touched_nodes with the
       case's cap, extract_labels_from_t1, extract_t2_retrieved, extract_t2_metrics, cfg_caps, cfg_snapshot, world_hot_labels),
       to assemble_bundle and both make_plan_bundle facades (whole bundle compared), and to validate_bundle; the call is repeated
       (determinism) and the inputs are compared with a deep copy taken before (untouched).
       Random family (run.seed): large results (more nodes than the cap of 32, more hits than k / than the default 64) against the
       same oracle written in python; the python oracle is itself compared with TLC's result on every enumerated case.
"""
from __future__ import annotations

import copy
import json
from types import SimpleNamespace as NS
from typing import Any, Dict, List, Tuple

from ..util import Def, make_cfg, pmap, rng, split_defs

MANIFEST = {"technique": "TLA+ specification of the T3 plan-bundle assembly enumerated by TLC; every case replayed on the real extractors, "
                         "assemble_bundle / make_plan_bundle and validate_bundle; random large results against the same oracle in python",
            "text": "extra spec beyond the listed properties", "note": "not a listed property; run with ./check X14"}

CLAUSES = ["NodesSortedById", "HitsSortedByScoreThenId", "TruncatedToCaps", "CutKeepsTheTop", "OnlyInputsAppear", "LabelsSortedDistinct",
           "ListingIrrelevant", "GarbageIgnored", "ValidateAcceptsAssembled", "CapsFromConfig", "RaisesOnlyOnNoneDelta"]

REQUIRED = ["version", "now", "agent", "world", "t1", "t2", "text", "cfg"]
ALLKEYS = REQUIRED + ["slice_caps"]
NOW = "2025-01-01T00:00:00+00:00"
ZERO_T1M = {"pops": 0, "iters": 0, "propagations": 0, "radius_cap_hits": 0, "layer_cap_hits": 0, "node_budget_hits": 0}


# integers -> strings whose lexicographic order is the integer order
def _name(small: List[str], big: str, i: int) -> str:
    return small[i - 1] if i <= len(small) else f"{big}{i:04d}"


def nid(i: int) -> str:
    return _name(["n1", "n10", "n2", "n3"], "p", i)


def hid(i: int) -> str:
    return "None" if i == 0 else _name(["e1", "e10", "e2", "e3"], "f", i)


def lab(i: int) -> str:
    return _name(["L1", "L10", "L2"], "M", i)


def hot(i: int) -> str:
    return _name(["h1", "h10", "h2"], "j", i)


def _seq(x) -> list:
    return list(x) if x else []


# ---------------------------------------------------------------------------------------------- the oracle in python (= Result of Bundle.tla)
PV_OUT = {0: ("any", "", "", [], ""), 1: ("A", "2025Q3", "hello", [], ""), 2: ("any", "", "", ["x", "speaker:bob"], "bob"),
          3: ("any", "", "", ["speaker:", "speaker:bob"], ""), 4: ("B", "", "", ["speaker:bob"], "amy"), 5: ("any", "", "", [], "")}


def py_result(i: Dict[str, Any]) -> Dict[str, Any]:
    es, hs, c = _seq(i["t1"]["es"]), _seq(i["t2"]["hs"]), i["ctx"]
    shape = i["t1"]["shape"]
    err = shape == "list" and any(e["k"] == "dnone" for e in es)

    def touched(cap):
        items = [{"id": e["id"], "lab": e["lab"], "d": e["d"]} for e in es if e["k"] in ("id", "node", "src")]
        items = sorted(items, key=lambda x: (-abs(x["d"]), x["id"]))[:max(cap, 0)]
        return sorted(items, key=lambda x: x["id"])
    labels = sorted({e["lab"] for e in es if e["k"] != "junk" and e["lab"] != 0}) if shape == "list" else []
    k = 64 if c["k"] == 99 else c["k"]
    hits = [{"id": h["id"], "s": h["s"], "p": dict(zip(("owner", "quarter", "text", "tags", "speaker"), PV_OUT[h["pv"]]))}
            for h in hs if h["k"] != "onoid"]
    hits = sorted(hits, key=lambda x: (-x["s"], x["id"]))[:max(k, 0)]
    mv = i["t2"]["mv"]
    t2m = {"none": {"kret": len(hs), "sim": [True, 0, 0], "tier": [False, []], "cache": False},
           "empty": {"kret": len(hs), "sim": [False, 0, 0], "tier": [False, []], "cache": False},
           "full": {"kret": 5, "sim": [True, 2, 7], "tier": [True, ["exact_semantic", "archive"]], "cache": True},
           "junk": {"kret": 0, "sim": [False, 0, 0], "tier": [False, []], "cache": False}}[mv]
    kept = {ALLKEYS[p - 1] for p in range(1, len(ALLKEYS) + 1) if p not in set(_seq(i["drop"]))}
    return {"err": err, "nodes": [] if err else touched(i["t1"]["cap"]), "nodes32": [] if err else touched(32), "labels": labels,
            "hits": hits, "t2m": t2m, "caps": {"tokens": c["tok"] or 256, "ops": c["ops"] or 3}, "k": k, "slice": c["slice"],
            "hot": sorted(set(_seq(c["hot"]))) if c["st"] == "dict" else [], "txt": c["txt"],
            "errs": [] if err else [r for r in REQUIRED if r not in kept]}


def _norm_out(o: Dict[str, Any]) -> Dict[str, Any]:
    """TLC's JSON -> the shape of py_result (empty sequences, nested tuples)."""
    o = dict(o)
    for f in ("nodes", "nodes32", "labels", "hits", "hot", "errs"):
        o[f] = _seq(o.get(f))
    o["hits"] = [dict(h, p=dict(h["p"], tags=_seq(h["p"].get("tags")))) for h in o["hits"]]
    t = dict(o["t2m"])
    t["sim"] = list(t["sim"])
    t["tier"] = [t["tier"][0], _seq(t["tier"][1])]
    o["t2m"] = t
    return o


# ---------------------------------------------------------------------------------------------- building the real inputs
PAYLOAD = {0: {}, 1: {"owner": "A", "quarter": "2025Q3", "text": "hello"}, 2: {"tags": ["x", "speaker:bob"]},
           3: {"tags": ["speaker:", "speaker:bob"]}, 4: {"owner": "B", "speaker": "amy", "tags": ["speaker:bob"]},
           5: {"tags": ("speaker:bob",), "text": ""}}


def _label(key: str, l: int) -> Dict[str, Any]:
    return {key: lab(l)} if l else {}


def build_t1(t1: Dict[str, Any], attr: str):
    es = _seq(t1["es"])
    if t1["shape"] == "map":
        cands: Any = {}
        for e in es:
            if e["k"] == "id":
                cands[nid(e["id"])] = e["d"] / 8.0
            elif e["k"] == "node":
                cands[nid(e["id"])] = {"weight": e["d"] / 8.0, **_label("label", e["lab"])}
            else:
                cands[nid(e["id"])] = "n/a"
    else:
        cands = []
        for e in es:
            k = e["k"]
            if k == "id":
                cands.append({"op": "upsert_node", "id": nid(e["id"]), "delta": e["d"] / 8.0, **_label("label", e["lab"])})
            elif k == "node":
                cands.append({"node": nid(e["id"]), "weight": e["d"] / 8.0, **_label("name", e["lab"])})
            elif k == "src":
                cands.append({"src": nid(e["id"]), **_label("label", e["lab"])})
            elif k == "junk":
                cands.append("junk")
            elif k == "noid":
                cands.append({"delta": 5.0, **_label("label", e["lab"])})
            elif k == "emptyid":
                cands.append({"id": "", "delta": 5.0, **_label("label", e["lab"])})
            elif k == "dnone":
                cands.append({"id": nid(e["id"]), "delta": None, **_label("label", e["lab"])})
            else:
                raise ValueError(k)
    if attr == "graph_deltas":
        return NS(graph_deltas=cands, metrics=None)
    return NS(graph_deltas=None, deltas=cands, metrics=None)


def build_t2(t2: Dict[str, Any]):
    recs: List[Any] = []
    for h in _seq(t2["hs"]):
        k, pl = h["k"], copy.deepcopy(PAYLOAD[h["pv"]])
        if k == "dict":
            recs.append({"id": hid(h["id"]), "score": h["s"] / 8.0, **pl})
        elif k == "uscore":
            recs.append({"id": hid(h["id"]), "_score": h["s"] / 8.0, "score": 7.0, **pl})
        elif k == "obj":
            recs.append(NS(id=hid(h["id"]), score=h["s"] / 8.0, **pl))
        elif k == "noscore":
            recs.append({"id": hid(h["id"]), **pl})
        elif k == "dnoid":
            recs.append({"score": h["s"] / 8.0, **pl})
        elif k == "onoid":
            recs.append(NS(score=0.5))
        else:
            raise ValueError(k)
    metrics = {"none": None, "empty": {},
               "full": {"tier_sequence": ["exact_semantic", "archive"], "sim_stats": {"mean": 0.25, "max": 0.875}, "k_returned": 5, "cache_used": True},
               "junk": {"tier_sequence": "exact_semantic", "sim_stats": 3, "k_returned": "many"}}[t2["mv"]]
    return NS(retrieved=recs, metrics=metrics)


class Ctx:
    pass


def build_ctx(c: Dict[str, Any]):
    ctx = Ctx()
    ctx.now = NOW
    ctx.agent_id = "agentA"
    ctx.agent = {"style_prefix": "calm"}
    t3 = {**({"tokens": c["tok"]} if c["tok"] else {}), **({"max_ops_per_turn": c["ops"]} if c["ops"] else {})}
    t2 = {"k_retrieval": c["k"]} if c["k"] != 99 else {}
    if c["cfgk"] == "dict":
        ctx.cfg = {"t3": t3, "t2": t2}
    elif c["cfgk"] == "attr":
        ctx.cfg = NS(t3=t3, t2=t2 or None)
    if c["slice"]:
        ctx.slice_budgets = {"t3_ops": c["slice"]}
    if c["txt"] == "input":
        ctx.input_text, ctx.text = "hi there", "other"
    elif c["txt"] == "text":
        ctx.input_text, ctx.text = "", "fallback"
    state: Any = {"world_hot_labels": [hot(x) for x in _seq(c["hot"])]} if c["st"] == "dict" else ({} if c["st"] == "nokey" else None)
    return ctx, state


def freeze(x: Any) -> Any:
    if isinstance(x, (NS, Ctx)):
        return ("obj", type(x).__name__, freeze(vars(x)))
    if isinstance(x, dict):
        return ("dict", [(k, freeze(v)) for k, v in x.items()])
    if isinstance(x, (list, tuple)):
        return (type(x).__name__, [freeze(v) for v in x])
    return (type(x).__name__, repr(x))


# ---------------------------------------------------------------------------------------------- what the spec's result means for the real values
def want_nodes(nodes) -> List[Dict[str, Any]]:
    return [{"id": nid(n["id"]), "label": lab(n["lab"]) if n["lab"] else nid(n["id"]), "delta": n["d"] / 8.0} for n in nodes]


def want_hits(hits) -> List[Dict[str, Any]]:
    out = []
    for h in hits:
        p = h["p"]
        out.append({"id": hid(h["id"]), "score": h["s"] / 8.0, "owner": p["owner"], "quarter": p["quarter"],
                    **({"text": p["text"]} if p["text"] else {}), **({"tags": list(p["tags"])} if p["tags"] else {}),
                    **({"speaker": p["speaker"]} if p["speaker"] else {})})
    return out


def want_t2m(m) -> Dict[str, Any]:
    return {"k_returned": m["kret"], "cache_used": m["cache"],
            **({"sim_stats": {"mean": m["sim"][1] / 8.0, "max": m["sim"][2] / 8.0}} if m["sim"][0] else {}),
            **({"tier_sequence": list(m["tier"][1])} if m["tier"][0] else {})}


def want_cfg(o) -> Dict[str, Any]:
    return {"t3": {"max_rag_loops": 1, "tokens": o["caps"]["tokens"], "temp": 0.7},
            "t2": {"owner_scope": "any", "k_retrieval": o["k"], "sim_threshold": 0.3}}


def want_bundle(o) -> Dict[str, Any]:
    hots = [hot(x) for x in o["hot"]]
    return {"version": "t3-bundle-v1", "now": NOW,
            "agent": {"id": "agentA", "style_prefix": "calm", "caps": dict(o["caps"])},
            "world": {"hot_labels": hots, "k": len(hots)},
            "t1": {"touched_nodes": want_nodes(o["nodes32"]), "metrics": dict(ZERO_T1M)},
            "t2": {"retrieved": want_hits(o["hits"]), "metrics": want_t2m(o["t2m"])},
            "text": {"input": {"input": "hi there", "text": "fallback", "none": ""}[o["txt"]], "labels_from_t1": [lab(x) for x in o["labels"]]},
            "cfg": want_cfg(o),
            "slice_caps": {"t3_ops": o["slice"]} if o["slice"] else {}}


def _typed(x: Any) -> Any:
    """equality that also distinguishes 1 from 1.0 and True from 1"""
    if isinstance(x, dict):
        return {k: _typed(v) for k, v in x.items()}
    if isinstance(x, list):
        return [_typed(v) for v in x]
    return (type(x).__name__, x)


def _call(fn, *a, **kw) -> Tuple[bool, Any]:
    try:
        return True, fn(*a, **kw)
    except Exception as e:      # noqa: BLE001
        return False, f"{type(e).__name__}: {e}"


def describe(i) -> str:
    es = " ".join(f"{e['k']}({nid(e['id']) if e['id'] else '-'},{e['d']}/8,{lab(e['lab']) if e['lab'] else '-'})" for e in _seq(i["t1"]["es"]))
    hs = " ".join(f"{h['k']}({hid(h['id'])},{h['s']}/8,pv{h['pv']})" for h in _seq(i["t2"]["hs"]))
    c = i["ctx"]
    return (f"T1 {i['t1']['shape']} [{es}] cap={i['t1']['cap']}; T2 [{hs}] metrics={i['t2']['mv']}; cfg={c['cfgk']} tokens={c['tok'] or 'absent'} "
            f"ops={c['ops'] or 'absent'} k_retrieval={'absent' if c['k'] == 99 else c['k']} slice={c['slice'] or 'absent'} state={c['st']} "
            f"hot={_seq(c['hot'])} text={c['txt']} drop={[ALLKEYS[p - 1] for p in _seq(i['drop'])]}")


def run_case(c) -> List[Tuple[str, str]]:
    from clematis.engine.stages.t3 import bundle as B
    from clematis.engine.stages import t3 as T3
    i, o = c["inp"], c["out"]
    where = describe(i)
    fails: List[Tuple[str, str]] = []

    def cmp(clause, what, got, want):
        if _typed(got) != _typed(want):
            fails.append((clause, f"{where}: {what} = {got!r}, spec {want!r}"))

    ctx, state = build_ctx(i["ctx"])
    t2 = build_t2(i["t2"])
    for attr in ("graph_deltas", "deltas"):
        t1 = build_t1(i["t1"], attr)
        before = freeze((copy.deepcopy(vars(ctx)), copy.deepcopy(state), copy.deepcopy(t1), copy.deepcopy(t2)))
        # the helpers
        ok, got = _call(B.extract_t1_touched_nodes, t1, cap=i["t1"]["cap"])
        if o["err"]:
            if ok:
                fails.append(("RaisesOnlyOnNoneDelta", f"{where}: extract_t1_touched_nodes returned {got!r}, as built it raises TypeError on a None delta"))
        elif not ok:
            fails.append(("T1NodesTotal", f"{where}: extract_t1_touched_nodes raised {got}"))
        else:
            cmp("T1TouchedNodes", f"extract_t1_touched_nodes(t1.{attr}, cap={i['t1']['cap']})", got, want_nodes(o["nodes"]))
        ok, got = _call(B.extract_labels_from_t1, t1)
        cmp("T1Labels", "extract_labels_from_t1", got if ok else f"raised {got}", [lab(x) for x in o["labels"]])
        if attr == "graph_deltas":
            ok, got = _call(B.extract_t2_retrieved, t2, o["k"])
            cmp("T2Retrieved", f"extract_t2_retrieved(k={o['k']})", got if ok else f"raised {got}", want_hits(o["hits"]))
            ok, got = _call(B.extract_t2_metrics, t2)
            cmp("T2Metrics", "extract_t2_metrics", got if ok else f"raised {got}", want_t2m(o["t2m"]))
            ok, got = _call(B.cfg_caps, ctx)
            cmp("CapsFromConfig", "cfg_caps", got if ok else f"raised {got}", dict(o["caps"]))
            ok, got = _call(B.cfg_snapshot, ctx)
            cmp("CfgSnapshot", "cfg_snapshot", got if ok else f"raised {got}", want_cfg(o))
            ok, got = _call(B.world_hot_labels, state)
            cmp("HotLabels", "world_hot_labels", got if ok else f"raised {got}", ([hot(x) for x in o["hot"]], len(o["hot"])))
        # the assembly, through the three entry points
        results = [(_n, _call(f, ctx, state, t1, t2)) for _n, f in
                   (("bundle.assemble_bundle", B.assemble_bundle), ("bundle.make_plan_bundle", B.make_plan_bundle), ("t3.make_plan_bundle", T3.make_plan_bundle),
                    ("bundle.assemble_bundle (again)", B.assemble_bundle))]
        for name, (ok, got) in results:
            if o["err"]:
                if ok:
                    fails.append(("RaisesOnlyOnNoneDelta", f"{where}: {name} returned a bundle, as built it raises TypeError on a None delta"))
                continue
            if not ok:
                fails.append(("BundleTotal", f"{where}: {name} raised {got}"))
                continue
            want = want_bundle(o)
            if _typed(got) != _typed(want):
                diff = [k for k in sorted(set(got) | set(want)) if _typed(got.get(k)) != _typed(want.get(k))]
                k0 = diff[0]
                clause = {"t1": "BundleT1", "t2": "BundleT2", "cfg": "BundleCfg", "agent": "BundleAgent", "world": "BundleWorld", "text": "BundleText"}.get(k0, "Bundle")
                fails.append((clause, f"{where}: {name}[{k0!r}] = {got.get(k0)!r}, spec {want.get(k0)!r}"))
                continue
            if "again" in name and _typed(got) != _typed(results[0][1][1]):
                fails.append(("Deterministic", f"{where}: two calls with the same inputs returned different bundles"))
            # validate_bundle: accepts what was assembled, names what was taken away
            cut = {k: v for k, v in got.items() if k not in {ALLKEYS[p - 1] for p in _seq(i["drop"])}}
            ok2, errs = _call(B.validate_bundle, cut)
            cmp("ValidateAcceptsAssembled", f"validate_bundle(bundle without {sorted(set(got) - set(cut))})", errs if ok2 else f"raised {errs}",
                [f"missing:{k}" for k in o["errs"]])
        after = freeze((vars(ctx), state, t1, t2))
        if after != before:
            fails.append(("InputsUntouched", f"{where}: ctx / state / t1 / t2 differ after the calls"))
        if fails:
            break
    return fails


def oracle_agrees(c) -> bool:
    return py_result(c["inp"]) == _norm_out(c["out"])


def _check_oracle(c):
    return oracle_agrees(c)


# ---------------------------------------------------------------------------------------------- random family
def random_case(seed: int, n: int) -> Dict[str, Any]:
    r = rng(seed, "x14", n)
    big = r.random() < 0.6
    shape = r.choice(["list", "list", "map"])
    n1 = r.randint(28, 48) if big else r.randint(0, 8)
    ids = list(range(1, 61))
    dmax = r.choice([1, 2, 16])
    es: List[Dict[str, Any]] = []
    if shape == "map":
        for x in r.sample(ids, min(n1, len(ids))):
            k = r.choice(["id", "id", "node", "src"])
            es.append({"k": k, "id": x, "d": 0 if k == "src" else r.randint(-dmax, dmax), "lab": r.randint(0, 6) if k == "node" else 0})
    else:
        distinct = r.random() < 0.5
        pool = r.sample(ids, min(n1, len(ids))) if distinct else [r.randint(1, 40) for _ in range(n1)]
        for x in pool:
            k = r.choices(["id", "node", "src", "junk", "noid", "emptyid", "dnone"], [10, 5, 2, 1, 1, 1, 0.02])[0]
            if k == "junk":
                es.append({"k": k, "id": 0, "d": 0, "lab": 0})
            elif k in ("noid", "emptyid"):
                es.append({"k": k, "id": 0, "d": 0, "lab": r.randint(0, 6)})
            elif k in ("src", "dnone"):
                es.append({"k": k, "id": x, "d": 0, "lab": r.randint(0, 6)})
            else:
                es.append({"k": k, "id": x, "d": r.randint(-dmax, dmax), "lab": r.randint(0, 6)})
    n2 = r.randint(50, 90) if big else r.randint(0, 8)
    smax = r.choice([1, 3, 8])
    hs: List[Dict[str, Any]] = []
    hpool = r.sample(list(range(1, 121)), n2) if r.random() < 0.5 else [r.randint(1, 60) for _ in range(n2)]
    for x in hpool:
        k = r.choices(["dict", "uscore", "obj", "noscore", "dnoid", "onoid"], [8, 3, 8, 1, 0.3, 0.5])[0]
        if k == "onoid":
            hs.append({"k": k, "id": 0, "s": 0, "pv": 0})
        elif k == "dnoid":
            hs.append({"k": k, "id": 0, "s": r.randint(-smax, smax), "pv": r.randint(0, 5)})
        elif k == "noscore":
            hs.append({"k": k, "id": x, "s": 0, "pv": r.randint(0, 5)})
        else:
            hs.append({"k": k, "id": x, "s": r.randint(-smax, smax), "pv": r.randint(0, 5)})
    cfgk = r.choice(["dict", "attr", "none"])
    st = r.choice(["dict", "dict", "nokey", "none"])
    ctx = {"cfgk": cfgk, "tok": 0 if cfgk == "none" else r.choice([0, 1, 128, 4096]), "ops": 0 if cfgk == "none" else r.choice([0, 1, 7]),
           "k": 99 if cfgk == "none" else r.choice([99, -3, 0, 1, 5, 40, 64, 70, 200]), "slice": r.choice([0, 1, 5]), "st": st,
           "hot": [r.randint(1, 9) for _ in range(r.randint(0, 6))] if st == "dict" else [], "txt": r.choice(["input", "text", "none"])}
    inp = {"t1": {"shape": shape, "es": es, "cap": r.choice([-2, 0, 1, 5, 31, 32, 33, 100])}, "t2": {"hs": hs, "mv": r.choice(["none", "empty", "full", "junk"])},
           "ctx": ctx, "drop": sorted(r.sample(range(1, 10), r.choice([0, 0, 1, 3])))}
    return {"inp": inp, "out": py_result(inp), "random": [seed, n]}


def _run_random(args) -> Tuple[Dict[str, Any], List[Tuple[str, str]], Dict[str, int]]:
    c = random_case(*args)
    o = c["out"]
    n_nodes = sum(1 for e in c["inp"]["t1"]["es"] if e["k"] in ("id", "node", "src"))
    n_hits = sum(1 for h in c["inp"]["t2"]["hs"] if h["k"] != "onoid")
    cov = {"cut32": int(not o["err"] and n_nodes > 32), "cutk": int(n_hits > len(o["hits"])), "cut64": int(o["k"] == 64 and n_hits > 64), "err": int(o["err"])}
    return c, run_case(c), cov


# ---------------------------------------------------------------------------------------------- the check
BASE = {"MaxT1": 0, "T1Kinds": ["id"], "T1Ids": [1], "T1Deltas": Def("{1}"), "T1Labels": [0], "Shapes": ["list"], "Caps": [32],
        "MaxT2": 0, "T2Kinds": ["dict"], "T2Ids": [1], "T2Scores": Def("{1}"), "Pvs": [0], "Mvs": ["none"],
        "CfgKinds": ["dict"], "Toks": [0], "Opss": [0], "Ks": Def("{2}"), "Slices": [0], "Sts": ["nokey"], "Hots": Def("{<<>>}"), "Txts": ["input"],
        "Drops": Def("{{}}")}
ALL_T1 = ["id", "node", "src", "junk", "noid", "emptyid", "dnone"]
ALL_T2 = ["dict", "uscore", "obj", "noscore", "dnoid", "onoid"]


def jobs(q: bool):
    J = []
    # T1: ties of |delta|, caps, both shapes
    J.append(("t1_order", dict(BASE, MaxT1=3 if q else 4, T1Kinds=["id"], T1Ids=[1, 2, 3], T1Deltas=Def("{-1, 1, 2}" if q else "{-2, -1, 1, 2}"),
                               Shapes=["list", "map"], Caps=Def("{0, 1, 2, 3}" if q else "{-1, 0, 1, 2, 3, 4}"))))
    # T1: every entry kind, labels
    J.append(("t1_kinds", dict(BASE, MaxT1=2 if q else 3, T1Kinds=ALL_T1, T1Ids=[1, 2], T1Deltas=Def("{-1, 2}"), T1Labels=[0, 1, 2],
                               Shapes=["list", "map"], Caps=Def("{1, 2}"))))
    # T2: ties of the score, k_retrieval incl. absent / 0 / negative
    J.append(("t2_order", dict(BASE, MaxT2=3 if q else 4, T2Kinds=["dict", "obj"], T2Ids=[1, 2, 3], T2Scores=Def("{0, 2}"),
                               Ks=Def("{-1, 0, 1, 2, 99}" if q else "{-1, 0, 1, 2, 3, 99}"))))
    J.append(("t2_neg", dict(BASE, MaxT2=2 if q else 3, T2Kinds=["dict", "obj"], T2Ids=[1, 2, 3], T2Scores=Def("{-1, 0, 2}"), Ks=Def("{1, 2}"))))
    # T2: every record kind, payloads
    J.append(("t2_kinds", dict(BASE, MaxT2=2, T2Kinds=ALL_T2, T2Ids=[1, 2], T2Scores=Def("{-1, 2}"), Pvs=[0, 2, 4] if q else [0, 1, 2, 3, 4, 5], Ks=Def("{1, 99}"))))
    if not q:
        J.append(("t2_payload", dict(BASE, MaxT2=1, T2Kinds=ALL_T2, T2Ids=[2], T2Scores=Def("{3}"), Pvs=[0, 1, 2, 3, 4, 5], Mvs=["none", "empty", "full", "junk"], Ks=Def("{0, 1}"))))
    # configuration
    J.append(("cfg", dict(BASE, CfgKinds=["dict", "attr", "none"], Toks=[0, 1, 512], Opss=[0, 4], Ks=Def("{99, 0, 1}"), Slices=[0, 2],
                          MaxT2=2, T2Kinds=["dict"], T2Ids=[1, 2], T2Scores=Def("{1}"), MaxT1=1)))
    # state / text / metrics
    J.append(("state", dict(BASE, Sts=["dict", "nokey", "none"], Hots=Def("{<<>>, <<2, 1>>, <<3, 1, 3>>, <<2, 2>>}"), Txts=["input", "text", "none"],
                            Mvs=["none", "empty", "full", "junk"], MaxT2=2, T2Kinds=["obj"], Ks=Def("{1, 99}"))))
    # validate_bundle
    J.append(("validate", dict(BASE, Drops=Def("SUBSET (1..9)"), MaxT1=1, T1Kinds=["id", "dnone"], MaxT2=1)))
    return J


def check(run) -> None:
    q = run.quick
    run.rule = ("every T1 / T2 / context / dropped-keys case of Bundle.tla replayed on the real extractors, assemble_bundle, both make_plan_bundle "
                "facades and validate_bundle; distinct = case")
    seen = set()
    for name, consts in jobs(q):
        cfg = make_cfg(consts, CLAUSES, [], emit=False, view=None, constraint="EmitCase")
        res = run.tlc("Bundle", cfg, name=f"Bundle_{name}", workers=8, timeout_s=1500, defs=split_defs(consts))
        run.model_must_hold(res)
        cases = []
        for c in res.emitted:
            key = json.dumps(c["inp"], sort_keys=True)
            if key not in seen:
                seen.add(key)
                cases.append({"inp": c["inp"], "out": _norm_out(c["out"])})
        bad = [c for c, okk in zip(cases, pmap(_check_oracle, cases, chunk=256)) if not okk]
        if bad:
            from ..tlc import TLCError
            raise TLCError(f"python oracle differs from Bundle.tla on {json.dumps(bad[0]['inp'])}: {py_result(bad[0]['inp'])} vs {bad[0]['out']}")
        run.ok("Oracle.python_equals_spec", len(cases))
        for c, fails in zip(cases, pmap(run_case, cases, chunk=128)):
            run.traces += 1
            run.case(json.dumps(c["inp"], sort_keys=True))
            if not fails:
                run.ok("Bundle.conforms")
                run.ok(f"Bundle.conforms.{name}")
            for clause, msg in fails[:1]:
                run.fail(clause, {"clause": clause}, c["inp"], msg, replay={"case": c})
        if cases:
            run.sample({"case": cases[len(cases) // 2]}, cap=4)
    # random family: large results
    nrand = run.pick(1500, 20000)
    cov = {"cut32": 0, "cutk": 0, "cut64": 0, "err": 0}
    for c, fails, cv in pmap(_run_random, [(run.seed, n) for n in range(nrand)], chunk=64):
        run.traces += 1
        run.case(("random", c["random"][1]))
        for k_, v in cv.items():
            cov[k_] += v
        if not fails:
            run.ok("Bundle.conforms.random")
        for clause, msg in fails[:1]:
            run.fail(clause, {"clause": clause}, {"random": c["random"]}, msg, replay={"case": c})
    for k_, v in cov.items():
        run.ok(f"Random.{k_}", v)
    if not (cov["cut32"] and cov["cutk"] and cov["cut64"]):
        from ..tlc import TLCError
        raise TLCError(f"random family is vacuous: {cov}")
    run.exhaustive = True
    run.assumptions += ["ids, labels and hot labels are strings whose lexicographic order is the order of the spec's integers",
                        "deltas and scores are multiples of 1/8 (exact floats)",
                        "version, now (string passed through), agent id / style prefix and the zero T1 metrics are constant in every case"]


def replay(rep) -> int:
    c = rep["replay"]["case"]
    fails = run_case(c)
    for f in fails:
        print(": ".join(f))
    if fails:
        print(f"VIOLATION property=X14 replay={rep.get('_path', '?')}")
        return 1
    print("replay: conforms")
    return 0
