"""X04 (extra, beyond the listed properties) — the packaged demo driver conforms to Turn.tla.

(C->S)  `clematis.scripts.demo.main` (the scheduler loop of the repository's own entry point: next_turn ->
       world.scenario.run_one_turn -> Orchestrator.run_turn with driver-side scheduler logging -> on_yield and
       queue rotation) is run in-process for a family of configurations (gates, kill switch, stage budgets that
       yield at T1 / T2 / T3, both policies).  Every turn is recorded as one event (the record streams the
       orchestrator emitted in order, version delta, snapshot written) and the sessions are validated by TLC
       against Turn.tla's functional pipeline (TurnTrace: RecordSequence, VersionPlusOne, SnapshotCadence).
       The scheduler record of a yielded slice is written by the driver itself in this mode; the harness puts
       it where the orchestrator would have written it (before the closing turn record).
       In addition the driver's own scheduler.jsonl is checked against the picks: one record per yielded slice.
"""
from __future__ import annotations

import copy
import json
import os
import shutil
import sys
import tempfile
from typing import Any, Dict, List

from ..util import pmap

MANIFEST = {"technique": "sessions recorded from the packaged demo driver (real scheduler loop + run_turn) validated by TLC against Turn.tla (TurnTrace)",
            "text": "extra spec binding beyond the listed properties", "note": "not a listed property; run with ./check X04"}

SCENARIOS: List[Dict[str, Any]] = [
    {"name": "plain", "ov": {}, "steps": 4},
    {"name": "graph", "ov": {"graph": {"enabled": True}}, "steps": 4},
    {"name": "kill", "ov": {"t4": {"enabled": False}}, "steps": 3},
    {"name": "kill_graph", "ov": {"t4": {"enabled": False}, "graph": {"enabled": True}}, "steps": 3},
    {"name": "sched_idle", "ov": {"scheduler": {"enabled": True, "quantum_ms": 100000, "budgets": {"wall_ms": 200000}}}, "steps": 5},
    {"name": "yield_t1_pops", "ov": {"scheduler": {"enabled": True, "quantum_ms": 100000, "budgets": {"wall_ms": 200000, "t1_pops": 1}}}, "steps": 5, "text": "apple banana"},
    {"name": "yield_t1_pops0", "ov": {"scheduler": {"enabled": True, "quantum_ms": 100000, "budgets": {"wall_ms": 200000, "t1_pops": 0}}}, "steps": 4},
    {"name": "yield_t2_k", "ov": {"scheduler": {"enabled": True, "quantum_ms": 100000, "budgets": {"wall_ms": 200000, "t2_k": 0}}}, "steps": 4},
    {"name": "yield_t3_ops", "ov": {"scheduler": {"enabled": True, "quantum_ms": 100000, "budgets": {"wall_ms": 200000, "t3_ops": 1}}}, "steps": 4},
    {"name": "yield_graph_fair", "ov": {"scheduler": {"enabled": True, "policy": "fair_queue", "quantum_ms": 100000, "budgets": {"wall_ms": 200000, "t2_k": 0}},
                                        "graph": {"enabled": True}}, "steps": 6, "flags": ["--policy", "fair_queue"]},
    {"name": "yield_fair_mct1", "ov": {"scheduler": {"enabled": True, "quantum_ms": 100000, "budgets": {"wall_ms": 200000, "t2_k": 0},
                                                     "fairness": {"max_consecutive_turns": 1, "aging_ms": 200}}}, "steps": 8},
    {"name": "yield_fairq_mct2", "ov": {"scheduler": {"enabled": True, "policy": "fair_queue", "quantum_ms": 100000, "budgets": {"wall_ms": 200000, "t1_pops": 0},
                                                      "fairness": {"max_consecutive_turns": 2, "aging_ms": 200}}}, "steps": 9, "flags": ["--policy", "fair_queue"]},
    {"name": "sched_kill", "ov": {"scheduler": {"enabled": True, "quantum_ms": 100000, "budgets": {"wall_ms": 200000}}, "t4": {"enabled": False}}, "steps": 3},
    {"name": "two_agents", "ov": {"graph": {"enabled": True}}, "steps": 5, "flags": ["--agents", "Zed,alpha"]},
]


def _listing(d):
    if not os.path.isdir(d):
        return ()
    return tuple(sorted((n, os.stat(os.path.join(d, n)).st_mtime_ns, os.stat(os.path.join(d, n)).st_size) for n in os.listdir(d)))


def run_scenario(args) -> Dict[str, Any]:
    sc, tidn, workdir = args
    from .. import engine as E
    work = tempfile.mkdtemp(prefix="x04_", dir=workdir)
    old = (os.getcwd(), list(sys.argv), os.environ.get("CLEMATIS_LOG_DIR"), os.environ.get("CI"), os.environ.get("CLEMATIS_SNAPSHOT_DIR"))
    ev: List[dict] = []
    seen_gates: List[tuple] = []
    sched_lines = 0
    err = None
    try:
        os.chdir(work)
        os.environ["CI"] = "true"
        logs = os.path.join(work, "logs")
        os.environ["CLEMATIS_LOG_DIR"] = logs
        # the scenario's settings go into a configuration FILE (the demo's --config-overrides treats {"enabled": false}
        # as "remove the subtree", so it cannot express the kill switch)
        import yaml
        repo = os.environ.get("VERIF_REPO", "/repo")
        with open(os.path.join(repo, "configs", "config.yaml")) as f:
            base_doc = yaml.safe_load(f) or {}
        with open("config.yaml", "w") as f:
            yaml.safe_dump(E.deep_merge(base_doc, sc["ov"]), f)
        # never write into the repository: the default snapshot directory is <repo>/.data/snapshots
        os.environ["CLEMATIS_SNAPSHOT_DIR"] = os.path.join(work, "snaps")
        import clematis.scripts.demo as D
        import clematis.io.paths as P
        real_logs_dir = P.logs_dir
        E.reset_global_caches()
        sys.argv = ["demo", "--steps", str(sc["steps"]), "--text", sc.get("text", "hello world"), "--fixed-now-ms", "0",
                    "--config", os.path.join(work, "config.yaml"), "--out", logs] + list(sc.get("flags", []))
        real_turn = D.run_one_turn
        snapdir = os.path.join(work, "snaps")       # (write_snapshot follows CLEMATIS_SNAPSHOT_DIR; a relative t4.snapshot_dir of the file would land under cwd = work)
        snapdir2 = os.path.join(work, ".data", "snapshots")
        with E.LogCapture() as cap:
            def wrapped(agent_id, state, text, cfg, **kw):
                start = len(cap.records)
                v0 = int(state.get("version_etag") or 0)
                s0 = (_listing(snapdir), _listing(snapdir2))
                line = real_turn(agent_id, state, text, cfg, **kw)
                capture = kw.get("capture") or {}
                names = [s[:-len(".jsonl")] for s, _ in cap.records[start:]]
                if capture and names and names[-1] == "turn":
                    names = names[:-1] + ["scheduler", "turn"]      # the driver writes this record itself in this mode
                # the gates as the orchestrator sees them (its own normalisation of the context's configuration)
                from clematis.engine.orchestrator.core import _get_cfg as orch_cfg
                from types import SimpleNamespace as _NS
                eff = orch_cfg(_NS(cfg=cfg))
                inp = {"sched": bool((eff.get("scheduler") or {}).get("enabled", False)), "yield_at": str(capture.get("stage_end") or "none") if capture else "none",
                       "graph": bool((eff.get("graph") or {}).get("enabled", False)), "maint": False, "allow_refl": False, "plan_refl": False,
                       "kill": (eff.get("t4") or {}).get("enabled", True) is False, "dry": False, "reuse": False, "refl_out": "ok", "ops_cap": 5, "faults": []}
                seen_gates.append((bool((sc["ov"].get("graph") or {}).get("enabled", False)), inp["graph"]))
                ev.append({"inp": inp, "log": [n for n in names if n != "t3_filter"], "dver": int(state.get("version_etag") or 0) - v0, "refl_new": 0,
                           "snap": (_listing(snapdir), _listing(snapdir2)) != s0, "agent": agent_id, "yielded": bool(capture)})
                return line
            D.run_one_turn = wrapped
            # the driver's scheduler calls, recorded for SchedulerTrace (select / yield with the state after the driver's
            # own queue rotation, which is visible at the next select or at the end)
            real_next, real_yield = D.next_turn, D.on_yield
            sev: List[dict] = []
            sst: Dict[str, Any] = {"state": None, "pending": None, "fair": None, "policy": None}

            def settle():
                pend, st = sst["pending"], sst["state"]
                if pend is not None and st is not None:
                    names_ = sorted(st["last_ran_ms"])
                    idx = {n_: i_ + 1 for i_, n_ in enumerate(names_)}
                    pend.update({"queue": [idx[x] for x in st["queue"]], "consec": [st["consec_turns"][n_] for n_ in names_],
                                 "lastlo": [int(st["last_ran_ms"][n_]) % 100000 for n_ in names_], "lasthi": [int(st["last_ran_ms"][n_]) // 100000 for n_ in names_]})
                    sev.append(pend)
                    sst["pending"] = None

            def next_spy(dctx, sched_state, policy=None, fairness_cfg=None, **kw):
                sst["state"], sst["fair"], sst["policy"] = sched_state, dict(fairness_cfg or {}), policy
                settle()
                r_ = real_next(dctx, sched_state, policy=policy, fairness_cfg=fairness_cfg, **kw)
                names_ = sorted(sched_state["last_ran_ms"])
                if r_[0]:
                    sev.append({"op": "select", "agent": names_.index(r_[0]) + 1, "reason": r_[2]})
                return r_

            def yield_spy(dctx, sched_state, agent_id, *a, **kw):
                out_ = real_yield(dctx, sched_state, agent_id, *a, **kw)
                names_ = sorted(sched_state["last_ran_ms"])
                sst["pending"] = {"op": "yield", "agent": names_.index(agent_id) + 1}
                return out_
            D.next_turn, D.on_yield = next_spy, yield_spy
            try:
                with open(os.devnull, "w") as devnull:
                    so = sys.stdout
                    sys.stdout = devnull
                    try:
                        D.main()
                    finally:
                        sys.stdout = so
            except SystemExit as e:
                if e.code not in (0, None):
                    err = f"demo exited with {e.code}"
            except Exception as e:      # noqa: BLE001
                err = f"{type(e).__name__}: {e}"
            finally:
                D.run_one_turn = real_turn
                D.next_turn, D.on_yield = real_next, real_yield
                P.logs_dir = real_logs_dir
            settle()
        p = os.path.join(logs, "scheduler.jsonl")
        if os.path.exists(p):
            with open(p) as f:
                sched_lines = sum(1 for ln in f if ln.strip())
    finally:
        os.chdir(old[0])
        sys.argv = old[1]
        for k, v in (("CLEMATIS_LOG_DIR", old[2]), ("CI", old[3]), ("CLEMATIS_SNAPSHOT_DIR", old[4])):
            if v is None:
                os.environ.pop(k, None)
            else:
                os.environ[k] = v
        shutil.rmtree(work, ignore_errors=True)
    strace = None
    if ev and all(e["yielded"] for e in ev) and sst["state"] is not None and not err:
        fair = sst["fair"] or {}
        strace = {"consts": {"N": len(sst["state"]["last_ran_ms"]), "Policy": sst["policy"] or "round_robin", "Mct": int(fair.get("max_consecutive_turns") or 1000),      # absent = unlimited in the code (10**9); 1000 stands for it in these short traces
                             "Aging": int(fair.get("aging_ms", 0) or 0), "Rotate": (sst["policy"] or "round_robin") == "round_robin",
                             "Advances": [], "MaxNow": 0, "MaxDepth": 0, "AllowLeave": False, "InitStamp": 0}, "ev": sev}
    return {"tid": tidn, "ev": ev, "err": err, "sched_lines": sched_lines, "name": sc["name"], "steps": sc["steps"], "strace": strace,
            "graph_gate_lost": any(want and not got for want, got in seen_gates)}


def check(run) -> None:
    run.rule = "one session of the packaged demo driver per scenario, one event per turn, validated by TLC (TurnTrace); distinct = scenario"
    outs = pmap(run_scenario, [(sc, i + 1, run.workdir) for i, sc in enumerate(SCENARIOS)], chunk=1)
    from ..tlc import TLCError
    traces = []
    for o in outs:
        if o["err"]:
            run.fail("DriverCompletes", {"clause": "DriverCompletes", "scenario": o["name"]}, {"scenario": o["name"]}, f"scenario {o['name']}: {o['err']}",
                     replay={"scenario": o["name"]})
            continue
        if len(o["ev"]) != o["steps"]:
            run.fail("DriverCompletes", {"clause": "DriverCompletes", "scenario": o["name"]}, {"scenario": o["name"]},
                     f"scenario {o['name']}: {len(o['ev'])} turns recorded, {o['steps']} steps requested", replay={"scenario": o["name"]})
        nyield = sum(1 for e in o["ev"] if e["yielded"])
        if o["sched_lines"] != nyield:
            run.fail("DriverSchedulerLog", {"clause": "DriverSchedulerLog", "scenario": o["name"]}, {"scenario": o["name"]},
                     f"scenario {o['name']}: {nyield} yielded slices but {o['sched_lines']} scheduler.jsonl records", replay={"scenario": o["name"]})
        else:
            run.ok("Demo.scheduler_log_one_record_per_yield")
        traces.append({"tid": o["tid"], "ev": [{k: v for k, v in e.items() if k not in ("agent", "yielded")} for e in o["ev"]]})
    if not traces:
        raise TLCError("X04: no session recorded")
    if not any(e["inp"]["yield_at"] != "none" for t in traces for e in t["ev"]):
        raise TLCError("X04: no scenario yielded - the budget scenarios are vacuous")
    ctl = copy.deepcopy(traces[0])
    ctl["tid"] = -1
    ctl["ev"][0]["log"] = [x for x in ctl["ev"][0]["log"] if x != "t2"]
    consts = {"MaxTurns": 1, "Vary": [], "ForceOn": [], "FaultSites": [], "MaxFaults": 0, "StashCleared": True}
    v = run.validate_traces("TurnTrace", consts, traces + [ctl], name="TurnTrace_demo", timeout_s=600)
    if v[-1][0] == "ok":
        raise TLCError("TurnTrace accepted the negative control")
    run.ok("TurnTrace.negative_control_rejected")
    names = {o["tid"]: o["name"] for o in outs}
    for t in traces:
        verdict, pos = v[t["tid"]]
        run.traces += 1
        run.case(("demo", names[t["tid"]]))
        if verdict == "ok":
            run.ok("TurnTrace.demo_session_accepted")
        else:
            e = t["ev"][pos - 1] if 0 < pos <= len(t["ev"]) else None
            run.fail(verdict, {"clause": verdict, "scenario": names[t["tid"]]}, {"event": e, "position": pos},
                     f"demo scenario {names[t['tid']]} rejected at turn {pos} by {verdict}: {json.dumps(e)[:400]}", replay={"scenario": names[t["tid"]]})
    # the driver's scheduler loop against Scheduler.tla (scenarios in which every slice yields, i.e. every select is
    # followed by the driver's yield bookkeeping)
    groups: Dict[str, List[dict]] = {}
    for o in outs:
        if o.get("strace"):
            groups.setdefault(json.dumps(o["strace"]["consts"], sort_keys=True), []).append({"tid": o["tid"], "ev": o["strace"]["ev"]})
    if not groups:
        raise TLCError("X04: no scenario produced a scheduler trace")
    for gi, (ck, ts) in enumerate(sorted(groups.items())):
        consts_s = json.loads(ck)
        ctl2 = copy.deepcopy(ts[0])
        ctl2["tid"] = -ts[0]["tid"]
        sel = [e for e in ctl2["ev"] if e["op"] == "select"]
        sel[-1]["agent"] = sel[-1]["agent"] % consts_s["N"] + 1
        vs = run.validate_traces("SchedulerTrace", consts_s, ts + [ctl2], name=f"SchedulerTrace_demo_{gi}", timeout_s=600)
        for t in ts + [ctl2]:
            verdict, pos = vs[t["tid"]]
            if t["tid"] < 0:
                if verdict == "ok":
                    raise TLCError("SchedulerTrace accepted the corrupted demo trace")
                run.ok("SchedulerTrace.negative_control_rejected")
                continue
            run.traces += 1
            run.case(("demo_sched", names[t["tid"]]))
            if verdict == "ok":
                run.ok("SchedulerTrace.demo_loop_accepted")
            else:
                run.fail(verdict, {"clause": verdict, "scenario": names[t["tid"]], "spec": "Scheduler"}, {"event": t["ev"][pos - 1] if 0 < pos <= len(t["ev"]) else None, "position": pos},
                         f"demo scenario {names[t['tid']]}: scheduler event {pos} rejected by {verdict}: {json.dumps(t['ev'][pos - 1] if 0 < pos <= len(t['ev']) else None)}",
                         replay={"scenario": names[t["tid"]]})
    run.sample({"scenario": outs[5]["name"], "events": outs[5]["ev"][:2]}, cap=3)
    run.extra["yield_stages_seen"] = sorted({e["inp"]["yield_at"] for t in traces for e in t["ev"]})
    if any(o.get("graph_gate_lost") for o in outs):
        run.notes.append("graph.enabled = true in the configuration FILE does not reach the orchestrator through the demo: load_config returns the "
                         "Config dataclass, whose fields are t1..t4 / scheduler / budgets / flags, and the orchestrator's normalisation (asdict) drops the "
                         "dynamically attached graph / perf sections - outside the listed properties, recorded as an observation (DESIGN.md 9.6)")
    run.exhaustive = False


def replay(rep) -> int:
    os.makedirs("/verif/.work/X04", exist_ok=True)
    sc = next(s for s in SCENARIOS if s["name"] == rep["replay"]["scenario"])
    o = run_scenario((sc, 1, "/verif/.work/X04"))
    print(json.dumps(o, indent=1)[:4000])
    return 0
