"""X02 (extra, beyond the listed properties) — umbrella CLI routing and wrapper argument preparation.

(M)    CliArgs.tla enumerates every argv up to MaxLen over a 10-token alphabet and computes the routing
       decision (no subcommand / help interception / dispatch with the delegated argv and the debug flag)
       and the wrapper's prepared arguments, with the documented invariants as clauses.
(S->C)  every enumerated argv is spelled out and passed to the real clematis.cli.main.main with the wrapper
       entry points replaced by recorders; prepare_wrapper_args is called on the delegated argv.
"""
from __future__ import annotations

import contextlib
import io
import json
import os
import tempfile
from types import SimpleNamespace
from typing import Any, Dict, List, Tuple

from ..util import make_cfg, pmap

MANIFEST = {"technique": "TLA+ decision table of umbrella CLI routing and wrapper argument preparation enumerated by TLC; every argv replayed on clematis.cli.main.main and prepare_wrapper_args",
            "text": "extra spec beyond the listed properties", "note": "not a listed property; run with ./check X02"}


def spell(argv: List[int]) -> List[str]:
    out = []
    for i, t in enumerate(argv):
        out.append({1: "rotate-logs", 2: "validate", 3: "--debug", 4: "--config" if i % 2 == 0 else "-c", 5: "--",
                    6: "-h" if i % 2 == 0 else "--help", 7: "--dir", 8: f"v{i}", 9: "--json", 10: "--verbose"}[t])
    return out


def run_case(case) -> List[Tuple[str, str]]:
    import clematis.cli.main as M
    import clematis.cli.rotate_logs as RL
    import clematis.cli.validate as VA
    from clematis.cli._wrapper_common import prepare_wrapper_args
    c = case["c"]
    argv = spell(c["argv"])
    want = c["out"]["route"]
    fails: List[Tuple[str, str]] = []
    calls: List[Tuple[str, List[str], bool]] = []

    def rec(name):
        def f(ns):
            calls.append((name, list(getattr(ns, "args", [])), bool(getattr(ns, "debug", False))))
            return 0
        return f
    old = (RL._entrypoint, VA._run, os.getcwd(), os.environ.get("HOME"), os.environ.pop("CLEMATIS_DEBUG", None), os.environ.pop("CLEMATIS_CONFIG", None))
    RL._entrypoint, VA._run = rec("rotate-logs"), rec("validate")
    os.chdir(case["workdir"])
    os.environ["HOME"] = case["workdir"]
    so, se = io.StringIO(), io.StringIO()
    try:
        with contextlib.redirect_stdout(so), contextlib.redirect_stderr(se):
            try:
                rc: Any = M.main(list(argv))
            except SystemExit as e:
                rc = ("exit", e.code)
            except Exception as e:      # noqa: BLE001
                rc = ("raised", f"{type(e).__name__}: {e}")
    finally:
        RL._entrypoint, VA._run = old[0], old[1]
        os.chdir(old[2])
        if old[3] is not None:
            os.environ["HOME"] = old[3]
    where = f"argv={argv}"
    if isinstance(rc, tuple) and rc[0] == "raised":
        return [("RoutingTotal", f"{where}: main raised {rc[1]}")]
    if want["kind"] == "nosub":
        if 6 in c["argv"] or 4 in c["argv"]:
            return [("__guard__", "argparse's own -h / --config handling without a subcommand")]
        if calls or rc not in (2, ("exit", 2)):
            fails.append(("NoSubcommandIsUsageError", f"{where}: rc={rc} calls={calls}, spec: usage, 2"))
        return fails
    subname = {1: "rotate-logs", 2: "validate"}[want["sub"]]
    if want["kind"] == "help":
        if calls or rc != 0 or "Delegates to scripts/" not in so.getvalue():
            fails.append(("HelpIntercepted", f"{where}: rc={rc} calls={calls} stdout={so.getvalue()[:80]!r}, spec: wrapper help of {subname}, 0"))
        return fails
    want_args = spell_args(c["argv"], want["args"])
    if len(calls) != 1 or rc != 0:
        return [("Dispatch", f"{where}: rc={rc} calls={calls}, spec: one call of {subname}")]
    name, args, debug = calls[0]
    if name != subname:
        fails.append(("Anchoring", f"{where}: dispatched to {name}, spec {subname}"))
    if args != want_args:
        fails.append(("DelegatedArgv", f"{where}: delegated argv {args}, spec {want_args}"))
    if debug != want["debug"]:
        fails.append(("DebugFlag", f"{where}: debug={debug}, spec {want['debug']}"))
    if so.getvalue():
        fails.append(("StdoutClean", f"{where}: umbrella wrote to stdout: {so.getvalue()[:80]!r}"))
    # wrapper preparation on the delegated argv
    wp = c["out"]["prep"]
    ns = SimpleNamespace(args=list(want_args))
    before = list(ns.args)
    got = prepare_wrapper_args(ns, passthrough=(("--dir",) if case["pass"] else ()))
    exp_argv = spell_args(c["argv"], wp["argv"])
    if (got.argv, got.wants_json, got.verbose, got.help_requested) != (exp_argv, wp["json"], wp["verbose"], wp["help"]):
        fails.append(("WrapperPrepare", f"{where} delegated {want_args}: prepared {(got.argv, got.wants_json, got.verbose, got.help_requested)}, "
                                        f"spec {(exp_argv, wp['json'], wp['verbose'], wp['help'])}"))
    if ns.args != before:
        fails.append(("WrapperPrepare", f"{where}: prepare_wrapper_args mutated ns.args"))
    return fails


def spell_args(argv: List[int], positions: List[int]) -> List[str]:
    """the spec's delegated argv is a sequence of positions (1-based) in argv"""
    full = spell(argv)
    return [full[p - 1] for p in positions]


def check(run) -> None:
    run.rule = "every argv up to MaxLen over the 10-token alphabet (CliArgs.tla), replayed on main() with recording wrappers; distinct = (argv, passthrough variant)"
    invs = ["Anchoring", "UmbrellaFlagsNotForwarded", "OrderPreserved", "ExactlyOneLeadingSentinelStripped", "WrapperLiftsItsSwitches"]
    cases = []
    for pf in (False, True):
        consts = {"MaxLen": 4 if run.quick else 5, "Tokens": list(range(1, 11)), "PassFlag": pf}
        cfg = make_cfg(consts, invs, [], emit=False, view=None, constraint="EmitCase")
        res = run.tlc("CliArgs", cfg, name=f"CliArgs_pass{int(pf)}", workers=8, timeout_s=900)
        run.model_must_hold(res)
        for c in res.emitted:
            # [] is rendered by ToJson for empty sequences and empty functions alike
            c["argv"] = list(c["argv"]) if c["argv"] else []
            for k in ("args",):
                c["out"]["route"][k] = list(c["out"]["route"][k]) if c["out"]["route"][k] else []
            c["out"]["prep"]["argv"] = list(c["out"]["prep"]["argv"]) if c["out"]["prep"]["argv"] else []
            if pf and 7 not in c["argv"]:
                continue            # the passthrough variant only matters when the flag occurs
            cases.append({"c": c, "pass": pf, "workdir": run.workdir})
    for c, fails in zip(cases, pmap(run_case, cases, chunk=64)):
        cc = {"argv": c["c"]["argv"], "pass": c["pass"]}
        if fails and fails[0][0] == "__guard__":
            run.guarded_out += 1
            continue
        run.traces += 1
        run.case(json.dumps(cc))
        if not fails:
            run.ok("CliArgs.conforms")
        for clause, msg in fails:
            run.fail(clause, {"clause": clause}, cc, msg, replay={"case": {"c": c["c"], "pass": c["pass"]}})
    run.sample({"argv": spell(cases[len(cases) // 2]["c"]["argv"]), "route": cases[len(cases) // 2]["c"]["out"]["route"]}, cap=2)
    run.exhaustive = True


def replay(rep) -> int:
    os.makedirs("/verif/.work/X02", exist_ok=True)
    fails = run_case(dict(rep["replay"]["case"], workdir="/verif/.work/X02"))
    for f in fails:
        print(": ".join(f))
    if fails:
        print(f"VIOLATION property=X02 replay={rep.get('_path', '?')}")
        return 1
    print("replay: conforms")
    return 0
