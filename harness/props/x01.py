"""X01 (extra, beyond the listed properties) — configuration discovery of the CLI.

(M)    Discovery.tla enumerates every combination of candidate states (explicit, $CLEMATIS_CONFIG,
       <cwd>/configs/config.yaml, XDG location; XDG_CONFIG_HOME set / unset / empty) with the
       precedence clauses as invariants.
(S->C)  every enumerated case is materialised as a directory tree under a scratch directory and the
       real discover_config_path is called (several spellings of the same candidate: absolute path,
       $VAR and ~ expansion, trailing slash); selection, source tag, regular-file-ness, purity
       (same answer twice, env mapping untouched) are compared with the spec.
"""
from __future__ import annotations

import json
import os
import shutil
import tempfile
from pathlib import Path
from typing import Any, Dict, List, Tuple

from ..util import make_cfg, pmap

MANIFEST = {
    "technique": "TLA+ decision table of CLI configuration discovery enumerated exhaustively by TLC with the precedence clauses as invariants; every case materialised on disk and replayed on discover_config_path",
    "text": "extra spec beyond the listed properties",
    "note": "not a listed property; run with ./check X01",
}


def _mk(base: Path, state: str, name: str) -> Path:
    """materialise one candidate below base; returns the path the candidate names"""
    p = base / name
    if state == "file":
        p.parent.mkdir(parents=True, exist_ok=True)
        p.write_text("t1: {}\n")
    elif state == "dirwith":
        p.mkdir(parents=True, exist_ok=True)
        (p / "config.yaml").write_text("t1: {}\n")
    elif state == "dirwo":
        p.mkdir(parents=True, exist_ok=True)
        (p / "other.yaml").write_text("x: 1\n")
    elif state == "missing":
        p.parent.mkdir(parents=True, exist_ok=True)
    return p


def _expected_file(p: Path, state: str) -> Path:
    return (p if state == "file" else p / "config.yaml").resolve()


def run_case(case) -> List[Tuple[str, str]]:
    from clematis.cli._config import discover_config_path
    c = case["c"]
    fails: List[Tuple[str, str]] = []
    root = Path(tempfile.mkdtemp(prefix="x01_", dir=case["workdir"]))
    old_home, old_var = os.environ.get("HOME"), os.environ.get("X01_BASE")
    try:
        home, cwd, misc, xdgh = root / "home", root / "cwd", root / "misc", root / "xdghome"
        for d in (home, cwd, misc, xdgh):
            d.mkdir()
        os.environ["HOME"] = str(home)
        os.environ["X01_BASE"] = str(misc)
        ex_p = _mk(misc, c["explicit"], "ex/cfg.yaml" if c["explicit"] in ("file", "missing") else "exdir") if c["explicit"] != "absent" else None
        env_p = _mk(misc, c["env"], "en/my.yaml" if c["env"] in ("file", "missing") else "endir") if c["env"] != "absent" else None
        cwd_p = _mk(cwd, c["cwd"], "configs/config.yaml")
        xdg_base = xdgh if c["xdgvar"] == "set" else home / ".config"
        xdg_p = _mk(xdg_base, c["xdg"], "clematis/config.yaml")
        if c["xdgvar"] != "set":
            # a decoy under the other base must never be consulted
            _mk(xdgh, "file", "clematis/config.yaml")
        spell = case["spell"]

        def sp(p: Path, which: str) -> str:
            s = str(p)
            if spell == 1 and s.startswith(str(misc)):
                s = "$X01_BASE" + s[len(str(misc)):]
            elif spell == 2 and s.startswith(str(misc)) and which == "explicit":
                s = "${X01_BASE}" + s[len(str(misc)):]
            elif spell == 3 and p.is_dir():
                s = s + "/"
            return s
        env: Dict[str, str] = {"UNRELATED": "1"}
        if env_p is not None:
            env["CLEMATIS_CONFIG"] = sp(env_p, "env")
        elif spell % 2:
            env["CLEMATIS_CONFIG"] = ""          # empty = not given
        if c["xdgvar"] == "set":
            env["XDG_CONFIG_HOME"] = str(xdgh)
        elif c["xdgvar"] == "empty":
            env["XDG_CONFIG_HOME"] = ""
        explicit = sp(ex_p, "explicit") if ex_p is not None else (None if spell % 2 == 0 else "")
        env_before = dict(env)
        want = c["out"]
        try:
            got = discover_config_path(explicit, cwd=cwd, env=env)
            got2 = discover_config_path(explicit, cwd=cwd, env=env)
        except Exception as e:      # noqa: BLE001
            return [("DiscoveryTotal", f"{c} spelling {spell}: raised {type(e).__name__}: {e}")]
        where = f"explicit={c['explicit']} env={c['env']} cwd={c['cwd']} xdg={c['xdg']} xdgvar={c['xdgvar']} spelling {spell}"
        if got != got2:
            fails.append(("Deterministic", f"{where}: two calls gave {got} and {got2}"))
        if env != env_before:
            fails.append(("InputsUntouched", f"{where}: the env mapping was changed"))
        path, tag = got
        if tag != want["tag"]:
            fails.append(("SourceTagMatchesSpec", f"{where}: source tag {tag!r}, spec {want['tag']!r}"))
        exp = {"explicit": (ex_p, c["explicit"]), "env": (env_p, c["env"]), "cwd": (cwd_p, c["cwd"]), "xdg": (xdg_p, c["xdg"])}.get(want["sel"])
        if want["sel"] == "none":
            if path is not None:
                fails.append(("SelectionMatchesSpec", f"{where}: selected {path}, spec None"))
        elif want["resolved"]:
            ef = _expected_file(*exp)
            if path is None or Path(path) != ef:
                fails.append(("SelectionMatchesSpec", f"{where}: selected {path}, spec {ef}"))
            elif not Path(path).is_file():
                fails.append(("ResolvedIsRegularFile", f"{where}: selected {path} is not a regular file"))
        else:       # explicit-missing: the path as given (expanded), reported although it does not resolve
            if path is None or os.path.normpath(str(path)) != os.path.normpath(str(exp[0])):
                fails.append(("SelectionMatchesSpec", f"{where}: reported {path}, spec {exp[0]} (as given)"))
        return fails
    finally:
        for k, v in (("HOME", old_home), ("X01_BASE", old_var)):
            if v is None:
                os.environ.pop(k, None)
            else:
                os.environ[k] = v
        shutil.rmtree(root, ignore_errors=True)


def check(run) -> None:
    run.rule = ("every combination of candidate states enumerated by TLC (Discovery.tla) x 4 spellings, materialised on disk and replayed on "
                "discover_config_path; distinct = (case, spelling)")
    invs = ["ExplicitAlwaysWins", "ResolvedIsFirstInOrder", "NoneOnlyWhenNothingResolves", "TagMatchesSelection"]
    cfg = make_cfg({}, invs, [], emit=False, view=None, constraint="EmitCase")
    res = run.tlc("Discovery", cfg, name="Discovery", workers=4, timeout_s=300)
    run.model_must_hold(res)
    cases = [{"c": c, "spell": s, "workdir": run.workdir} for c in res.emitted for s in ((0, 1) if run.quick else (0, 1, 2, 3))]
    if len(res.emitted) != 5 * 5 * 4 * 4 * 3:
        from ..tlc import TLCError
        raise TLCError(f"Discovery enumerated {len(res.emitted)} cases, expected 1200")
    for c, fails in zip(cases, pmap(run_case, cases, chunk=16)):
        run.traces += 1
        cc = {"c": c["c"], "spell": c["spell"]}
        run.case(json.dumps(cc, sort_keys=True))
        if not fails:
            run.ok("Discovery.conforms")
        for clause, msg in fails:
            run.fail(clause, {"clause": clause, "sel": c["c"]["out"]["sel"]}, cc, msg, replay={"case": cc})
    run.sample({"case": cases[len(cases) // 3]["c"]}, cap=2)
    run.exhaustive = True


def replay(rep) -> int:
    os.makedirs("/verif/.work/X01", exist_ok=True)
    fails = run_case(dict(rep["replay"]["case"], workdir="/verif/.work/X01"))
    for f in fails:
        print(": ".join(f))
    if fails:
        print(f"VIOLATION property=X01 replay={rep.get('_path', '?')}")
        return 1
    print("replay: conforms")
    return 0
