"""C14 — batch driver for the validate CLI, run as a *subprocess* with its own PYTHONHASHSEED:

    python -m harness.props.c14_cli <in.json> <out.json>

in.json  = {"docs": [yaml text, ...], "tmp": "<scratch file path>"}
out.json = [[exit_code | "crash:<Type>", [stdout lines]], ...]

Every document is written to the scratch file and handed to the real command-line entry point
(clematis.scripts.validate.main, the function `python -m clematis.scripts.validate FILE` and
`python -m clematis validate` run) exactly as the operator would: argv = [prog, path].  Batching only
amortises interpreter start-up; nothing of the CLI is re-implemented here.
"""
from __future__ import annotations

import contextlib
import io
import json
import os
import sys


def main(argv) -> int:
    with open(argv[1]) as f:
        job = json.load(f)
    os.chdir(os.path.dirname(job["tmp"]))
    from clematis.scripts import validate as cli
    out = []
    for text in job["docs"]:
        with open(job["tmp"], "w", encoding="utf-8") as f:
            f.write(text)
        buf, err = io.StringIO(), io.StringIO()
        try:
            with contextlib.redirect_stdout(buf), contextlib.redirect_stderr(err):
                rc = cli.main(["validate_config.py", job["tmp"]])
        except SystemExit as e:
            rc = e.code if isinstance(e.code, int) else 2
        except BaseException as e:      # what the operator would see as a traceback
            rc = f"crash:{type(e).__name__}"
        out.append([rc, buf.getvalue().splitlines()])
    with open(argv[2], "w") as f:
        json.dump({"seed": os.environ.get("PYTHONHASHSEED"), "results": out}, f)
    return 0


if __name__ == "__main__":
    sys.exit(main(sys.argv))
