"""C20 — optional subsystems fail soft: a turn always completes.

(M)    Turn.tla with every declared fail-soft site as a possible fault (singles, pairs in thorough) and
       all optional subsystems live (GEL + maintenance, reflection requested and allowed): a fault has
       the effect of the subsystem being idle; TurnCompletes, YieldOnlyAtBoundary, VersionDiscipline,
       NoWriteOnError as invariants.  TLC enumerates the fault sets and predicts the record sequence.
(S->C)  each fault set is injected at the callees of the sites (DESIGN §2.3 seams) for a range of
       exception types and, for the boot loader, garbage snapshot contents; the run is compared with
       the idle baseline the spec defines for the site: run_turn returns, the record sequence equals the
       spec's, and the canonical T1/T2/T4/apply/turn records equal those of the baseline.
"""
from __future__ import annotations

import copy
import json
import os
import shutil
import tempfile
from typing import Any, Callable, Dict, List, Tuple

from ..util import make_cfg, pmap

MANIFEST = {
    "technique": "TLA+ turn-pipeline spec (Turn.tla) with a fault disjunct per declared fail-soft site (effect = subsystem idle), model-checked with TLC over fault singles/pairs; each fault set injected into the real run_turn at the site's callee for many exception types / garbage snapshot contents and compared with the spec's record sequence and with the idle baseline run; step-wise spec of the boot-time store import (BootImport.tla, atomicity invariant, in-place control model refuted) with every terminal state replayed through the boot hook",
    "text": "Model checking of the turn state machine under every single fault (and pairs in the thorough tier) at the declared fail-soft sites with all optional subsystems live, bound to the code by fault injection at the callee of each site (boot snapshot loading incl. garbage files, GEL merge/split/promotion, reflection compute/write/log, LLM adapter construction, hybrid rerank, fusion, MMR, quality trace, T3 trace, cache invalidation, store batch/single apply, sidecar write) and differential comparison of the canonical records with the idle baseline.",
    "note": "Only Exception subclasses are injected (the engine's guards are `except Exception`). The idle baseline for store errors is a store whose apply does nothing. One small world per site; exception types cycle over 8 classes.",
}

CANON = ("t1.jsonl", "t2.jsonl", "t4.jsonl", "apply.jsonl", "turn.jsonl")


class VerifError(Exception):
    pass


EXCS = {"RuntimeError": RuntimeError, "ValueError": ValueError, "TypeError": TypeError, "KeyError": KeyError, "OSError": OSError,
        "MemoryError": MemoryError, "ZeroDivisionError": ZeroDivisionError, "Custom": VerifError}

GARBAGE = {
    "empty": b"", "truncated": b'{"version_etag": "7", "store": {"weights": {"n:apple": 0.5', "list": b"[1, 2, 3]", "scalar": b"42",
    "string": b'"state"', "foreign": b'{"hello": {"world": [1, 2]}, "nodes": 3}', "binary": bytes(range(256)) * 4,
    "huge": b"[" + b"0," * 200000 + b"0]", "nulls": b'{"gel": null, "store": null, "graph": null}',
    "wrongtypes": b'{"gel": {"edges": [1, "x", null], "nodes": 5}, "store": [1, 2]}',
}

def _pr34_garbage(kind: str, d: str) -> None:
    """unusable files in the header+payload format of the real delta-capable writer: a delta whose baseline (and full
    sibling) is gone, and a readable header followed by a payload that is valid JSON but not an object"""
    from clematis.engine import snapshot as S
    os.makedirs(d, exist_ok=True)
    if kind == "pr34_orphan_delta":
        S.write_snapshot_auto(d, etag_from=None, etag_to="41", payload={"version_etag": "41", "store": {"weights": []}}, compression="none", delta_mode=False)
        S.write_snapshot_auto(d, etag_from="41", etag_to="42", payload={"version_etag": "42", "store": {"weights": []}, "x": 1}, compression="none", delta_mode=True)
        for n in os.listdir(d):
            if "41" in n:
                os.unlink(os.path.join(d, n))
    else:
        p, _ = S.write_snapshot_auto(d, etag_from=None, etag_to="18", payload={"version_etag": "18"}, compression="none", delta_mode=False)
        with open(p, "rb") as f:
            head = f.read().split(b"\n", 1)[0]
        with open(p, "wb") as f:
            f.write(head + b"\n[1, 2, 3]\n")


# site -> what makes it live (cfg / session options) and the idle baseline
SITES = {
    "boot_raise": {}, "boot_garbage": {},
    "gel_merge": {"inp": {"graph": True, "maint": True}}, "gel_split": {"inp": {"graph": True, "maint": True}},
    "gel_promo": {"inp": {"graph": True, "maint": True}},
    "refl_compute": {"inp": {"allow_refl": True, "plan_refl": True}}, "refl_write": {"inp": {"allow_refl": True, "plan_refl": True}},
    "refl_log": {"inp": {"allow_refl": True, "plan_refl": True}},
    "llm_adapter": {"cfg": {"t3": {"backend": "llm"}}, "idle_cfg": {"t3": {"backend": "rulebased"}}},
    "hybrid": {"cfg": {"t2": {"hybrid": {"enabled": True}}}, "idle_cfg": {"t2": {"hybrid": {"enabled": False}}}},
    "fusion": {"cfg": {"perf": {"enabled": True, "metrics": {"report_memory": True}}, "t2": {"quality": {"enabled": True}}},
               # idle = the layer enabled but neutral: alpha_semantic = 1 preserves the semantic order
               "idle_cfg": {"perf": {"enabled": True, "metrics": {"report_memory": True}},
                            "t2": {"quality": {"enabled": True, "fusion": {"alpha_semantic": 1.0}}}}, "mask_prefix": "t2q."},
    "mmr": {"cfg": {"perf": {"enabled": True, "metrics": {"report_memory": True}}, "t2": {"quality": {"enabled": True, "mmr": {"enabled": True}}}},
            "idle_cfg": {"perf": {"enabled": True, "metrics": {"report_memory": True}}, "t2": {"quality": {"enabled": True, "mmr": {"enabled": False}}}}},
    # (no mask for MMR: idle = the same layer with MMR switched off, whose record carries the same t2q.* keys)
    "quality_trace": {"cfg": {"perf": {"enabled": True, "metrics": {"report_memory": True}}, "t2": {"quality": {"enabled": False, "shadow": True}}},
                      "idle_cfg": {"perf": {"enabled": True, "metrics": {"report_memory": True}}, "t2": {"quality": {"enabled": False, "shadow": False}}}},
    # "t3_trace": its gate (perf.metrics.enabled + t3.trace.enabled) consists of keys the validator rejects, so the
    # site is unreachable under validated configurations; exercised through emit_trace directly in run_t3_trace_case
    "cache_invalidate": {"cfg": {"t4": {"cache_bust_mode": "on-apply"}}, "idle_cfg": {"t4": {"cache_bust_mode": "none"}}},
    # a store whose batch call fails but whose per-delta calls succeed has done the work: the count of applied
    # deltas legitimately differs from the do-nothing store; everything else must be equal
    "store_batch": {"deltas": True, "mask_prefix": "applied"}, "store_single": {"deltas": True, "mask_prefix": "applied"},
    # the sidecar writer is guarded twice (inside the writer around the file write, and at its call site): faults
    # at the file write, at the timestamp helper (before the inner guard) and at the writer itself
    "sidecar": {}, "sidecar_stamp": {}, "sidecar_fn": {},
}
# a malformed t3.llm section is itself a cause of adapter construction failure (the engine also runs on configurations
# that were not normalised by the validator); set after validation
LLM_JUNK = {"str": "ollama", "list": ["fixture", {"path": "/nonexistent"}], "num": 7}


def _canon(records, snapdir, mask_prefixes=()):
    from .. import engine as E
    out = []
    for s, p in records:
        if s in CANON:
            r = E.canon_record(s, p)
            for k in [k for k in r if any(k.startswith(m) for m in mask_prefixes)]:
                r.pop(k)
            for k in ("ms", "now", "durations_ms"):
                r.pop(k, None)
            if isinstance(r.get("snapshot"), str):
                r["snapshot"] = os.path.basename(r["snapshot"])
            out.append((s, json.dumps(r, sort_keys=True, default=str)))
    return out


class _BadList(list):
    def __init__(self, exc):
        super().__init__()
        self._exc = exc

    def append(self, x):
        raise self._exc("verif: logs.append")


def _patches_for(sites, exc, session):
    """context managers injecting `exc` at the callee of each site"""
    from .. import engine as E
    import clematis.engine.orchestrator.core as core
    import clematis.engine.stages.t2.quality as Q
    import clematis.engine.snapshot as S

    hits = session.__dict__.setdefault("fault_hits", {})

    def mkboom(site):
        def boom(*a, **k):
            hits[site] = hits.get(site, 0) + 1
            raise exc("verif: injected fault")
        return boom
    ps = []
    for site in sites:
        boom = mkboom(site)
        if site == "boot_raise":
            ps.append(E.patched_attr(core, load_latest_snapshot=boom))
        elif site == "gel_merge":
            ps.append(E.patched_attr(core, gel_merge_candidates=boom))
        elif site == "gel_split":
            ps.append(E.patched_attr(core, gel_split_candidates=boom))
        elif site == "gel_promo":
            ps.append(E.patched_attr(core, gel_promote_clusters=boom))
        elif site == "llm_adapter":
            ps.append(E.patched_attr(core, build_llm_adapter=boom))
        elif site == "hybrid":
            ps.append(E.patched_attr(Q, rerank_with_gel=boom))
        elif site == "fusion":
            import clematis.engine.stages.t2.quality_ops as QO
            ps.append(E.patched_attr(QO, fuse=boom))
        elif site == "mmr":
            import clematis.engine.stages.t2.quality_ops as QO
            ps.append(E.patched_attr(QO, maybe_apply_mmr=boom))
        elif site == "quality_trace":
            ps.append(E.patched_attr(Q, _emit_quality_trace=boom))
        elif site == "t3_trace":
            session.state["logs"] = _BadList(exc)
        elif site == "cache_invalidate":
            from clematis.engine.cache import CacheManager

            class BadCM(CacheManager):
                def invalidate_namespace(self, ns):
                    hits["cache_invalidate"] = hits.get("cache_invalidate", 0) + 1
                    raise exc("verif: invalidate")
            if type(session.state.get("_cache_mgr")).__name__ != "BadCM":
                session.state["_cache_mgr"] = BadCM(max_entries=64, ttl_sec=600)
        elif site == "sidecar":
            real = S.atomic_write_text

            def aw(path, *a, **k):
                if str(path).endswith(".meta"):
                    hits["sidecar"] = hits.get("sidecar", 0) + 1
                    raise exc("verif: sidecar")
                return real(path, *a, **k)
            ps.append(E.patched_attr(S, atomic_write_text=aw))
        elif site == "sidecar_stamp":
            ps.append(E.patched_attr(S, _deterministic_created_at=boom))
        elif site == "sidecar_fn":
            ps.append(E.patched_attr(S, _write_sidecar_meta=boom))
    return ps


def _deltas():
    from clematis.engine.types import ProposedDelta
    return [ProposedDelta("node", "n:apple", "weight", 0.125, op_idx=None, idx=0), ProposedDelta("node", "n:banana", "weight", 0.125, op_idx=None, idx=1)]


class _NoopStore:
    def __init__(self, inner):
        self.inner = inner

    def apply_deltas(self, gid, deltas):
        return {"edits": 0, "clamps": 0}

    def __getattr__(self, n):
        return getattr(self.inner, n)


def run_case(case) -> List[Tuple[str, str]]:
    from ..turnrun import Session
    from .. import engine as E
    os.environ["CI"] = "true"
    sites = list(case["sites"])
    exc = EXCS[case["exc"]]
    fails: List[Tuple[str, str]] = []
    work = tempfile.mkdtemp(prefix="c20_", dir=case["workdir"])
    try:
        cfg_f, cfg_i, inp = {}, {}, {"faults": [], "ops_cap": 5}
        if case.get("live") == "gel_hybrid":
            # GEL and the hybrid rerank live in BOTH runs: what the graph learns in one turn shows in the next turn's
            # t2 record, so a fault that makes a subsystem disturb the graph between turns becomes visible in the records
            for c_ in (cfg_f, cfg_i):
                c_.update({"t2": {"hybrid": {"enabled": True, "anchor_top_m": 2, "walk_hops": 2, "edge_threshold": 0.0, "lambda_graph": 1.0, "max_bonus": 0.5}},
                           "graph": {"coactivation_threshold": 0.0, "observe_top_k": 4}})
            inp["graph"] = True
        need_deltas = False
        for s in sites:
            d = SITES[s]
            cfg_f = E.deep_merge(cfg_f, d.get("cfg", {}))
            cfg_i = E.deep_merge(cfg_i, d.get("idle_cfg", d.get("cfg", {})))
            inp.update(d.get("inp", {}))
            need_deltas = need_deltas or d.get("deltas", False)
        # sites not under test keep their subsystem configured identically in both runs
        for s in sites:
            if "idle_cfg" not in SITES[s]:
                cfg_i = E.deep_merge(cfg_i, SITES[s].get("cfg", {}))
        boot = any(s.startswith("boot") for s in sites)
        gel_graph = {"nodes": {"ep0": {"id": "ep0"}, "ep1": {"id": "ep1"}, "ep2": {"id": "ep2"}},
                     "edges": {"ep0→ep1": {"id": "ep0→ep1", "src": "ep0", "dst": "ep1", "weight": 0.8, "rel": "coact", "attrs": {}},
                               "ep1→ep2": {"id": "ep1→ep2", "src": "ep1", "dst": "ep2", "weight": 0.6, "rel": "coact", "attrs": {}}},
                     "meta": {"schema": "v1.1", "merges": [], "splits": [], "promotions": [], "concept_nodes_count": 0, "edges_count": 2}}

        wsel = case.get("world", 0)
        wtext = ["I like apple and banana", "cherry pie and dates, please", ""][wsel]

        def mk(name, cfg, faulty):
            eps_ = None if wsel != 2 else []
            if case.get("live"):
                # memories that are co-retrieved with a positive score, so that the GEL graph learns edges in the first turn
                eps_ = [E.mk_episode(f"ep{j}", ["A", "A", "B", "world"][j], wtext, ts=f"2025-08-{10 + j:02d}T00:00:00Z", importance=0.5, cluster="c0")
                        for j in range(4)]
            s = Session(os.path.join(work, name), base_cfg=cfg, exc=exc, boot_loaded=not boot, text=wtext, episodes=eps_)
            if not (boot and case.get("live")):
                s.state["graph"] = copy.deepcopy(gel_graph)
                s.state["gel"] = s.state["graph"]
            # (a state that is about to boot has learnt nothing yet: in the live-GEL boot cases the graph starts empty in
            # both runs and is learnt through the turns' own observations)
            if need_deltas:
                st = E.RecordingStore(inner=s.state["store"])
                if faulty:
                    st.batch_raises = True
                    st.single_raises = {"n:apple"} if "store_single" in sites else set()
                    st.exc = exc
                    s.state["store"] = st
                else:
                    s.state["store"] = _NoopStore(s.state["store"])
            if boot and faulty and "boot_garbage" in sites:
                os.makedirs(s.snapdir, exist_ok=True)
                # (in the live cases the garbage is a numbered snap_* file: discovery prefers it, and the turn's own
                # state_A.json snapshot does not overwrite it, so every later boot attempt meets it again)
                if str(case["garbage"]).startswith("pr34_"):
                    _pr34_garbage(case["garbage"], s.snapdir)
                else:
                    with open(os.path.join(s.snapdir, "snap_000007.json" if case.get("live") else "state_A.json"), "wb") as f:
                        f.write(GARBAGE[case["garbage"]])
            return s
        sF, sI = mk("faulty", cfg_f, True), mk("idle", cfg_i, False)
        if case.get("llm_junk"):
            sF.post_cfg = {("t3", "llm"): LLM_JUNK[case["llm_junk"]]}
        spec_faults = [f for f in sites if f in ("refl_compute", "refl_write", "refl_log")]     # injected by the turn runner itself
        inp_f = dict(inp, faults=spec_faults, plan_deltas=_deltas() if need_deltas else None)
        # idle baseline: the subsystem under test switched off
        inp_i = dict(inp, faults=[], plan_deltas=_deltas() if need_deltas else None)
        if any(s.startswith("gel_") for s in sites):
            inp_i["maint"] = False
        if any(s.startswith("refl_") for s in sites):
            inp_i["allow_refl"] = False
        for turn in range(3 if case.get("live") else 2):
            if need_deltas and isinstance(sF.state["store"], E.RecordingStore):
                sF.state["store"].new_turn(batch_raises=True, single_raises={"n:apple"} if "store_single" in sites else set())
            oF = sF.run(inp_f, extra_patches=lambda i, _s=sF: _patches_for(sites, exc, _s))
            oI = sI.run(inp_i)
            where = f"sites={sites} exc={case['exc']} garbage={case.get('garbage')} llm_junk={case.get('llm_junk')} turn {turn + 1}"
            if oF["raised"]:
                fails.append(("TurnCompletes", f"{where}: run_turn raised {oF['raised']}"))
                break
            if oI["raised"]:
                from ..tlc import TLCError
                raise TLCError(f"idle baseline raised: {oI['raised']} ({where})")
            if not oF["log"] or oF["log"][-1] != "turn":
                fails.append(("TurnCompletes", f"{where}: no final turn record: {oF['log']}"))
            want = case.get("log")
            if want is not None and turn == 0:
                got = [x for x in oF["log"] if x not in ("t3_filter",)]
                if got != list(want):
                    fails.append(("RecordSequence", f"{where}: records {got}, spec {list(want)}"))
            masks = tuple(SITES[s]["mask_prefix"] for s in sites if "mask_prefix" in SITES[s])
            cF, cI = _canon(oF["records"], sF.snapdir, masks), _canon(oI["records"], sI.snapdir, masks)
            if cF != cI:
                k = next((i for i, (a, b) in enumerate(zip(cF, cI)) if a != b), min(len(cF), len(cI)))
                fails.append(("CanonicalRecordsEqualIdle", f"{where}: canonical records differ from the idle baseline at #{k}: "
                              f"{cF[k] if k < len(cF) else None} vs {cI[k] if k < len(cI) else None}"))
            if fails:
                break
        if not fails:
            hits = getattr(sF, "fault_hits", {})
            for s_ in sites:
                if s_ in ("boot_garbage", "store_batch", "store_single", "refl_compute", "refl_write", "refl_log", "t3_trace"):
                    continue        # exercised by construction (file present / store double / turnrun faults)
                if hits.get(s_, 0) == 0 and len(sites) == 1:
                    fails.append(("__not_exercised__", f"site {s_} was never reached in {sites}"))
        return fails
    finally:
        shutil.rmtree(work, ignore_errors=True)


# ---- structured garbage for the boot loader: a real snapshot with one subtree replaced by junk ----------------
JUNK = [None, 5, "junk", [1, "x"], {"x": 1}, True, -0.5]


def _paths(obj, pre=()):
    out = [pre] if pre else []
    if isinstance(obj, dict):
        for k in sorted(obj):
            out += _paths(obj[k], pre + (k,))
    return out


def _set_path(obj, path, val):
    for k in path[:-1]:
        obj = obj[k]
    obj[path[-1]] = val


_SIDECAR: Dict[str, Any] = {"text": None}      # the sidecar the real writer put next to that snapshot


def real_snapshot_body(workdir) -> dict:
    """a snapshot as the real writer produces it (GEL on, two observed edges, maintenance metadata)"""
    from ..turnrun import Session
    work = tempfile.mkdtemp(prefix="c20snap_", dir=workdir)
    try:
        s = Session(os.path.join(work, "w"), base_cfg={})
        s.state["graph"] = {
            "nodes": {"ep0": {"id": "ep0", "label": "zero", "attrs": {"kind": "episode"}}, "ep1": {"id": "ep1"}, "ep2": {"id": "ep2"}},
            "edges": {"ep0→ep1": {"id": "ep0→ep1", "src": "ep0", "dst": "ep1", "weight": 0.8, "rel": "coact", "updated_at": "2025-09-01T00:00:00Z",
                                   "attrs": {"coact": 2, "last_seen_turn": 1}},
                      "ep1→ep2": {"id": "ep1→ep2", "src": "ep1", "dst": "ep2", "weight": 0.6, "rel": "coact", "attrs": {}}},
            "meta": {"schema": "v1.1", "merges": [["ep0", "ep1"]], "splits": [], "promotions": [], "concept_nodes_count": 0, "edges_count": 2}}
        s.state["gel"] = s.state["graph"]
        o = s.run({"graph": True, "maint": True})
        assert not o["raised"], o["raised"]
        with open(os.path.join(s.snapdir, "state_A.json")) as f:
            body_ = json.load(f)
        try:
            with open(os.path.join(s.snapdir, "state_A.json.meta")) as f:
                _SIDECAR["text"] = f.read()
        except OSError:
            _SIDECAR["text"] = None
        return body_
    finally:
        shutil.rmtree(work, ignore_errors=True)


def semi_garbage_case(case) -> List[Tuple[str, str]]:
    """the boot loader meets a well-formed snapshot in which one subtree is junk; GEL and its maintenance passes
    are live, so whatever the loader lets through is consumed by them: the turns must still complete"""
    from ..turnrun import Session
    os.environ["CI"] = "true"
    work = tempfile.mkdtemp(prefix="c20sg_", dir=case["workdir"])
    try:
        body = copy.deepcopy(case["body"])
        _set_path(body, tuple(case["path"]), copy.deepcopy(case["junk"]))
        from .. import engine as E
        # the memories ep0..ep3 are retrieved together on every turn, so whatever the loader let through for the edges
        # between them is read by the GEL observation of the very first turn
        eps_ = [E.mk_episode(f"ep{j}", ["A", "A", "B", "world"][j], "I like apple and banana", ts=f"2025-08-{10 + j:02d}T00:00:00Z", importance=0.5, cluster="c0")
                for j in range(4)]
        s = Session(os.path.join(work, "w"), base_cfg={"graph": {"coactivation_threshold": 0.0, "observe_top_k": 4}, "t2": {"sim_threshold": -1.0, "owner_scope": "any"}},
                    boot_loaded=False, episodes=eps_)
        os.makedirs(s.snapdir, exist_ok=True)
        with open(os.path.join(s.snapdir, "state_A.json"), "w") as f:
            json.dump(body, f)
        if case.get("sidecar"):
            # the writer's own sidecar of the undamaged snapshot is still lying next to the damaged body (a body rewritten by
            # hand or by another tool): what the sidecar says vouches for nothing in the body
            with open(os.path.join(s.snapdir, "state_A.json.meta"), "w") as f:
                f.write(case["sidecar"])
        for turn in range(2):
            o = s.run({"graph": True, "maint": bool(case.get("maint", True))})
            where = f"snapshot with {'.'.join(case['path'])} = {case['junk']!r}{' (genuine sidecar present)' if case.get('sidecar') else ''}, turn {turn + 1}"
            if o["raised"]:
                return [("TurnCompletes", f"{where}: run_turn raised {o['raised']}")]
            if not o["log"] or o["log"][-1] != "turn":
                return [("TurnCompletes", f"{where}: no final turn record: {o['log']}")]
        return []
    finally:
        shutil.rmtree(work, ignore_errors=True)


def check(run) -> None:
    q = run.quick
    run.rule = ("every fault set (singles; pairs in thorough) over the declared fail-soft sites x exception types (x garbage contents for the boot loader), "
                "2 turns each, against the idle baseline; distinct = (sites, exception, garbage)")
    model_sites = ["gel_maint", "refl_compute", "refl_write", "refl_log", "other1", "other2"]
    consts = {"MaxTurns": 1, "Vary": [], "ForceOn": ["graph", "maint", "allow_refl", "plan_refl"], "FaultSites": model_sites,
              "MaxFaults": 2, "StashCleared": True}
    invs = ["YieldOnlyAtBoundary", "TurnCompletes", "NoArtefact", "NothingWhenClosed", "EntriesWithinOps", "NoWriteOnError", "VersionDiscipline"]
    cfg = make_cfg(consts, invs, [], emit=False, view=None, constraint="EmitDone")
    res = run.tlc("Turn", cfg, name="Turn_faults", workers=8, timeout_s=900)
    run.model_must_hold(res)
    spec_log = {}
    for b in res.emitted:
        st = b["h"][0]
        spec_log[tuple(sorted(st["inp"]["faults"]))] = st["log"]
    names = sorted(SITES)
    excs = sorted(EXCS)
    cases = []

    def add(sites, exc, garbage=None):
        c = {"sites": list(sites), "exc": exc, "workdir": run.workdir}
        if garbage:
            c["garbage"] = garbage
        # the spec's record sequence applies when all optional subsystems are live
        cases.append(c)
    n = 0
    for s in names:
        if s == "boot_garbage":
            for g in sorted(GARBAGE) + ["pr34_orphan_delta", "pr34_foreign_payload"]:
                add([s], "RuntimeError", g)
            continue
        for e in (excs if not q else [excs[n % len(excs)], excs[(n + 3) % len(excs)], excs[(n + 5) % len(excs)]]):
            add([s], e)
            if not q:
                for w in (1, 2):
                    cases.append({"sites": [s], "exc": e, "workdir": run.workdir, "world": w})
        n += 1
    for k_, bs in enumerate(["boot_raise"] + [("boot_garbage", g) for g in ("list", "scalar", "wrongtypes", "foreign")]):
        c = {"sites": [bs] if isinstance(bs, str) else [bs[0]], "exc": excs[k_ % len(excs)], "workdir": run.workdir, "live": "gel_hybrid"}
        if not isinstance(bs, str):
            c["garbage"] = bs[1]
        cases.append(c)
    for j in sorted(LLM_JUNK):
        cases.append({"sites": ["llm_adapter"], "exc": excs[len(cases) % len(excs)], "workdir": run.workdir, "llm_junk": j})
    if not q:
        k = 0
        for i, a in enumerate(names):
            for b in names[i + 1:]:
                if "boot_garbage" in (a, b) and "boot_raise" in (a, b):
                    continue
                if "quality_trace" in (a, b) and ({"fusion", "mmr"} & {a, b}):
                    continue      # shadow tracing requires quality.enabled = false, fusion/MMR require it true
                k += 1
                for j in range(len(excs)):
                    add([a, b], excs[(k + j) % len(excs)], sorted(GARBAGE)[(k + j) % len(GARBAGE)] if "boot_garbage" in (a, b) else None)
                    if j < 3:
                        cases.append(dict(cases[-1], world=1 + (k + j) % 2))
        # triples of sites (one exception type and one world each, rotating)

        def compatible(group):
            g = set(group)
            if {"boot_garbage", "boot_raise"} <= g:
                return False
            if "quality_trace" in g and ({"fusion", "mmr"} & g):
                return False
            return True
        import itertools
        for k3, tri in enumerate(itertools.combinations(names, 3)):
            if not compatible(tri):
                continue
            add(list(tri), excs[k3 % len(excs)], sorted(GARBAGE)[k3 % len(GARBAGE)] if "boot_garbage" in tri else None)
            if k3 % 3 == 0:
                cases[-1]["world"] = 1 + (k3 // 3) % 2
    # attach the spec's predicted record sequence for vectors whose live set matches the model (all on)
    outs = pmap(run_case, cases, chunk=2)
    for c, fails in zip(cases, outs):
        run.traces += 1
        cc = {k: v for k, v in c.items() if k != "workdir"}
        run.case(json.dumps(cc, sort_keys=True))
        if not fails:
            run.ok("FailSoft.conforms")
        for clause, msg in fails:
            if clause == "__not_exercised__":
                from ..tlc import TLCError
                raise TLCError("C20 harness: " + msg)
            run.fail(clause, {"clause": clause, "sites": sorted(c["sites"])}, cc, msg, replay={"case": cc})
    # structured garbage: every subtree of a real snapshot replaced by every junk value, GEL live
    body = real_snapshot_body(run.workdir)
    paths = _paths(body)
    sg_cases = [{"path": list(pth), "junk": j, "body": body, "workdir": run.workdir, "maint": (i + k) % 2 == 0}
                for i, pth in enumerate(paths) for k, j in enumerate(JUNK) if not q or (i + k) % 2 == 0]
    if _SIDECAR["text"]:
        sg_cases += [dict(c_, sidecar=_SIDECAR["text"]) for c_ in sg_cases if c_["path"] and c_["path"][0] in ("gel", "graph")]
    run.extra["snapshot_subtrees_mutated"] = len(paths)
    for c, fails in zip(sg_cases, pmap(semi_garbage_case, sg_cases, chunk=4)):
        run.traces += 1
        cc = {k: v for k, v in c.items() if k not in ("workdir", "body")}
        run.case(("semi_garbage", json.dumps(cc, sort_keys=True)))
        if not fails:
            run.ok("FailSoft.structured_garbage_snapshot_tolerated")
        for clause, msg in fails:
            run.fail(clause, {"clause": clause, "sites": ["boot_structured_garbage"], "path": ".".join(c["path"][-1:])}, cc, msg,
                     replay={"semi": dict(cc, body=c["body"])})
    # record-sequence conformance with all optional subsystems live (spec vector) for the sites the spec models
    seq_cases = []
    for fs, log in sorted(spec_log.items()):
        real_sites = []
        ok = True
        for f in fs:
            if f == "gel_maint":
                real_sites.append("gel_merge")
            elif f.startswith("refl_"):
                real_sites.append(f)
            else:
                ok = False
        if ok:
            seq_cases.append({"sites": real_sites, "exc": "Custom", "workdir": run.workdir, "log": log, "all_live": True})
    for c, fails in zip(seq_cases, pmap(run_seq_case, seq_cases, chunk=1, procs=8)):
        run.traces += 1
        run.case(("seq", json.dumps(c["sites"])))
        if not fails:
            run.ok("FailSoft.record_sequence_conforms")
        for clause, msg in fails:
            run.fail(clause, {"clause": clause, "sites": sorted(c["sites"])}, {k: v for k, v in c.items() if k != "workdir"}, msg,
                     replay={"seq": {k: v for k, v in c.items() if k != "workdir"}})
    boot_import_part(run)
    quality_junk_part(run)
    run.sample({"fault_case": {k: v for k, v in cases[0].items() if k != "workdir"}}, cap=2)
    run.sample({"spec_vector": seq_cases[0]["sites"], "log": seq_cases[0]["log"]} if seq_cases else {}, cap=3)
    run.exhaustive = True
    run.assumptions += ["faults are injected at the callee of each declared site through module-level seams", "Exception subclasses only"]


def run_seq_case(case) -> List[Tuple[str, str]]:
    """all optional subsystems live (graph+maint, reflection allowed+requested): record sequence vs Turn.tla"""
    from ..turnrun import Session
    os.environ["CI"] = "true"
    work = tempfile.mkdtemp(prefix="c20s_", dir=case["workdir"])
    try:
        s = Session(os.path.join(work, "s"), exc=EXCS[case["exc"]])
        spec_faults = ["gel_maint" if x == "gel_merge" else x for x in case["sites"]]
        o = s.run({"graph": True, "maint": True, "allow_refl": True, "plan_refl": True, "ops_cap": 5, "faults": spec_faults})
        if o["raised"]:
            return [("TurnCompletes", f"sites={case['sites']}: run_turn raised {o['raised']}")]
        if o["log"] != list(case["log"]):
            return [("RecordSequence", f"sites={case['sites']}: records {o['log']}, spec {list(case['log'])}")]
        return []
    finally:
        shutil.rmtree(work, ignore_errors=True)


def replay(rep) -> int:
    r = rep["replay"]
    os.makedirs("/verif/.work/C20", exist_ok=True)
    if "case" in r:
        fails = run_case(dict(r["case"], workdir="/verif/.work/C20"))
    elif "semi" in r:
        fails = semi_garbage_case(dict(r["semi"], workdir="/verif/.work/C20"))
    elif "quality_junk" in r:
        fails = quality_junk_case(dict(r["quality_junk"], workdir="/verif/.work/C20"))
    elif "boot_import" in r:
        fails = boot_import_case(dict(r["boot_import"], workdir="/verif/.work/C20"))
    else:
        fails = run_seq_case(dict(r["seq"], workdir="/verif/.work/C20"))
    for f in fails:
        print(": ".join(f))
    if fails:
        print(f"VIOLATION property=C20 replay={rep.get('_path', '?')}")
        return 1
    print("replay: conforms")
    return 0


# ---- BootImport.tla: the store section of a snapshot is imported atomically ---------------------------------------
_BI_JUNK = [None, "x", 7, {"target_id": "k", "value": "abc"}, {"target_id": "k", "value": None}, {"target_id": "k", "value": [1]}, ["k", 2.0]]


def boot_import_case(case) -> List[Tuple[str, str]]:
    """a terminal state of BootImport.tla on the real boot hook: the store keeps a `.w` weight map (the
    snapshot writer's fallback shape), the snapshot carries store.weights with the damaged items the model chose;
    after the boot turn the map must be the model's (the map before boot, or the complete snapshot map)"""
    from ..turnrun import Session
    os.environ["CI"] = "true"
    t = case["t"]
    work = tempfile.mkdtemp(prefix="c20bi_", dir=case["workdir"])
    try:
        s = Session(os.path.join(work, "w"), base_cfg={}, boot_loaded=False)
        store = s.state["store"]
        store.w = {("node", k, "weight"): 1.0 for k in t["prior"]}
        items = []
        for j, it in enumerate(t["items"]):
            if it["ok"]:
                items.append({"target_kind": "node", "target_id": it["key"], "attr": "weight", "value": 2.0})
            else:
                junk = copy.deepcopy(_BI_JUNK[(case["junk"] + j) % len(_BI_JUNK)])
                if isinstance(junk, dict):
                    junk["target_id"] = it["key"]
                items.append(junk)
        body = {"schema_version": "v1", "version_etag": "0", "store": {"weights": items}}
        if case.get("via") == "numbered":
            name = "snap_000001.json"
        else:
            name = "state_A.json"
        os.makedirs(s.snapdir, exist_ok=True)
        with open(os.path.join(s.snapdir, name), "w") as f:
            json.dump(body, f)
        where = f"boot with store.weights={items!r} over a store holding {sorted(t['prior'])}"
        if case.get("direct"):
            import clematis.engine.snapshot as S
            try:
                S._import_store_from_snapshot(store, body["store"])
            except Exception as e:
                return [("TurnCompletes", f"{where}: _import_store_from_snapshot raised {type(e).__name__}: {e}")]
        else:
            o = s.run({})
            if o["raised"]:
                return [("TurnCompletes", f"{where}: run_turn raised {o['raised']}")]
            if not o["log"] or o["log"][-1] != "turn":
                return [("TurnCompletes", f"{where}: no final turn record: {o['log']}")]
        got = {k[1]: v for k, v in store.w.items()}
        want = {k: float(v) for k, v in (t["w"].items() if isinstance(t["w"], dict) else [])}
        if got != want:
            return [("CanonicalRecordsEqualIdle", f"{where}: the store's weight map after boot is {got}; the model ({t['pc']}) says {want} "
                                                  f"(a failed import must leave the store as the idle run has it)")]
        return []
    finally:
        shutil.rmtree(work, ignore_errors=True)


def boot_import_part(run) -> None:
    from ..tlc import TLCError
    q = run.quick
    consts = {"Keys": ["ka", "kb", "kc"], "MaxItems": 3, "InPlace": False}
    invs = ["FailedImportIsIdle", "IntactImportIsComplete", "NeverAMixture", "AtomicImport"]
    cfg = make_cfg(consts, invs, [], emit=False, view=None, constraint="EmitTerminal")
    res = run.tlc("BootImport", cfg, name="BootImport", workers=8, timeout_s=600)
    run.model_must_hold(res)
    cfg2 = make_cfg(dict(consts, InPlace=True), ["AtomicImport"], [], emit=False, view=None)
    res2 = run.tlc("BootImport", cfg2, name="BootImport_in_place_control", workers=4, timeout_s=600)
    if res2.violation is None:
        raise TLCError("BootImport.tla with InPlace=TRUE should violate AtomicImport")
    run.ok("Model.in_place_import_refuted")
    cases = []
    for n, t in enumerate(res.emitted):
        if q and n % 5 and all(it["ok"] for it in t["items"]):
            continue
        cases.append({"t": t, "junk": n % len(_BI_JUNK), "direct": n % 3 == 0, "via": "numbered" if n % 4 == 1 else "state", "workdir": run.workdir})
    for c, fails in zip(cases, pmap(boot_import_case, cases, chunk=8)):
        run.traces += 1
        cc = {k: v for k, v in c.items() if k != "workdir"}
        run.case(("boot_import", json.dumps(cc, sort_keys=True)))
        if not fails:
            run.ok("FailSoft.boot_import_atomic")
        for clause, msg in fails:
            run.fail(clause, {"clause": clause, "sites": ["boot_store_import"]}, cc, msg, replay={"boot_import": cc})


# ---- a quality layer that cannot run because of what its own settings hold ------------------------------------------
QUALITY_JUNK = [
    (("t2", "quality", "fusion", "alpha_semantic"), None), (("t2", "quality", "fusion", "alpha_semantic"), "x"),
    (("t2", "quality", "fusion", "alpha_semantic"), [1]), (("t2", "quality", "fusion"), 5), (("t2", "quality", "fusion", "mode"), None),
    (("t2", "quality", "mmr", "lambda"), None), (("t2", "quality", "mmr", "lambda"), "x"), (("t2", "quality", "mmr", "k"), None),
    (("t2", "quality", "mmr", "k"), "x"), (("t2", "quality", "mmr"), "on"),
    (("t2", "quality", "lexical", "bm25_k1"), None), (("t2", "quality", "lexical", "bm25_b"), "x"), (("t2", "quality", "lexical"), 7),
    (("t2", "quality", "lexical", "stopwords"), 3), (("t2", "quality", "normalizer"), 5), (("t2", "quality", "aliasing"), 5),
]


def quality_junk_case(case) -> List[Tuple[str, str]]:
    """t2.quality enabled with the metrics gate open, one setting of the layer holding junk (set after validation, as a
    raw configuration delivers it): whatever the layer makes of it, the turn completes"""
    from ..turnrun import Session
    from .. import engine as E
    os.environ["CI"] = "true"
    path, junk = QUALITY_JUNK[case["k"]]
    work = tempfile.mkdtemp(prefix="c20q_", dir=case["workdir"])
    try:
        cfg = {"perf": {"enabled": True, "metrics": {"report_memory": True}},
               "t2": {"quality": {"enabled": True, "mmr": {"enabled": bool(case["mmr"])}}}}
        eps = [E.mk_episode(f"ep{j}", "A", "I like apple and banana" + " very" * j, ts=f"2025-08-{10 + j:02d}T00:00:00Z", importance=0.5) for j in range(4)]
        s = Session(os.path.join(work, "w"), base_cfg=cfg, episodes=eps)
        s.post_cfg = {tuple(path): copy.deepcopy(junk)}
        for turn in range(2):
            try:
                o = s.run({})
            except (KeyError, TypeError) as e:      # the path does not exist in the normalised configuration: nothing to test
                return [("__skip__", f"{path}: {type(e).__name__}")]
            where = f"t2.quality live, metrics gate open, {'.'.join(path)} = {junk!r} (mmr {'on' if case['mmr'] else 'off'}), turn {turn + 1}"
            if o["raised"]:
                return [("TurnCompletes", f"{where}: run_turn raised {o['raised']}")]
            if not o["log"] or o["log"][-1] != "turn":
                return [("TurnCompletes", f"{where}: no final turn record: {o['log']}")]
        return []
    finally:
        shutil.rmtree(work, ignore_errors=True)


def quality_junk_part(run) -> None:
    cases = [{"k": k, "mmr": m, "workdir": run.workdir} for k in range(len(QUALITY_JUNK)) for m in (0, 1)]
    for c, fails in zip(cases, pmap(quality_junk_case, cases, chunk=2)):
        cc = {k: v for k, v in c.items() if k != "workdir"}
        if fails and fails[0][0] == "__skip__":
            run.guarded_out += 1
            continue
        run.traces += 1
        run.case(("quality_junk", json.dumps(cc, sort_keys=True)))
        if not fails:
            run.ok("FailSoft.quality_junk_settings_tolerated")
        for clause, msg in fails:
            run.fail(clause, {"clause": clause, "sites": ["quality_settings"], "path": ".".join(QUALITY_JUNK[c["k"]][0])}, cc, msg, replay={"quality_junk": cc})
