"""C18 (C->S) — seeded random long histories on the real gel functions with arbitrary float scores,
alphas, clamp ranges, floors and half-lives (every configuration passed through the real validator),
recorded after every operation and validated by TLC against GelTrace.tla.  Doubles are logged as
sign + three 21-bit limbs of the IEEE-754 pattern, so bounds, monotone decay, floor and selection
are decided exactly; ids are logged as ranks in the lexicographic order of the id strings."""
from __future__ import annotations

import copy
import json
import math
import os
import struct
from typing import Any, Dict, List, Tuple

from ..core import tok
from ..util import pmap, rng

SEP = "→"
POOL = ["a", "a10", "b", "c", "d", "e", "é", "ep_1", "n.1", "Z", "", "c::a"]
NEG_CONTROLS = ["clamp", "tick-grew", "key", "floor", "gate"]


def enc(x: float) -> Dict[str, int]:
    """IEEE-754 double -> sign + 3 limbs < 2^21 (integer order of the limbs = order of magnitudes)"""
    x = float(x)
    if x != x:
        return {"s": 2, "h": 0, "m": 0, "l": 0}
    bits = struct.unpack(">Q", struct.pack(">d", x))[0]
    mag = bits & ((1 << 63) - 1)
    s = (bits >> 63) if mag else 0
    return {"s": int(s), "h": mag >> 42, "m": (mag >> 21) & 0x1FFFFF, "l": mag & 0x1FFFFF}


def universe(ids: List[str]) -> Dict[str, int]:
    u = set(ids)
    layer = set(ids)
    for _ in range(5):
        layer = {"c::" + x for x in layer}
        u |= layer
    return {x: i + 1 for i, x in enumerate(sorted(u))}


def snapshot(state, rank, prev_meta=None) -> Dict[str, Any]:
    g = state.get("graph") or {}
    edges = []
    for k, r in (g.get("edges") or {}).items():
        parts = k.split(SEP)
        ks, kd = (rank.get(parts[0], 0), rank.get(parts[1], 0)) if len(parts) == 2 else (0, 0)
        edges.append({"ks": ks, "kd": kd, "s": rank.get(r.get("src"), 0), "d": rank.get(r.get("dst"), 0),
                      "idok": r.get("id") == k, "rel": {"coact": 0, "concept": 1}.get(r.get("rel"), 2),
                      "w": enc(r.get("weight")), "c": int((r.get("attrs") or {}).get("coact", 0))})
    edges.sort(key=lambda e: (e["s"], e["d"], e["ks"], e["kd"]))
    nodes = [{"r": rank.get(n, 0), "k": 1 if (n.startswith("c::") and (v.get("attrs") or {}).get("kind") == "concept") else 0}
             for n, v in sorted((g.get("nodes") or {}).items())]
    meta = g.get("meta") or {}
    lists = [meta.get("merges") or [], meta.get("splits") or []]
    pn = prev_meta if prev_meta is not None else [0, 0]
    return {"edges": edges, "nodes": nodes, "ml": [len(x) for x in lists],
            "tok": [tok(json.dumps(x, sort_keys=True)) for x in lists],
            "pn": list(pn), "ptok": [tok(json.dumps(x[:n], sort_keys=True)) for x, n in zip(lists, pn)]}


SCORES = [0.0, -0.0, 1.0, 0.2, 0.33, 0.5, 0.5000000000000001, 0.49999999999999994, 0.19999999999999998,
          float("nan"), float("inf"), float("-inf"), 1e-320, -0.3, 2.0, 0.9, 0.8]


# validator-accepted extreme (finite) scalars, one forced history each
EXTREMES = [
    {"update": {"mode": "proportional", "alpha": 1e308}},
    {"update": {"mode": "additive", "alpha": 1e308}},
    {"update": {"mode": "proportional", "alpha": 5e-324}},
    {"update": {"clamp_min": -1e300, "clamp_max": 1e300, "alpha": 1e299}},
    {"update": {"clamp_min": -1e-300, "clamp_max": 1e-300}},
    {"update": {"clamp_min": 0.0, "clamp_max": 5e-324}, "decay": {"floor": 0.0}},
    {"update": {"clamp_min": -0.75, "clamp_max": 0.0}, "decay": {"floor": 0.0}},
]


def safe(o):
    """JSON-safe copy (non-finite floats as strings)"""
    if isinstance(o, dict):
        return {k: safe(v) for k, v in o.items()}
    if isinstance(o, (list, tuple)):
        return [safe(v) for v in o]
    if isinstance(o, float) and not math.isfinite(o):
        return repr(o)
    return o


def draw_config(r, override=None) -> Dict[str, Any]:
    from configs.validate import validate_config
    for _ in range(100):
        lo, hi = r.choice([(-1.0, 1.0), (-1.0, 1.0), (-0.9, 0.9), (-0.5, 0.5), (0.0, 1.0), (-1.0, 0.0), (-0.25, 0.3),
                           (0.0, 0.75), (-0.75, 0.0), (-1e-9, 0.4), (-1e300, 1e300), (-2.5, 2.5)])
        raw = {"enabled": True,
               "coactivation_threshold": r.choice([0.0, 0.2, 0.2, 0.33, 0.5, 1.0]),
               "observe_top_k": r.choice([1, 2, 3, 4, 5, 64]),
               "pair_cap_per_obs": r.choice([0, 1, 2, 3, 7, 2048, 2048]),
               "update": {"mode": r.choice(["additive", "proportional"]),
                          "alpha": r.choice([0.02, 0.07, 1.0 / 3, 0.5, 1.0, 2.5, 1e-9, 0.1, 0.3]),
                          "clamp_min": lo, "clamp_max": hi},
               "decay": {"half_life_turns": r.choice([1, 2, 3, 7, 200, 10 ** 6]),
                         "floor": r.choice([0.0, 0.0, 0.01, 0.05, 0.1, 0.3, 1e-300]) if hi > 0 else 0.0},
               "merge": {"enabled": True, "min_size": r.choice([2, 3]), "min_avg_w": r.choice([0.2, 0.05, 0.5]),
                         "max_diameter": r.choice([1, 2, 3]), "cap_per_turn": r.choice([0, 1, 4])},
               "split": {"enabled": True, "weak_edge_thresh": r.choice([0.05, 0.2, 0.0]), "min_component_size": 2,
                         "cap_per_turn": r.choice([0, 1, 4])},
               "promotion": {"enabled": True, "label_mode": r.choice(["lexmin", "concat_k"]), "topk_label_ids": r.choice([1, 3]),
                             "attach_weight": r.choice([0.5, 0.3, 1.0, -0.5, 0.0]), "cap_per_turn": r.choice([0, 1, 2])}}
        if override:
            raw.update({"coactivation_threshold": 0.2, "observe_top_k": 64, "pair_cap_per_obs": 2048})
            raw["update"].update({"clamp_min": -1.0, "clamp_max": 1.0})
        for k, v in (override or {}).items():
            raw[k].update(v)
        try:
            return validate_config({"graph": raw})["graph"]
        except Exception:
            continue
    raise RuntimeError("no validator-accepted configuration drawn")


def gen_history(args) -> Dict[str, Any]:
    """run one seeded random history on the real code and record it"""
    from clematis.engine import gel
    seed, tidn, steps, tol = args[:4]
    r = rng(seed, "gel-history", tidn)
    gcfg = draw_config(r, EXTREMES[args[4]] if len(args) > 4 and args[4] is not None else None)
    ids = r.sample(POOL, r.choice([2, 3, 4, 6]))
    rank = universe(POOL)
    on_ctx = {"graph": gcfg}
    off_ctx = {"graph": dict(copy.deepcopy(gcfg), enabled=False)}
    upd, dec = gcfg["update"], gcfg["decay"]
    c = {"lo": enc(upd["clamp_min"]), "hi": enc(upd["clamp_max"]), "floor": enc(dec["floor"]),
         "thr": enc(gcfg["coactivation_threshold"]), "topk": min(int(gcfg["observe_top_k"]), 100000),
         "cap": min(int(gcfg["pair_cap_per_obs"]), 100000)}
    state: Dict[str, Any] = {}
    gel._ensure_graph_store(state)
    gate = True
    ev: List[Dict[str, Any]] = [dict(snapshot(state, rank), op="init", gate=True)]
    turn = 0
    for _ in range(steps):
        ctx = on_ctx if gate else off_ctx
        ml = ev[-1]["ml"]
        x = r.random()
        if x < 0.06:
            gate = not gate
            continue
        turn += 1
        if x < 0.56:
            n = r.choice([0, 1, 2, 2, 3, 3, 4, 5, 8])
            items = []
            for _i in range(n):
                s = r.choice(SCORES) if r.random() < 0.35 else (items[-1][1] if items and r.random() < 0.2 else r.random())
                if r.random() < 0.1:
                    s = gcfg["coactivation_threshold"]
                items.append((r.choice(ids), s))
            shaped = [(i, s) if j % 2 else {"id": i, "score": s} for j, (i, s) in enumerate(items)]
            other = copy.deepcopy(state)
            m = gel.observe_retrieval(ctx, state, shaped, turn=turn, agent="A")
            sh = list(shaped)
            r.shuffle(sh)
            m2 = gel.observe_retrieval(ctx, other, sh, turn=turn, agent="A")
            e = dict(snapshot(state, rank, ml), op="observe", gate=gate, items=[[rank[i], enc(s)] for i, s in items],
                     pairs=int(m["pairs_updated"]), kused=int(m["k_used"]), permok=bool(_eq_nan(other, state) and _eq_nan(m, m2)))
        elif x < 0.80:
            h = int(dec["half_life_turns"])
            dt = r.choice([0, 1, 1, 1, 2, h, h, 5, 10 ** 9 if r.random() < 0.1 else 3])
            gel.tick(ctx, state, decay_dt=dt, turn=turn, agent="A")
            e = dict(snapshot(state, rank, ml), op="tick", gate=gate, dt0=(dt == 0), half=(dt == h))
        elif x < 0.87:
            cands = gel.merge_candidates(ctx, state)
            for mc in cands[: int(gcfg["merge"]["cap_per_turn"])]:
                gel.apply_merge(ctx, state, mc)
            if not gate:
                gel.apply_merge(ctx, state, {"nodes": ids[:2], "size": 2})
            e = dict(snapshot(state, rank, ml), op="merge", gate=gate)
        elif x < 0.93:
            cands = gel.split_candidates(ctx, state)
            for sc in cands[: int(gcfg["split"]["cap_per_turn"])]:
                gel.apply_split(ctx, state, sc)
            if not gate:
                gel.apply_split(ctx, state, {"original": ids[:2], "parts": [ids[:1], ids[1:2]]})
            e = dict(snapshot(state, rank, ml), op="split", gate=gate)
        else:
            promos = gel.promote_clusters(ctx, state, gel.merge_candidates(ctx, state))[: int(gcfg["promotion"]["cap_per_turn"])]
            if not gate:
                promos = [{"concept_id": "c::" + ids[0], "label": ids[0], "members": ids[:2], "attach_weight": 0.5}]
            if any(p["concept_id"] not in rank or any(mm not in rank for mm in p["members"]) for p in promos):
                break                                  # concept ids nested deeper than the logged universe
            for p in promos:
                gel.apply_promotion(ctx, state, p)
            e = dict(snapshot(state, rank, ml), op="promote", gate=gate)
            ev.append(e)
            for p in promos:
                gel.apply_promotion(ctx, state, p)
            e = dict(snapshot(state, rank, e["ml"]), op="repromote", gate=gate)
        ev.append(e)
    return {"tid": tidn, "c": c, "ev": ev, "cfg": gcfg}


def _eq_nan(a, b) -> bool:
    return json.dumps(a, sort_keys=True, default=str) == json.dumps(b, sort_keys=True, default=str)


# ------------------------------------------------------------------------------------------------
def corrupt(trace, kind: str, tidn: int):
    """negative controls: one hand-made violation per clause family"""
    t = copy.deepcopy(trace)
    t["tid"] = tidn
    evs = t["ev"]
    if kind == "clamp":          # an observed edge above clamp_max
        for i, e in enumerate(evs):
            if e["op"] == "observe" and e["gate"] and e["pairs"] > 0:
                prev = {(x["s"], x["d"]): x for x in evs[i - 1]["edges"]}
                for x in e["edges"]:
                    p = prev.get((x["s"], x["d"]))
                    if p is None or p["c"] != x["c"]:
                        x["w"] = enc(1e301)
                        return t
    if kind == "tick-grew":
        for i, e in enumerate(evs):
            if e["op"] == "tick" and e["gate"] and e["edges"]:
                e["edges"][0]["w"] = dict(e["edges"][0]["w"], h=e["edges"][0]["w"]["h"] + 4096)
                return t
    if kind == "key":
        for e in evs:
            if e["gate"] and e["op"] != "init" and any(x["s"] != x["d"] for x in e["edges"]):
                x = next(x for x in e["edges"] if x["s"] != x["d"])
                x["s"], x["d"], x["ks"], x["kd"] = x["d"], x["s"], x["kd"], x["ks"]
                return t
    if kind == "floor":
        for e in evs:
            if e["op"] == "tick" and e["gate"] and e["edges"]:
                t["c"]["floor"] = enc(0.75)
                e["edges"][0]["w"] = enc(0.5 ** 40)
                return t
    if kind == "gate":
        for e in evs:
            if e["op"] != "init" and not e["gate"] and e["edges"]:
                e["edges"][0]["c"] += 1
                return t
    return None


def check(run) -> None:
    from ..tlc import TLCError
    q = run.quick
    n, steps = (64, 60) if q else (2000, 160)
    tol: List[str] = []          # (argument slot kept for replay files written by earlier versions)
    args = [(run.seed, i + 1, steps, tuple(tol), None) for i in range(n)]
    args += [(run.seed, 900001 + j, steps, tuple(tol), j) for j in range(len(EXTREMES))]
    traces = pmap(gen_history, args, chunk=4)
    cfgs = {t["tid"]: t.pop("cfg") for t in traces}
    ctl: List[Dict[str, Any]] = []
    ctl_kinds: List[str] = []
    missing: List[str] = []      # a control with no place is a machinery failure only if every recorded history is accepted
    for j, kind in enumerate(NEG_CONTROLS):
        for t in traces:
            cc = corrupt(t, kind, -(j + 1))
            if cc is not None:
                ctl.append(cc)
                ctl_kinds.append(kind)
                break
        else:
            missing.append(kind)
    B = 128 if q else 500
    verdicts: Dict[int, Tuple[str, int]] = {}
    for b in range(0, len(traces), B):
        batch = traces[b:b + B] + (ctl if b == 0 else [])
        verdicts.update(run.validate_traces("GelTrace", {}, batch, name=f"GelTrace_{b // B}", timeout_s=1500))
    if missing and all(verdicts[t["tid"]][0] == "ok" for t in traces):
        raise TLCError(f"no trace offers a place for the negative control(s) {missing!r}")
    for cc, kind in zip(ctl, ctl_kinds):
        if verdicts[cc["tid"]][0] == "ok":
            raise TLCError(f"GelTrace accepted the negative control {kind!r}")
        run.ok(f"GelTrace.negative_control_rejected.{kind}")
    ops: Dict[str, int] = {}
    for t in traces:
        verdict, pos = verdicts[t["tid"]]
        run.traces += 1
        run.case(("geltrace", t["tid"]))
        upto = len(t["ev"]) if verdict == "ok" else pos
        for e in t["ev"][:upto]:
            ops[e["op"]] = ops.get(e["op"], 0) + 1
        if verdict == "ok":
            run.ok("GelTrace.accepted")
            continue
        clause, _, cause = verdict.partition(":")
        e = t["ev"][pos - 1] if 0 < pos <= len(t["ev"]) else None
        cfgd = safe(cfgs[t["tid"]])
        run.fail(clause, {"clause": clause, "cause": cause},
                 {"tid": t["tid"], "position": pos, "graph_config": cfgd, "event": _brief(e), "previous": _brief(t["ev"][pos - 2]) if pos >= 2 else None},
                 f"random history {t['tid']} ({steps} steps, graph config update={cfgd['update']} decay={cfgd['decay']}): "
                 f"event {pos} ({e['op'] if e else '?'}) rejected by GelTrace: {verdict}",
                 replay={"family": "trace.random", "args": [run.seed, t["tid"], steps, list(tol), (t["tid"] - 900001) if t["tid"] > 900000 else None]})
    run.extra["trace_events_validated"] = ops
    if traces:
        t = traces[0]
        run.sample({"family": "GelTrace", "graph_config": safe(cfgs[t["tid"]]), "first_events": [_brief(e) for e in t["ev"][:4]]}, cap=12)


def _brief(e):
    if e is None:
        return None
    out = {k: v for k, v in e.items() if k not in ("tok", "ptok", "pn")}
    out["edges"] = [dict(x, w=dec(x["w"])) for x in e["edges"]][:12]
    if "items" in out:
        out["items"] = [[i, dec(s)] for i, s in e["items"]]
    return out


def dec(w) -> Any:
    if w["s"] == 2:
        return "nan"
    bits = (w["s"] << 63) | (w["h"] << 42) | (w["m"] << 21) | w["l"]
    return repr(struct.unpack(">d", struct.pack(">Q", bits))[0])


def replay(r) -> List[Tuple[str, str]]:
    """re-generate the history and validate it again (own scratch directory)"""
    from .. import tlc as _tlc
    seed, tidn, steps, tol, ext = (list(r["args"]) + [None])[:5]
    t = gen_history((seed, tidn, steps, tuple(tol), ext))
    t.pop("cfg")
    wd = os.path.join("/verif/.work", "C18_replay")
    os.makedirs(wd, exist_ok=True)
    path = os.path.join(wd, "trace.ndjson")
    with open(path, "w") as f:
        f.write(json.dumps(t, separators=(",", ":")) + "\n")
    res = _tlc.run_tlc("GelTrace", "SPECIFICATION TraceSpec\nPOSTCONDITION Done\n", wd, name="GelTrace_replay", workers=1,
                       env={"TRACE_FILE": path})
    verdict, pos = res.verdicts.get(tidn, ("no-verdict", 0))
    if verdict == "ok":
        return []
    return [(verdict.partition(":")[0], f"history {tidn}: event {pos} {_brief(t['ev'][pos - 1]) if pos else ''} rejected: {verdict}")]
