"""C07 store half: SnapshotStore.tla histories replayed on write_snapshot_auto / read_snapshot /
load_latest_snapshot in a scratch directory (baseline deleted / corrupted between steps)."""
from __future__ import annotations

import json
import os
import shutil
import tempfile
from types import SimpleNamespace
from typing import Any, Dict, List, Tuple

from ..util import make_cfg, pmap


EMPTY_ETAG = [None]      # per case: the etag whose payload is the empty object (a legal payload, not "missing")


def P(e: int) -> Dict[str, Any]:
    """payload of etag e: dotted / arrow ids as keys, typed scalars"""
    if e == EMPTY_ETAG[0]:
        return {}
    edges = {f"n.{e}→n.{e+1}": {"id": f"n.{e}→n.{e+1}", "src": f"n.{e}", "dst": f"n.{e+1}", "weight": 0.25 * e, "rel": "coact", "attrs": {}},
             "a→b": {"id": "a→b", "src": "a", "dst": "b", "weight": 0.5, "rel": "coact", "attrs": {}},
             # keys that END in the path separator / escape character (only present from etag 2 on, so a delta adds them)
             **({"U.S.→café.": {"id": "U.S.→café.", "src": "U.S.", "dst": "café.", "weight": 0.375, "rel": "coact", "attrs": {"back\\": e}}} if e >= 2 else {}),
             # ids with the code points str.splitlines() also breaks on (NEL, LS, PS) and other odd whitespace:
             # the header+payload file format is line based
             "l\u2028s→p\u2029s": {"id": "l\u2028s→p\u2029s", "src": "l\u2028s", "dst": "p\u2029s", "weight": 0.125, "rel": "co\u0085act",
                                   "attrs": {"note": "x\x0by\x0cz\x1c\x1d\x1e"}}}
    return {"version_etag": str(e), "schema_version": "v1", "marker": {"e": e, "flag": bool(e % 2), "one": 1 if e > 1 else True},
            "store": {"weights": {f"n.{e}": 0.5, "n.1": 0.1 * e}},
            "gel": {"nodes": {f"n.{e}": {"id": f"n.{e}", "label": "x"}}, "edges": edges,
                    "meta": {"schema": "v1.1", "merges": [], "splits": [], "promotions": [], "concept_nodes_count": 0, "edges_count": len(edges)}}}


def typed(x):
    return json.dumps(x, sort_keys=True, ensure_ascii=False)


def replay_history(case) -> List[Tuple[str, str, str]]:
    import logging
    logging.disable(logging.CRITICAL)
    import clematis.engine.snapshot as S
    h = case["h"]
    EMPTY_ETAG[0] = case.get("empty_etag")
    d = tempfile.mkdtemp(prefix="c07s_", dir=case["workdir"])
    fails: List[Tuple[str, str, str]] = []
    clock = [1_700_000_000]

    def stamp(p):
        clock[0] += 10
        for q in (p, p + ".meta"):
            if os.path.exists(q):
                os.utime(q, (clock[0], clock[0]))

    def full(e):
        return os.path.join(d, f"snapshot-{e}.full.json")

    def delta(e):
        return os.path.join(d, f"snapshot-{e}.delta.json")

    def classify(res, e):
        if typed(res) == typed(P(e)):
            return "payload"
        if res == {}:
            return "absent"
        return "mixed"

    try:
        devnull = open(os.devnull, "w")
        import sys
        for step in h:
            op = step["op"]
            if op == "write":
                old_err = sys.stderr
                sys.stderr = devnull
                try:
                    path, wd = S.write_snapshot_auto(d, etag_from=str(step["from"]), etag_to=str(step["to"]),
                                                     payload=P(step["to"]), delta_mode=step["dm"])
                    got = "delta" if wd else "full"
                    stamp(path)
                    want_path = delta(step["to"]) if wd else full(step["to"])
                    if os.path.abspath(path) != os.path.abspath(want_path):
                        fails.append(("DiskRoundTrip", "path", f"writer wrote {path}, expected {want_path}"))
                except Exception as e:
                    got = "raised"
                finally:
                    sys.stderr = old_err
                if got != step["wrote"]:
                    fails.append(("MissingBaselineSafe" if step["wrote"] == "full" else "DiskRoundTrip", "writer-mode",
                                  f"write_snapshot_auto(dm={step['dm']}, {step['from']}->{step['to']}) wrote {got}, spec says {step['wrote']}"))
                    break
            elif op == "delete":
                # how a baseline disappears: body and sidecar together, the body alone (a retention job that matches *.json),
                # or the body with a leftover temporary of an interrupted atomic write next to it - files that merely START
                # like the snapshot are not the snapshot
                dk = (len(h) + step["e"] + case.get("ck", 0)) % 3
                if os.path.exists(full(step["e"])):
                    os.remove(full(step["e"]))
                if dk == 0 and os.path.exists(full(step["e"]) + ".meta"):
                    os.remove(full(step["e"]) + ".meta")
                if dk == 2:
                    with open(full(step["e"]) + ".k3x9qz1a", "w") as f_:
                        f_.write('{"schema": "snapshot:v1", "mode": "full", "etag_to": "x"}\n{"stray": true}\n')
            elif op == "corrupt":
                p = full(step["e"])
                st = os.stat(p)
                # (a well-formed file with a foreign payload is not detectably corrupt and is not generated here)
                ckind = (len(h) + step["e"] + case.get("ck", 0)) % 3
                if ckind == 0 or EMPTY_ETAG[0] == step["e"]:        # truncated inside the payload
                    with open(p, "w") as f:
                        f.write('{"schema": "snapshot:v1", "mode": "full"\n{"version_etag": ')
                elif ckind == 1:      # one byte inside a string VALUE turned into an invalid UTF-8 byte: the JSON shape survives a lenient decode
                    with open(p, "rb") as f:
                        raw = f.read()
                    k = raw.rfind(b'"coact"')
                    raw = raw[:k + 2] + b"\xff" + raw[k + 3:] if k >= 0 else raw[:-3] + b"\xff" + raw[-2:]
                    with open(p, "wb") as f:
                        f.write(raw)
                else:                 # binary garbage
                    with open(p, "wb") as f:
                        f.write(bytes(range(256)) * 3)
                os.utime(p, (st.st_mtime, st.st_mtime))
            elif op in ("read_etag", "read_path"):
                want = step["res"]
                try:
                    if op == "read_etag":
                        res = S.read_snapshot(root=d, etag_to=str(step["e"]))
                    else:
                        res = S.read_snapshot(path=(delta if step["kind"] == "delta" else full)(step["e"]))
                    got = classify(res, want["e"])
                except Exception as e:
                    got, res = "raised", f"{type(e).__name__}: {e}"
                if got == "mixed":
                    fails.append(("MissingBaselineSafe" if want["r"] != "payload" else "DiskRoundTrip", op,
                                  f"{op}({step['e']}) returned a wrongly reconstructed payload: {typed(res)[:300]} (history {h[:-1]})"))
                elif got != want["r"]:
                    # an exception is an admissible way of reporting absence, and vice versa; but a
                    # payload where the spec expects absence (or the reverse) is a divergence
                    if {got, want["r"]} <= {"raised", "absent"}:
                        pass
                    elif want["e"] == EMPTY_ETAG[0] and {got, want["r"]} <= {"payload", "absent"}:
                        pass        # the empty payload and "absent" ({}) are the same observation
                    else:
                        fails.append(("DiskRoundTrip", op, f"{op}({step['e']}) -> {got}, spec says {want['r']} (history {h[:-1]})"))
            elif op == "load_latest":
                want = step["res"]
                ctx = SimpleNamespace(cfg={"t4": {"snapshot_dir": d}}, agent_id="A")
                state: Dict[str, Any] = {}
                try:
                    out = S.load_latest_snapshot(ctx, state)
                except Exception as e:
                    fails.append(("MissingBaselineSafe", op, f"load_latest_snapshot raised {type(e).__name__}: {e}"))
                    break
                ver = state.get("version_etag")
                edges = (state.get("graph") or {}).get("edges") or {}
                if want["r"] == "loaded" and want["e"] == EMPTY_ETAG[0]:
                    pass        # the empty object carries no version / graph: nothing to compare beyond "did not raise"
                elif want["r"] == "loaded":
                    exp = P(want["e"])
                    exp_keys = set()
                    for k, rec in exp["gel"]["edges"].items():
                        s_, t_ = rec["src"], rec["dst"]
                        exp_keys.add((f"{s_}→{t_}" if s_ <= t_ else f"{t_}→{s_}") if s_ and t_ else k)
                    if not out.get("loaded") or str(ver) != str(want["e"]) or set(edges.keys()) != exp_keys:
                        fails.append(("DiskRoundTrip", op, f"load_latest -> {out}, version={ver!r}, edges={sorted(edges)} ; spec says loaded payload {want['e']} (history {h[:-1]})"))
                else:
                    if out.get("loaded") or ver is not None or edges:
                        fails.append(("MissingBaselineSafe", op, f"load_latest -> {out}, version={ver!r}, edges={sorted(edges)}: state adopted although the spec says not loaded (history {h[:-1]})"))
        return fails
    finally:
        shutil.rmtree(d, ignore_errors=True)


def check(run) -> None:
    q = run.quick
    consts = {"E": [1, 2, 3], "MaxOps": 4 if q else 5, "LoadFallback": True}
    cfg = make_cfg(consts, ["NoMixedState", "DeltaHasBaselineAtWrite"], [], emit=False, view=None, constraint="EmitHist")
    res = run.tlc("SnapshotStore", cfg, name="SnapshotStore", workers=8, timeout_s=900)
    run.model_must_hold(res)
    # control: a loader without the fallback adopts the header version with no content
    cfg2 = make_cfg(dict(consts, MaxOps=4, LoadFallback=False), ["NoMixedState"], [], emit=False, view=None)
    res2 = run.tlc("SnapshotStore", cfg2, name="SnapshotStore_no_fallback_control", workers=4, timeout_s=300)
    if res2.violation is None:
        from ..tlc import TLCError
        raise TLCError("SnapshotStore without LoadFallback should violate NoMixedState")
    run.ok("Model.loader_without_fallback_refuted")
    cases = [dict(c, workdir=run.workdir, ck=i % 3) for i, c in enumerate(res.emitted)]
    # the same histories with the empty object as the payload of etag 1 (every seventh history, etag 2 for some)
    cases += [dict(c, workdir=run.workdir, empty_etag=1 + (i // 7) % 2) for i, c in enumerate(res.emitted) if i % 7 == 0]
    outs = pmap(replay_history, cases, chunk=50)
    for c0, fails in zip(cases, outs):
        c = {k: v for k, v in c0.items() if k != "workdir"}
        run.traces += 1
        run.case(("store", json.dumps(c, sort_keys=True)))
        if not fails:
            run.ok("SnapshotStore.conforms")
        for clause, what, msg in fails:
            run.fail(clause, {"feature": "store:" + what}, c, msg, replay={"store": c})
    if res.emitted:
        run.sample({"family": "store", "history": res.emitted[len(res.emitted) // 2]}, cap=8)


def replay(r) -> List[Tuple[str, str, str]]:
    os.makedirs("/verif/.work/C07", exist_ok=True)
    return replay_history(dict(r["store"], workdir="/verif/.work/C07"))
