"""C19 — reflection is gated, budgeted and cannot disturb the turn.

(M)    Turn.tla restricted to the reflection dimensions (allow gate, plan flag, dry run, reused context
       object, ops cap, outcome ok/error/timeout, faults at compute/write/log) over 2-turn histories:
       RunsIffAllGates / NothingWhenClosed, EntriesWithinOps, NoWriteOnError as invariants (exhaustive).
(S->C)  every history replayed on the real run_turn (turnrun.Session): record sequence, version,
       number of memory entries written per turn compared with the spec; on the real data
       additionally: SummaryWithinTokens (token limits 0,1,3,128), IdAndTsPure (two independent
       sessions produce identical ids/timestamps; ids differ across turns), TurnArtefactsUntouched
       (T1/T2/T4/apply records and utterance equal those of the same history with reflection off),
       both backends (rule-based, LLM fixture present / missing / empty completion).
"""
from __future__ import annotations

import copy
import json
import os
import shutil
import tempfile
from typing import Any, Dict, List, Tuple

from ..util import make_cfg, pmap

MANIFEST = {
    "technique": "TLA+ turn-pipeline spec (Turn.tla) restricted to the reflection dimensions, model-checked exhaustively with TLC over 2-turn histories incl. reused context objects and faults; every history replayed on the real run_turn comparing record sequence, memory writes and version with the spec, plus differential runs (reflection on vs off) for artefact isolation; the write path below the turn as its own enumerate-inputs spec (ReflWrite.tla: entries x ops cap x per-slot add faults) replayed on write_reflection_entries",
    "text": "Exhaustive model checking of the reflection gate/budget rules inside the turn state machine (runs iff allowed AND requested AND not dry-run; nothing computed/written/logged otherwise; at most ops-cap entries; nothing written on error/timeout), bound to the code by replaying every explored 2-turn history on the real orchestrator with injected planner flag, scripted clock, recording memory index and fault injection at compute/write/log, and by differential comparison of canonical records and utterance against the same history with reflection off.",
    "note": "Histories of 2 turns; rule-based backend for the full matrix, LLM-fixture backend for present/missing/empty fixture; token limits {0,1,3,128}; only Exception subclasses are injected.",
}

CANON = ("t1.jsonl", "t2.jsonl", "t4.jsonl", "apply.jsonl")
TEXTS = ["I like apple and banana", "Ünïcode — punctuation!!! apple, banana; cherry pie?", "",
         "apple\u3000banana\u00a0cherry\u2003pie\u2028date elder"]
# elapsed time of the reflection call per timing variant: (for outcome ok, for outcome timeout); budget 6000 ms
TIMING = [(None, None), (6000.0, 6000.4), (5999.5, 6000.999)]


def _uni_episodes():
    """memory whose snippets join words with non-ASCII whitespace (ideographic space, NBSP, em space, LS)"""
    from .. import engine as E
    eps = E.default_episodes()
    seps = ["\u3000", "\u00a0", "\u2003", "\u2028", "\u3000"]
    for i, ep in enumerate(eps):
        words = "apple banana cherry pie story number %d with many words in a row" % i
        ep2 = E.mk_episode(ep["id"], ep["owner"], seps[i % len(seps)].join(words.split()), ts=ep["ts"],
                           importance=(ep.get("aux") or {}).get("importance", 0.5), cluster=(ep.get("aux") or {}).get("cluster"))
        eps[i] = ep2
    return eps


def _canon(records):
    from .. import engine as E
    out = []
    for s, p in records:
        if s in CANON:
            r = E.canon_record(s, p)
            for k in ("ms", "now"):
                r.pop(k, None)
            if s == "apply.jsonl":
                r.pop("snapshot", None)
            out.append((s, json.dumps(r, sort_keys=True, default=str)))
    return out


def replay_history(case) -> List[Tuple[str, str]]:
    from ..turnrun import Session
    os.environ["CI"] = "true"
    h = case["h"]
    fails: List[Tuple[str, str]] = []
    work = tempfile.mkdtemp(prefix="c19_", dir=case["workdir"])
    try:
        extra = {"t3": {"reflection": {"summary_tokens": case["tokens"], "topk_snippets": 2}}}
        exc = {"RuntimeError": RuntimeError, "KeyError": KeyError, "OSError": OSError, "ValueError": ValueError}[case["exc"]]
        text = TEXTS[case["text"]]
        eps = (lambda: _uni_episodes()) if case["text"] == 3 else (lambda: None)
        sA = Session(os.path.join(work, "a"), base_cfg=extra, text=text, exc=exc, episodes=eps())
        sB = Session(os.path.join(work, "b"), base_cfg=extra, text=text, exc=exc, episodes=eps())          # identical twin: id/ts purity
        sOff = Session(os.path.join(work, "off"), base_cfg=extra, text=text, exc=exc, episodes=eps())      # same history, reflection off
        sFresh = Session(os.path.join(work, "fresh"), base_cfg=extra, text=text, exc=exc, episodes=eps())  # same history, a fresh context object every turn
        sA.bool_spelling = sB.bool_spelling = case.get("spell", 0)     # t3.allow_reflection written the way YAML/env overrides deliver it
        t_ok, t_to = TIMING[case.get("tv", 0)]
        prev_ver, prev_ids = 0, set()
        for ti, step in enumerate(h):
            inp = dict(step["inp"])
            el = t_to if inp.get("refl_out") == "timeout" else (t_ok if inp.get("refl_out") == "ok" else None)
            if el is not None:
                inp["refl_elapsed_ms"] = el
            oA = sA.run(inp)
            oB = sB.run(inp)
            oOff = sOff.run(dict(inp, allow_refl=False, refl_out="ok", faults=[f for f in inp.get("faults", []) if not f.startswith("refl_")]))
            oFresh = sFresh.run(dict(inp, reuse=False))
            where = f"turn {ti + 1} inp={ {k: v for k, v in inp.items() if v not in (False, 'none', [], 'ok')} }"
            if oA["raised"]:
                fails.append(("TurnArtefactsUntouched", f"{where}: run_turn raised {oA['raised']}"))
                break
            if oA["log"] != list(step["log"]):
                has, want = oA["log"].count("t3_reflection"), list(step["log"]).count("t3_reflection")
                clause = ("NothingWhenClosed" if has > want else "RunsIffAllGates") if has != want else "RecordSequence"
                fails.append((clause, f"{where}: records {oA['log']}, spec {list(step['log'])}"))
            want_new = step["reflmem"] - (h[ti - 1]["reflmem"] if ti else 0)
            got_new = len(oA["refl_new"])
            if got_new != want_new:
                if got_new > inp["ops_cap"]:
                    clause = "EntriesWithinOps"
                elif got_new > want_new and not (inp["allow_refl"] and inp["plan_refl"] and not inp["dry"]):
                    clause = "NothingWhenClosed"
                elif got_new > want_new:
                    clause = "NoWriteOnErrorMissingFixtureTimeout"
                else:
                    clause = "RunsIffAllGates"
                fails.append((clause, f"{where}: {got_new} memory entries written, spec {want_new}"))
            if str(oA["ver"]) != str(step["ver"]):
                fails.append(("TurnArtefactsUntouched", f"{where}: version {oA['ver']}, spec {step['ver']}"))
            # --- clauses on the real data ---
            for e in oA["refl_new"]:
                toks = len(str(e.get("text", "")).split())
                if toks > case["tokens"]:
                    fails.append(("SummaryWithinTokens", f"{where}: summary has {toks} tokens > limit {case['tokens']}: {e.get('text')!r}"))
            idsA = [(e.get("id"), e.get("ts"), e.get("text")) for e in oA["refl_new"]]
            idsB = [(e.get("id"), e.get("ts"), e.get("text")) for e in oB["refl_new"]]
            if idsA != idsB:
                fails.append(("IdAndTsPure", f"{where}: two identical runs produced {idsA} vs {idsB}"))
            idsF = [(e.get("id"), e.get("ts"), e.get("text")) for e in oFresh["refl_new"]]
            if idsA and idsF and idsA != idsF:
                fails.append(("IdAndTsPure", f"{where}: the same turn on a reused context object wrote {idsA}, on a fresh context object {idsF} "
                                             f"(same agent, turn, slot and text)"))
            for i_, _, _ in idsA:
                if i_ in prev_ids:
                    fails.append(("IdAndTsPure", f"{where}: entry id {i_} repeats an id of an earlier turn"))
                prev_ids.add(i_)
            if _canon(oA["records"]) != _canon(oOff["records"]) or oA["line"] != oOff["line"]:
                fails.append(("TurnArtefactsUntouched", f"{where}: canonical records / utterance differ from the run with reflection off: "
                              f"{_canon(oA['records'])} vs {_canon(oOff['records'])}; {oA['line']!r} vs {oOff['line']!r}"))
            if fails:
                break
        return fails
    finally:
        shutil.rmtree(work, ignore_errors=True)


def llm_case(case) -> List[Tuple[str, str]]:
    """LLM-fixture backend: missing file / no entry / empty completion -> nothing written; present -> capped"""
    from ..turnrun import Session
    from .. import engine as E
    import clematis.adapters.llm as L
    os.environ["CI"] = "true"
    fails: List[Tuple[str, str]] = []
    work = tempfile.mkdtemp(prefix="c19l_", dir=case["workdir"])
    try:
        fx = os.path.join(work, "fixtures.jsonl")
        mode, tokens = case["mode"], case["tokens"]
        prompts: List[str] = []
        real_hash = L._prompt_hash

        def spy_hash(p):
            prompts.append(p)
            return real_hash(p)
        base = {"t3": {"reflection": {"backend": "llm", "summary_tokens": tokens, "topk_snippets": 2},
                       "llm": {"fixtures": {"enabled": True, "path": fx}}}}
        inp = {"allow_refl": True, "plan_refl": True, "ops_cap": 5, "faults": []}
        if mode != "nofile":
            open(fx, "w").close()
        s = Session(os.path.join(work, "s"), base_cfg=base)
        with E.patched_attr(L, _prompt_hash=spy_hash):
            o1 = s.run(inp)
        if o1["raised"]:
            return [("TurnArtefactsUntouched", f"llm/{mode}: run_turn raised {o1['raised']}")]
        if o1["refl_new"]:
            fails.append(("NoWriteOnErrorMissingFixtureTimeout", f"llm/{mode}: {len(o1['refl_new'])} entries written without a fixture"))
        if mode in ("present", "empty") and prompts:
            # second turn differs in turn id -> different prompt; learn it with a probe, then provide fixtures
            s2 = Session(os.path.join(work, "s2"), base_cfg=base)
            probe: List[str] = []
            with E.patched_attr(L, _prompt_hash=lambda p: (probe.append(p), real_hash(p))[1]):
                s2.run(inp)
            with open(fx, "w") as f:
                for p in probe:
                    comp = "" if mode == "empty" else str(case.get("sep", " ")).join(f"w{i}" for i in range(40))
                    f.write(json.dumps({"prompt_hash": real_hash(p), "completion": comp}) + "\n")
            s3 = Session(os.path.join(work, "s3"), base_cfg=base)
            o3 = s3.run(inp)
            if o3["raised"]:
                return fails + [("TurnArtefactsUntouched", f"llm/{mode}: run_turn raised {o3['raised']}")]
            n = len(o3["refl_new"])
            want = 1 if (mode == "present" and tokens > 0) else (1 if mode == "present" else 0)
            if mode == "empty" and n != 0:
                fails.append(("NoWriteOnErrorMissingFixtureTimeout", f"llm/empty completion: {n} entries written"))
            if mode == "present":
                if n > 5:
                    fails.append(("EntriesWithinOps", f"llm/present: {n} entries"))
                for e in o3["refl_new"]:
                    toks = len(str(e.get("text", "")).split())
                    if toks > tokens:
                        fails.append(("SummaryWithinTokens", f"llm/present (words separated by {case.get('sep', ' ')!r}): summary has {toks} tokens > {tokens}"))
                if tokens > 0 and n != 1:
                    fails.append(("RunsIffAllGates", f"llm/present tokens={tokens}: {n} entries written, expected 1"))
        return fails
    finally:
        shutil.rmtree(work, ignore_errors=True)


def check(run) -> None:
    q = run.quick
    run.rule = ("every 2-turn history of Turn.tla over the reflection dimensions replayed on run_turn (x token limits x exception types x "
                "input texts, sampled in quick); LLM-fixture modes; distinct = (history, tokens, exception, text)")
    consts = {"MaxTurns": 2, "Vary": ["allow_refl", "plan_refl", "dry", "reuse", "ops_cap", "refl_out"], "ForceOn": [],
              "FaultSites": ["refl_compute", "refl_write", "refl_log"], "MaxFaults": 1, "StashCleared": True}
    invs = ["YieldOnlyAtBoundary", "TurnCompletes", "NoArtefact", "NothingWhenClosed", "EntriesWithinOps", "NoWriteOnError", "VersionDiscipline"]
    cfg = make_cfg(consts, invs, [], emit=False, view=None, constraint="EmitDone")
    res = run.tlc("Turn", cfg, name="Turn_reflection", workers=16, timeout_s=1500)
    run.model_must_hold(res)
    # control: a context whose stash survives into the next turn violates NothingWhenClosed in the model
    cfg2 = make_cfg(dict(consts, StashCleared=False, Vary=["allow_refl", "plan_refl", "reuse"], FaultSites=[]), ["NothingWhenClosed"], [], emit=False, view=None)
    res2 = run.tlc("Turn", cfg2, name="Turn_reflection_stale_stash_control", workers=8, timeout_s=600)
    if res2.violation is None:
        from ..tlc import TLCError
        raise TLCError("Turn.tla with StashCleared=FALSE should violate NothingWhenClosed")
    run.ok("Model.stale_stash_refuted")
    hs = [b["h"] for b in res.emitted]
    # dry runs under the kill switch (the dry run's early return sits behind T4, which the kill switch removes):
    # a separate small enumeration, replayed completely
    cfg3 = make_cfg(dict(consts, Vary=["allow_refl", "plan_refl", "dry", "kill", "reuse"], FaultSites=[], MaxFaults=0), invs, [], emit=False, view=None,
                    constraint="EmitDone")
    res3 = run.tlc("Turn", cfg3, name="Turn_reflection_dry_kill", workers=8, timeout_s=900)
    run.model_must_hold(res3)
    hs_dk = [b["h"] for b in res3.emitted if any(s_["inp"]["dry"] and s_["inp"]["kill"] for s_ in b["h"])]
    run.extra["histories_in_model"] = len(hs) + len(hs_dk)
    # quick: every history whose second turn reuses the context or carries a fault/outcome, and a spread of the rest
    cases = []
    # 13 / 16: just above the utterance's own length, so the limit cuts inside the first retrieved snippet
    tokens_all, excs = [0, 1, 3, 13, 16, 128], ["RuntimeError", "KeyError", "OSError", "ValueError"]
    for i, h in enumerate(hs):
        interesting = h[1]["inp"]["reuse"] or any(s["inp"]["faults"] or s["inp"]["refl_out"] != "ok" for s in h)
        stride = (29 if interesting else 211) if q else (1 if interesting else 5)
        if i % stride:
            continue
        n = len(cases)
        cases.append({"h": h, "tokens": tokens_all[n % 6], "exc": excs[(n // 16) % 4], "text": (n // 3) % 4, "tv": (n // 6) % 3, "spell": (n // 2) % 6, "workdir": run.workdir})
    for j, h in enumerate(hs_dk):
        if q and j % 3:
            continue
        cases.append({"h": h, "tokens": 128, "exc": "RuntimeError", "text": j % 4, "tv": 0, "workdir": run.workdir})
    outs = pmap(replay_history, cases, chunk=4)
    for c, fails in zip(cases, outs):
        run.traces += 1
        cc = {k: v for k, v in c.items() if k != "workdir"}
        run.case(json.dumps(cc, sort_keys=True))
        if not fails:
            run.ok("Reflection.history_conforms")
        for clause, msg in fails:
            reuse = bool(c["h"][1]["inp"]["reuse"])
            run.fail(clause, {"clause": clause, "reused_ctx": reuse}, cc, msg, replay={"case": cc})
    run.sample({"history": cases[len(cases) // 2]["h"]}, cap=2)
    lcases = [{"mode": m, "tokens": t, "workdir": run.workdir} for m in ("nofile", "noentry", "empty", "present") for t in ([3, 128] if q else [0, 1, 3, 128])]
    # a model separates its words with whatever white space it likes (no-break space before French punctuation, ideographic
    # space, line breaks): the token limit counts white-space separated words
    lcases += [{"mode": "present", "tokens": t, "sep": sp, "workdir": run.workdir} for t in ([3] if q else [1, 3, 128]) for sp in ("\u00a0", "\u3000", " \n", "\u2009\u202f")]
    for c, fails in zip(lcases, pmap(llm_case, lcases, procs=4, chunk=1)):
        run.traces += 1
        run.case(("llm", c["mode"], c["tokens"], c.get("sep", " ")))
        if not fails:
            run.ok("Reflection.llm_fixture_conforms")
        for clause, msg in fails:
            run.fail(clause, {"clause": clause, "backend": "llm", "mode": c["mode"]}, {k: v for k, v in c.items() if k != "workdir"}, msg,
                     replay={"llm": {k: v for k, v in c.items() if k != "workdir"}})
    from . import c19_write
    c19_write.check(run)
    c19_write.check_planner_flag(run)
    run.exhaustive = not q
    run.assumptions += ["the plan's reflection flag is injected through the documented orchestrator.t3_deliberate override around the real planner",
                        "timeout is produced by a scripted perf counter jumping inside the reflection call"]


def replay(rep) -> int:
    r = rep["replay"]
    os.makedirs("/verif/.work/C19", exist_ok=True)
    if "reflwrite" in r:
        from . import c19_write
        fails = c19_write.replay_case(r["reflwrite"])
    elif "planner_flag" in r:
        from . import c19_write
        fails = c19_write.planner_flag_case(r["planner_flag"])
    elif "case" in r:
        fails = replay_history(dict(r["case"], workdir="/verif/.work/C19"))
    else:
        fails = llm_case(dict(r["llm"], workdir="/verif/.work/C19"))
    for f in fails:
        print(": ".join(f))
    if fails:
        print(f"VIOLATION property=C19 replay={rep.get('_path', '?')}")
        return 1
    print("replay: conforms")
    return 0
