"""X09 helpers, second half: spellings of ShardMerge.tla, case replay on t2.shard (_qscore, sort_key, merge_hits,
merge_tier_hits_across_shards_dict), the exact python reference and the random family (many shards, many duplicates)."""
from __future__ import annotations

import math
from fractions import Fraction
from typing import Any, Dict, List, Optional, Sequence, Tuple

from ..util import rng

Fail = Tuple[str, str]

# ids 1..4 of the specification in LEXICOGRAPHIC order; their numeric order is m2 < m9 < m10 < m100
IDS = ["m10", "m100", "m2", "m9"]
assert IDS == sorted(IDS)
TIERS = ["exact_semantic", "cluster_semantic", "archive", "tier4"]
DECOY_TIER = "zz_unlisted"
NAN, PINF, NONE, NINF = 9001, 9002, 9003, 9004


def code(j: int, e: int, neg: bool = False) -> int:
    return (100000 if neg else 0) + 8 * j + e + 3


def score_of(c: int) -> Any:
    """the double (or bad value) a score code stands for: j/1024 + e/2^32, exact"""
    if c == NAN:
        return float("nan")
    if c == PINF:
        return float("inf")
    if c == NINF:
        return float("-inf")
    if c == NONE:
        return None
    sign = 1.0
    if c >= 100000:
        sign, c = -1.0, c - 100000
    j, e = c // 8, (c % 8) - 3
    return sign * (j / 1024.0 + e / 4294967296.0)


def exact_q(s: Any) -> Optional[int]:
    """quantum 1e-9, halves to the even integer, in exact arithmetic; bad values: 0"""
    if s is None or isinstance(s, str):
        return 0
    if isinstance(s, float) and (math.isnan(s) or math.isinf(s)):
        return 0
    return round(Fraction(s) * 10 ** 9)


def grid_self_check(codes: Sequence[int]) -> Optional[str]:
    """the doubles of the grid must make s * 1e9 exact (otherwise the table would test float rounding, not the rule)"""
    for c in codes:
        s = score_of(c)
        if isinstance(s, float) and math.isfinite(s):
            cc = c - 100000 if c >= 100000 else c
            j, e = cc // 8, (cc % 8) - 3
            want = (Fraction(j, 1024) + Fraction(e, 2 ** 32)) * (-1 if c >= 100000 else 1)
            if Fraction(s) != want or Fraction(s * 1e9) != Fraction(s) * 10 ** 9:
                return f"score code {c} is not exact in doubles"
    return None


def _dict_hit(i: int, hid: Any, s: Any, salt: int) -> Dict[str, Any]:
    d: Dict[str, Any] = {"id": hid, "src": i}
    v = (i + salt) % 4
    if s is None:
        if v == 1:
            d["score"] = None
        elif v == 2:
            d["score"], d["_score"] = None, 0.75          # "score" wins whenever the key is present: bad value -> 0
        elif v == 3:
            d["_score"] = None
        return d
    if v == 1:
        d["_score"] = s
    elif v == 2:
        d["score"], d["_score"] = s, 0.999
    else:
        d["score"] = s
    return d


def _classify_flat(got: List[Tuple[str, int, int]], want: List[Tuple[str, int, int]]) -> str:
    gp, wp = [(a, b) for a, b, _ in got], [(a, b) for a, b, _ in want]
    if gp == wp:
        return "KeptObjectIsFirstMet(as built)"
    if sorted(gp) == sorted(wp):
        return "TiesBrokenByIdOnly" if len({q for _, q in wp}) < len(wp) else "SortedByQuantisedScoreThenId"
    return "DuplicatesKeptOnceWithBestScore"


def run_shard_case(arg) -> List[Fail]:
    from clematis.engine.stages.t2.shard import RawHit, _qscore, merge_hits, merge_tier_hits_across_shards_dict, sort_key
    c, nsh, walk, maxhits = arg
    hits = list(c["h"] or [])
    o = c["o"]
    n = len(hits)
    salt = sum(h["id"] + h["sh"] + h["ti"] for h in hits)
    qs = list(o["qs"] or [])
    fails: List[Fail] = []
    sc = [score_of(h["sc"]) for h in hits]
    where = "hits " + str([(IDS[h["id"] - 1], repr(sc[i]), f"shard{h['sh']}", f"tier{h['ti']}") for i, h in enumerate(hits)])
    try:
        raws = [RawHit(episode_id=IDS[h["id"] - 1], score=sc[i], payload={"src": i + 1}) for i, h in enumerate(hits)]
        for i, h in enumerate(hits):
            q = _qscore(sc[i])
            if q != qs[i] or not isinstance(q, int):
                fails.append(("QuantumHalfEven", f"_qscore({sc[i]!r}) = {q}, spec {qs[i]} (x * 1e9 = {Fraction(sc[i]) * 10 ** 9 if isinstance(sc[i], float) and math.isfinite(sc[i]) else 'bad value'})"))
            elif sort_key(raws[i]) != (-qs[i], IDS[h["id"] - 1]):
                fails.append(("SortedByQuantisedScoreThenId", f"sort_key({raws[i]!r}) = {sort_key(raws[i])!r}"))
        if fails:
            return fails
        # ---- merge_hits over the shard buckets ------------------------------------------------------------
        buckets = [[raws[i] for i, h in enumerate(hits) if h["sh"] == s] for s in range(1, nsh + 1)]
        want = [(IDS[r["id"] - 1], r["q"], r["src"]) for r in (o["flat"] or [])]
        arg_b: Any = buckets if salt % 2 else tuple(tuple(b) for b in buckets)
        got = [(h.episode_id, _qscore(h.score), h.payload["src"]) for h in merge_hits(arg_b)]
        if got != want:
            fails.append((_classify_flat(got, want), f"{where}: merge_hits = {got}, spec {want} (id, quantised score, kept hit)"))
        wp = [(a, b) for a, b, _ in want]
        for name, bs in (("BucketOrderIndependent", list(reversed(buckets))), ("IntraBucketOrderIndependent", [list(reversed(b)) for b in buckets])):
            gp = [(h.episode_id, _qscore(h.score)) for h in merge_hits(bs)]
            if gp != wp:
                fails.append((name, f"{where}: merge_hits over the {'buckets in reverse order' if name[0] == 'B' else 'reversed buckets'} = {gp}, spec {wp}"))
        # ---- dict merge of the parallel path ---------------------------------------------------------------
        tiers = TIERS[:walk]
        dh = [_dict_hit(i + 1, IDS[h["id"] - 1], sc[i], salt) for i, h in enumerate(hits)]

        def shards_for(order: Sequence[int], rev: bool) -> List[Dict[str, Any]]:
            out = []
            for s in order:
                d: Dict[str, Any] = {}
                for t in range(1, walk + 1):
                    lst = [dh[i] for i, h in enumerate(hits) if h["sh"] == s and h["ti"] == t]
                    if rev:
                        lst.reverse()
                    if lst or (s + t + salt) % 3 == 0:
                        d[tiers[t - 1]] = lst
                    elif (s + t + salt) % 3 == 1:
                        d[tiers[t - 1]] = None
                if (s + salt) % 2:
                    d[DECOY_TIER] = [{"id": "m10", "score": 0.99, "src": -1}, {"id": "zz", "score": 0.98, "src": -2}]
                out.append(d)
            return out
        allw = [(IDS[r["id"] - 1], r["q"], r["src"], r["tier"]) for r in (o["all"] or [])]
        shards = shards_for(range(1, nsh + 1), False)
        for k in range(0, maxhits + 2):
            res, used = merge_tier_hits_across_shards_dict(shards, list(tiers), k)
            m = max(k, 1)
            exp = [(a, s) for a, _, s, _ in allw[:m]]
            gotk = [(str(d.get("id")), d.get("src")) for d in res]
            exp_used = tiers[: o["used"][k]]
            if gotk != exp:
                if k == 0:
                    cl = "ClampAtK(k=0 returns one hit, as built)"
                elif [a for a, _ in gotk] == [a for a, _ in exp]:
                    cl = "KeptObjectIsFirstMet(as built)"
                elif len(gotk) != len(exp):
                    cl = "ClampAtK"
                elif sorted(a for a, _ in gotk) == sorted(a for a, _ in exp):
                    cl = "TiersKeptApart" if len({t for _, _, _, t in allw[:m]}) > 1 else "SortedByQuantisedScoreThenId"
                else:
                    cl = "TiersKeptApart" if len({t for _, _, _, t in allw}) > 1 else "SortedByQuantisedScoreThenId"
                fails.append((cl, f"{where}: merge_tier_hits_across_shards_dict(k={k}) = {gotk}, spec {exp} (id, kept hit); tier walk {allw}"))
            elif any(not any(d is x for x in dh) for d in res):
                fails.append(("DuplicatesKeptOnceWithBestScore", f"{where}: the merge returned an object that is not one of the input hits"))
            if list(used) != exp_used:
                fails.append(("ClampReportsTiers", f"{where}: k={k}: used tiers {used}, spec {exp_used}"))
        ap = [(a, b) for a, b, _, _ in allw]
        for name, sh2 in (("BucketOrderIndependent", shards_for(range(nsh, 0, -1), False)), ("IntraBucketOrderIndependent", shards_for(range(1, nsh + 1), True))):
            res, _ = merge_tier_hits_across_shards_dict(sh2, list(tiers), n + 1)
            gp = [(str(d.get("id")), _qscore(d.get("score", d.get("_score", 0.0)))) for d in res]
            if gp != ap:
                fails.append((name, f"{where}: dict merge over {'shards in reverse order' if name[0] == 'B' else 'reversed tier lists'} = {gp}, spec {ap}"))
    except Exception as e:      # noqa: BLE001
        fails.append(("Total", f"{where}: raised {type(e).__name__}: {e}"))
    return fails


# ---------------------------------------------------------------------------------------------------------------------
# exact reference (random family)
def ref_merge(met: Sequence[Tuple[str, int, Any]]) -> List[Tuple[str, int, Any]]:
    """met: (id, quantised score, tag) in the order in which the hits are met -> kept (id, q, tag), best first"""
    by: Dict[str, List[Tuple[int, int, Any]]] = {}
    for pos, (hid, q, tag) in enumerate(met):
        by.setdefault(hid, []).append((q, pos, tag))
    kept = []
    for hid, lst in by.items():
        qb = max(q for q, _, _ in lst)
        kept.append((hid, qb, min((pos, tag) for q, pos, tag in lst if q == qb)[1]))
    return sorted(kept, key=lambda r: (-r[1], r[0]))


ID_POOL = ["m1", "m10", "m100", "m2", "m20", "m9", "M1", "a", "Z", "\u00e9", "10", "9", "m-1", "m 1", "b", "ba"]


def random_score(r) -> Tuple[Any, bool]:
    """-> (score, guarded): exact grid, decimals safely inside a quantum, bad values, arbitrary doubles (guarded near a half quantum)"""
    v = r.randrange(10)
    if v < 4:
        return score_of(code(r.choice([0, 1, 2, 3, 256, 511, 512, 513, 515, 549]), r.randrange(-3, 4), r.random() < 0.15)), False
    if v < 7:
        nq = r.choice([0, 1, 2, 499999999, 500000000, 500000001, 123456789, 999999999, 1000000000]) + r.randrange(-2, 3)
        return float(Fraction(nq * 10 + r.randrange(-4, 5), 10 ** 10)), False
    if v == 7:
        return r.choice([float("nan"), float("inf"), float("-inf"), None, "x", "0.5", 1, True]), False
    s = r.choice([r.random(), r.uniform(-1, 1), r.random() * 1e-8, float(r.randrange(0, 3))])
    fr = (Fraction(s) * 10 ** 9) % 1
    return s, abs(fr - Fraction(1, 2)) < Fraction(1, 10 ** 5)


def _ref_q(s: Any) -> int:
    if isinstance(s, str):
        try:
            s = float(s)
        except ValueError:
            return 0
    if isinstance(s, bool) or isinstance(s, int):
        s = float(s)
    return exact_q(s) or 0


def random_shard_case(arg) -> Dict[str, Any]:
    from clematis.engine.stages.t2.shard import RawHit, _qscore, merge_hits, merge_tier_hits_across_shards_dict
    seed, i = arg
    r = rng(seed, "x09shard", i)
    fails: List[Fail] = []
    ok: Dict[str, int] = {}
    nsh, nti = r.randrange(1, 9), r.randrange(1, 4)
    ids = r.sample(ID_POOL, r.randrange(1, 9))
    tiers = TIERS[:nti]
    shards: List[Dict[str, List[Dict[str, Any]]]] = []
    guarded = False
    tag = 0
    int_ids = i % 5 == 0            # the dict merge applies str() to the id: 10 and "10" are one id
    for s in range(nsh):
        d: Dict[str, List[Dict[str, Any]]] = {}
        for t in tiers:
            lst = []
            for _ in range(r.choice([0, 0, 1, 2, 3, 6, 10])):
                sc, g = random_score(r)
                guarded = guarded or g
                hid: Any = r.choice(ids)
                if int_ids and hid.isdigit() and r.random() < 0.5:
                    hid = int(hid)
                tag += 1
                h: Dict[str, Any] = {"id": hid, "tag": tag}
                h["_score" if r.random() < 0.3 else "score"] = sc
                lst.append(h)
            if lst or r.random() < 0.5:
                d[t] = lst
        shards.append(d)
    out: Dict[str, Any] = {"fails": fails, "ok": ok, "guarded": guarded, "case": {"shards": shards, "tiers": tiers}}
    if guarded:
        return out
    where = f"shards {shards} tiers {tiers}"
    try:
        score = lambda h: h.get("score", h.get("_score", 0.0))      # noqa: E731
        allh = [h for d in shards for t in tiers for h in d.get(t, [])]
        for h in allh:
            if _qscore(score(h)) != _ref_q(score(h)):
                fails.append(("QuantumHalfEven", f"_qscore({score(h)!r}) = {_qscore(score(h))}, exact {_ref_q(score(h))}"))
                return out
        ok["QuantumHalfEven"] = len(allh)
        # merge_hits: one bucket per shard (tiers ignored)
        buckets = [[RawHit(episode_id=str(h["id"]), score=score(h), payload=h) for t in tiers for h in d.get(t, [])] for d in shards]
        want = ref_merge([(b.episode_id, _ref_q(b.score), b.payload["tag"]) for bk in buckets for b in bk])
        got = [(h.episode_id, _qscore(h.score), h.payload["tag"]) for h in merge_hits(buckets)]
        if got != want:
            fails.append((_classify_flat(got, want), f"{where}: merge_hits = {got}, reference {want}"))
        else:
            ok["merge_hits.conforms"] = 1
        sh = [list(b) for b in buckets]
        r.shuffle(sh)
        for b in sh:
            r.shuffle(b)
        gp = [(h.episode_id, _qscore(h.score)) for h in merge_hits(sh)]
        if gp != [(a, b) for a, b, _ in want]:
            fails.append(("BucketOrderIndependent", f"{where}: merge_hits over shuffled buckets = {gp}, reference {[(a, b) for a, b, _ in want]}"))
        else:
            ok["BucketOrderIndependent"] = 1
        # tier walk
        walk: List[Tuple[str, int, Any, int]] = []
        seen: set = set()
        for ti, t in enumerate(tiers):
            met = [(str(h["id"]), _ref_q(score(h)), h["tag"]) for d in shards for h in (d.get(t) or []) if str(h["id"]) not in seen]
            m = ref_merge(met)
            walk.extend((a, b, c, ti + 1) for a, b, c in m)
            seen.update(a for a, _, _ in m)
        for k in sorted({1, 2, r.randrange(1, len(walk) + 2), len(walk), len(walk) + 1} - {0}):
            res, used = merge_tier_hits_across_shards_dict(shards, list(tiers), k)
            gotk = [(str(h["id"]), h["tag"]) for h in res]
            exp = [(a, c) for a, _, c, _ in walk[:k]]
            exp_used = tiers[: walk[k - 1][3]] if len(walk) >= k else tiers
            if gotk != exp:
                cl = ("KeptObjectIsFirstMet(as built)" if [a for a, _ in gotk] == [a for a, _ in exp] else "ClampAtK" if len(gotk) != len(exp)
                      else "TiersKeptApart" if nti > 1 else "SortedByQuantisedScoreThenId")
                fails.append((cl, f"{where}: dict merge k={k} = {gotk}, reference {exp}"))
            elif list(used) != exp_used:
                fails.append(("ClampReportsTiers", f"{where}: k={k}: used tiers {used}, reference {exp_used}"))
            else:
                ok["dict_merge.conforms"] = ok.get("dict_merge.conforms", 0) + 1
        sh2 = [{t: list(reversed(v)) for t, v in d.items()} for d in shards]
        r.shuffle(sh2)
        res, _ = merge_tier_hits_across_shards_dict(sh2, list(tiers), len(walk) + 1)
        if [(str(h["id"]), _qscore(score(h))) for h in res] != [(a, b) for a, b, _, _ in walk]:
            fails.append(("BucketOrderIndependent", f"{where}: dict merge over shuffled shards differs from {[(a, b) for a, b, _, _ in walk]}"))
        else:
            ok["BucketOrderIndependent"] = ok.get("BucketOrderIndependent", 0) + 1
    except Exception as e:      # noqa: BLE001
        fails.append(("Total", f"{where}: raised {type(e).__name__}: {e}"))
    return out
