"""C17 inside run_turn: a turn yields only at a stage boundary (record sequence from Turn.tla), the yield
reason follows wall-clock > stage budget > quantum (YieldRule.tla on the real scheduler record), and
slice budgets clamp stage work (propagation pops/layers, retrieval hits used, plan ops)."""
from __future__ import annotations

import json
import os
import shutil
import tempfile
from typing import Any, Dict, List, Tuple

from ..util import make_cfg, pmap


def yield_case(case) -> List[Tuple[str, str]]:
    from ..turnrun import Session
    os.environ["CI"] = "true"
    work = tempfile.mkdtemp(prefix="c17_", dir=case["workdir"])
    try:
        inp = dict(case["inp"])
        s = Session(os.path.join(work, "s"))
        o = s.run(inp)
        fails: List[Tuple[str, str]] = []
        if o.get("skipped"):
            return [("YieldOnlyAtBoundary", f"{inp}: {o['skipped']}")]
        if o["raised"]:
            return [("YieldOnlyAtBoundary", f"{inp}: run_turn raised {o['raised']}")]
        if o["log"] != list(case["log"]):
            fails.append(("YieldOnlyAtBoundary", f"yield_at={inp.get('yield_at')} inp={ {k: v for k, v in inp.items() if v not in (False, [], 'ok', 5)} }: records {o['log']}, spec {list(case['log'])}"))
        sched = [p for st, p in o["records"] if st == "scheduler.jsonl"]
        if inp.get("yield_at", "none") != "none":
            if len(sched) != 1:
                fails.append(("YieldOnlyAtBoundary", f"{inp}: {len(sched)} scheduler records"))
            else:
                ev = sched[0]
                if ev.get("stage_end") != inp["yield_at"]:
                    fails.append(("YieldOnlyAtBoundary", f"{inp}: stage_end={ev.get('stage_end')}"))
                # precedence on the real record: elapsed jumps by 10 s, wall_ms default 200 -> WALL_MS
                want = _reason(ev.get("budgets") or {}, ev.get("quantum_ms"), ev.get("consumed") or {})
                if ev.get("reason") not in want:
                    fails.append(("ReasonPrecedence", f"{inp}: reason {ev.get('reason')}, documented precedence gives {sorted(want)} for budgets={ev.get('budgets')} consumed={ev.get('consumed')}"))
                turn = [p for st, p in o["records"] if st == "turn.jsonl"][-1]
                if not turn.get("yielded") or turn.get("yield_reason") != ev.get("reason"):
                    fails.append(("YieldOnlyAtBoundary", f"{inp}: turn record {turn} does not carry the yield"))
        elif sched:
            fails.append(("YieldOnlyAtBoundary", f"{inp}: scheduler record without a yield: {sched}"))
        return fails
    finally:
        shutil.rmtree(work, ignore_errors=True)


def _reason(budgets, quantum, consumed):
    """documented precedence, written from YieldRule.tla"""
    ms = consumed.get("ms", 0)
    if budgets.get("wall_ms") is not None and ms >= budgets["wall_ms"]:
        return {"WALL_MS"}
    hits = {("BUDGET_" + k.upper()) for k in ("t1_iters", "t1_pops", "t2_k", "t3_ops")
            if budgets.get(k) is not None and consumed.get(k) is not None and consumed[k] >= budgets[k]}
    if hits:
        return hits
    if quantum is not None and ms >= quantum:
        return {"QUANTUM_EXCEEDED"}
    return {None}


def budget_case(case) -> List[Tuple[str, str]]:
    """slice budgets clamp stage work; a used-up stage budget yields at that stage with a BUDGET_* reason
    even when the quantum is exceeded as well, and WALL_MS wins over both"""
    from ..turnrun import Session
    from .. import engine as E
    os.environ["CI"] = "true"
    work = tempfile.mkdtemp(prefix="c17b_", dir=case["workdir"])
    try:
        b = case["budgets"]
        over = {"scheduler": {"enabled": True, "quantum_ms": case["quantum"], "budgets": dict(b, wall_ms=case["wall"])}}
        E.reset_global_caches()
        if case.get("warm"):
            # the budgets must also bind when the process-global stage caches are warm: the same turn runs first
            # without stage budgets (kill switch on, so the graph and its etag stay as they are), caches on
            over["t1"] = {"cache": {"enabled": True, "max_entries": 64, "ttl_s": 3600}}
            over["t2"] = {"cache": {"enabled": True, "max_entries": 64, "ttl_s": 3600}}
        graphs_ = None
        if case.get("graphs2"):
            # two active graphs that the text seeds alike: the slice budgets are budgets of the STAGE, not of each graph
            g0 = E.DEFAULT_GRAPHS["g:surface"]
            graphs_ = {"g:surface": g0, "g:second": {"nodes": [(i.replace("n:", "m:"), lab, tags) for i, lab, tags in g0["nodes"]],
                                                      "edges": [(e.replace("e", "f"), a.replace("n:", "m:"), b_.replace("n:", "m:"), w, r) for e, a, b_, w, r in g0["edges"]]}}
        s = Session(os.path.join(work, "s"), base_cfg=over, graphs=graphs_)
        s.text = case["text"]
        if case.get("warm"):
            # (generous explicit stage budgets in every other warm case: the next turn REUSES the context object, and what the
            # warm-up turn derived for its slice must not stand in for the budgets configured now)
            gen = {"t1_pops": 50, "t1_iters": 50, "t2_k": 50, "t3_ops": 50} if len(case["text"]) % 2 == 0 or case.get("reuse_ctx") else {}
            loose = {"scheduler": {"enabled": True, "quantum_ms": case["quantum"], "budgets": dict(gen, wall_ms=case["wall"])},
                     "t1": over["t1"], "t2": over["t2"]}
            s.base_cfg = loose
            w0 = s.run({"sched": True, "kill": True})
            if w0["raised"]:
                return [("BudgetsClamp", f"{case}: warm-up run_turn raised {w0['raised']}")]
            s.base_cfg = over
        # scripted clock: constant, or a jump at the first boundary check
        inp = {"sched": True, "cfg_extra": over, "reuse": bool(case.get("warm"))}
        import clematis.engine.orchestrator as orch_
        from clematis.engine.stages.t2 import t2_semantic as real_t2
        seen_t2: Dict[str, Any] = {}

        def t2_spy(ctx_, state_, text_, t1_):
            r_ = real_t2(ctx_, state_, text_, t1_)
            seen_t2["res"] = r_
            return r_
        o = s.run(inp, extra_patches=lambda i_: [E.patched_attr(orch_, t2_semantic=t2_spy)])
        fails: List[Tuple[str, str]] = []
        if o["raised"]:
            return [("BudgetsClamp", f"{case}: run_turn raised {o['raised']}")]
        recs = {}
        for st, p in o["records"]:
            recs.setdefault(st, []).append(p)
        t1 = (recs.get("t1.jsonl") or [{}])[0]
        if b.get("t1_pops") is not None and int(t1.get("pops", 0)) > b["t1_pops"]:
            fails.append(("BudgetsClamp", f"t1 pops {t1.get('pops')} > slice budget {b['t1_pops']}"))
        if b.get("t1_iters") is not None and int(t1.get("iters", 0)) > b["t1_iters"]:
            fails.append(("BudgetsClamp", f"t1 iters (layers) {t1.get('iters')} > slice budget {b['t1_iters']}"))
        if "t2.jsonl" in recs and b.get("t2_k") is not None and int(recs["t2.jsonl"][0].get("k_used", 0)) > b["t2_k"]:
            fails.append(("BudgetsClamp", f"t2 k_used {recs['t2.jsonl'][0].get('k_used')} > slice budget {b['t2_k']}"))
        # the hits-used budget also binds what T2 hands on: residual graph nudges come from the used hits only
        t2r = seen_t2.get("res")
        if t2r is not None and b.get("t2_k") is not None:
            used = list(t2r.retrieved or [])[:int(b["t2_k"])]
            used_text = " ".join((getattr(h_, "text", "") or "").lower() for h_ in used)
            labels = {}
            for gid in s.state.get("active_graphs", []):
                for n_ in s.state["store"].get_graph(gid).nodes.values():
                    labels[n_.id] = (n_.label or "").lower()
            for d_ in (t2r.graph_deltas_residual or []):
                nid = d_.get("id")
                if nid in labels and labels[nid] and labels[nid] not in used_text:
                    fails.append(("BudgetsClamp", f"T2 nudges node {nid} (label {labels[nid]!r}) although the label occurs in none of the {len(used)} hits "
                                                  f"the slice budget t2_k={b['t2_k']} allows to be used ({[str(h_.id) for h_ in t2r.retrieved]} retrieved)"))
                    break
        if "t3_plan.jsonl" in recs and b.get("t3_ops") is not None:
            nops = sum(int(v) for v in (recs["t3_plan.jsonl"][0].get("ops_counts") or {}).values())
            if nops > b["t3_ops"]:
                fails.append(("BudgetsClamp", f"plan has {nops} ops > slice budget {b['t3_ops']}"))
        sched = recs.get("scheduler.jsonl") or []
        # reason precedence on whatever boundary fired (clock constant -> elapsed 0 -> only budgets can fire)
        for ev in sched:
            want = _reason(ev.get("budgets") or {}, ev.get("quantum_ms"), ev.get("consumed") or {})
            if ev.get("reason") not in want:
                fails.append(("ReasonPrecedence", f"{case}: reason {ev.get('reason')} but precedence gives {sorted(map(str, want))} (consumed {ev.get('consumed')})"))
        # a stage whose consumption reached its budget must yield at that boundary (first such stage)
        order = [("T1", "t1.jsonl", [("t1_iters", "iters"), ("t1_pops", "pops")]), ("T2", "t2.jsonl", [("t2_k", "k_used")])]
        expect_stage = None
        for stage, stream, pairs in order:
            if stream not in recs:
                break
            if any(b.get(bk) is not None and int(recs[stream][0].get(mk, -1)) == b[bk] for bk, mk in pairs):
                expect_stage = stage
                break
        if expect_stage and (not sched or sched[0].get("stage_end") != expect_stage):
            fails.append(("YieldOnlyAtBoundary", f"{case}: budget used up at {expect_stage} but scheduler records are {[(e.get('stage_end'), e.get('reason')) for e in sched]}"))
        if sched:
            # nothing after the yield
            names = [st for st, _ in o["records"]]
            k = names.index("scheduler.jsonl")
            if names[k + 1:] != ["turn.jsonl"]:
                fails.append(("YieldOnlyAtBoundary", f"{case}: records after the yield: {names[k + 1:]}"))
        return fails
    finally:
        shutil.rmtree(work, ignore_errors=True)


def check(run) -> None:
    q = run.quick
    consts = {"MaxTurns": 1, "Vary": ["sched", "yield", "graph", "kill", "allow_refl", "plan_refl"] if not q else ["sched", "yield", "kill", "graph"],
              "ForceOn": [], "FaultSites": [], "MaxFaults": 0, "StashCleared": True}
    invs = ["YieldOnlyAtBoundary", "TurnCompletes", "KillSwitchInert", "NoArtefact", "VersionDiscipline"]
    cfg = make_cfg(consts, invs, [], emit=False, view=None, constraint="EmitDone")
    res = run.tlc("Turn", cfg, name="Turn_yield", workers=8, timeout_s=900)
    run.model_must_hold(res)
    cases = [{"inp": b["h"][0]["inp"], "log": b["h"][0]["log"], "workdir": run.workdir} for b in res.emitted]
    # the same yielding vectors with the time passing early in the stage (right after the previous boundary check)
    cases += [{"inp": dict(c["inp"], yield_jump="after_prev"), "log": c["log"], "workdir": run.workdir} for c in list(cases)
              if c["inp"].get("yield_at") in ("T2", "T3", "T4", "Apply")]
    for c, fails in zip(cases, pmap(yield_case, cases, chunk=2)):
        run.traces += 1
        run.case(("turn_yield", json.dumps(c["inp"], sort_keys=True)))
        if not fails:
            run.ok("Turn.yield_sequence_conforms")
        for clause, msg in fails:
            run.fail(clause, {"family": "turn", "clause": clause, "yield_at": c["inp"].get("yield_at")}, {k: v for k, v in c.items() if k != "workdir"}, msg,
                     replay={"family": "turn_yield", "case": {k: v for k, v in c.items() if k != "workdir"}})
    run.sample({"family": "turn_yield", "inp": cases[-1]["inp"], "log": cases[-1]["log"]}, cap=12)
    # budgets
    bcases = []
    vals = {"t1_pops": [None, 0, 1, 3], "t1_iters": [None, 0, 1, 2] if not q else [None, 1], "t2_k": [None, 0, 1, 2], "t3_ops": [None, 0, 1, 2] if not q else [None, 0, 1]}
    import itertools
    for pops, iters, k, ops in itertools.product(vals["t1_pops"], vals["t1_iters"], vals["t2_k"], vals["t3_ops"]):
        b = {kk: vv for kk, vv in (("t1_pops", pops), ("t1_iters", iters), ("t2_k", k), ("t3_ops", ops)) if vv is not None}
        # ("apple" alone seeds one node of a three-node chain: two layers without a budget, so a layer budget of 1 binds)
        for text in (["I like apple and banana", "apple"] if q else ["I like apple and banana", "cherry pie", "apple"]):
            if text == "apple" and iters is None:
                continue
            bcases.append({"budgets": b, "quantum": 20, "wall": 200, "text": text, "workdir": run.workdir})
            if (pops is not None or iters is not None) and k is None and ops is None:
                bcases.append({"budgets": b, "quantum": 20, "wall": 200, "text": text, "workdir": run.workdir, "graphs2": True})
            if pops is not None or iters is not None or k is not None:
                bcases.append({"budgets": b, "quantum": 20, "wall": 200, "text": text, "workdir": run.workdir, "warm": True})
    for c, fails in zip(bcases, pmap(budget_case, bcases, chunk=2)):
        run.traces += 1
        run.case(("turn_budget", json.dumps({k: v for k, v in c.items() if k != "workdir"}, sort_keys=True)))
        if not fails:
            run.ok("Turn.budgets_clamp")
        for clause, msg in fails:
            sig = {"family": "turn", "clause": clause}
            if c.get("graphs2"):
                sig["active_graphs"] = 2
            run.fail(clause, sig, {k: v for k, v in c.items() if k != "workdir"}, msg,
                     replay={"family": "turn_budget", "case": {k: v for k, v in c.items() if k != "workdir"}})


def replay(r) -> List[Tuple[str, str]]:
    os.makedirs("/verif/.work/C17", exist_ok=True)
    c = dict(r["case"], workdir="/verif/.work/C17")
    return yield_case(c) if r["family"] == "turn_yield" else budget_case(c)
