"""C02 — features behind a closed gate are inert.

(M)    Gates.tla: gate predicates per feature (incl. the nesting under the perf master switch), effective
       configuration = subtrees seen through open gates only; InertSubtree and NoArtefact as invariants
       over all gate vectors x subtree assignments (exhaustive).  Each case is emitted as a pair:
       closed features carrying a customised subtree vs the same configuration with those subtrees omitted.
(S->C)  both configurations are validated and run on the real engine (3 turns, world with non-empty
       memory, GEL edges, two active graphs, a plan that requests reflection); compared after every turn:
       utterance, every canonical record, snapshot body digest, deep engine state (store, GEL graph,
       version, memory); the log directory listing must stay inside the spec's allowed artefact set.
"""
from __future__ import annotations

import copy
import hashlib
import json
import os
import shutil
import tempfile
from typing import Any, Dict, List, Tuple

from ..util import make_cfg, pmap

MANIFEST = {
    "technique": "TLA+ gate model (Gates.tla: effective configuration through open gates only) model-checked with TLC over all gate vectors x closed-subtree assignments; every emitted pair (customised closed subtrees vs omitted) validated and run on the real engine and compared turn by turn (utterances, canonical records, snapshot bodies, deep state, artefact listing)",
    "text": "Exhaustive enumeration of gate vectors and closed-subtree assignments with InertSubtree/NoArtefact as invariants of the gate model, bound to the code by differential runs of the real engine under the customised-vs-omitted configuration pairs on a world where the gated code would have work to do, comparing every observable after every turn and the set of artefacts on disk.",
    "note": "Customised subtrees are two hand-written maximal non-default subtrees per feature drawn from the validator's accepted ranges; at most 2 (quick) / 3 (thorough) closed features carry a customised subtree at once. scheduler.budgets.{time_ms,ops}_reflection belong to the reflection feature (README, docs/m10).",
}

CANON_MASK = ("ms", "now", "durations_ms", "ms_plan", "ms_rag", "ms_speak", "ms_deliberate")


def subtree(feature: str, token: str, workdir: str) -> dict:
    """customised, validator-accepted, maximally non-default subtree of a *closed* feature"""
    v = 1 if token == "c1" else 2
    if feature == "perf":
        return {"perf": {"enabled": False,
                         # (the second variant lists the frontier cap alone: one inert knob at a time must be inert too)
                         "t1": ({"queue_cap": 3 * v, "dedupe_window": 2 * v, "cache": {"max_entries": v, "max_bytes": 100 * v}, "caps": {"frontier": v, "visited": v + 1}}
                                if v == 1 else {"caps": {"frontier": 1}}),
                         "t2": {"embed_store_dtype": "fp16", "precompute_norms": True, "cache": {"max_entries": v, "max_bytes": 64 * v},
                                "reader": {"partitions": {"enabled": True, "layout": "owner_quarter", "path": os.path.join(workdir, "parts")}}},
                         "snapshots": {"compression": "zstd", "level": 3 + v, "delta_mode": True, "every_n_turns": 1 + v},
                         "metrics": {"report_memory": True},
                         "parallel": {"enabled": True, "max_workers": 2 + v, "t1": True, "t2": True, "agents": True}}}
    if feature == "parallel":
        return {"perf": {"parallel": {"enabled": False, "max_workers": 2 + v, "t1": True, "t2": True, "agents": True}}}
    if feature == "graph":
        return {"graph": {"enabled": False, "coactivation_threshold": 0.0 if v == 1 else 0.9, "observe_top_k": v, "pair_cap_per_obs": v,
                          "update": {"mode": "proportional" if v == 1 else "additive", "alpha": 0.5 * v / 2, "clamp_min": -0.5, "clamp_max": 0.5},
                          "decay": {"half_life_turns": v, "floor": 0.3},
                          "merge": {"enabled": True, "min_size": 2, "min_avg_w": 0.9, "max_diameter": 3, "cap_per_turn": v},
                          "split": {"enabled": True, "weak_edge_thresh": 0.9, "min_component_size": 2 + v, "cap_per_turn": v},
                          "promotion": {"enabled": True, "label_mode": "concat_k", "topk_label_ids": v, "attach_weight": -0.5, "cap_per_turn": v}}}
    if feature == "quality":
        return {"t2": {"quality": {"enabled": False, "shadow": False, "trace_dir": os.path.join(workdir, "qtraces"), "redact": False,
                                   "lexical": {"bm25_k1": 2.0 * v, "bm25_b": 0.1 * v, "stopwords": "none"},
                                   "fusion": {"mode": "score_interp", "alpha_semantic": 0.1 * v},
                                   # a diversity weight above 1/2 and a head that spans the hits: MMR, if it ran, would reorder the near-duplicate memories
                                   "mmr": {"enabled": True, "lambda": 0.95 if v == 1 else 0.7, "k": 4 + v}}}}
    if feature == "hybrid":
        return {"t2": {"hybrid": {"enabled": False, "use_graph": v == 1, "anchor_top_m": v, "walk_hops": v, "edge_threshold": 0.0, "lambda_graph": 1.0,
                                  "damping": 0.9, "degree_norm": "invdeg", "max_bonus": 5.0 * v, "k_max": v}}}
    if feature == "reflection":
        return {"t3": {"allow_reflection": False, "reflection": {"backend": "rulebased" if v == 1 else "llm", "summary_tokens": v, "embed": False, "log": False, "topk_snippets": v - 1}},
                "scheduler": {"budgets": {"time_ms_reflection": v, "ops_reflection": v - 1}}}
    if feature == "scheduler":
        return {"scheduler": {"enabled": False, "policy": "fair_queue", "quantum_ms": v, "budgets": {"t1_pops": v - 1, "t1_iters": v - 1, "t2_k": v - 1, "t3_ops": v - 1, "wall_ms": v},
                              "fairness": {"max_consecutive_turns": 1 + v, "aging_ms": 0}}}
    raise ValueError(feature)


def switches(sw: Dict[str, bool]) -> dict:
    """the enable switches themselves (open features run with their default subtree)"""
    from .. import engine as E
    cfg: dict = {}
    cfg = E.deep_merge(cfg, {"perf": {"enabled": bool(sw["perf"]), "parallel": {"enabled": bool(sw["parallel"])}}})
    if sw["perf"]:
        # an open perf gate reports its metrics (both configurations of a pair carry this): what an open feature
        # logs must not depend on the subtree of a closed one (e.g. perf.parallel.max_workers with the parallel gate closed)
        cfg = E.deep_merge(cfg, {"perf": {"metrics": {"report_memory": True}}})
    if sw["parallel"]:
        cfg = E.deep_merge(cfg, {"perf": {"parallel": {"max_workers": 3, "t1": True, "t2": True}}})
    cfg = E.deep_merge(cfg, {"graph": {"enabled": bool(sw["graph"])}})
    cfg = E.deep_merge(cfg, {"t2": {"quality": {"enabled": bool(sw["quality"])}, "hybrid": {"enabled": bool(sw["hybrid"])}}})
    cfg = E.deep_merge(cfg, {"t3": {"allow_reflection": bool(sw["reflection"])}})
    cfg = E.deep_merge(cfg, {"scheduler": {"enabled": bool(sw["scheduler"])}})
    # (both configurations of a pair) every memory is retrieved on every turn, so a closed subtree that changes which
    # memories a path looks at (sharding, reader, caps) shows in the records
    cfg = E.deep_merge(cfg, {"t2": {"sim_threshold": -1.0}})
    return cfg


def build_cfgs(case, workdir):
    from .. import engine as E
    sw, sub = case["sw"], case["sub"]
    base = switches(sw)
    a = copy.deepcopy(base)
    for f in sorted(case["closed"]):
        if sub[f] != "omitted":
            st = subtree(f, sub[f], workdir)
            # the switch itself stays as the case says (a closed feature may be closed by its parent only)
            a = E.deep_merge(a, st)
    # re-assert the switches (a customised subtree must not flip a switch)
    a = E.deep_merge(a, {"perf": {"enabled": bool(sw["perf"])}, "graph": {"enabled": bool(sw["graph"])},
                         "t3": {"allow_reflection": bool(sw["reflection"])}, "scheduler": {"enabled": bool(sw["scheduler"])}})
    a["perf"]["parallel"]["enabled"] = bool(sw["parallel"]) if "parallel" not in case["closed"] or sub.get("perf") == "omitted" else a["perf"]["parallel"].get("enabled", bool(sw["parallel"]))
    a["t2"]["quality"]["enabled"] = bool(sw["quality"])
    a["t2"]["hybrid"]["enabled"] = bool(sw["hybrid"])
    if case.get("absent"):
        where = {"perf": ("perf", "enabled"), "graph": ("graph", "enabled"), "reflection": ("t3", "allow_reflection"), "scheduler": ("scheduler", "enabled"),
                 "quality": ("t2", "quality", "enabled"), "hybrid": ("t2", "hybrid", "enabled")}
        for f, path in where.items():
            if not sw[f]:
                for cfg in (a, base):
                    node = cfg
                    for k in path[:-1]:
                        node = node.get(k) or {}
                    node.pop(path[-1], None)
    return a, base


def _digest(b: bytes) -> str:
    return hashlib.sha256(b).hexdigest()[:16]


def _state_proj(sess):
    st = sess.state
    store = st["store"]
    graphs = {}
    for gid in sorted(st.get("active_graphs", [])):
        g = store.get_graph(gid)
        graphs[gid] = {"nodes": sorted((n.id, n.label) for n in g.nodes.values()),
                       "edges": sorted((e.id, e.src, e.dst, round(float(e.weight), 12), e.rel) for e in g.edges.values()), "etag": g.version_etag}
    mi = st.get("mem_index")
    return {"graphs": graphs, "gel": json.dumps(st.get("graph"), sort_keys=True, default=str), "version": st.get("version_etag"),
            "mem": [e.get("id") for e in getattr(mi, "_eps", [])], "refl": [(e.get("id"), e.get("text")) for e in sess.refl_index.entries]}


def _canon(records):
    from .. import engine as E
    out = []
    for s, p in records:
        r = E.canon_record(s, p)
        for k in CANON_MASK:
            r.pop(k, None)
        if isinstance(r.get("snapshot"), str):
            r["snapshot"] = os.path.basename(r["snapshot"])
        out.append((s, json.dumps(r, sort_keys=True, default=str)))
    return out


TEXTS = ["I like apple and banana", "cherry pie with dates", "apple"]
GRAPHS2 = {"g:other": {"nodes": [("m:apple", "apple", []), ("m:pear", "pear", ["fruit"])], "edges": [("f1", "m:apple", "m:pear", 0.75, "supports")]}}


def _episodes_with_twins():
    """the default memories, each fact stored a second time under another id (same owner, text, vector, a day later): the
    copies sit at adjacent ranks of every retrieval, which is where a diversity re-ranker (t2.quality.mmr) acts first"""
    from .. import engine as E
    eps = E.default_episodes()
    twins = []
    for i, e in enumerate(eps[:4]):
        t = copy.deepcopy(e)
        t["id"] = f"ep{i}twin"
        twins.append(t)
    return eps + twins


def run_pair(case) -> List[Tuple[str, str, str]]:
    from ..turnrun import Session
    from .. import engine as E
    os.environ["CI"] = "true"
    work = tempfile.mkdtemp(prefix="c02_", dir=case["workdir"])
    fails: List[Tuple[str, str, str]] = []
    try:
        cfgA, cfgB = build_cfgs(case, work)
        try:
            E.validated_cfg(cfgA)
            E.validated_cfg(cfgB)
        except Exception as e:
            from ..tlc import TLCError
            raise TLCError(f"C02 concretisation rejected by the validator: {e} for {case}")
        graphs = dict(E.DEFAULT_GRAPHS, **GRAPHS2)
        gel = {"nodes": {"ep0": {"id": "ep0"}, "ep1": {"id": "ep1"}, "ep2": {"id": "ep2"}},
               "edges": {"ep0→ep1": {"id": "ep0→ep1", "src": "ep0", "dst": "ep1", "weight": 0.8, "rel": "coact", "attrs": {}},
                         "ep1→ep2": {"id": "ep1→ep2", "src": "ep1", "dst": "ep2", "weight": 0.6, "rel": "coact", "attrs": {}},
                         # weak and negative edges: below every floor / threshold a customised graph subtree lists
                         "ep0→ep2": {"id": "ep0→ep2", "src": "ep0", "dst": "ep2", "weight": 0.1, "rel": "coact", "attrs": {}},
                         "ep2→ep0": {"id": "ep2→ep0", "src": "ep2", "dst": "ep0", "weight": -0.25, "rel": "coact", "attrs": {}}},
               "meta": {"schema": "v1.1", "merges": [], "splits": [], "promotions": [], "concept_nodes_count": 0, "edges_count": 4}}
        sess = {}
        perf_custom = "perf" in case["closed"] and case["sub"].get("perf", "omitted") != "omitted"
        for name, cfg in (("A", cfgA), ("B", cfgB)):
            E.reset_global_caches()
            if perf_custom:
                # a warm process: an earlier engine state in this process ran the same world with the perf gate OPEN and
                # the very caps that the closed subtree lists; what it left in the process-global stage caches must not
                # reach the run whose gate is closed (same prelude before A and before B)
                # (the size-aware perf caches are a different cache object; the earlier state uses the ordinary stage
                # caches, the ones a closed perf gate uses as well)
                warm_cfg = E.deep_merge(copy.deepcopy(cfgA), {"perf": {"enabled": True, "metrics": {"report_memory": False},
                                                                          "parallel": {"enabled": False},
                                                                          "t1": {"cache": {"max_entries": 0, "max_bytes": 0}},
                                                                          "t2": {"cache": {"max_entries": 0, "max_bytes": 0}}}})
                w = Session(os.path.join(work, name + "_warm"), base_cfg=warm_cfg, graphs=graphs)
                w.raw_cfg = True
                w.state["graph"] = copy.deepcopy(gel)
                w.state["gel"] = w.state["graph"]
                for t in range(3):
                    w.text = TEXTS[t]
                    w.run({"plan_refl": True})
                del w
            s = Session(os.path.join(work, name), base_cfg=cfg, graphs=graphs, episodes=_episodes_with_twins())
            s.raw_cfg = True
            s.log_dir = os.path.join(work, name, "logs")
            s.state["graph"] = copy.deepcopy(gel)
            s.state["gel"] = s.state["graph"]
            outs = []
            for t in range(3):
                s.text = TEXTS[t]
                o = s.run({"plan_refl": True})
                snap = os.path.join(s.snapdir, "state_A.json")
                o["snap_digest"] = _digest(open(snap, "rb").read()) if os.path.exists(snap) else None
                o["state"] = _state_proj(s)
                outs.append(o)
            # a fourth turn through the multi-agent driver: with the parallel gate closed it is one ordinary turn
            import clematis.engine.orchestrator.parallel as par
            dcfg = E.validated_cfg(s.cfg_for({}))
            dctx = E.mk_ctx(dcfg, "driver", 4, now_ms=E.NOW_MS + 4000)
            o4: Dict[str, Any] = {"raised": None, "line": None}
            with E.LogCapture(write_through=True, log_dir=s.log_dir) as cap4, E.patched_time(E.FakeTime(steps=(0.0,))):
                try:
                    r4 = par._run_agents_parallel_batch(dctx, s.state, [("A", TEXTS[0])])
                    o4["line"] = [getattr(x, "line", None) for x in r4]
                except Exception as e:      # noqa: BLE001
                    o4["raised"] = f"{type(e).__name__}: {e}"
            o4["records"] = cap4.records
            snap = os.path.join(s.snapdir, "state_A.json")
            o4["snap_digest"] = _digest(open(snap, "rb").read()) if os.path.exists(snap) else None
            o4["state"] = _state_proj(s)
            outs.append(o4)
            sess[name] = (s, outs)
        closed_custom = sorted(f for f in case["closed"] if case["sub"][f] != "omitted")
        for t in range(4):
            a, b = sess["A"][1][t], sess["B"][1][t]
            where = f"closed={sorted(case['closed'])} customised={closed_custom} turn {t + 1}" + (" (through the multi-agent driver)" if t == 3 else "")
            if a["raised"] or b["raised"]:
                fails.append(("InertSubtree", "raise", f"{where}: run_turn raised: with subtree {a['raised']!r}, omitted {b['raised']!r}"))
                break
            if a["line"] != b["line"]:
                fails.append(("InertSubtree", "utterance", f"{where}: utterance {a['line']!r} vs {b['line']!r}"))
            ca, cb = _canon(a["records"]), _canon(b["records"])
            if ca != cb:
                k = next((i for i, (x, y) in enumerate(zip(ca, cb)) if x != y), min(len(ca), len(cb)))
                fails.append(("InertSubtree", "records:" + (ca[k][0] if k < len(ca) else cb[k][0]), f"{where}: record #{k} differs: {ca[k] if k < len(ca) else None} vs {cb[k] if k < len(cb) else None}"))
            if a["snap_digest"] != b["snap_digest"]:
                fails.append(("InertSubtree", "snapshot", f"{where}: snapshot body differs"))
            if a["state"] != b["state"]:
                d = [k for k in a["state"] if a["state"][k] != b["state"][k]]
                fails.append(("InertSubtree", "state:" + ",".join(d), f"{where}: engine state differs in {d}"))
            if fails:
                break
        # artefacts on disk
        allowed = set(case["allowed"])
        s = sess["A"][0]
        names = set()
        for root, dirs, files in os.walk(os.path.join(work, "A")):
            for f in files:
                names.add(os.path.relpath(os.path.join(root, f), os.path.join(work, "A")))
        for n in sorted(names):
            bn = os.path.basename(n)
            if bn in ("gel.jsonl", "t3_reflection.jsonl", "scheduler.jsonl") and bn not in allowed:
                fails.append(("NoArtefact", bn, f"closed={sorted(case['closed'])}: artefact {n} written although its gate is closed"))
            if ("qtraces" in n or "quality" in n or n.startswith("logs/perf") or "/perf/" in n) and "quality_traces" not in allowed:
                fails.append(("NoArtefact", "traces", f"closed={sorted(case['closed'])}: trace artefact {n} written although perf is closed"))
        for extra in ("parts", "qtraces"):
            if os.path.exists(os.path.join(work, extra)):
                fails.append(("NoArtefact", extra, f"closed={sorted(case['closed'])}: directory {extra} created by a closed feature"))
        return fails
    finally:
        shutil.rmtree(work, ignore_errors=True)


def check(run) -> None:
    q = run.quick
    run.rule = ("every (gate vector, closed-subtree assignment) pair emitted by the exhaustively enumerated Gates model, concretised to validated "
                "configurations and run for 3 turns on the real engine; distinct = distinct case")
    consts = {"Tokens": ["c1", "c2"], "MaxClosedCustom": 2 if q else 3}
    cfg = make_cfg(consts, ["InertSubtree", "NoArtefact"], [], emit=False, view=None, constraint="EmitCase")
    res = run.tlc("Gates", cfg, name="Gates", workers=4, timeout_s=900)
    run.model_must_hold(res)
    cases = []
    for i, c in enumerate(res.emitted):
        n_open = sum(1 for f, v in c["sw"].items() if v)
        if q and not (n_open <= 1 or i % 9 == 0):
            continue
        if not q and not (n_open <= 3 or i % 4 == 0):
            continue
        # in every other case a closed gate is closed by ABSENCE of its switch (the default) instead of an explicit false
        cases.append(dict(c, workdir=run.workdir, absent=len(cases) % 2 == 1))
    run.extra["cases_in_model"] = len(res.emitted)
    outs = pmap(run_pair, cases, chunk=2)
    for c, fails in zip(cases, outs):
        run.traces += 1
        cc = {k: v for k, v in c.items() if k != "workdir"}
        run.case(json.dumps(cc, sort_keys=True))
        if not fails:
            run.ok("Gates.pair_equal")
        for clause, what, msg in fails:
            custom = sorted(f for f in c["closed"] if c["sub"][f] != "omitted")
            run.fail(clause, {"clause": clause, "customised_closed": custom, "what": what}, cc, msg, replay={"case": cc})
    run.sample({"case": {k: v for k, v in cases[len(cases) // 2].items() if k != "workdir"}}, cap=3)
    from . import c02_demo
    c02_demo.check(run)
    run.exhaustive = not q
    run.assumptions += ["two hand-written customised subtrees per feature (validator-accepted, non-default everywhere)",
                        "perf counter is scripted (constant) so that an open scheduler gate never yields on wall-clock time"]


def replay(rep) -> int:
    os.makedirs("/verif/.work/C02", exist_ok=True)
    if "demo_pair" in rep["replay"]:
        from . import c02_demo
        fails = c02_demo.demo_pair_case(dict(rep["replay"]["demo_pair"], workdir="/verif/.work/C02"))
    else:
        fails = run_pair(dict(rep["replay"]["case"], workdir="/verif/.work/C02"))
    for f in fails:
        print(": ".join(f))
    if fails:
        print(f"VIOLATION property=C02 replay={rep.get('_path', '?')}")
        return 1
    print("replay: conforms")
    return 0
