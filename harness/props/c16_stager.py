"""C16, normalisation and staging parts: S->C replay of every case enumerated by Normalise.tla on
normalize_for_identity (and the on-disk writers), and of every case of Stager.tla on the real
LogStager driven by the documented back-pressure loop of the agent-parallel commit phase."""
from __future__ import annotations

import copy
import json
import os
from typing import Any, Dict, List, Optional, Tuple

# ------------------------------------------------------------------------------------------------
# Normalise
# ------------------------------------------------------------------------------------------------
X_VAL = {"ms": 7.5, "now": "inner", "durations_ms": {"a": 3}, "yielded": False, "slice_idx": "9",
         "list": [1, {"ms": 2.0, "now": 5}], "u": "é😀"}
CONCRETE = {
    "ms": {"pos": 12.5, "zero": 0.0},
    "now": {"ts": "2026-09-28T12:00:00Z"},
    "dur": {"dpos": {"t1": 1.5, "t2": 0.25, "total": 3}, "dzero": {"t1": 0.0, "t4": 0}, "dempty": {}, "nondict": "n/a"},
    "yielded": {"true": True, "one": 1, "false": False, "zero": 0},
    "slice": {"i2": 2, "s2": "2", "bad": "x"},
    "x": {"v": X_VAL},
}
FIELD_OF = {"ms": "ms", "now": "now", "dur": "durations_ms", "yielded": "yielded", "slice": "slice_idx", "x": "x"}


def norm_concretise(c: Dict[str, Any]) -> Dict[str, Any]:
    rec: Dict[str, Any] = {"turn": 3, "agent": "Ambrose", "zz": [1, 2]}
    for k, f in FIELD_OF.items():
        if c[k] != "absent":
            rec[f] = copy.deepcopy(CONCRETE[k][c[k]])
    return rec


def _same(a, b) -> bool:
    return json.dumps(a, sort_keys=True) == json.dumps(b, sort_keys=True)


def norm_compare(c: Dict[str, Any], want: Dict[str, str], rec: Dict[str, Any], got: Any, where: str) -> List[Tuple[str, str]]:
    """alpha(real output) vs the spec's predicted tokens, field by field"""
    fails: List[Tuple[str, str]] = []
    if not isinstance(got, dict):
        return [("NormaliseOnlyVolatile", f"{where}: returned {type(got).__name__}")]
    for k, f in FIELD_OF.items():
        w = want[f]
        if w == "absent":
            if f in got:
                fails.append(("NormaliseOnlyVolatile", f"{where}: field {f} should be {'dropped' if c[k] != 'absent' else 'absent'}, got {got[f]!r}"))
            continue
        if f not in got:
            fails.append(("NormaliseOnlyVolatile", f"{where}: field {f} ({c[k]}) was dropped, spec keeps it as {w}"))
            continue
        v = got[f]
        if w == c[k] and not (f == "ms" and w == "zero") and not (f == "durations_ms" and w == "dzero"):
            # predicted untouched: exact (type-aware) equality with the input value
            if not _same(v, rec[f]):
                fails.append(("NormaliseOnlyVolatile", f"{where}: field {f} changed {rec[f]!r} -> {v!r}, spec leaves it untouched"))
        elif f == "ms":
            if isinstance(v, bool) or not isinstance(v, (int, float)) or v != 0:
                fails.append(("NormaliseOnlyVolatile", f"{where}: ms={v!r}, spec says zero"))
        elif f == "durations_ms":
            if not (isinstance(v, dict) and list(v.keys()) == list(rec[f].keys()) and all(x == 0 and not isinstance(x, bool) for x in v.values())):
                fails.append(("NormaliseOnlyVolatile", f"{where}: durations_ms={v!r}, spec says same keys, all zero"))
        elif f == "yielded":
            if v is not True and v != 1:
                fails.append(("NormaliseOnlyVolatile", f"{where}: yielded={v!r}, spec says true"))
        elif f == "slice_idx":
            if isinstance(v, bool) or not isinstance(v, int) or v != int(rec[f]):
                fails.append(("NormaliseOnlyVolatile", f"{where}: slice_idx={v!r}, spec says integer {int(rec[f])}"))
    # everything that is not one of the modelled fields is untouched
    for f in rec:
        if f not in FIELD_OF.values() and (f not in got or not _same(got[f], rec[f])):
            fails.append(("NormaliseOnlyVolatile", f"{where}: non-volatile field {f} changed: {rec[f]!r} -> {got.get(f)!r}"))
    for f in got:
        if f not in rec:
            fails.append(("NormaliseOnlyVolatile", f"{where}: invented field {f}"))
    return fails


def _set_ci(on: bool) -> None:
    if on:
        os.environ["CI"] = "true"
    else:
        os.environ.pop("CI", None)


def replay_normalise(case: Dict[str, Any]) -> List[Tuple[str, str]]:
    from clematis.engine.util.io_logging import normalize_for_identity
    c, want = case["c"], case["out"]
    saved = os.environ.get("CI")
    fails: List[Tuple[str, str]] = []
    try:
        _set_ci(c["ci"])
        rec = norm_concretise(c)
        before = copy.deepcopy(rec)
        got = normalize_for_identity(c["stream"], rec)
        if not _same(rec, before):
            fails.append(("NormaliseOnlyVolatile", f"the caller's record was mutated: {before} -> {rec}"))
            rec = before
        fails += norm_compare(c, want, rec, got, "normalize_for_identity")
        if isinstance(got, dict):
            snap = copy.deepcopy(got)
            again = normalize_for_identity(c["stream"], got)
            if not _same(again, snap):
                fails.append(("NormaliseIdempotent", f"second normalisation changed the record: {snap} -> {again}"))
        if not c["ci"]:
            # the flag is CI=true; other values leave records alone
            os.environ["CI"] = "false"
            g2 = normalize_for_identity(c["stream"], copy.deepcopy(before))
            if not _same(g2, before):
                fails.append(("NormaliseOnlyVolatile", f"CI=false changed the record: {before} -> {g2}"))
    finally:
        if saved is None:
            os.environ.pop("CI", None)
        else:
            os.environ["CI"] = saved
    return fails


def replay_normalise_disk(args) -> List[Tuple[int, str, str]]:
    """the same cases through the writers: append_jsonl (io.log), orchestrator.logging.append_jsonl and
    rewrite_jsonl; the line on disk is compared with the spec's prediction.  One directory per
    (writer, CI flag); returns [(case index, clause, message)]"""
    workdir, cases = args
    import clematis.io.log as L
    from clematis.engine.orchestrator import logging as OL
    saved = os.environ.get("CI")
    saved_dir = os.environ.get("CLEMATIS_LOG_DIR")
    out: List[Tuple[int, str, str]] = []
    try:
        for writer in ("append", "orch", "rewrite"):
            for ci in (False, True):
                d = os.path.join(workdir, f"norm_{writer}_{int(ci)}")
                os.makedirs(d, exist_ok=True)
                os.environ["CLEMATIS_LOG_DIR"] = d
                _set_ci(ci)
                per_stream: Dict[str, List[int]] = {}
                for idx, case in enumerate(cases):
                    if case["c"]["ci"] != ci:
                        continue
                    per_stream.setdefault(case["c"]["stream"], []).append(idx)
                for stream, idxs in per_stream.items():
                    recs = [norm_concretise(cases[i]["c"]) for i in idxs]
                    if writer == "append":
                        for r in recs:
                            L.append_jsonl(stream, r)
                    elif writer == "orch":
                        for r in recs:
                            OL.append_jsonl(stream, r)
                    else:
                        L.rewrite_jsonl(stream, recs)
                    with open(os.path.join(d, stream), "rb") as f:
                        data = f.read()
                    lines = data.split(b"\n")
                    if lines[-1] != b"" or len(lines) - 1 != len(idxs):
                        out.append((idxs[0], "OneCompleteLinePerRecord", f"{writer}/{stream}: {len(lines) - 1} lines for {len(idxs)} records"))
                        continue
                    for i, raw in zip(idxs, lines):
                        try:
                            got = json.loads(raw.decode("utf-8"))
                        except Exception as e:
                            out.append((i, "OneCompleteLinePerRecord", f"{writer}/{stream}: unparsable line: {e}"))
                            continue
                        rec = norm_concretise(cases[i]["c"])
                        for clause, msg in norm_compare(cases[i]["c"], cases[i]["out"], rec, got, f"{writer} on disk"):
                            out.append((i, clause, msg))
    finally:
        if saved is None:
            os.environ.pop("CI", None)
        else:
            os.environ["CI"] = saved
        if saved_dir is None:
            os.environ.pop("CLEMATIS_LOG_DIR", None)
        else:
            os.environ["CLEMATIS_LOG_DIR"] = saved_dir
    return out


# ------------------------------------------------------------------------------------------------
# Stager
# ------------------------------------------------------------------------------------------------
# documented stream order (docs/m9/overview.md PR71; reflection after the turn streams; unknown last)
ORD2NAME = {1: "t1.jsonl", 2: "t2.jsonl", 3: "t3_plan.jsonl", 4: "t3_dialogue.jsonl", 5: "t4.jsonl",
            6: "apply.jsonl", 7: "health.jsonl", 8: "turn.jsonl", 9: "scheduler.jsonl",
            10: "t3_reflection.jsonl", 99: "c16_unknown_stream.jsonl"}
UNITB = 10          # bytes of staging estimate per abstract size unit
INF = 0             # "no limit given": the stager's default bound


def decode_rec(code: int) -> Dict[str, int]:
    z = code % 10
    s = (code // 10) % 10
    o = (code // 100) % 100
    t = code // 10000
    return {"t": t, "o": o, "s": s, "z": z}


def digits(n: int) -> List[int]:
    return [int(ch) for ch in str(n)] if n else []


def _accepts(limit: int, payloads: List[Dict[str, Any]]) -> bool:
    from clematis.engine.util.io_logging import LogStager, LogKey
    st = LogStager(byte_limit=limit)
    try:
        for k, p in enumerate(payloads, 1):
            st.stage("apply.jsonl", LogKey(1, 1, 0, k), p)
        return True
    except RuntimeError:
        return False


def _min_limit(payloads: List[Dict[str, Any]]) -> int:
    """smallest limit under which the payloads can be staged one after the other without back-pressure"""
    lo, hi = 0, 8192
    while lo < hi:
        mid = (lo + hi) // 2
        if _accepts(mid, payloads):
            hi = mid
        else:
            lo = mid + 1
    return lo


_PADS: Dict[int, int] = {}
FILLER = {"i": 0, "p": "f" * 40}


def _estimate(payload: Dict[str, Any]) -> int:
    """the staging estimate of one payload as seen through the API, measured behind a filler record so
    that it does not depend on what the stager does with an empty buffer:
    est(P) = minlimit(F, P) - minlimit(F, F) / 2"""
    two = _min_limit([FILLER, FILLER])
    return _min_limit([FILLER, payload]) - two // 2


def calibrate(sizes=range(1, 10)) -> Dict[int, int]:
    """pad length per abstract size z such that the real size estimate of the payload is z*UNITB"""
    for z in sizes:
        if z in _PADS:
            continue
        for p in range(0, z * UNITB + 1):
            if _estimate({"i": 1, "p": "x" * p}) == z * UNITB:
                _PADS[z] = p
                break
        else:
            raise RuntimeError(f"cannot build a payload whose staging estimate is {z * UNITB}")
    return _PADS


def drive(arr: List[Dict[str, int]], limit_units: int, sink) -> Dict[str, Any]:
    """the commit-phase loop of clematis/engine/orchestrator/parallel.py::_run_agents_parallel_batch:
       key = default_key_for(...); try stage; on LOG_STAGING_BACKPRESSURE: for rec in drain_sorted():
       append(rec.file_path, rec.payload); stage again (once); at the end drain_sorted() and append."""
    from clematis.engine.util import io_logging as IOL
    calibrate({r["z"] for r in arr})
    stager = IOL.enable_staging(limit_units * UNITB) if limit_units else IOL.enable_staging()
    batches: List[List[int]] = []
    bp = 0
    at = 0
    err = None
    try:
        for idx, r in enumerate(arr, 1):
            fp = ORD2NAME[r["o"]]
            payload = {"i": idx, "p": "x" * _PADS[r["z"]]}
            key = IOL.default_key_for(file_path=fp, turn_id=r["t"], slice_idx=r["s"])
            try:
                stager.stage(fp, key, payload)
            except RuntimeError as exc:
                if str(exc) == "LOG_STAGING_BACKPRESSURE":
                    bp += 1
                    b = []
                    for rec in stager.drain_sorted():
                        sink(rec.file_path, rec.payload)
                        b.append(rec.payload["i"])
                    if b:
                        batches.append(b)
                    try:
                        stager.stage(fp, key, payload)
                    except RuntimeError as exc2:
                        at = idx
                        err = str(exc2)
                        break
                else:
                    raise
        if not at:
            b = []
            for rec in stager.drain_sorted():
                sink(rec.file_path, rec.payload)
                b.append(rec.payload["i"])
            if b:
                batches.append(b)
    finally:
        IOL.disable_staging()
    return {"batches": batches, "bp": bp, "at": at, "err": err}


def _key(arr, i):
    r = arr[i - 1]
    return (r["t"], r["o"], r["s"], i)


def _per_file(arr, order):
    out: Dict[int, List[int]] = {}
    for i in order:
        out.setdefault(arr[i - 1]["o"], []).append(i)
    return out


def _limits_of(case) -> List[int]:
    o = case["o"]
    return [int(k) for k in o.keys()] if isinstance(o, dict) else list(range(1, len(o) + 1))


def _get(v, L):
    return v[str(L)] if isinstance(v, dict) else v[L - 1]


def replay_stager(case: Dict[str, Any]) -> List[Dict[str, Any]]:
    """-> list of findings {clause, cause, L, msg}; [] = all clauses hold under every limit and the
    real mechanism coincides with the model"""
    arr = [decode_rec(c) for c in case["a"]]
    n = len(arr)
    mono = bool(case["f"])
    srt = digits(case["srt"])
    finds: List[Dict[str, Any]] = []
    disk = case.get("disk")
    # reference: no limit given (default bound): one drain
    sunk: List[Tuple[str, int]] = []
    ref = drive(arr, INF, lambda fp, p: sunk.append((fp, p["i"])))
    ref_out = [i for _, i in sunk]
    if ref["at"] or ref["bp"] or ref_out != srt:
        finds.append({"clause": "DrainSorted", "cause": "unbounded-drain-not-in-key-order", "L": 0,
                      "msg": f"unbounded stager flushes {ref_out}, documented (turn, stage, slice, arrival) order is {srt}"})
    ref_pf = _per_file(arr, srt)
    for L in _limits_of(case):
        sunk = []
        if disk:
            d = os.path.join(disk, f"L{L}")
            os.makedirs(d, exist_ok=True)
            os.environ["CLEMATIS_LOG_DIR"] = d
            from clematis.engine.orchestrator.logging import _append_unbuffered
            def sink(fp, p, _a=_append_unbuffered):
                _a(fp, p)
                sunk.append((fp, p["i"]))
        else:
            def sink(fp, p):
                sunk.append((fp, p["i"]))
        r = drive(arr, L, sink)
        out = [i for _, i in sunk]
        want_out = digits(_get(case["o"], L))
        m = _get(case["m"], L)
        want = {"at": m // 100, "bp": (m // 10) % 10, "nb": m % 10}
        oversize = any(x["z"] > L for x in arr)
        local: List[Dict[str, Any]] = []
        # --- clauses evaluated on the real outcome ---
        for b in r["batches"]:
            if any(_key(arr, a) >= _key(arr, c) for a, c in zip(b, b[1:])):
                local.append({"clause": "DrainSorted", "cause": "batch-not-in-key-order", "L": L,
                              "msg": f"limit {L}: drained batch {b} is not in (turn, stage, slice, arrival) order"})
                break
        if any(fp != ORD2NAME[arr[i - 1]["o"]] for fp, i in sunk):
            local.append({"clause": "DrainSorted", "cause": "record-flushed-to-wrong-file", "L": L, "msg": f"limit {L}: {sunk}"})
        if r["at"]:
            big = arr[r["at"] - 1]["z"] > L
            local.append({"clause": "DrainSorted", "cause": "record-larger-than-limit" if big else "retry-raised", "L": L,
                          "msg": f"limit {L} units ({L * UNITB} bytes): record #{r['at']} (estimate {arr[r['at'] - 1]['z'] * UNITB} bytes) "
                                 f"raised {r['err']} again on the retry after drain; it and the {n - r['at']} following records are never flushed"})
        else:
            if sorted(out) != list(range(1, n + 1)):
                local.append({"clause": "NoLossNoDuplication", "cause": "staged-record-lost-or-duplicated", "L": L,
                              "msg": f"limit {L}: flushed {out} for {n} staged records"})
            pf = _per_file(arr, out)
            if pf != ref_pf:
                bad = sorted(o for o in set(pf) | set(ref_pf) if pf.get(o) != ref_pf.get(o))
                explained = (out == want_out) and not mono
                local.append({"clause": "FlushOrderIndependentOfLimit",
                              "cause": "non-monotone-arrival" if explained else ("monotone-arrival" if mono else "unexplained-order"),
                              "L": L,
                              "msg": f"limit {L} units: file {ORD2NAME[bad[0]]} receives records in order {pf.get(bad[0])}, "
                                     f"with an unbounded stager {ref_pf.get(bad[0])}"
                                     + (" (the earlier back-pressure flush already wrote the larger key)" if explained else "")})
        # --- conformance with the model of the documented mechanism ---
        got = {"at": r["at"], "bp": r["bp"], "nb": len(r["batches"])}
        if (out != want_out or got != want) and not any(f["clause"] == "DrainSorted" for f in local):
            local.append({"clause": "StagerConformance", "cause": "mechanism-differs-from-model", "L": L,
                          "msg": f"limit {L}: real flush order {out} {got}, model of the documented drain/flush/retry says {want_out} {want}"})
        if disk and not r["at"]:
            for o, idxs in _per_file(arr, out).items():
                with open(os.path.join(d, ORD2NAME[o]), "rb") as f:
                    on_disk = [json.loads(x)["i"] for x in f.read().split(b"\n") if x]
                if on_disk != idxs:
                    local.append({"clause": "FlushOrderIndependentOfLimit", "cause": "disk-order-differs-from-flush-order", "L": L,
                                  "msg": f"limit {L}: {ORD2NAME[o]} holds {on_disk}, flushed {idxs}"})
        if oversize and not r["at"] and want["at"]:
            pass   # the real stager accepted a record the model rejects: reported through StagerConformance above
        finds += local
    return finds
