"""C09 — stage-level parallelism is indistinguishable from sequential execution.

(M)    RunParallel.tla: pool semantics of the deterministic helper; every feasible schedule for <= 4 (5)
       tasks x failure sets x order keys with ties x worker counts 0..8; ScheduleIndependent,
       HelperErrorsAllSortedNoMerge, PoolBounded as invariants (exhaustive).
(S->C)  every terminal schedule is forced on the real run_parallel (thunks block on events and are
       released in TLC's completion order) and the returned value / ParallelError.errors compared with
       the spec; worker counts <= 1 compared with a plain loop.
       T1: multi-graph worlds, real t1_propagate with the parallel gate open, completion orders forced
       through a store double whose get_graph blocks per graph; compared with the sequential path.
       T2: sharded memories through the real t2_semantic with the fan-out gate open vs closed.
       Real thread pools under switch-interval jitter (thorough).
"""
from __future__ import annotations

import itertools
import json
import os
import sys
import threading
from typing import Any, Dict, List, Tuple

from ..util import make_cfg, pmap, rng

MANIFEST = {
    "technique": "TLA+ pool model of run_parallel model-checked exhaustively with TLC (all feasible schedules x failure sets x tied keys x worker counts); every schedule forced on the real helper with event-blocked thunks; T1 (multi-graph) and T2 (sharded) parallel paths compared with their sequential paths under forced and jittered completion orders",
    "text": "Exhaustive model checking of the helper's pool semantics for schedule independence (merge ordered by key then submit index, all failures reported sorted, one worker = loop), bound to the code by forcing every TLC schedule on the real run_parallel, and differential runs of the real t1_propagate over several graphs and t2_semantic over shards with the parallel gates open vs closed (items, order, scores, counters) under forced completion orders and real pools with switch-interval jitter.",
    "note": "Helper: <= 4 tasks exhaustively (5 in thorough). T1/T2: small worlds (3 graphs; 6-9 episodes in 2-4 shards), all permutations of completion order for T1, jittered pools for T2. Scores compared exactly (the same float operations run on both paths); exact-score ties between distinct episodes are resolved by id on both paths.",
}


# ---- helper ------------------------------------------------------------------------------------
def replay_schedule(case) -> List[Tuple[str, str]]:
    from clematis.engine.util.parallel import run_parallel, ParallelError
    n, w = case["n"], case["w"]
    key, fail, order = case["key"], case["fail"], case["done"]
    started = [threading.Event() for _ in range(n)]
    release = [threading.Event() for _ in range(n)]
    finished = [threading.Event() for _ in range(n)]

    def mk(i):
        def thunk():
            started[i].set()
            if not release[i].wait(10):
                raise RuntimeError("verif: schedule not feasible on the real pool (timeout)")
            try:
                if fail[i]:
                    raise ValueError(f"task{i + 1}")
                return ("r", i + 1)
            finally:
                finished[i].set()
        return thunk

    def controller():
        for t in order:
            i = t - 1
            if not started[i].wait(10):
                return
            release[i].set()
            finished[i].wait(10)
        # anything the spec says never runs (sequential stop) must not block forever
    ct = threading.Thread(target=controller, daemon=True)
    ct.start()
    tasks = [((key[i], f"t{i + 1}"), mk(i)) for i in range(n)]
    fails: List[Tuple[str, str]] = []
    try:
        res = run_parallel(tasks, max_workers=w, merge_fn=lambda pairs: [r[1] for _, r in pairs], order_key=lambda k: k[0])
        got = {"kind": "ok", "order": res}
    except ParallelError as e:
        got = {"kind": "error", "order": [int(str(te.key[1])[1:]) for te in e.errors]}
        for te in e.errors:
            if te.exc_type != "ValueError":
                fails.append(("HelperErrorsAllSortedNoMerge", f"unexpected task error {te}"))
    except Exception as e:
        return [("HelperMergeSorted", f"run_parallel raised {type(e).__name__}: {e} for {case}")]
    ct.join(5)
    want = case["expected"]
    if got["kind"] != want["kind"] or list(got["order"]) != list(want["order"]):
        clause = "HelperOneWorkerIsLoop" if w <= 1 else ("HelperErrorsAllSortedNoMerge" if want["kind"] == "error" else "HelperMergeSorted")
        fails.append((clause, f"n={n} w={w} keys={key} fail={fail} completion={order}: got {got}, spec {want}"))
    if w <= 1:
        # plain loop reference
        ran = [i + 1 for i in range(n) if started[i].is_set()]
        stop = next((i + 1 for i in range(n) if fail[i]), None)
        want_ran = list(range(1, (stop or n) + 1))
        if ran != want_ran:
            fails.append(("HelperOneWorkerIsLoop", f"w={w}: tasks run {ran}, a plain loop runs {want_ran}"))
    return fails


# ---- T1 ----------------------------------------------------------------------------------------
class BlockingStore:
    def __init__(self, inner, order):
        self.inner = inner
        self.order = list(order)
        self.cv = threading.Condition()
        self.pos = 0

    def get_graph(self, gid):
        g = self.inner.get_graph(gid)
        if self.order:
            with self.cv:
                ok = self.cv.wait_for(lambda: self.pos >= len(self.order) or self.order[self.pos] == gid, timeout=0.25)
                self.pos += 1
                self.cv.notify_all()
        return g

    def csr(self, gid):
        # every adjacency lookup of a walk gives the other workers a turn, so the walks of different graphs interleave
        # step by step (state that the walks share would be visible as a difference from the sequential run)
        return _YieldingAdj(self.inner.csr(gid))

    def __getattr__(self, n):
        return getattr(self.inner, n)


class _YieldingAdj(dict):
    def __contains__(self, k):
        import time as _t
        _t.sleep(0.0004)
        return dict.__contains__(self, k)

    def __getitem__(self, k):
        import time as _t
        _t.sleep(0.0004)
        return dict.__getitem__(self, k)


def _t1_world(seed, ngraphs=3):
    from .. import engine as E
    r = rng(seed, "t1w")
    graphs = {}
    labels = ["apple", "banana", "cherry", "date", "elder"]
    for gi in range(ngraphs):
        nodes = [(f"g{gi}:n{j}", labels[(j + gi) % 5], (["fruit"] if j == 0 else [])) for j in range(4)]
        edges = []
        for j in range(5):
            a, b = r.randrange(4), r.randrange(4)
            edges.append((f"g{gi}:e{j}", f"g{gi}:n{a}", f"g{gi}:n{b}", r.choice([0.25, 0.5, 1.0, -0.5]), r.choice(["supports", "associates", "contradicts"])))
        graphs[f"g:{gi}"] = {"nodes": nodes, "edges": edges}
    return graphs


def t1_case(case) -> List[Tuple[str, str]]:
    from .. import engine as E
    from clematis.engine.stages.t1 import t1_propagate
    seed, perm, workers, text = case["seed"], case["perm"], case["workers"], case["text"]
    graphs = _t1_world(seed, case.get("ngraphs", 3))
    fails: List[Tuple[str, str]] = []
    base = {"t1": {"cache": {"enabled": False}}}
    cfg_seq = E.validated_cfg(base)
    # (the perf caps of T1 are configured in both runs: bounded visited set / dedupe window are per-walk structures)
    if seed % 2:
        base["perf"] = {"enabled": True, "t1": {"caps": {"visited": 64}, "dedupe_window": 8}}
    cfg_par = E.validated_cfg(E.deep_merge(base, {"perf": {"enabled": True, "parallel": {"enabled": True, "t1": True, "max_workers": workers}}}))
    st = E.mk_state(graphs, [])
    ref = t1_propagate(E.mk_ctx(cfg_seq), st, text)
    st2 = E.mk_state(graphs, [])
    st2["store"] = BlockingStore(st2["store"], perm)
    old = sys.getswitchinterval()
    if case.get("jitter"):
        sys.setswitchinterval(1e-6)
    try:
        got = t1_propagate(E.mk_ctx(cfg_par), st2, text)
    except Exception as e:
        return [("T1ParEqSeq", f"parallel t1_propagate raised {type(e).__name__}: {e}")]
    finally:
        sys.setswitchinterval(old)
    mask = {"parallel_workers", "task_count"}
    mr = {k: v for k, v in ref.metrics.items() if k not in mask}
    mg = {k: v for k, v in got.metrics.items() if k not in mask}
    if got.graph_deltas != ref.graph_deltas:
        fails.append(("T1ParEqSeq", f"seed={seed} order={perm} workers={workers}: deltas differ: {got.graph_deltas[:6]} vs {ref.graph_deltas[:6]}"))
    if mg != mr:
        fails.append(("T1ParEqSeq", f"seed={seed} order={perm} workers={workers}: counters differ: {mg} vs {mr}"))
    if not fails and not perm:
        # the same turn twice with the stage cache ON through the parallel path: what the first call leaves in the
        # process-global cache must be the per-graph results, so the second (warm) call returns the same deltas
        from .. import engine as E2
        cfg_warm = E.validated_cfg(E.deep_merge({"t1": {"cache": {"enabled": True, "max_entries": 64, "ttl_s": 3600}}},
                                                {"perf": {"enabled": True, "parallel": {"enabled": True, "t1": True, "max_workers": workers}}}))
        E2.reset_global_caches()
        try:
            st3 = E.mk_state(graphs, [])
            first = t1_propagate(E.mk_ctx(cfg_warm), st3, text)
            second = t1_propagate(E.mk_ctx(cfg_warm), st3, text)
            for nm, r_ in (("first", first), ("second (warm)", second)):
                if r_.graph_deltas != ref.graph_deltas:
                    fails.append(("T1ParEqSeq", f"seed={seed} workers={workers} stage cache on, {nm} call: deltas {r_.graph_deltas[:8]} vs sequential {ref.graph_deltas[:8]} "
                                                f"({len(r_.graph_deltas)} vs {len(ref.graph_deltas)})"))
                    break
        except Exception as e:      # noqa: BLE001
            fails.append(("T1ParEqSeq", f"seed={seed} workers={workers} stage cache on: parallel t1_propagate raised {type(e).__name__}: {e}"))
        finally:
            E2.reset_global_caches()
    return fails


# ---- T2 ----------------------------------------------------------------------------------------
def _t2_world(seed, n):
    from .. import engine as E
    r = rng(seed, "t2w")
    words = ["apple", "banana", "cherry", "date", "elder", "fig", "grape"]
    eps = []
    for i in range(n):
        text = " ".join(r.choice(words) for _ in range(r.randrange(1, 4)))
        days = r.choice([1, 5, 20, 40, 200])
        ts = f"2025-{8 if days < 31 else (7 if days < 60 else 2):02d}-{(28 - days % 27):02d}T00:00:00Z"
        eps.append(E.mk_episode(f"e{i:02d}", r.choice(["A", "B", "world"]), text, ts=ts, importance=r.choice([0.0, 0.5, 1.0]),
                                cluster=r.choice(["c1", "c2", "c3", None])))
    if r.random() < 0.5 and n >= 2:          # duplicate vectors: exact score ties broken by id
        eps[1]["vec_full"] = eps[0]["vec_full"]
        eps[1]["text"] = eps[0]["text"]
    if r.random() < 0.3 and n >= 3:          # the index appends: the same id may be stored twice (two versions of one memory)
        j = r.randrange(1, n)
        eps[j]["id"] = eps[0]["id"]
    if r.random() < 0.12 and n >= 2:         # a memory whose stored vector has another dimension: the search fails on it
        eps[-1]["vec_full"] = list(eps[-1]["vec_full"])[:-1]
    return eps


def t2_case(case) -> List[Tuple[str, str]]:
    from .. import engine as E
    from clematis.engine.stages.t2.core import t2_semantic
    seed, n, workers = case["seed"], case["n"], case["workers"]
    r = rng(seed, "t2cfg")
    over = {"t1": {"cache": {"enabled": False}},
            "t2": {"cache": {"enabled": False}, "sim_threshold": r.choice([-1.0, 0.0, 0.1]), "k_retrieval": r.choice([1, 2, 3, 64]),
                   "tiers": r.choice([["exact_semantic", "cluster_semantic", "archive"], ["cluster_semantic"], ["exact_semantic"], ["archive", "exact_semantic"]]),
                   "clusters_top_m": r.choice([1, 2, 3]), "exact_recent_days": r.choice([10, 30]), "owner_scope": r.choice(["any", "agent", "world"]),
                   "ranking": {"alpha_sim": 0.5, "beta_recency": 0.25, "gamma_importance": 0.25}}}
    par = {"perf": {"enabled": True, "parallel": {"enabled": True, "t2": True, "max_workers": workers}}}
    eps = _t2_world(seed, n)
    if case.get("shape") == "crafted":
        # two recent rows in the one cluster that is searched (the cluster tier returns them again), old rows elsewhere, k above
        # what the first two tiers give: the archive rows of every shard are needed; the rows are listed in a seeded order so
        # that the recent rows share a shard with a needed old row in about half of the cases
        import math as _m
        from ..engine import hash_vec
        text = "cherry"
        qv = [float(x) for x in hash_vec(text, 32)]
        qn = _m.sqrt(sum(x * x for x in qv)) or 1.0
        qh = [x / qn for x in qv]
        uv = [float(x) for x in hash_vec("zz orthogonal noise", 32)]
        dot = sum(a_ * b_ for a_, b_ in zip(uv, qh))
        uv = [a_ - dot * b_ for a_, b_ in zip(uv, qh)]
        un = _m.sqrt(sum(x * x for x in uv)) or 1.0
        uh = [x / un for x in uv]

        def vec(c_):
            return [c_ * a_ + _m.sqrt(max(0.0, 1 - c_ * c_)) * b_ for a_, b_ in zip(qh, uh)]
        rw = rng(seed, "t2crafted")
        rows = [("r1", 0.9, False, "c1"), ("r2", 0.8, False, "c1"), ("o1", 0.6, True, "c2"), ("o2", 0.5, True, "c3"), ("o3", 0.3, True, "c2"), ("o4", 0.2, True, "c3")]
        rows += [(f"o{5 + j}", 0.1 - 0.02 * j, True, rw.choice(["c2", "c3"])) for j in range(max(0, n - 6))]
        if seed % 2:
            rw.shuffle(rows)
        else:                           # neighbours stay neighbours (shards are runs of the backing list): a rotation of the list
            rot = (seed // 2) % len(rows)
            rows = rows[rot:] + rows[:rot]
        eps = [E.mk_episode(i_, "A", f"row {i_}", ts="2025-02-11T00:00:00Z" if old_ else "2025-08-27T00:00:00Z", importance=0.5, cluster=cl_, vec=vec(c_))
               for (i_, c_, old_, cl_) in rows]
        over["t2"].update({"sim_threshold": -1.0, "k_retrieval": case.get("k", 4), "tiers": ["exact_semantic", "cluster_semantic", "archive"],
                           "clusters_top_m": 1, "exact_recent_days": 30, "owner_scope": "any"})
    if case.get("shape") == "tiered":
        # a result that needs all three tiers: few recent rows (exact tier), one cluster searched, k between what the first
        # tiers give and what the memory holds - the archive rows of EVERY shard are then needed, also of a shard whose exact
        # and cluster tiers returned the same rows twice
        over["t2"].update({"sim_threshold": -1.0, "k_retrieval": r.choice([2, 3, 4, 5]), "tiers": ["exact_semantic", "cluster_semantic", "archive"],
                           "clusters_top_m": 1, "exact_recent_days": 30, "owner_scope": "any"})
        rw = rng(seed, "t2tiered")
        from ..engine import hash_vec
        for i, e in enumerate(eps):
            old_ = rw.random() < 0.7
            e["ts"] = "2025-02-11T00:00:00Z" if old_ else "2025-08-27T00:00:00Z"
            # the recent rows share a cluster that holds few old rows: when it is the one searched, the cluster tier returns
            # the exact tier's rows again
            e.setdefault("aux", {})["cluster_id"] = ("c1" if rw.random() < 0.1 else rw.choice(["c2", "c3"])) if old_ else "c1"
            e["id"] = f"e{i:02d}"
            e["vec_full"] = hash_vec(str(e.get("text", "")), 32)
    text = r.choice(["apple banana", "cherry", "fig grape date"])
    if case.get("shape") == "crafted":
        text = "cherry"
    outs = []
    old = sys.getswitchinterval()
    import clematis.engine.stages.t2.core as T2C
    fanouts = []
    real_rp = T2C.run_parallel

    def spy_rp(tasks, **k):
        fanouts.append(len(tasks))
        return real_rp(tasks, **k)
    # a slice budget on the retrieval (scheduler slices): it limits what the turn USES, not what either path retrieves
    sb = r.choice([None, None, 0, 1, 2])
    # a long-lived index: in every third case the index served another memory of the same size before (shards were
    # enumerated then), was cleared and refilled with this world's episodes
    reused = r.random() < 0.34

    def ctx_for(cfg):
        c = E.mk_ctx(cfg, "A")
        if sb is not None:
            c.slice_budgets = {"t2_k": sb}
        return c
    try:
        for cfg in (E.validated_cfg(over), E.validated_cfg(E.deep_merge(over, par))):
            t1 = type("T1", (), {"graph_deltas": [], "metrics": {}})()
            if reused:
                other = [dict(e, id="old-" + str(e["id"]), text="weather " + str(e.get("text", ""))) for e in reversed(eps)]
                for e, o in zip(reversed(eps), other):
                    o["vec_full"] = e["vec_full"]
                st = E.mk_state(E.DEFAULT_GRAPHS, other)
                try:
                    t2_semantic(ctx_for(cfg), st, text, t1)
                except Exception:
                    pass
                idx = st["mem_index"]
                idx.clear()
                for e in eps:
                    idx.add(dict(e))
            else:
                st = E.mk_state(E.DEFAULT_GRAPHS, eps)
            if case.get("jitter"):
                sys.setswitchinterval(1e-6)
            try:
                with E.patched_attr(T2C, run_parallel=spy_rp):
                    res = t2_semantic(ctx_for(cfg), st, text, t1)
            except Exception as e:      # noqa: BLE001 - a failing search is an outcome too: both paths must fail, or neither
                res = ("raised", type(e).__name__, str(e)[:160])
            finally:
                sys.setswitchinterval(old)
            outs.append(res)
    finally:
        sys.setswitchinterval(old)
    a, b = outs
    if isinstance(a, tuple) or isinstance(b, tuple):
        if isinstance(a, tuple) and isinstance(b, tuple):
            return [] if fanouts else []
        which = "sequential" if isinstance(a, tuple) else "parallel"
        exc = a if isinstance(a, tuple) else b
        other = b if isinstance(a, tuple) else a
        return [("T2ParEqSeq", f"seed={seed} n={n} workers={workers}: the {which} path fails with {exc[1]}: {exc[2]} while the other path returns "
                               f"{[str(x.id) for x in other.retrieved]} (a failing search must fail on both paths)")]
    ra = [(str(x.id), float(x.score)) for x in a.retrieved]
    rb = [(str(x.id), float(x.score)) for x in b.retrieved]
    fails = []
    cfgdesc = {k: v for k, v in over["t2"].items() if k != "cache"}
    if ra != rb:
        fails.append(("T2ParEqSeq", f"seed={seed} n={n} workers={workers} cfg={cfgdesc} text={text!r} slice t2_k={sb} reused index={reused}: sequential {ra} vs parallel {rb}"))
    if a.graph_deltas_residual != b.graph_deltas_residual:
        fails.append(("T2ParEqSeq", f"seed={seed} n={n} workers={workers}: residual deltas differ"))
    keys = ("k_returned", "k_used", "k_residual", "tier_sequence", "sim_stats", "score_stats")
    ma, mb = {k: a.metrics.get(k) for k in keys}, {k: b.metrics.get(k) for k in keys}
    if ma != mb:
        fails.append(("T2ParEqSeq", f"seed={seed} n={n} workers={workers} cfg={cfgdesc}: counters differ: {ma} vs {mb}"))
    if not fanouts:
        fails.append(("__no_fanout__", f"seed={seed} n={n} workers={workers}: the shard fan-out was never taken"))
    return fails


def check(run) -> None:
    q = run.quick
    run.rule = ("every terminal schedule of the exhaustively explored RunParallel model forced on run_parallel; T1 worlds x all completion orders x worker counts; "
                "T2 sharded worlds x settings x worker counts; distinct = distinct schedule / case")
    for n in ([2, 3, 4] if q else [2, 3, 4, 5]):
        consts = {"N": n, "Ws": [0, 1, 2, 3, 8] if n < 5 else [0, 2, 3], "KeyVals": [1, 2] if n < 5 else [1]}
        cfg = make_cfg(consts, ["ScheduleIndependent", "HelperErrorsAllSortedNoMerge", "PoolBounded"], [], emit=False, view=None, constraint="EmitDone")
        res = run.tlc("RunParallel", cfg, name=f"RunParallel_n{n}", workers=8, timeout_s=1500)
        run.model_must_hold(res)
        cases = res.emitted
        if q and n == 4:
            cases = cases[::4]
        outs = pmap(replay_schedule, cases, chunk=50)
        for c, fails in zip(cases, outs):
            run.traces += 1
            run.case(("sched", json.dumps(c, sort_keys=True)))
            if not fails:
                run.ok("RunParallel.schedule_conforms")
            for clause, msg in fails:
                run.fail(clause, {"clause": clause, "workers_le_1": c["w"] <= 1}, c, msg, replay={"schedule": c})
        if n == 3:
            run.sample({"schedule": cases[len(cases) // 2]}, cap=2)
    run.exhaustive = True
    # T1
    gids = ["g:0", "g:1", "g:2"]
    t1cases = []
    for seed in range(3 if q else 25):
        for perm in itertools.permutations(gids):
            for workers in ([2, 3] if q else [2, 3, 8]):
                t1cases.append({"seed": seed, "perm": list(perm), "workers": workers, "text": "apple banana fruit date", "jitter": False})
        t1cases.append({"seed": seed, "perm": [], "workers": 3, "text": "cherry elder apple", "jitter": True})
        # many active graphs (two-digit task indices): merge order = active_graphs order, not the order of their spellings
        many = [f"g:{i}" for i in range(12)]
        for perm in ([], list(reversed(many))):
            t1cases.append({"seed": seed, "perm": perm, "workers": 4, "text": "apple banana fruit date", "jitter": not perm, "ngraphs": 12})
    for c, fails in zip(t1cases, pmap(t1_case, t1cases, chunk=4)):
        run.traces += 1
        run.case(("t1", json.dumps(c, sort_keys=True)))
        if not fails:
            run.ok("T1ParEqSeq.conforms")
        for clause, msg in fails:
            run.fail(clause, {"clause": clause, "stage": "t1"}, c, msg, replay={"t1": c})
    # T2
    t2cases = []
    for seed in range(60 if q else 1500):
        for n in (2, 5, 9):
            t2cases.append({"seed": seed, "n": n, "workers": [2, 3, 4][seed % 3], "jitter": seed % 4 == 0})
        for n in (6, 8):
            t2cases.append({"seed": seed, "n": n, "workers": [2, 3][seed % 2], "jitter": False, "shape": "tiered"})
        if seed < 24 or not q:
            t2cases.append({"seed": seed, "n": 6 + seed % 3, "workers": 2 + seed % 2, "jitter": False, "shape": "crafted", "k": 3 + seed % 3})
    for c, fails in zip(t2cases, pmap(t2_case, t2cases, chunk=8)):
        run.traces += 1
        run.case(("t2", json.dumps(c, sort_keys=True)))
        if not any(cl == "__no_fanout__" for cl, _ in fails):
            run.ok("T2ParEqSeq.fanout_taken")
        if not fails:
            run.ok("T2ParEqSeq.conforms")
        for clause, msg in fails:
            if clause == "__no_fanout__":
                run.ok("T2ParEqSeq.fanout_not_taken")
                continue
            sig = {"clause": clause, "stage": "t2"}
            if "a failing search must fail on both paths" in msg:
                sig["what"] = "sequential-raises-parallel-returns" if "the sequential path fails" in msg else "parallel-raises-sequential-returns"
            run.fail(clause, sig, c, msg, replay={"t2": c})
    if run.clauses.get("T2ParEqSeq.fanout_taken", 0) == 0:
        from ..tlc import TLCError
        raise TLCError("C09: no T2 case exercised the shard fan-out (vacuous)")
    run.sample({"t2_case": t2cases[1]}, cap=4)
    run.assumptions += ["completion orders of T1 are forced at the store's get_graph call (task start), T2 shard tasks run on real pools (jittered)",
                        "the helper's tasks are black boxes: only start/finish order is controlled"]


def replay(rep) -> int:
    r = rep["replay"]
    if "schedule" in r:
        fails = replay_schedule(r["schedule"])
    elif "t1" in r:
        fails = t1_case(r["t1"])
    else:
        fails = t2_case(r["t2"])
    for f in fails:
        print(": ".join(f))
    if fails:
        print(f"VIOLATION property=C09 replay={rep.get('_path', '?')}")
        return 1
    print("replay: conforms")
    return 0
