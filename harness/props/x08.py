"""X08 (extra, beyond the listed properties) — the read-only state snapshot of the parallel compute phase.

(M)    ReadOnlyState.tla: a heap of live objects (state object, mappings, namespaces, lists, heavy leaves), the lazily
       frozen view (FrozenDict / FrozenList / shared refs), and histories of Snapshot, MutateLive, MutateView
       (every mutator spelling on every node of the view), ReadView, ReadSub up to MaxLen over four small worlds
       (mapping chain, dict below a list, namespaces, list of lists).  Clauses: ViewRejectsEveryStructuralMutation,
       FailedMutationChangesNothing, CapturedValueNeverChanges (= ViewStructureIsolatedFromLaterLiveStructuralChanges),
       ReadsDoNotTouchLive, ThroughViewOnlySharedObjects, FreezeMirrorsLive (= LeafIdentityPreserved), PromisedDepth.
(S->C)  every transition is emitted with its history and replayed on real objects: the world is rebuilt out of dict /
       OrderedDict / dict subclass / SimpleNamespace / list / heavy leaves (object, numpy array, dataclass, set),
       `readonly_snapshot` is taken, the history is re-run and the step applied; compared are the observation (returned
       / raised exception class), the whole live world and the whole view (keys, order, length, membership, identity of
       every shared object, the read laws, freeze idempotence, equality / hash laws) with the spec's post state.
       The boundary below a list / namespace shell (DeepList / DeepNs) is probed on the code once and the model is run
       with the booleans found; what the code leaves mutable there is reported as a census, not as a verdict.
       Seeded random family: larger nested values (tuples, namedtuples, sets, None, numpy arrays, dict subclasses,
       mappingproxy, a non-dict Mapping, deque, objects with attributes, slots, properties) against a Python reference of
       the documented rules.  Usage family: the batch driver of orchestrator/parallel.py with watching containers - no
       structural mutation of the live state in the compute phase, the commit phase gets and writes the live object;
       the real run_turn for two agents through the real _run_turn_compute.
"""
from __future__ import annotations

import collections
import json
import os
from typing import Any, Dict, List, Tuple

from ..util import make_cfg, pmap

MANIFEST = {"technique": "TLA+ model of the lazily frozen read-only state view over a heap of live objects (FrozenDict / FrozenList / shared refs), model-checked with TLC over bounded histories of snapshot, live mutation, mutation attempts on every view node and reads; every transition replayed on real objects built for clematis.engine.stages.state_clone; seeded random nested values against a Python reference; the batch driver's compute / commit phases with watching containers",
            "text": "extra spec beyond the listed properties", "note": "not a listed property; run with ./check X08"}

INVS = ["FreezeMirrorsLive", "PromisedDepth", "WellFormed"]
PROPS = ["ViewRejectsEveryStructuralMutation", "FailedMutationChangesNothing", "CapturedValueNeverChanges", "ReadsDoNotTouchLive", "ThroughViewOnlySharedObjects"]
ATTRS = ["a", "b", "c"]


def probe_boundary() -> Dict[str, Any]:
    """which reading of the shell boundary does the code implement (see the header of ReadOnlyState.tla)"""
    from types import SimpleNamespace
    from clematis.engine.stages.state_clone import FrozenDict, FrozenList, freeze
    fl = freeze([{"k": 1}, [1]])
    ft = freeze(({"k": 1},))
    fn = freeze(SimpleNamespace(a={"k": 1}, b=[1]))
    dl = [isinstance(fl[0], FrozenDict), isinstance(fl[1], FrozenList), isinstance(ft[0], FrozenDict)]
    dn = [isinstance(fn["a"], FrozenDict), isinstance(fn["b"], FrozenList)]
    return {"DeepList": all(dl), "DeepNs": all(dn), "mixed": (any(dl) != all(dl)) or (any(dn) != all(dn))}


def probe_dict_state() -> Dict[str, Any]:
    """[as implemented, census only] the facade over a DICT state - the type of state the engine itself uses: attribute lookup
    reaches the dict's bound methods, so dict-style reads hand out the live containers and dict-style mutators go through"""
    from clematis.engine.stages.state_clone import readonly_snapshot
    live = {"graphs": {"g": [1]}, "version_etag": "0"}
    v = readonly_snapshot(live)
    facts: Dict[str, Any] = {}
    try:
        facts["get_hands_out_live_container"] = v.get("graphs") is live["graphs"]
    except Exception as e:      # noqa: BLE001
        facts["get_hands_out_live_container"] = f"raises {type(e).__name__}"
    try:
        v.graphs
        facts["attribute_read_of_a_key"] = "ok"
    except Exception as e:      # noqa: BLE001
        facts["attribute_read_of_a_key"] = f"raises {type(e).__name__}"
    try:
        v["graphs"]
        facts["item_read"] = "ok"
    except Exception as e:      # noqa: BLE001
        facts["item_read"] = f"raises {type(e).__name__}"
    for name, fn in (("update", lambda: v.update({"x08": 1})), ("setdefault", lambda: v.setdefault("x08b", 1)), ("pop", lambda: v.pop("version_etag")),
                     ("dunder_setitem", lambda: v.__setitem__("x08c", 1))):
        before = dict(live)
        try:
            fn()
            facts["mutator_" + name] = "accepted, live state changed" if dict(live) != before else "accepted, no change"
        except Exception as e:      # noqa: BLE001
            facts["mutator_" + name] = f"raises {type(e).__name__}"
    return facts


def replay_transition(t) -> Dict[str, Any]:
    from .x08_machine import Machine, norm_heap, strip
    fails: List[Tuple[str, str]] = []
    info: Dict[str, int] = {}
    obs, op = t["obs"], t["obs"]["op"]
    hist = t["h"] or []
    where = f"world {t['w']}, after {[_short(o) for o in hist]}: {_short(op)}"
    try:
        m = Machine(t["w"], t["heap0"])
        for o in hist:
            m.apply(o)
        out = m.apply(op)
    except Exception as e:      # noqa: BLE001
        return {"fails": [("ReadsAgreeWithModel", f"{where}: the replay machine could not run the step: {type(e).__name__}: {e}")], "info": info}
    fails += [(c, f"{where}: {msg}") for c, msg in m.problems]
    frozen_target = op["a"] == "mview" and obs["node"] in ("ro", "fd", "fl")
    # ---- the observation ----
    if out.res != obs["res"]:
        if frozen_target:
            fails.append(("ViewRejectsEveryStructuralMutation", f"{where} on a {obs['node']} node did not raise (spec: {obs['exc']})"))
        elif op["a"] == "mview":
            fails.append(("ReadsAgreeWithModel", f"{where} on the shared live {obs['node']} raised {out.exc}: {out.msg} (spec: succeeds, the object is the live one)"))
        else:
            fails.append(("ReadsAgreeWithModel", f"{where}: {out.res} {out.exc} {out.msg}, spec {obs['res']} {obs['exc']}"))
    elif out.res == "raise" and out.exc != obs["exc"]:
        if frozen_target and out.exc in ("TypeError", "AttributeError"):
            info["exc_class_drift"] = 1
            info["drift:" + obs["node"] + "." + op["op"] + ":" + out.exc] = 1          # still a documented rejection; the class per spelling is "as implemented"
        else:
            fails.append(("ViewRejectsEveryStructuralMutation" if frozen_target else "ReadsAgreeWithModel",
                          f"{where}: raised {out.exc}: {out.msg}, spec {obs['exc']}"))
    elif out.res == "ok" and obs["new"] and out.value != obs["new"]:
        fails.append(("ReadsAgreeWithModel", f"{where}: fresh object numbered {out.value}, spec {obs['new']} (replay machine out of step)"))
    # ---- the live world ----
    got_live, want_live = norm_heap(m.project_live()), norm_heap(t["post"]["heap"])
    if got_live != want_live:
        k = next((i for i, (a, b) in enumerate(zip(got_live, want_live)) if a != b), min(len(got_live), len(want_live)))
        clause = "FailedMutationChangesNothing" if obs["res"] == "raise" else ("ReadsDoNotTouchLive" if op["a"] in ("snap", "read", "readsub") else "ReadsAgreeWithModel")
        fails.append((clause, f"{where}: live object #{k + 1} is {got_live[k] if k < len(got_live) else None}, spec {want_live[k] if k < len(want_live) else None}"))
    # ---- the view (destructive observation, last) ----
    if t["post"]["snapped"]:
        want_view = t["post"]["view"] if isinstance(t["post"]["view"], dict) else {}
        reads: List[str] = []
        got_view = m.project_view(sorted(want_view), [a for a in ATTRS if a not in want_view], reads)
        captured = set(t["post"]["cap"] or [])
        for a in sorted(want_view):
            g, w_ = strip(got_view[a]), strip(want_view[a])
            if g != w_:
                if obs["res"] == "raise":
                    clause = "FailedMutationChangesNothing"
                elif a in captured and _read_before(hist, a):
                    clause = "ViewStructureIsolatedFromLaterLiveStructuralChanges"
                elif _only_refs_differ(g, w_):
                    clause = "LeafIdentityPreserved"
                else:
                    clause = "ReadsAgreeWithModel"
                fails.append((clause, f"{where}: view.{a} is {_fmt(g)}, spec {_fmt(w_)}" + (" (attribute already read before the live change)" if clause.startswith("ViewStructure") else "")))
        nrefs, nfrozen = _count(list(want_view.values()))
        info["refs_compared_by_identity"] = nrefs
        info["frozen_nodes_read"] = nfrozen
        if obs["res"] == "ok" and op["a"] in ("mlive", "mview") and any(_read_before(hist, a) for a in captured):
            info["isolation_checked"] = 1
        for r_ in reads:
            clause = "FreezeIdempotent" if r_.startswith("FreezeIdempotent") else ("HashAndEqualitySemantics" if r_.startswith("HashAndEq") else "ReadsAgreeWithModel")
            fails.append((clause, f"{where}: {r_}"))
    if op["a"] == "mview" and obs["res"] == "ok" and obs["node"] != "leaf" and not fails:
        info["structural_write_through_view_accepted"] = 1
    if frozen_target and out.res == "raise" and out.exc in ("TypeError", "AttributeError"):
        info["rejected_" + obs["node"]] = 1
    return {"fails": fails, "info": info}


def _read_before(hist, a) -> bool:
    """was attribute a read through the current view before this step (then its frozen value must not move any more)"""
    last_snap = max([i for i, o in enumerate(hist) if o["a"] == "snap"], default=-1)
    return any(o["a"] in ("read", "mview") and o["attr"] == a for o in hist[last_snap + 1:])


def _count(fvs) -> Tuple[int, int]:
    refs = frozen = 0
    for fv in fvs:
        if fv["t"] == "ref":
            refs += 1
        else:
            frozen += 1
            r2, f2 = _count([c["v"] for c in (fv["ch"] or [])])
            refs, frozen = refs + r2, frozen + f2
    return refs, frozen


def _only_refs_differ(g, w_) -> bool:
    if isinstance(g, tuple) and isinstance(w_, tuple) and g and w_ and g[0] == w_[0]:
        if g[0] == "ref":
            return True
        if len(g[1]) != len(w_[1]):
            return False
        return all(x[0] == y[0] and (x[1] == y[1] or _only_refs_differ(x[1], y[1])) for x, y in zip(g[1], w_[1]))
    return False


def _fmt(v) -> str:
    if isinstance(v, tuple) and v and v[0] == "ref":
        return f"#{v[1]}"
    if isinstance(v, tuple) and v and v[0] in ("fd", "fl"):
        inner = ", ".join((f"{k}: " if v[0] == "fd" else "") + _fmt(x) for k, x in v[1])
        return ("{" + inner + "}") if v[0] == "fd" else ("[" + inner + "]")
    return str(v)


def _short(o) -> str:
    a = o["a"]
    if a == "snap":
        return "snapshot"
    if a == "mlive":
        return f"live#{o['id']}.{o['op']}" + (f"({o['key'] or o['pos'] or ''})" if o["op"] in ("set_new", "set_old", "del") else "")
    if a == "read":
        return f"view.{o['attr']}"
    if a == "readsub":
        return f"view[{o['attr']!r}]"
    tgt = "view" + (("." + o["attr"]) if o["attr"] else "") + "".join(f"<{p}>" for p in (o["path"] or []))
    return f"{tgt}.{o['op']}" + (f"->#{o['id']}" if o["id"] else "")


def _run_random(args):
    from .x08_random import random_case
    return random_case(args)


def _run_usage(case):
    from . import x08_usage as U
    if case["kind"] == "real":
        return U.real_case(case)
    return {"fails": U.contract_case(case), "notes": [], "ran": True}


def check(run) -> None:
    q = run.quick
    run.rule = ("every transition of the ReadOnlyState model (with its history) replayed on real objects through readonly_snapshot; seeded random "
                "nested values against a reference of the documented freeze rules; the batch driver with watching containers; distinct = distinct (history, step)")
    b = probe_boundary()
    if b["mixed"]:
        run.fail("ReadsAgreeWithModel", {"clause": "ReadsAgreeWithModel", "cause": "mixed-boundary"}, b,
                 "freeze() treats lists and tuples (or the values of a namespace) differently: some elements frozen, some not", replay={"probe": True})
    consts = {"Worlds": [1, 2, 3, 4], "MaxLen": 3 if q else 4, "DeepList": b["DeepList"], "DeepNs": b["DeepNs"], "Attrs": ATTRS,
              "Keys": ["k1", "k2", "k3"], "FreshKinds": ["leaf", "map"], "FullOps": True}
    run.constants = dict(consts, deeper_runs="quick: worlds 2,3 MaxLen 4 (FreshKinds leaf, FullOps FALSE); thorough: worlds 2,3 MaxLen 5 (same reduction)")
    ts: List[dict] = []
    if q:
        # all worlds with every spelling up to 3 steps; the two boundary worlds one step deeper with the representative half
        plans = [(dict(consts, MaxLen=3, FreshKinds=["leaf", "map"]), "ReadOnlyState_len3"),
                 (dict(consts, Worlds=[2, 3], MaxLen=4, FreshKinds=["leaf"], FullOps=False), "ReadOnlyState_len4")]
    else:
        # one TLC run per world (independent state spaces); the deepest level for the two boundary worlds only
        plans = [(dict(consts, Worlds=[w], MaxLen=4, FreshKinds=["leaf", "map"]), f"ReadOnlyState_w{w}_len4") for w in (1, 2, 3, 4)] + \
                [(dict(consts, Worlds=[w], MaxLen=5, FreshKinds=["leaf"], FullOps=False), f"ReadOnlyState_w{w}_len5") for w in (2, 3)]
    # one TLC worker per run: with several workers the search is not level by level, a state may first be met with a history
    # of full length and is then never expanded (VIEW hides the history); the runs themselves go side by side
    from concurrent.futures import ThreadPoolExecutor

    def one(plan):
        c, name = plan
        cfg = make_cfg(c, INVS, PROPS, emit=True, view="View_")
        return run.tlc("ReadOnlyState", cfg, name=name, workers=1, timeout_s=300 if q else 1800, heap="3g")
    with ThreadPoolExecutor(max_workers=2 if q else 4) as ex:
        results = list(ex.map(one, plans))
    for res in results:
        run.model_must_hold(res)
        if not res.emitted:
            from ..tlc import TLCError
            raise TLCError("ReadOnlyState emitted no transitions")
        ts += res.emitted
    heap0 = {}
    for t in ts:
        if not t["h"]:
            heap0[t["w"]] = t["post"]["heap"]
    seen = set()
    cases = []
    for t in ts:
        key = json.dumps([t["w"], t["h"], t["obs"]["op"]], sort_keys=True)
        if key in seen:
            continue
        seen.add(key)
        t["heap0"] = heap0[t["w"]]
        cases.append(t)
    run.extra["transitions_emitted"] = len(ts)
    census = collections.Counter()
    outs = pmap(replay_transition, cases, procs=6, chunk=400)
    smallest = None
    for t, out in zip(cases, outs):
        run.traces += 1
        run.case(json.dumps([t["w"], t["h"], t["obs"]["op"]], sort_keys=True))
        census.update(out["info"])
        if out["info"].get("structural_write_through_view_accepted") and (smallest is None or len(t["h"]) < len(smallest["h"])):
            smallest = t
        if not out["fails"]:
            run.ok("ReadOnlyState.transition_conforms")
            run.ok(f"ReadOnlyState.{t['obs']['op']['a']}_{t['obs']['res']}")
        for clause, msg in out["fails"]:
            run.fail(clause, {"clause": clause, "family": "model", "step": t["obs"]["op"]["a"], "node": t["obs"]["node"]},
                     {"w": t["w"], "h": t["h"], "obs": t["obs"]}, msg, replay={"t": t})
    if not run.violations and (not census.get("rejected_fd") or not census.get("rejected_fl") or not census.get("rejected_ro")):
        from ..tlc import TLCError
        raise TLCError(f"vacuous: no rejected mutation attempt on some node kind {dict(census)}")
    run.sample({"transition": {k: v for k, v in cases[len(cases) // 2].items() if k != "heap0"}}, cap=1)
    # ---- random family ----
    n = 600 if q else 20000
    args = [(run.seed, i, b["DeepList"], b["DeepNs"], 3 if i % 3 else 5) for i in range(n)]
    for a, out in zip(args, pmap(_run_random, args, procs=6, chunk=100)):
        run.traces += 1
        run.case(("rand", a[1]))
        census.update({"random." + k: v for k, v in out["info"].items()})
        if not out["fails"]:
            run.ok("ReadOnlyState.random_value_conforms")
        for clause, msg in out["fails"]:
            run.fail(clause, {"clause": clause, "family": "random"}, {"seed": a[0], "i": a[1]}, msg, replay={"random": list(a)})
    # ---- usage family ----
    ucases = [{"kind": "contract", "style": "dict", "workdir": run.workdir}, {"kind": "contract", "style": "attr", "workdir": run.workdir},
              {"kind": "real", "workdir": run.workdir}]
    for c in ucases:
        out = _run_usage(c)
        run.traces += 1
        run.case(("usage", c["kind"], c.get("style", "")))
        for nt in out.get("notes", []):
            run.notes.append(f"usage/{c['kind']}: {nt}")
        if c["kind"] == "real":
            census["usage.real_compute_ran"] = int(bool(out.get("ran")))
        if not out["fails"] and out.get("ran", True):
            run.ok(f"ReadOnlyState.usage_{c['kind']}_{c.get('style', 'pipeline')}")
        for clause, msg in out["fails"]:
            run.fail(clause, {"clause": clause, "family": "usage", "variant": c["kind"]}, {k: v for k, v in c.items() if k != "workdir"}, msg,
                     replay={"usage": {k: v for k, v in c.items() if k != "workdir"}})
    # ---- per-clause evaluation counts (how often each named clause was actually put to the test) ----
    nrej = census.get("rejected_fd", 0) + census.get("rejected_fl", 0) + census.get("rejected_ro", 0)
    for clause, n_ in (("ViewRejectsEveryStructuralMutation", nrej + census.get("random.rejected", 0)), ("FailedMutationChangesNothing", nrej),
                       ("ViewStructureIsolatedFromLaterLiveStructuralChanges", census.get("isolation_checked", 0)),
                       ("LeafIdentityPreserved", census.get("refs_compared_by_identity", 0)),
                       ("ReadsAgreeWithModel", census.get("frozen_nodes_read", 0) + census.get("random.frozen_nodes", 0)),
                       ("FreezeIdempotent", census.get("frozen_nodes_read", 0)), ("HashAndEqualitySemantics", census.get("frozen_nodes_read", 0)),
                       ("ComputePhaseLeavesLiveStateAlone", 3)):
        if n_ and not any(v["clause"] == clause for v in run.violations):
            run.ok(clause, n_)
    # ---- what the code does beyond the promised boundary (census, not a verdict) ----
    run.extra["boundary_as_implemented"] = {"DeepList": b["DeepList"], "DeepNs": b["DeepNs"]}
    run.extra["census"] = dict(census)
    ds = probe_dict_state()
    run.extra["facade_over_dict_state_as_implemented"] = ds
    if any(str(v_).startswith("accepted, live") for v_ in ds.values()) or ds.get("get_hands_out_live_container") is True:
        run.notes.append(f"facade over a DICT state (the engine's own state type; parallel.py passes the dict through readonly_snapshot) as implemented: {ds} - "
                         "the modelled guarantees hold for attribute-style state objects only")
    nacc = census.get("structural_write_through_view_accepted", 0)
    if nacc:
        run.notes.append(f"boundary as implemented (DeepList={b['DeepList']}, DeepNs={b['DeepNs']}): {nacc} replayed transitions are structural writes THROUGH the view "
                         f"that succeed and change the live world (containers below a list / tuple / namespace shell are handed out unfrozen); the module headline "
                         f"says 'nested mappings/lists are immutable'. Smallest: world {smallest['w']}, {[_short(o) for o in smallest['h']]} then {_short(smallest['obs']['op'])}")
    if census.get("exc_class_drift"):
        run.notes.append(f"{census['exc_class_drift']} rejections raised the other of TypeError / AttributeError than the model's as-implemented table")
    run.exhaustive = False
    run.assumptions += ["the exception class per mutator spelling (TypeError for operator forms, AttributeError for absent methods) is modelled as implemented; "
                        "the verdict only requires a TypeError or AttributeError",
                        "private slots (_data, _cache, _orig, _orig_state) are outside the modelled surface",
                        "the shell boundary (list / tuple elements, namespace values) is probed on the code and modelled as found"]


def replay(rep) -> int:
    r = rep["replay"]
    if "t" in r:
        fails = replay_transition(r["t"])["fails"]
    elif "random" in r:
        fails = _run_random(tuple(r["random"]))["fails"]
    elif "usage" in r:
        os.makedirs("/verif/.work/X08", exist_ok=True)
        fails = _run_usage(dict(r["usage"], workdir="/verif/.work/X08"))["fails"]
    else:
        b = probe_boundary()
        fails = [("ReadsAgreeWithModel", f"mixed boundary {b}")] if b["mixed"] else []
    for f in fails:
        print(": ".join(f))
    if fails:
        print(f"VIOLATION property=X08 replay={rep.get('_path', '?')}")
        return 1
    print("replay: conforms")
    return 0
