"""X05 (extra, beyond the listed properties) — MMR diversification of the T2 quality layer.

(M)    Mmr.tla enumerates candidate lists (id -> relevance r/8, token set), lambda = L/4, k (0..MaxN+1 or omitted) and
       the input order of the list, computes the documented greedy selection (head) and the full reordering (head, then
       the rest in relevance order) with exact integer arithmetic, and checks the documented properties as invariants.
(S->C)  every enumerated case is replayed on the real code: quality_mmr.mmr_select and mmr_reorder_full,
       quality_ops.maybe_apply_mmr (t2.quality.mmr.{enabled,lambda,k}; tokens from `text` or from `tokens`; both
       switches off = identity) and quality.apply_quality with the fusion step replaced by a recorder that hands the
       case's relevances on as fused scores (order, q_mmr_used, reported count).
       Random families with bigger inputs (x05_random.py): the clauses are checked directly on the real output with
       fractions.Fraction; the unmodified fuse -> MMR pipeline of apply_quality is compared with the exact oracle on the
       relevances the real fusion produced.
"""
from __future__ import annotations

import json
from concurrent.futures import ThreadPoolExecutor
from typing import Any, Dict, List, Tuple

from .. import tlc as _tlc
from ..util import Def, make_cfg, pmap, split_defs
from . import x05_random as R

MANIFEST = {"technique": "TLA+ specification of the greedy MMR selection (exact integer arithmetic) enumerated by TLC; every case replayed on "
                         "mmr_select / mmr_reorder_full / maybe_apply_mmr / apply_quality; random bigger inputs checked against the clauses with exact fractions",
            "text": "extra spec beyond the listed properties", "note": "not a listed property; run with ./check X05"}

CLAUSES = ["NoInventionNoDuplicates", "SizeIsMinKN", "FirstIsMostRelevant", "GreedyStep", "TieBreakById", "TailInRelevanceOrder",
           "LambdaZeroIsRelevanceOrder", "KOneIsRelevanceOrder", "LambdaOneIsPureDiversity", "IdenticalTokensNoMovement",
           "PrefixStable", "SwitchedOffIsIdentity", "BaselineSorted"]
NOK = 99
PROCS = 6


def _classify_head(got: List[str], want: List[str], all_ids: List[str]) -> str:
    if len(set(got)) != len(got) or any(g not in all_ids for g in got):
        return "NoInventionNoDuplicates"
    if len(got) != len(want):
        return "SizeIsMinKN"
    if got and got[0] != want[0]:
        return "FirstIsMostRelevant"
    return "GreedyStep"


def _classify_full(got: List[str], want: List[str], nhead: int, all_ids: List[str]) -> str:
    if sorted(got) != sorted(all_ids):
        return "NoInventionNoDuplicates"
    if got[:nhead] != want[:nhead]:
        return "GreedyStep" if nhead == 0 or got[0] == want[0] else "FirstIsMostRelevant"
    return "TailInRelevanceOrder"


def run_case(c) -> Dict[str, Any]:
    """replay one TLC case on the real functions -> {"fails": [(clause, msg)], "exact": bool, "near_differs": bool}"""
    from clematis.engine.stages.t2.quality_mmr import MMRItem, mmr_reorder_full, mmr_select
    from clematis.engine.stages.t2.quality_ops import maybe_apply_mmr
    fails: List[Tuple[str, str]] = []
    n = len(c["r"] or [])
    rels = list(c["r"] or [])
    toks = [list(t or []) for t in (c["t"] or [])]
    order = list(c["o"] or [])
    head = [R.sid(i) for i in (c["h"] or [])]
    full = [R.sid(i) for i in (c["f"] or [])]
    L, k, exact = c["l"], c["k"], bool(c["x"])
    lam = L / 4.0
    kk = None if k == NOK else k
    all_ids = [R.sid(i) for i in range(1, n + 1)]
    where = (f"items(id: rel, tokens)={{{', '.join(f'{R.sid(i)}: {rels[i - 1]}/8 {sorted(R.word(t) for t in toks[i - 1])}' for i in range(1, n + 1))}}} "
             f"input order {[R.sid(i) for i in order]} lambda={lam} k={kk}")
    # the python oracle must agree with the specification (it is the oracle of the random families)
    fr = R.oracle(all_ids, [R.F(r, 8) for r in rels], [frozenset(t) for t in toks], R.F(L, 4), kk, "far")
    if fr["head"] != head or fr["full"] != full or fr["exact"] != exact:
        return {"machinery": f"python oracle disagrees with Mmr.tla on {where}: {fr} vs head {head} full {full} exact {exact}"}
    near = R.oracle(all_ids, [R.F(r, 8) for r in rels], [frozenset(t) for t in toks], R.F(L, 4), kk, "near")

    items = [MMRItem(id=R.sid(i), rel=rels[i - 1] / 8.0, toks=frozenset(R.word(t) for t in toks[i - 1])) for i in order]
    in_ids = [it.id for it in items]
    # ---- mmr_select ----------------------------------------------------------------------------------
    try:
        sel = mmr_select(items, k=kk, lam=lam)
        sel2 = mmr_select(list(items), k=kk, lam=lam)
        got = [items[i].id for i in sel]
    except Exception as e:      # noqa: BLE001
        return {"fails": [("SelectionTotal", f"{where}: mmr_select raised {type(e).__name__}: {e}")], "exact": exact, "near": False}
    if sel != sel2:
        fails.append(("Stable", f"{where}: two calls of mmr_select returned {sel} and {sel2}"))
    if exact:
        if got != head:
            fails.append((_classify_head(got, head, all_ids), f"{where}: mmr_select selected {got}, spec {head}"))
    else:       # order-free clauses only
        if len(set(got)) != len(got) or any(g not in all_ids for g in got):
            fails.append(("NoInventionNoDuplicates", f"{where}: mmr_select selected {got}"))
        elif len(got) != len(head):
            fails.append(("SizeIsMinKN", f"{where}: mmr_select selected {len(got)} items, spec {len(head)}"))
        elif got and got[0] != head[0]:
            fails.append(("FirstIsMostRelevant", f"{where}: first pick {got[0]}, spec {head[0]}"))
    # ---- mmr_reorder_full ----------------------------------------------------------------------------
    try:
        got_full = [items[i].id for i in mmr_reorder_full(items, k=kk, lam=lam)]
    except Exception as e:      # noqa: BLE001
        return {"fails": fails + [("SelectionTotal", f"{where}: mmr_reorder_full raised {type(e).__name__}: {e}")], "exact": exact, "near": False}
    if exact and got_full != full:
        fails.append((_classify_full(got_full, full, len(head), all_ids), f"{where}: mmr_reorder_full returned {got_full}, spec {full}"))
    elif not exact and sorted(got_full) != sorted(all_ids):
        fails.append(("NoInventionNoDuplicates", f"{where}: mmr_reorder_full returned {got_full}"))
    # ---- config level: maybe_apply_mmr ---------------------------------------------------------------
    variant = (sum(rels) + L + n + (k % 7)) % 2          # 0: tokens come from `text`, 1: from `tokens` (no text)
    fused = []
    for p, i in enumerate(order):
        ws = sorted(R.word(t) for t in toks[i - 1])
        d: Dict[str, Any] = {"id": R.sid(i), "score_fused": rels[i - 1] / 8.0, "score": 0.5}
        if variant == 0:
            d["text"] = R.spell_text(ws, p)
        else:
            d["text"] = ""
            d["tokens"] = [w.upper() if (p + j) % 2 else w for j, w in enumerate(ws)]
        fused.append(d)
    mmr_cfg: Dict[str, Any] = {"enabled": True, "lambda": lam}
    if k != NOK:
        mmr_cfg["k"] = k
    elif variant:
        mmr_cfg["k"] = None
    qcfg = {"enabled": True, "mmr": mmr_cfg}
    if k != 0:       # the validator rejects k < 1 at the config level (DEVIATION 3 in Mmr.tla)
        try:
            before = list(fused)
            res = maybe_apply_mmr(fused, qcfg)
            got_cfg = [d["id"] for d in res]
            if fused != before or any(a is not b for a, b in zip(fused, before)):
                fails.append(("InputNotMutated", f"{where}: maybe_apply_mmr changed its input list"))
            if any(not any(d is b for b in before) for d in res):
                fails.append(("NoInventionNoDuplicates", f"{where}: maybe_apply_mmr returned an element that is not one of the input items"))
            if exact and got_cfg != full:
                fails.append((_classify_full(got_cfg, full, len(head), all_ids) if sorted(got_cfg) == sorted(all_ids) else "NoInventionNoDuplicates",
                              f"{where}: maybe_apply_mmr({'text' if variant == 0 else 'tokens'} variant, mmr={mmr_cfg}) returned {got_cfg}, spec {full}"))
            elif not exact and sorted(got_cfg) != sorted(all_ids):
                fails.append(("NoInventionNoDuplicates", f"{where}: maybe_apply_mmr returned {got_cfg}"))
        except Exception as e:      # noqa: BLE001
            fails.append(("SelectionTotal", f"{where}: maybe_apply_mmr raised {type(e).__name__}: {e}"))
    # ---- either switch off: identity -----------------------------------------------------------------
    want_off = [R.sid(i) for i in (c["o"] or [])]
    for q in ({"enabled": True, "mmr": dict(mmr_cfg, enabled=False)}, {"enabled": False, "mmr": mmr_cfg}, {"enabled": True}):
        try:
            r_off = [d["id"] for d in maybe_apply_mmr(fused, q)]
        except Exception as e:      # noqa: BLE001
            r_off = [f"raised {type(e).__name__}"]
        if r_off != want_off:
            fails.append(("SwitchedOffIsIdentity", f"{where}: maybe_apply_mmr with {q} returned {r_off}, spec: the input order {want_off}"))
    # ---- wiring: apply_quality with the fusion step replaced by a recorder ----------------------------
    if k != 0:
        got_w = R.wired(in_ids, {R.sid(i): rels[i - 1] / 8.0 for i in range(1, n + 1)},
                        {R.sid(i): " ".join(sorted(R.word(t) for t in toks[i - 1])) for i in range(1, n + 1)}, mmr_cfg)
        if "error" in got_w:
            fails.append(("SelectionTotal", f"{where}: apply_quality: {got_w['error']}"))
        else:
            if exact and got_w["ids"] != full:
                fails.append(("WiringUsesMmrOrder", f"{where}: apply_quality returned {got_w['ids']}, spec {full}"))
            if sorted(got_w["ids"]) != sorted(all_ids):
                fails.append(("NoInventionNoDuplicates", f"{where}: apply_quality returned {got_w['ids']}"))
            if n and (not got_w["used"] or got_w["selected"] != c["n"]):
                fails.append(("ReportedCount", f"{where}: apply_quality reports mmr_used={got_w['used']} selected={got_w['selected']}, spec True / {c['n']}"))
            if got_w["off_ids"] != fr["baseline"] or got_w["off_used"] or got_w["off_selected"] != 0:
                fails.append(("SwitchedOffIsIdentity", f"{where}: apply_quality with mmr.enabled=false returned {got_w['off_ids']} used={got_w['off_used']} "
                                                       f"selected={got_w['off_selected']}, spec: the fused order {fr['baseline']}, not used, 0"))
    return {"fails": fails, "exact": exact, "near": near["full"] != full}


def _jobs(run) -> List[Tuple[str, Dict[str, Any]]]:
    jobs = []
    sets3 = "{{}, {1}, {2}, {1,2}, {1,2,3}}"
    if run.quick:
        for L in range(5):
            jobs.append((f"q_l{L}", {"MinN": 0, "MaxN": 3, "Rels": [0, 1, 4], "TokSets": Def(sets3), "Lams": [L], "Orders": "rev", "Aggregate": "far"}))
        # four items: the smallest lists on which "farthest" and "nearest" selected item differ (DEVIATION 1)
        jobs.append(("q4", {"MinN": 4, "MaxN": 4, "Rels": [1, 4], "TokSets": Def("{{1}, {2}, {1, 2}}"), "Lams": [2, 4], "Orders": "rev", "Aggregate": "far"}))
    else:
        sets9 = "(SUBSET {1, 2, 3}) \\cup {{1, 2, 3, 4}}"
        for L in range(5):
            jobs.append((f"t3_l{L}", {"MinN": 0, "MaxN": 3, "Rels": [0, 1, 4], "TokSets": Def(sets9), "Lams": [L], "Orders": "two", "Aggregate": "far"}))
        for L in range(5):
            jobs.append((f"t4_l{L}", {"MinN": 4, "MaxN": 4, "Rels": [0, 1, 4], "TokSets": Def("SUBSET {1, 2}"), "Lams": [L], "Orders": "rev", "Aggregate": "far"}))
        jobs.append(("t3_all", {"MinN": 3, "MaxN": 3, "Rels": [0, 2, 3, 8], "TokSets": Def("{{}, {1}, {1,2}, {2,3}}"), "Lams": [1, 2, 3], "Orders": "all", "Aggregate": "far"}))
    return jobs


def _run_wave(run, jobs):
    """several single-threaded TLC processes side by side (Init enumeration is sequential in TLC)"""
    def one(job):
        name, consts = job
        cfg = make_cfg(consts, CLAUSES, [], emit=False, view=None, constraint="EmitCase")
        return _tlc.run_tlc("Mmr", cfg, run.workdir, name=name, workers=1, timeout_s=1500, defs=split_defs(consts), seed=run.seed,
                            heap="3g", jvm_opts=["-XX:ParallelGCThreads=2", "-XX:CICompilerCount=2"])
    with ThreadPoolExecutor(max_workers=PROCS) as ex:
        results = list(ex.map(one, jobs))
    cases: List[Any] = []
    for (name, consts), res in zip(jobs, results):
        run.states += res.distinct
        run.transitions += res.generated
        run.tlc_runs.append({"module": "Mmr", "name": name, "cmd": res.cmd, "generated": res.generated, "distinct": res.distinct,
                             "diameter": res.diameter, "wall_s": round(res.wall_s, 2), "emitted": len(res.emitted),
                             "timed_out": res.timed_out, "violation": (res.violation or {}).get("name")})
        run.model_must_hold(res)
        if res.timed_out or len(res.emitted) != res.distinct or not res.emitted:
            raise _tlc.TLCError(f"X05: TLC run {name} emitted {len(res.emitted)} of {res.distinct} cases (timed out: {res.timed_out})")
        cases.extend(res.emitted)
        res.emitted = []
        res.text = ""
    return cases


def _account(run, key, fails, wit, replay) -> None:
    run.traces += 1
    run.case(key)
    for clause, msg in fails:
        run.fail(clause, {"clause": clause}, wit, msg, replay=replay)


def check(run) -> None:
    q = run.quick
    run.rule = ("every case of Mmr.tla (candidate lists up to 3-4 items on the exact grid rel r/8, lambda L/4, token sets over <= 4 tokens, every k, "
                "input orders) replayed on mmr_select, mmr_reorder_full, maybe_apply_mmr and apply_quality; seeded random bigger lists checked against the "
                "clauses with exact fractions; distinct = distinct case")
    run.constants = {"rel_grid": "r/8", "lambda_grid": "L/4", "distance_grid": "d/12", "NoK": NOK}
    run.assumptions += ["diversity = Jaccard distance to the FARTHEST selected item, as built (classical MMR uses the nearest one): DEVIATION 1 of Mmr.tla",
                        "the reported selected count is the length of the whole reordered list: DEVIATION 2 of Mmr.tla",
                        "k = 0 is replayed on mmr_select / mmr_reorder_full only (the validator rejects k < 1 at the config level)"]
    jobs = _jobs(run)
    near_n = inexact = total = 0
    near_sample = None
    for w in range(0, len(jobs), PROCS):
        cases = _run_wave(run, jobs[w:w + PROCS])
        outs = pmap(run_case, cases, procs=PROCS, chunk=2000)
        for c, o in zip(cases, outs):
            if "machinery" in o:
                raise _tlc.TLCError("X05: " + o["machinery"])
            total += 1
            key = json.dumps([c["r"], c["t"], c["o"], c["l"], c["k"]], separators=(",", ":"))
            _account(run, key, o["fails"], c, {"case": c})
            if not o["exact"]:
                inexact += 1
                run.guarded_out += 1
                run.ok("Mmr.order_free_clauses_only(float tie)")
            elif not o["fails"]:
                run.ok("Mmr.conforms")
            if o["near"]:
                near_n += 1
                if near_sample is None and c["k"] == NOK and c["l"] == 2:
                    near_sample = c
        if w == 0 and cases:
            run.sample({"case": cases[len(cases) // 2]}, cap=2)
        del cases, outs
    run.extra["classical_mmr_would_differ"] = {"cases": near_n, "of": total, "sample": near_sample}
    run.notes.append(f"{near_n} of {total} enumerated cases would be ordered differently by classical MMR (diversity against the nearest selected item); "
                     f"{inexact} cases hinge on a float tie between non-dyadic diversity terms (order-free clauses only)")
    # ---- random families -----------------------------------------------------------------------------
    n_rand = 4000 if q else 120000
    args = [(run.seed, i) for i in range(n_rand)]
    for a, o in zip(args, pmap(R.random_case, args, procs=PROCS, chunk=500)):
        _account(run, ("rand", a[1]), o["fails"], {"seed": a[0], "i": a[1], "case": o.get("case")}, {"random": list(a)})
        run.guarded_out += o["guarded"]
        for cl, m in o["ok"].items():
            run.ok("rand." + cl, m)
    n_pipe = 1500 if q else 40000
    args = [(run.seed, i) for i in range(n_pipe)]
    pipe_g = 0
    for a, o in zip(args, pmap(R.pipeline_case, args, procs=PROCS, chunk=250)):
        if o.get("guarded"):
            pipe_g += 1
            run.guarded_out += 1
            continue
        _account(run, ("pipe", a[1]), o["fails"], {"seed": a[0], "i": a[1], "case": o.get("case")}, {"pipeline": list(a)})
        if not o["fails"]:
            run.ok("pipeline.fuse_then_mmr_conforms")
    if pipe_g > n_pipe // 2:
        raise _tlc.TLCError(f"X05: {pipe_g} of {n_pipe} pipeline cases were guarded out")
    run.exhaustive = False


def replay(rep) -> int:
    r = rep["replay"]
    if "case" in r:
        o = run_case(r["case"])
        if "machinery" in o:
            print("MACHINERY-FAILURE X05: " + o["machinery"])
            return 2
        fails = o["fails"]
    elif "random" in r:
        fails = R.random_case(tuple(r["random"]))["fails"]
    else:
        fails = R.pipeline_case(tuple(r["pipeline"])).get("fails", [])
    for f in fails:
        print(": ".join(f))
    if fails:
        print(f"VIOLATION property=X05 replay={rep.get('_path', '?')}")
        return 1
    print("replay: conforms")
    return 0
