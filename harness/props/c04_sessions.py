"""C04 (C->S): long random multi-agent sessions on the real run_turn — kill switch toggled at arbitrary
turns, GEL / reflection / scheduler gates and forced yields, reused context objects, reflection faults —
recorded as one event per turn and validated by TLC against Turn.tla's functional pipeline (TurnTrace):
record sequence, version +1 iff committed, snapshot iff committed, reflection entry counts."""
from __future__ import annotations

import json
import os
import shutil
import tempfile
from typing import Any, Dict, List

from ..util import pmap, rng


def gen_session(args) -> Dict[str, Any]:
    from ..turnrun import Session
    os.environ["CI"] = "true"
    seed, tidn, nturns, workdir = args
    r = rng(seed, "c04sess", tidn)
    work = tempfile.mkdtemp(prefix="c04s_", dir=workdir)
    try:
        # every other session: a state that has not booted yet (the first turn runs the boot hook on the empty directory; it
        # must never run again, whichever agent takes a turn) and snapshots on every third turn only, so most turns start
        # from a version that the newest snapshot on disk does not hold
        alt = bool(tidn % 2)
        s = Session(os.path.join(work, "s"), base_cfg=({"t4": {"snapshot_every_n_turns": 3}} if alt else {}), boot_loaded=not alt)
        ev: List[dict] = []
        prev_ver = 0
        for t in range(nturns):
            sched = r.random() < 0.3
            inp = {"sched": sched, "yield_at": (r.choice(["none", "none", "T1", "T2", "T3", "T4", "Apply"]) if sched else "none"),
                   "graph": r.random() < 0.4, "maint": False, "allow_refl": r.random() < 0.5, "plan_refl": r.random() < 0.6,
                   "kill": r.random() < 0.3, "dry": False, "reuse": r.random() < 0.5, "refl_out": "ok", "ops_cap": r.choice([0, 1, 5]), "faults": []}
            if inp["graph"] and r.random() < 0.5:
                inp["maint"] = True
            if inp["kill"] and inp["yield_at"] in ("T4", "Apply"):
                inp["yield_at"] = "none"
            if inp["allow_refl"] and inp["plan_refl"]:
                inp["refl_out"] = r.choice(["ok", "ok", "error", "timeout"])
                if r.random() < 0.2:
                    inp["faults"] = [r.choice(["refl_write", "refl_log"])]
            # (a third agent joins late: its first turn comes when snapshots exist that are older than the state)
            s.agent = r.choice(["A", "B"] if t < (nturns * 3) // 5 else ["A", "B", "C", "C"])
            s.text = r.choice(["I like apple and banana", "cherry pie", "date", ""])
            o = s.run(inp)
            if o.get("skipped") or o["raised"]:
                ev.append({"inp": inp, "log": ["<raised>" if o["raised"] else "<skipped>"], "dver": 0, "refl_new": 0, "snap": False})
                break
            ver = int(o["ver"])
            ev.append({"inp": inp, "log": [x for x in o["log"] if x != "t3_filter"], "dver": ver - prev_ver, "refl_new": len(o["refl_new"]), "snap": bool(o["snap"])})
            if alt:
                ev[-1].update({"cad": 3, "turn": int(s.turn)})
            prev_ver = ver
        return {"tid": tidn, "ev": ev}
    finally:
        shutil.rmtree(work, ignore_errors=True)


def check(run) -> None:
    q = run.quick
    n, turns = (8, 20) if q else (120, 40)
    traces = pmap(gen_session, [(run.seed, i + 1, turns, run.workdir) for i in range(n)], chunk=1)
    import copy
    ctl = copy.deepcopy(traces[0])
    ctl["tid"] = -1
    for e in ctl["ev"]:
        if "apply" in e["log"]:
            e["dver"] = 0          # a committed turn that does not advance the version
            break
    consts = {"MaxTurns": 1, "Vary": [], "ForceOn": [], "FaultSites": [], "MaxFaults": 0, "StashCleared": True}
    v = run.validate_traces("TurnTrace", consts, traces + [ctl], name="TurnTrace_sessions", timeout_s=900)
    if v[-1][0] == "ok":
        from ..tlc import TLCError
        raise TLCError("TurnTrace accepted the negative control")
    run.ok("TurnTrace.negative_control_rejected")
    for t in traces:
        verdict, pos = v[t["tid"]]
        run.traces += 1
        run.case(("session", t["tid"]))
        if verdict == "ok":
            run.ok("TurnTrace.session_accepted")
        else:
            e = t["ev"][pos - 1] if 0 < pos <= len(t["ev"]) else None
            run.fail(verdict, {"variant": "session", "clause": verdict}, {"event": e, "position": pos, "tid": t["tid"]},
                     f"session {t['tid']} rejected at turn {pos} by {verdict}: inp={ {k: v_ for k, v_ in (e or {}).get('inp', {}).items() if v_ not in (False, 'none', [], 'ok')} } log={(e or {}).get('log')} dver={(e or {}).get('dver')} refl_new={(e or {}).get('refl_new')} snap={(e or {}).get('snap')}",
                     replay={"session": [run.seed, t["tid"], turns]})
    run.sample({"session_first_turns": traces[0]["ev"][:2]}, cap=5)


def replay(r) -> List:
    os.makedirs("/verif/.work/C04", exist_ok=True)
    seed, tidn, turns = r["session"]
    t = gen_session((seed, tidn, turns, "/verif/.work/C04"))
    print(json.dumps(t)[:3000])
    return []
