"""C08 — durable files are replaced all-or-nothing.

(M)    AtomicWrite.tla: the write protocol at I/O-call granularity with failing calls (<= MaxFaults),
       short writes, retryable/fatal replace errors, crash between any two calls; invariants
       DestOldOrNew, ReaderNeverPartial, NoStrayTempAfterFailure, TransientThenSuccess, explored
       exhaustively.  Every terminal behaviour is emitted as a fault/crash plan with the expected
       directory state after every step.
(S->C)  each plan is executed on the real writer (atomic_write_bytes/_text/_json and the callers
       rewrite_jsonl, snapshot sidecar/body writers, atomic_replace) with the namespace of
       clematis.io.atomic rebound to fault-injecting proxies; crash = os._exit in a forked child.
       At every I/O call boundary the real directory is inspected (destination content class, temp
       name and content, handles opened by a concurrent reader at every boundary are read at the
       end) and compared with the spec's state sequence.
"""
from __future__ import annotations

import errno
import json
import os
import shutil
import sys
import tempfile as _real_tempfile
import builtins
from pathlib import Path
from typing import Any, Dict, List, Optional, Tuple

from ..util import make_cfg, pmap

MANIFEST = {
    "technique": "TLA+ model of the atomic-write protocol at I/O-call granularity (faults, short writes, retryable/fatal replace errors, crash points) model-checked exhaustively with TLC; every terminal behaviour replayed as a fault/crash plan on the real writers with directory state compared after every call",
    "text": "Exhaustive model checking of the write protocol (all crash points x all single/double fault plans x retry patterns) for the all-or-nothing invariants, bound to the code by replaying every TLC behaviour on the real atomic writers and their callers through fault-injecting proxies of the module's own os/open/tempfile/time bindings (fork + _exit for crashes), comparing the destination/temp state and what concurrent readers can observe after every I/O call with the spec's state.",
    "note": "Process death is modelled (no power-loss / page-cache semantics). The I/O boundary is the set of calls the module makes through its own namespace; a write path that bypasses clematis.io.atomic is not observed. Benign extra fsync/flush/chmod calls are tolerated; a missing or re-ordered mktmp/open/write/replace is reported.",
}

OLD = b"OLD-" * 25 + b"\n"
BENIGN = {"flush", "fsync", "chmod", "fsync_final", "fsync_dir", "close"}
RETRYABLE = [lambda: PermissionError(errno.EACCES, "verif: sharing violation"),
             lambda: OSError(errno.EBUSY, "verif: busy"),
             lambda: OSError(errno.EACCES, "verif: eacces"),
             lambda: OSError(errno.EPERM, "verif: eperm")]


class Diverged(Exception):
    pass


class Injector:
    """drives one plan (= spec behaviour h) through the proxies and records what it sees"""

    def __init__(self, h, dest: Path, new: bytes, old: Optional[bytes], statefile: str):
        self.h = h
        self.i = 0
        self.dest = dest
        self.new = new
        self.old = old
        self.obs: List[Dict[str, Any]] = []
        self.problems: List[Tuple[str, str]] = []
        self.readers: List[Any] = []
        self.statefile = statefile
        self.replaced = False
        self.short_pending = False
        self.retry_left = 0
        self.retry_forever = False
        self.sleeps = 0
        self.chmod_failed = False
        self.extra: List[str] = []
        self.siblings = [dest.name + ".meta"]     # other destinations written by the same caller (not under test)
        self.bystanders: Dict[str, bytes] = {}    # durable files of OTHER writers that share the destination's name prefix
        self.target_fd = None
        self.dir_synced = False

    def is_target_tmp(self, path) -> bool:
        n = Path(path).name
        if Path(path).parent != self.dest.parent or not n.startswith(self.dest.name + "."):
            return False
        return not any(n == sname or n.startswith(sname + ".") for sname in self.siblings)

    # ---- directory observation -------------------------------------------------------------
    def classify(self, data: Optional[bytes]) -> str:
        if data is None:
            return "old" if self.old is None else "absent"
        if self.old is not None and data == self.old:
            return "old"
        if data == self.new:
            return "new"
        if data == b"":
            return "empty"
        if self.new.startswith(data):
            return "partial"
        return "garbage"

    def observe(self) -> Dict[str, Any]:
        d = self.dest.parent
        try:
            destc = self.dest.read_bytes()
        except FileNotFoundError:
            destc = None
        dcls = self.classify(destc)
        others = sorted(p.name for p in d.iterdir() if p.name != self.dest.name and not p.name.startswith("_")
                        and p.name not in self.bystanders
                        and not any(p.name == sname or p.name.startswith(sname + ".") for sname in self.siblings))
        if not others:
            tcls = "none"
        else:
            data = (d / others[0]).read_bytes()
            tcls = "empty" if data == b"" else ("new" if data == self.new else ("partial" if self.new.startswith(data) else "garbage"))
        return {"dest": dcls, "tmp": tcls, "names": others}

    def boundary(self):
        """called at every I/O call boundary: settle the observation of the previous step, check the
        invariants directly on the real directory, let a concurrent reader open the destination"""
        o = self.observe()
        if self.obs and "dest" not in self.obs[-1] and not self.obs[-1].get("defer"):
            self.obs[-1].update(o)
        if o["dest"] not in ("old", "new"):
            self.problems.append(("DestOldOrNew", f"destination holds {o['dest']} content at step {self.i} ({self.cur_site()})"))
        try:
            self.readers.append(builtins.open(self.dest, "rb"))
        except FileNotFoundError:
            pass
        for nm in o["names"]:
            if nm.endswith((".json", ".jsonl", ".meta")) or not nm.startswith(self.dest.name + "."):
                self.problems.append(("NoStrayTempAfterFailure", f"temp name {nm!r} could be mistaken for real data"))
        # a reader that DISCOVERS the snapshot at this very moment (a temporary may be lying next to the destination)
        # is handed the published file or nothing - never the writer's temporary
        if o["names"] and self.dest.name.startswith("state_") and self.dest.name.endswith(".json"):
            try:
                from clematis.engine import snapshot as _S
                picked = _S._pick_latest_snapshot_path(str(self.dest.parent))
            except Exception as e:      # noqa: BLE001
                picked = f"<raised {type(e).__name__}>"
            if picked and os.path.basename(str(picked)) in o["names"]:
                self.problems.append(("ReaderNeverPartial", f"snapshot discovery run at step {self.i} ({self.cur_site()}) picks the writer's temporary "
                                                            f"{os.path.basename(str(picked))!r}"))

    def cur_site(self):
        return self.h[self.i]["site"] if self.i < len(self.h) else "<end>"

    # ---- script ----------------------------------------------------------------------------
    def at(self, site: str) -> str:
        """the real code is about to perform I/O call `site`; returns the outcome to inject"""
        self.boundary()
        while True:
            if self.i >= len(self.h):
                if site in BENIGN:
                    self.extra.append(site)
                    return "ok"
                raise Diverged(f"call {site} after the behaviour ended")
            exp = self.h[self.i]
            if exp["site"] == site:
                break
            if site in BENIGN:
                self.extra.append(site)
                return "ok"
            if exp["site"] in BENIGN and exp["out"] == "ok":
                self.obs.append({"site": exp["site"], "out": "skipped"})
                self.i += 1
                continue
            raise Diverged(f"code calls {site} where the spec expects {exp['site']}")
        self.i += 1
        self.obs.append({"site": site, "out": exp["out"]})
        if exp["out"] in ("err", "fatal", "retry_exhausted") and site not in ("chmod", "fsync_final", "fsync_dir"):
            self.obs[-1]["defer"] = True       # the spec's step includes the clean-up of the temp file
        if exp["out"] == "crash":
            self.obs[-1].update(self.observe())
            with builtins.open(self.statefile, "w") as f:
                json.dump({"obs": self.obs, "problems": self.problems, "extra": self.extra}, f)
            for r in self.readers:
                pass
            os._exit(77)
        if exp["out"] == "retry":
            self.retry_left = exp["n"]
        if exp["out"] == "retry_exhausted":
            self.retry_forever = True
        return exp["out"]


def _install(inj: Injector):
    import clematis.io.atomic as A
    real_os = os

    class FileProxy:
        def __init__(self, f, is_tmp):
            self.f = f
            self.is_tmp = is_tmp
            self.cont = False

        def write(self, data):
            if not self.is_tmp:
                return self.f.write(data)
            if self.cont:          # continuation of a short write (the writer loops on the count)
                return self.f.write(data)
            out = inj.at("write")
            if out == "err":
                raise OSError(errno.ENOSPC, "verif: no space")
            if out == "short":
                n = max(1, len(data) // 2)
                self.f.write(bytes(data[:n]))
                self.cont = True
                return n
            r = self.f.write(data)
            return r

        def flush(self):
            if self.is_tmp and inj.at("flush") == "err":
                raise OSError(errno.EIO, "verif: flush")
            return self.f.flush()

        def fileno(self):
            return self.f.fileno()

        def close(self):
            if self.is_tmp and not self.f.closed:
                inj.at("close")
            return self.f.close()

        def __enter__(self):
            return self

        def __exit__(self, *a):
            self.close()
            return False

        def __getattr__(self, n):
            return getattr(self.f, n)

    def open_proxy(path, mode="r", *a, **k):
        p = Path(path)
        if "w" in mode or "a" in mode or "+" in mode:
            if p == inj.dest:
                inj.problems.append(("DestOldOrNew", f"destination opened for writing in place (mode {mode})"))
                return FileProxy(builtins.open(path, mode, *a, **k), False)
            if not inj.is_target_tmp(p):
                return builtins.open(path, mode, *a, **k)
            if inj.at("open") == "err":
                raise OSError(errno.EACCES, "verif: open")
            fp = FileProxy(builtins.open(path, mode, *a, **k), True)
            inj.target_fd = fp.f.fileno()
            return fp
        if p == inj.dest and inj.replaced and not inj.dir_synced:
            if inj.at("fsync_final") == "err":
                raise OSError(errno.EIO, "verif: open final")
        return builtins.open(path, mode, *a, **k)

    class TempProxy:
        def NamedTemporaryFile(self, *a, **k):
            if k.get("prefix") != inj.dest.name + "." or inj.replaced:
                return _real_tempfile.NamedTemporaryFile(*a, **k)
            if inj.at("mktmp") == "err":
                raise OSError(errno.ENOSPC, "verif: mktmp")
            d = k.get("dir")
            if d is None or Path(d) != inj.dest.parent:
                inj.problems.append(("DestOldOrNew", f"temp file created outside the destination directory: {d}"))
            return _real_tempfile.NamedTemporaryFile(*a, **k)

        def mkstemp(self, *a, **k):
            if inj.at("mktmp") == "err":
                raise OSError(errno.ENOSPC, "verif: mktmp")
            return _real_tempfile.mkstemp(*a, **k)

        def __getattr__(self, n):
            return getattr(_real_tempfile, n)

    class OsProxy:
        def fsync(self, fd):
            if not inj.replaced and fd == inj.target_fd:
                if inj.at("fsync") == "err":
                    raise OSError(errno.EIO, "verif: fsync")
            return real_os.fsync(fd)

        def chmod(self, path, mode, *a, **k):
            if Path(path) == inj.dest or not inj.is_target_tmp(path):
                return real_os.chmod(path, mode, *a, **k)
            if inj.chmod_failed:
                return real_os.chmod(path, mode, *a, **k)
            if inj.at("chmod") == "err":
                inj.chmod_failed = True
                raise OSError(errno.EPERM, "verif: chmod")
            return real_os.chmod(path, mode, *a, **k)

        def replace(self, src, dst, *a, **k):
            if Path(dst) != inj.dest:
                return real_os.replace(src, dst, *a, **k)
            if inj.retry_forever:
                raise RETRYABLE[inj.sleeps % 4]()
            if inj.retry_left > 0:
                inj.retry_left -= 1
                raise RETRYABLE[inj.retry_left % 4]()
            out = inj.at("replace")
            if out == "fatal":
                raise OSError(errno.EIO, "verif: replace")
            if out in ("retry", "retry_exhausted"):
                if out == "retry":
                    inj.retry_left -= 1
                raise RETRYABLE[0]()
            r = real_os.replace(src, dst, *a, **k)
            inj.replaced = True
            return r

        def rename(self, src, dst, *a, **k):
            return self.replace(src, dst, *a, **k)

        def open(self, path, flags, *a, **k):
            if inj.replaced and not inj.dir_synced and Path(path) == inj.dest.parent:
                inj.dir_synced = True
                if inj.at("fsync_dir") == "err":
                    raise OSError(errno.EIO, "verif: open dir")
            return real_os.open(path, flags, *a, **k)

        def __getattr__(self, n):
            return getattr(real_os, n)

    class TimeProxy:
        def sleep(self, s):
            inj.sleeps += 1

        def __getattr__(self, n):
            import time as _t
            return getattr(_t, n)

    saved = {k: A.__dict__.get(k, None) for k in ("os", "open", "tempfile", "time")}
    A.os = OsProxy()
    A.open = open_proxy
    A.tempfile = TempProxy()
    A.time = TimeProxy()

    def restore():
        for k, v in saved.items():
            if v is None:
                A.__dict__.pop(k, None)
            else:
                A.__dict__[k] = v
    return restore


CALLERS = ["bytes", "text", "json", "rewrite_jsonl", "sidecar", "replace_only"]


def _invoke(caller: str, dest: Path, new_payload):
    import clematis.io.atomic as A
    if caller == "bytes":
        A.atomic_write_bytes(dest, new_payload["bytes"])
    elif caller == "text":
        A.atomic_write_text(str(dest), new_payload["text"])
    elif caller == "json":
        A.atomic_write_json(dest, new_payload["obj"])
    elif caller == "rewrite_jsonl":
        import clematis.io.log as L
        L.rewrite_jsonl(dest.name, new_payload["records"])
    elif caller == "sidecar":
        import clematis.engine.snapshot as S
        S._write_sidecar_meta(str(dest)[:-len(".meta")], schema_version="v1")
    elif caller == "snapshot_body":
        import clematis.engine.snapshot as S
        from types import SimpleNamespace
        ctx = SimpleNamespace(cfg={"t4": {"snapshot_dir": str(dest.parent)}}, agent_id="A", turn_id=3)
        S.write_snapshot(ctx, new_payload["state"], "7", 1, [])
    elif caller == "snapshot_auto":
        import clematis.engine.snapshot as S
        S.write_snapshot_auto(str(dest.parent), etag_from=None, etag_to="7", payload=new_payload["payload"])
    elif caller == "replace_only":
        A.atomic_replace(Path(str(dest) + ".src"), dest)
    else:
        raise ValueError(caller)


def _payload(caller: str, size: int, dest: Path):
    if caller == "bytes":
        b = (b"NEW-%06d|" % size) * max(1, size // 11)
        return {"bytes": b}, b
    if caller == "text":
        t = ("NéW-%d\r\nline\n" % size) * max(1, size // 12)
        return {"text": t}, t.replace("\r\n", "\n").encode("utf-8")
    if caller == "json":
        obj = {"b": [1, 2, {"z": "é"}], "a": "x" * size}
        return {"obj": obj}, json.dumps(obj, sort_keys=True, separators=(",", ":"), ensure_ascii=False).encode("utf-8")
    if caller == "rewrite_jsonl":
        recs = [{"turn": i, "agent": "A", "k": "v" * (size // 8)} for i in range(3)]
        from clematis.engine.util.io_logging import normalize_for_identity
        lines = "".join(json.dumps(normalize_for_identity(dest.name, r), ensure_ascii=False, sort_keys=True, separators=(",", ":")) + "\n" for r in recs)
        return {"records": recs}, lines.encode("utf-8")
    if caller == "sidecar":
        return {}, None      # content computed by the callee; determined by a dry run
    if caller == "snapshot_body":
        st = {"version_etag": "7", "graph": {"nodes": {"n.1": {"id": "n.1"}}, "edges": {"a→b": {"src": "a", "dst": "b", "rel": "coact", "weight": 0.5}},
                                             "meta": {"schema": "v1.1", "merges": [], "splits": [], "promotions": [], "concept_nodes_count": 0, "edges_count": 1}},
              "pad": "x" * size}
        return {"state": st}, None
    if caller == "snapshot_auto":
        return {"payload": {"version_etag": "7", "gel": {"edges": {"a.b→c": {"w": 0.25}}}, "pad": "y" * size}}, None
    if caller == "replace_only":
        b = (b"GEN-%06d|" % size) * max(1, size // 11)
        return {}, b
    raise ValueError(caller)


def run_plan(case) -> List[Tuple[str, str]]:
    """case = {h, outcome, dest, tmp, caller, size, old}"""
    h = case["h"]
    caller = case["caller"]
    work = _real_tempfile.mkdtemp(prefix="c08_", dir=case["workdir"])
    fails: List[Tuple[str, str]] = []
    try:
        d = Path(work) / "dir"
        d.mkdir()
        dest = d / {"rewrite_jsonl": "t1.jsonl", "sidecar": "state_A.json.meta", "snapshot_auto": "snapshot-7.full.json"}.get(caller, "state_A.json")
        os.environ["CLEMATIS_LOG_DIR"] = str(d)
        os.environ["SOURCE_DATE_EPOCH"] = "1700000000"
        old = OLD if case["old"] else None
        payload, new = _payload(caller, case["size"], dest)
        if new is None:   # dry run to learn the callee-computed content
            _invoke(caller, dest, payload)
            new = dest.read_bytes()
            for q_ in list(d.iterdir()):
                q_.unlink()
        if old is not None:
            dest.write_bytes(old)
        if caller == "replace_only":
            Path(str(dest) + ".src").write_bytes(new)
            k0 = next(i for i, e in enumerate(h) if e["site"] == "replace")
            h = h[k0:]
        statefile = str(Path(work) / "_state.json")
        crash = any(e["out"] == "crash" for e in h)
        inj = Injector(h, dest, new, old, statefile)
        # bystanders: durable artefacts of other writers whose names start with the destination's name (rotated log
        # generations, a snapshot sidecar) and an unrelated file; whatever happens to this write, they stay as they are
        by = {dest.name + ".1": b"generation one\n", dest.name + ".2": b"generation two\n", "zz_unrelated.json": b"{}\n"}
        if caller in ("bytes", "text", "json", "replace_only", "rewrite_jsonl"):
            by[dest.name + ".meta"] = b'{"schema_version": "v1"}\n'
            inj.siblings = []
        for n_, c_ in by.items():
            (d / n_).write_bytes(c_)
        inj.bystanders = dict(by)

        def body():
            restore = _install(inj)
            raised = None
            try:
                try:
                    _invoke(caller, dest, payload)
                    if not (caller == "sidecar" and case["outcome"] == "raised"):
                        inj.at("return")
                except Diverged as e:
                    inj.problems.append(("CallSequence", str(e)))
                except Exception as e:   # noqa
                    raised = e
            finally:
                restore()
            return raised

        if crash:
            pid = os.fork()
            if pid == 0:
                try:
                    body()
                    with builtins.open(statefile, "w") as f:
                        json.dump({"obs": inj.obs, "problems": inj.problems + [("CallSequence", "planned crash point was never reached")], "extra": inj.extra}, f)
                finally:
                    os._exit(78)
            _, st = os.waitpid(pid, 0)
            code = os.waitstatus_to_exitcode(st)
            try:
                with builtins.open(statefile) as f:
                    rec = json.load(f)
            except FileNotFoundError:
                return [("CallSequence", f"child exited {code} without a state record")]
            inj.obs = rec["obs"]
            inj.problems = [tuple(p) for p in rec["problems"]]
            outcome = "crashed"
            final = inj.observe()
        else:
            poll_bad: List[str] = []
            stop = [False]
            if case.get("poll"):
                # a real concurrent reader: a thread that re-opens and reads the destination in a tight loop
                import threading

                def reader():
                    while not stop[0]:
                        try:
                            with builtins.open(dest, "rb") as fh:
                                data = fh.read()
                        except FileNotFoundError:
                            data = None
                        c = inj.classify(data)
                        if c not in ("old", "new"):
                            poll_bad.append(c)
                            return
                rt = threading.Thread(target=reader, daemon=True)
                old_si = sys.getswitchinterval()
                sys.setswitchinterval(1e-6)
                rt.start()
            try:
                raised = body()
            finally:
                if case.get("poll"):
                    stop[0] = True
                    rt.join(5)
                    sys.setswitchinterval(old_si)
            if poll_bad:
                fails.append(("ReaderNeverPartial", f"a concurrently polling reader observed {poll_bad[0]} content"))
            final = inj.observe()
            if inj.obs and "dest" not in inj.obs[-1]:
                inj.obs[-1].update(final)
            for o in inj.obs:
                o.pop("defer", None)
            outcome = "raised" if raised is not None else "returned"
            # concurrent readers opened at every boundary: read them now
            for k, r in enumerate(inj.readers):
                try:
                    data = r.read()
                finally:
                    r.close()
                if inj.classify(data) not in ("old", "new"):
                    fails.append(("ReaderNeverPartial", f"reader opened at boundary {k} sees {inj.classify(data)} content"))
                    break
            if case["outcome"] == "raised" and raised is not None and not isinstance(raised, OSError):
                fails.append(("Outcome", f"writer raised {type(raised).__name__}: {raised}"))
        fails.extend(inj.problems)
        if caller == "sidecar" and case["outcome"] == "raised" and outcome == "returned":
            outcome = "raised"      # the sidecar writer is documented to swallow its failures
        if outcome != case["outcome"]:
            clause = "TransientThenSuccess" if any(e["out"] == "retry" for e in h) and case["outcome"] == "returned" else "Outcome"
            fails.append((clause, f"writer {outcome}, spec says {case['outcome']}"))
        if final["dest"] not in ("old", "new"):
            fails.append(("DestOldOrNew", f"final destination content is {final['dest']}"))
        if final["dest"] != case["dest"]:
            fails.append(("DestOldOrNew" if final["dest"] not in ("old", "new") else "Outcome",
                          f"final destination is {final['dest']}, spec says {case['dest']}"))
        if final["tmp"] != case["tmp"]:
            clause = "NoStrayTempAfterFailure" if case["tmp"] == "none" else "CallSequence"
            fails.append((clause, f"temp file after the run: {final['tmp']} {final['names']}, spec says {case['tmp']}"))
        if outcome != "crashed" or True:
            for n_, c_ in inj.bystanders.items():
                try:
                    now_ = (d / n_).read_bytes()
                except FileNotFoundError:
                    now_ = None
                if now_ != c_:
                    fails.append(("OtherFilesUntouched", f"bystander {n_!r} {'was deleted' if now_ is None else 'was changed'} by a write to {dest.name!r} "
                                                         f"(writer {outcome})"))
                    break
        # step-by-step state sequence
        spec_seq = [(e["site"], e["out"], e["tmp"], e["dest"]) for e in h]
        real_seq = [(o["site"], o["out"], o.get("tmp"), o.get("dest")) for o in inj.obs if o["out"] != "skipped"]
        skipped = {o["site"] for o in inj.obs if o["out"] == "skipped"}
        spec_cmp = [s for s in spec_seq if not (s[0] in skipped and s[1] == "ok")]
        if not inj.problems and real_seq != spec_cmp:
            k = next((i for i, (a, b) in enumerate(zip(real_seq, spec_cmp)) if a != b), min(len(real_seq), len(spec_cmp)))
            fails.append(("StateSequence", f"step {k}: real {real_seq[k] if k < len(real_seq) else None}, spec {spec_cmp[k] if k < len(spec_cmp) else None}"))
        if any(e["out"] in ("retry", "retry_exhausted") for e in h) and outcome != "crashed":
            want_sleeps = sum(e.get("n", 0) for e in h if e["out"] == "retry") + (80 - sum(e.get("n", 0) for e in h if e["out"] == "retry") if any(e["out"] == "retry_exhausted" for e in h) else 0)
            if inj.sleeps != want_sleeps:
                fails.append(("TransientThenSuccess", f"{inj.sleeps} back-off sleeps, spec says {want_sleeps}"))
        return fails
    finally:
        shutil.rmtree(work, ignore_errors=True)


def check(run) -> None:
    q = run.quick
    run.rule = ("every terminal behaviour of the exhaustively explored AtomicWrite model (fault plans x crash points x retry patterns) "
                "executed on each real writer/caller x old-content {absent,present} x payload sizes; distinct = (plan, caller, size, old)")
    consts = {"MaxFaults": 1 if q else 2, "Retries": 80, "RetryChoices": [0, 1, 3, 80], "ShortWriteHandled": True, "AllowCrash": True}
    invs = ["DestOldOrNew", "ReaderNeverPartial", "NoStrayTempAfterFailure", "TransientThenSuccess", "ReturnedMeansNew", "RaisedMeansOld"]
    cfg = make_cfg(consts, invs, [], emit=False, view=None, constraint="EmitDone")
    res = run.tlc("AtomicWrite", cfg, name="AtomicWrite", workers=1, timeout_s=600, coverage=True)
    run.model_must_hold(res)
    run.constants = consts
    seen = set()
    plans = []
    for b in res.emitted:
        key = json.dumps(b, sort_keys=True)
        if key not in seen:
            seen.add(key)
            plans.append(b)
    # the faithful model of a writer that ignores the short count must violate DestOldOrNew: shows that
    # the model can express the defect class (non-vacuity of the invariant)
    cfg2 = make_cfg(dict(consts, ShortWriteHandled=False, MaxFaults=1), ["DestOldOrNew"], [], emit=False, view=None)
    res2 = run.tlc("AtomicWrite", cfg2, name="AtomicWrite_ignoring_short_count", workers=1, timeout_s=300, expect_violation=True)
    if res2.violation is None:
        from ..tlc import TLCError
        raise TLCError("AtomicWrite with ShortWriteHandled=FALSE should violate DestOldOrNew")
    run.ok("Model.short_write_counterexample_found")
    callers = ["bytes", "text", "json", "rewrite_jsonl", "sidecar", "snapshot_body", "snapshot_auto"]
    sizes = [40, 9000] if q else [1, 40, 9000, 300000]
    cases = []
    for p in plans:
        for caller in callers:
            for size in (sizes if caller in ("bytes", "text") else sizes[:2]):
                for old in (True, False):
                    if q and not old and caller not in ("bytes",):
                        continue
                    cases.append(dict(p, caller=caller, size=size, old=old, workdir=run.workdir))
                    if not q and p["outcome"] != "crashed" and size >= 9000 and caller in ("bytes", "text"):
                        cases.append(dict(p, caller=caller, size=size, old=old, workdir=run.workdir, poll=True))
    # atomic_replace on its own (log rotation uses it directly): the suffix of every plan whose earlier
    # steps all succeed
    for p in plans:
        k0 = next((i for i, e in enumerate(p["h"]) if e["site"] == "replace"), None)
        if k0 is None or any(e["out"] != "ok" for e in p["h"][:k0]):
            continue
        for old in (True, False):
            cases.append(dict(p, caller="replace_only", size=200, old=old, workdir=run.workdir))
    outs = pmap(run_plan, cases, chunk=8)
    for c, fails in zip(cases, outs):
        run.traces += 1
        cc = {k: v for k, v in c.items() if k != "workdir"}
        run.case(json.dumps(cc, sort_keys=True))
        if not fails:
            run.ok("AtomicWrite.conforms")
            continue
        for clause, msg in fails:
            sig_site = next((e["site"] for e in c["h"] if e["out"] not in ("ok",)), "none")
            sig_out = next((e["out"] for e in c["h"] if e["out"] not in ("ok",)), "none")
            run.fail(clause, {"fault": sig_out, "site": sig_site}, cc, f"[{c['caller']} size={c['size']} old={c['old']}] {msg}",
                     replay={"case": cc})
    run.sample({"plan": plans[len(plans) // 2]}, cap=4)
    run.sample({"plan": next(p for p in plans if p["outcome"] == "crashed")}, cap=4)
    run.extra["plans"] = len(plans)
    run.extra["callers"] = callers
    run.exhaustive = True
    run.assumptions += ["crash = process death (kernel state survives); no power-loss semantics",
                        "faults are injected at the calls clematis.io.atomic makes through its own module namespace"]


def replay(rep) -> int:
    c = dict(rep["replay"]["case"])
    os.makedirs("/verif/.work/C08", exist_ok=True)
    c["workdir"] = "/verif/.work/C08"
    fails = run_plan(c)
    for clause, msg in fails:
        print(f"{clause}: {msg}")
    if fails:
        print(f"VIOLATION property=C08 replay={rep.get('_path', '?')}")
        return 1
    print("replay: conforms")
    return 0
