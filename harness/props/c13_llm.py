"""C13, the LLM-facing ends of the turn.

 (a) filter_turn_case  the orchestrator filters the utterance AFTER speak / llm_speak have truncated it to the token
     budget (identity / vendor / disclaimer patterns).  Whatever the filter substitutes, the utterance the turn
     returns stays within the budget: model replies that trigger every rule, at every position relative to the
     truncation point, x budgets x style prefixes through the real run_turn with the llm dialogue backend and a
     scripted adapter.
 (b) planner_guard_case  the LLM planner accepts exactly what the sanitiser accepts: for every model text of a grid
     (clean object, prose around it, code fences, scratchpad blocks before / inside / after the object, two objects,
     over-long raw text) plan_with_llm returns the sanitiser's parsed plan iff parse_and_validate accepts the RAW
     text, else the documented fallback."""
from __future__ import annotations

import json
import os
import shutil
import tempfile
from types import SimpleNamespace
from typing import Any, Dict, List, Tuple

MODEL_OUTPUTS = [
    "The garden is quiet today and the roses need water before noon",
    "Hello! I am Qwen, a large language model developed by Alibaba Cloud, how can I help",
    "Hello, I'm Qwen and I am happy to talk about your garden with you today",
    "Sure. I'm Qwen. I'm Qwen. I'm Qwen. What would you like to know about plants",
    "Iam Qwen Iam Qwen Iam Qwen Iam Qwen",
    "I am Clematis. I am Clematis. I am Clematis. I am Clematis. Ask me anything",
    "I do not store or retain seeded memories but I can still help you out",
    "I'M QWEN",
    "well\ti'm\nqwen   really",
    "a b c I'm Qwen d e f I'm Qwen g h",
]
BUDGETS = [1, 2, 3, 4, 5, 6, 8, 64]
STYLES = ["", "calm"]


class _Scripted:
    name = "ScriptedAdapter"

    def __init__(self, text):
        self.text = text

    def generate(self, prompt, max_tokens=256, temperature=0.2, **kw):
        return SimpleNamespace(text=self.text, tokens=len(self.text.split()), truncated=False)


def _ad(obj):
    from .c13 import _ad as ad
    return ad(obj)


def filter_turn_case(case) -> List[Tuple[str, str]]:
    from configs.validate import validate_config
    from clematis.engine.orchestrator import Orchestrator
    text, budget, style = MODEL_OUTPUTS[case["m"]], case["budget"], case["style"]
    work = tempfile.mkdtemp(prefix="c13f_", dir=case["workdir"])
    saved = {k: os.environ.get(k) for k in ("CLEMATIS_LOG_DIR", "CLEMATIS_SNAPSHOT_DIR", "CI")}
    try:
        os.environ.update({"CLEMATIS_LOG_DIR": os.path.join(work, "logs"), "CLEMATIS_SNAPSHOT_DIR": os.path.join(work, "snap"), "CI": "true"})
        cfg = validate_config({"t3": {"backend": "llm", "tokens": int(budget), "llm": {"provider": "fixture"}},
                               "t4": {"snapshot_dir": os.path.join(work, "snap")}})
        ctx = SimpleNamespace(turn_id="1", agent_id="A", now=None, now_ms=0, cfg=_ad(cfg), style_prefix=style)
        state = {"version_etag": "0", "llm_adapter": _Scripted(text), "_boot_loaded": True}
        try:
            res = Orchestrator().run_turn(ctx, state, "who are you?")
        except Exception as e:      # noqa: BLE001
            return [("UtteranceWithinTokens", f"run_turn raised {type(e).__name__}: {e} for model reply {text!r}")]
        line = str(getattr(res, "line", ""))
        body = line.split("|", 1)[1] if (style and "|" in line) else line
        n = len(body.split())
        if n > budget:
            return [("UtteranceWithinTokens", f"llm backend, budget {budget}, style {style!r}, model reply {text!r}: the turn returns {line!r} "
                                              f"({n} tokens after the style prefix)")]
        return []
    finally:
        for k, v in saved.items():
            if v is None:
                os.environ.pop(k, None)
            else:
                os.environ[k] = v
        shutil.rmtree(work, ignore_errors=True)


GOOD = '{"plan": ["water the roses"], "rationale": "ok"}'
PLANNER_TEXTS = [
    GOOD, "  " + GOOD + "\n", "Here is the plan: " + GOOD, GOOD + " hope that helps", "```json\n" + GOOD + "\n```",
    "<think></think>" + GOOD, "<think>let me think about roses</think>\n" + GOOD, GOOD + "<think>done</think>", "<THINK>x</THINK>" + GOOD,
    '{"plan":["a"],<think>not json at all</think>"rationale":"ok"}', GOOD + GOOD, "[" + GOOD + "]", "", "null", "{}",
    '{"plan": "not a list", "rationale": "x"}', '{"plan": [], "rationale": "r", "extra": 1}',
    "<think>" + "x" * 25000 + "</think>" + GOOD, " " * 21000 + GOOD, '{"plan": ["' + "y" * 30000 + '"], "rationale": "r"}',
    "<!-- c -->" + GOOD, "/* c */" + GOOD, "﻿" + GOOD,
]


def planner_guard_case(case) -> List[Tuple[str, str]]:
    from .. import engine as E
    import clematis.engine.stages.t3.policy as P
    from clematis.engine.policy.sanitize import parse_and_validate
    from clematis.engine.policy.json_schemas import PLANNER_V1
    text = PLANNER_TEXTS[case["i"]]
    cfg = {"t3": {"backend": "llm", "llm": {"provider": "fixture", "max_tokens": 256, "temp": 0.2}}}
    ctx = SimpleNamespace(turn_id=1, agent_id="A", cfg=cfg, input_text="hello", now=None)
    state = SimpleNamespace(logs=[])
    try:
        ok, parsed = parse_and_validate(text, PLANNER_V1)
    except Exception as e:      # noqa: BLE001
        return [("SanitiserTotal", f"parse_and_validate raised {type(e).__name__} on {text[:60]!r}")]
    with E.patched_attr(P, _get_llm_adapter_from_cfg=lambda c: _Scripted(text)):
        try:
            if case["via"] == "run_policy":
                out = P.run_policy({"name": "llm"}, {}, cfg, ctx, state=state)
            else:
                out = P.plan_with_llm(ctx, state, cfg)
        except Exception as e:      # noqa: BLE001
            return [("SanitiserGuardsPlanner", f"{case['via']} raised {type(e).__name__}: {e} on model text {text[:60]!r}")]
    got_plan = out.get("plan") if isinstance(out, dict) else None
    want_plan = parsed.get("plan") if (ok and isinstance(parsed, dict)) else []
    if got_plan != want_plan:
        return [("SanitiserGuardsPlanner", f"{case['via']}: model text {text[:80]!r} ({len(text)} chars): the sanitiser {'accepts' if ok else 'rejects'} the raw text "
                                           f"(plan {want_plan!r}) but the planner returns plan {got_plan!r}")]
    if not ok and isinstance(out, dict) and case["via"] != "run_policy" and "fallback" not in str(out.get("rationale", "")):
        return [("SanitiserGuardsPlanner", f"plan_with_llm: rejected model text {text[:60]!r} did not produce the documented fallback: {out!r}")]
    return []


def check(run) -> None:
    from ..util import pmap
    q = run.quick
    fcases = [{"m": m, "budget": b, "style": s, "workdir": run.workdir} for m in range(len(MODEL_OUTPUTS)) for b in BUDGETS for s in STYLES
              if not q or (m + b + len(s)) % 2 == 0]
    for c, fails in zip(fcases, pmap(filter_turn_case, fcases, chunk=4)):
        cc = {k: v for k, v in c.items() if k != "workdir"}
        run.traces += 1
        run.case(("filter_turn", json.dumps(cc, sort_keys=True)))
        if not fails:
            run.ok("UtteranceWithinTokens.filtered_turn")
        for clause, msg in fails:
            run.fail(clause, {"clause": clause, "family": "filter_turn"}, cc, msg, replay={"filter_turn": cc})
    pcases = [{"i": i, "via": via} for i in range(len(PLANNER_TEXTS)) for via in ("plan_with_llm", "run_policy")]
    for c, fails in zip(pcases, pmap(planner_guard_case, pcases, chunk=4)):
        run.traces += 1
        run.case(("planner_guard", json.dumps(c, sort_keys=True)))
        if not fails:
            run.ok("SanitiserGuardsPlanner.conforms")
        for clause, msg in fails:
            run.fail(clause, {"clause": clause, "family": "planner_guard"}, c, msg, replay={"planner_guard": c})
